#!/usr/bin/env python
"""addcorpus.py <PROPERTY-ID> <replay.json> [--src NAME]

Keeps a minimised failing input found against a seeded defect as a regression case: it is appended to
corpus/<id>.jsonl (cases there run first in every check, whatever the seed) - but only after the case has
been replayed on the unchanged /repo and found to hold there (a corpus case must never raise an alarm on
the tree as it is)."""
import argparse
import json
import os
import subprocess
import sys

HERE = os.path.dirname(os.path.abspath(__file__))
VERIF = os.path.dirname(HERE)


def key(c):
    c = {k: v for k, v in c.items() if k != "_src"}
    return json.dumps(c, sort_keys=True, separators=(",", ":"))


def main():
    ap = argparse.ArgumentParser()
    ap.add_argument("prop")
    ap.add_argument("replay")
    ap.add_argument("--src", default="")
    args = ap.parse_args()
    rep = json.load(open(args.replay))
    if rep.get("kind") != "failing-input":
        print("not a failing-input replay")
        return 1
    case = rep["case"]
    path = os.path.join(VERIF, "corpus", args.prop + ".jsonl")
    os.makedirs(os.path.dirname(path), exist_ok=True)
    have = set()
    if os.path.exists(path):
        have = {key(json.loads(l)) for l in open(path) if l.strip()}
    if key(case) in have:
        print("already in corpus")
        return 0
    tmp = os.path.join(VERIF, ".work", "corpus_candidate.json")
    json.dump({"case": case}, open(tmp, "w"))
    p = subprocess.run([sys.executable, os.path.join(HERE, "check.py"), args.prop, "--replay", tmp, "--repo", "/repo"],
                       cwd=VERIF, stdout=subprocess.PIPE, stderr=subprocess.STDOUT, text=True)
    if p.returncode != 0:
        print("candidate does not hold on the unchanged tree (exit %d): not added" % p.returncode)
        print(p.stdout[-600:])
        return 1
    if args.src:
        case = dict(case, _src=args.src)
    with open(path, "a") as f:
        f.write(json.dumps(case, sort_keys=True, separators=(",", ":")) + "\n")
    print("added to", path)
    return 0


if __name__ == "__main__":
    sys.exit(main())
