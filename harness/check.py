#!/usr/bin/env python
"""check.py <PROPERTY-ID> [--tier quick|thorough] [--replay FILE] [--repo DIR]

Decides one property on /repo's current working tree:
  1. regenerate the extracted constants (Generated.lean) from the source,
  2. lake build (models, specs, driver; then the property theorems),
  3. audit the property's theorems (no sorry / forbidden constructs, axioms subset of the allowed three),
  4. generate cases, run them on the real implementation and on the Lean driver (mirror + spec),
  5. compare: impl vs spec (the property on the implementation), impl vs mirror (correspondence),
  6. classify against known_findings.json, write evidence/<id>.json, print the verdict.
Exit 0: held on everything explored.  Exit 1: a VIOLATION line was printed.  Exit 2: tool failure.
"""
import argparse
import importlib
import json
import os
import random
import sys
import time

import core


def load_known():
    p = os.path.join(core.VERIF, "known_findings.json")
    if not os.path.exists(p):
        return []
    return json.load(open(p))["findings"]


def default_judge(case, impl, drv):
    """returns (prop_ok, corr_ok)"""
    return impl == drv["spec"], impl == drv["mirror"]


def shrink_candidates(case):
    """structurally smaller variants of a case (generic over the case families)"""
    import copy
    out = []

    def variant(**kw):
        c = copy.deepcopy(case)
        c.update(kw)
        out.append(c)

    for key in ("ops", "queries", "pairs", "ca"):
        v = case.get(key)
        if isinstance(v, list) and len(v) > 1:
            for i in range(len(v)):
                variant(**{key: v[:i] + v[i + 1:]})
            if key != "ops":
                for i in range(len(v)):
                    variant(**{key: [v[i]]})
    for key in ("filter_out", "stop", "options", "names", "attrs", "targets"):
        v = case.get(key)
        if key == "names" and any(isinstance(q, dict) and "expect" in q for q in case.get("queries", [])):
            continue        # an expected answer is only meaningful with the names it was spelled from
        if isinstance(v, list) and v:
            for i in range(len(v)):
                variant(**{key: v[:i] + v[i + 1:]})
    for key, simple in (("maxlevel", None), ("iterations", 1), ("partial", 0), ("custom", False), ("indent", None),
                        ("graph", None), ("gname", None), ("tofile", False), ("attriter", "none"), ("childiter", "list")):
        if key in case and case[key] != simple:
            variant(**{key: simple})
    t = case.get("tree")
    if isinstance(t, list) and len(t) == 2 and isinstance(t[1], list):
        refs = set()
        for k in ("start",):
            if isinstance(case.get(k), int):
                refs.add(case[k])

        def prune(node):
            # every way of deleting one leaf
            res = []
            for i, ch in enumerate(node[1]):
                if not ch[1] and ch[0] not in refs:
                    res.append([node[0], node[1][:i] + node[1][i + 1:]])
                for sub in prune(ch):
                    res.append([node[0], node[1][:i] + [sub] + node[1][i + 1:]])
            return res

        if isinstance(t[0], int):
            for nt in prune(t):
                labs = set()

                def collect(n):
                    labs.add(n[0])
                    for c in n[1]:
                        collect(c)
                collect(nt)
                c = copy.deepcopy(case)
                c["tree"] = nt
                for k in ("filter_out", "stop"):
                    if isinstance(c.get(k), list):
                        c[k] = [x for x in c[k] if x in labs]
                if isinstance(c.get("names"), list):
                    c["names"] = [e for e in c["names"] if e[0] in labs]
                if isinstance(c.get("pairs"), list):
                    c["pairs"] = [p for p in c["pairs"] if all(x in labs for x in p)] or c["pairs"][:0]
                    if not c["pairs"]:
                        continue
                if isinstance(c.get("queries"), list):
                    qs = [q for q in c["queries"] if not isinstance(q, dict) or q.get("start", next(iter(labs))) in labs]
                    if not qs:
                        continue
                    c["queries"] = qs
                out.append(c)
    return out


def shrink(rec, judge, classify, known, repo, budget_s=25.0):
    """greedy minimisation of a property-failing case: keep a smaller variant while it still fails the property
    (same assertion setting, not a known finding, and the runners do not choke on it)"""
    t_end = time.time() + budget_s
    best = rec
    rounds = 0
    while time.time() < t_end and rounds < 40:
        rounds += 1
        cands = shrink_candidates(best["case"])
        cands = [c for c in cands if len(case_key(c)) < len(case_key(best["case"]))]
        if not cands:
            break
        cands = cands[:200]
        try:
            drv = core.run_driver(cands, tolerate=True)
            impl = core.run_impl(cands, repo, assertions=best["assertions"])
        except Exception:
            break
        found = None
        for c, r, d in zip(cands, impl, drv):
            if "error" in d or (isinstance(r, dict) and (r.get("where") == "runner" or "worker_crash" in r)):
                continue
            try:
                p_ok, _c_ok = judge(c, r, d)
            except Exception:
                continue
            if p_ok:
                continue
            kid = classify(c, r, d)
            if kid is not None and any(k["id"] == kid and k["status"] == "known" for k in known):
                continue
            if found is None or len(case_key(c)) < len(case_key(found["case"])):
                found = {"case": c, "impl": r, "mirror": d["mirror"], "spec": d["spec"], "assertions": best["assertions"]}
        if found is None:
            break
        best = found
    return best, rounds


def case_key(case):
    return json.dumps(case, sort_keys=True, separators=(",", ":"))


def main():
    # the harness itself walks deeply nested case descriptions (trees of depth 260+) recursively: shrinking, copying,
    # JSON. The implementation under test runs in a separate worker process with the interpreter's default limit.
    sys.setrecursionlimit(20000)
    ap = argparse.ArgumentParser()
    ap.add_argument("prop")
    ap.add_argument("--tier", default=os.environ.get("VERIF_TIER", "quick"), choices=["quick", "thorough"])
    ap.add_argument("--replay")
    ap.add_argument("--repo", default="/repo")
    ap.add_argument("--no-build", action="store_true")
    args = ap.parse_args()
    seed = int(os.environ.get("VERIF_SEED", "0") or 0)
    t0 = time.time()
    core.ensure_dirs()
    if os.path.realpath(args.repo) != "/repo":
        # a scratch copy under test (self-validation with mutants): never touch the committed evidence
        core.EVID = os.path.join(core.WORK, "evidence_alt")
        os.makedirs(core.EVID, exist_ok=True)
    pid = args.prop
    mod = importlib.import_module("props." + pid)
    rng = random.Random("%s/%s/%d" % (pid, args.tier, seed))
    problems = []        # broken proof obligations / ties (names), not yet violations by themselves
    notes = []

    # 1. constants extracted from the source under test
    import extract
    try:
        changed, failures = extract.regenerate(args.repo)
        if changed:
            notes.append("Generated.lean rewritten from %s" % args.repo)
        for g, msg in sorted(extract.PROBED.items()):
            notes.append("extractor: group '%s' not found in the syntax tree (%s); values read back by running the code (probe.py)" % (g, msg))
        for g, msg in sorted(failures.items()):
            # a constant group the extractor no longer understands is a broken tie of the properties that read it
            if pid in extract.GROUPS[g][1]:
                problems.append("extractor: constant group '%s' not found in the source (%s); baseline values used" % (g, msg))
            else:
                notes.append("extractor: group '%s' not extracted (%s); not read by %s" % (g, msg, pid))
    except Exception as e:  # source unreadable: a broken tie
        problems.append("extractor: %s: %s" % (type(e).__name__, e))

    # 2. build
    if not args.no_build:
        ok, log = core.build(["driver"])
        if not ok:
            print(log[-3000:])
            print("INTERNAL: models/driver do not build", file=sys.stderr)
            return 2
        modules = getattr(mod, "MODULES", ["Anytree.Props.%s" % pid])
        ok, log = core.build(modules)
        if not ok:
            bad = [l for l in log.splitlines() if l.startswith("error")]
            problems.append("theorem file Anytree/Props/%s.lean no longer checks: %s" % (pid, "; ".join(bad[:5])))
            props_built = False
        else:
            props_built = True
    else:
        props_built = True

    # 3. audit
    thm_names = [n for n, _ in mod.THEOREMS]
    discharged = 0
    axioms_used = {}
    forbidden = core.grep_forbidden()
    if forbidden:
        problems.append("forbidden constructs in Lean sources: %s" % "; ".join(forbidden[:5]))
    if props_built and thm_names:
        res, alog = core.audit(pid, thm_names, getattr(mod, "MODULES", None))
        for n in thm_names:
            if n not in res:
                problems.append("theorem %s missing from audit output" % n)
            elif not set(res[n]) <= core.ALLOWED_AXIOMS:
                problems.append("theorem %s depends on axioms %s" % (n, res[n]))
            else:
                discharged += 1
                axioms_used[n] = res[n]
        if len(res) < len(thm_names):
            notes.append(alog[-1500:])
    if forbidden:
        discharged = 0
    # thorough tier: the independent re-checker replays the compiled modules of this property
    if args.tier == "thorough" and props_built and thm_names:
        mods = core.import_closure(getattr(mod, "MODULES", ["Anytree.Props.%s" % pid]))
        with core.BuildLock():      # no rebuild (for another --repo) may swap the object files under the checker
            rc, out = core.sh(["lake", "env", "leanchecker"] + mods, cwd=core.LEAN, timeout=3000)
        if rc != 0:
            problems.append("leanchecker rejects the compiled modules: %s" % out[-500:])
        else:
            notes.append("leanchecker replayed %d modules (import closure of the property's theorem files): ok" % len(mods))

    # 4. cases
    known = [k for k in load_known() if k["property"] == pid]
    if args.replay:
        rep = json.load(open(args.replay))
        cases = rep["cases"] if "cases" in rep else [rep["case"]]
    else:
        cases = []
        for k in known:                       # replay inputs of listed findings run first
            cases.extend(k.get("cases", []))
        corpus = os.path.join(core.VERIF, "corpus", pid + ".jsonl")
        if os.path.exists(corpus):
            cases.extend(json.loads(l) for l in open(corpus) if l.strip())
        cases.extend(mod.generate(args.tier, rng))
        # the package source differs from the baseline the model was last validated against (harness/srcbase.py): not a
        # verdict, but a reason to look harder - the random part of the generation is repeated under further seeds
        import srcbase
        try:
            changed_src = srcbase.changed_files(args.repo)
        except Exception as e:  # noqa: BLE001
            changed_src = ["<baseline unreadable: %s>" % e]
        if changed_src:
            seen = {case_key(c) for c in cases}
            n0 = len(cases)
            for extra in range(1, (3 if args.tier == "quick" else 2)):
                rng_x = random.Random("%s/%s/%d/escalate%d" % (pid, args.tier, seed, extra))
                for c in mod.generate(args.tier, rng_x):
                    k = case_key(c)
                    if k not in seen:
                        seen.add(k)
                        cases.append(c)
            notes.append("source differs from the validated baseline in %s: search widened from %d to %d cases"
                         % (", ".join(changed_src[:6]), n0, len(cases)))
    if hasattr(mod, "run"):
        # properties with their own pipeline (relational ties etc.)
        return mod.run(args, seed, t0, cases, known, problems, notes, discharged, axioms_used)

    if hasattr(mod, "KNOWN_IDS"):
        mod.KNOWN_IDS.clear()
        mod.KNOWN_IDS.update(k["id"] for k in known if k["status"] == "known")
    both = getattr(mod, "ASSERTION_SETTINGS", (False,))
    judge = getattr(mod, "judge", default_judge)
    classify = getattr(mod, "known_class", lambda case, impl, d: None)
    prop_fail, corr_fail, known_hit, model_gap = [], [], {}, []
    ms_ok = getattr(mod, "mirror_spec_ok", lambda c, d: d["mirror"] == d["spec"])
    dist_fn = getattr(mod, "distribution", core.generic_distribution)
    dist = {}
    samples = []
    n_prop_fail = n_corr_fail = 0
    KEEP = 400                       # failing records kept in memory (all are counted)
    CHUNK = 15000                    # results are judged chunk by chunk and dropped: memory stays flat
    sample_step = max(1, len(cases) // 5)
    for lo in range(0, len(cases), CHUNK):
        chunk = cases[lo:lo + CHUNK]
        drv = None
        first_impl = None
        for a in both:
            if len(both) > 1 or a:
                cases_a = [dict(c, asrt=bool(a)) if "asrt" in c else c for c in chunk]
            else:
                cases_a = chunk
            drv_a = core.run_driver(cases_a)
            impl_res = core.run_impl(cases_a, args.repo, assertions=a)
            if drv is None:
                drv, first_impl = drv_a, impl_res
            for c, r, d in zip(cases_a, impl_res, drv_a):
                p_ok, c_ok = judge(c, r, d)
                if p_ok and c_ok:
                    continue
                kid = classify(c, r, d)
                if kid is not None and any(k["id"] == kid and k["status"] == "known" for k in known):
                    known_hit.setdefault(kid, []).append(c)
                    continue
                rec = {"case": c, "impl": r, "mirror": d["mirror"], "spec": d["spec"], "assertions": a}
                if not p_ok:
                    n_prop_fail += 1
                    if len(prop_fail) < KEEP or len(case_key(c)) < 400:
                        prop_fail.append(rec)
                else:
                    n_corr_fail += 1
                    if len(corr_fail) < KEEP:
                        corr_fail.append(rec)
        # sanity: mirror and spec must agree outside the known classes (it is proved); a difference that
        # the implementation does not share is a harness bug
        for c, d in zip(chunk, drv):
            if not ms_ok(c, d):
                kid = classify(c, d["mirror"], d)
                if kid is None and len(model_gap) < KEEP:
                    model_gap.append({"case": c, "mirror": d["mirror"], "spec": d["spec"]})
        for i in range(lo, lo + len(chunk)):
            if i % sample_step == 0 and len(samples) < 6:
                samples.append({"case": cases[i], "impl": first_impl[i - lo], "mirror": drv[i - lo]["mirror"],
                                "spec": drv[i - lo]["spec"]})
        if dist_fn is not None:
            dist = core.merge_counts(dist, dist_fn(chunk, first_impl))
        del drv, first_impl

    for kid, cs in getattr(mod, "KNOWN_HITS", {}).items():
        known_hit.setdefault(kid, []).extend(cs)

    # 5. verdict
    violations = 0
    replay_path = None
    if prop_fail:
        def _not_run(r):
            i = r["impl"]
            return isinstance(i, dict) and str(i.get("where", "")).startswith("not run")
        prop_fail.sort(key=lambda r: (_not_run(r), len(case_key(r["case"]))))
        best = prop_fail[0]
        original_len = len(case_key(best["case"]))
        if not args.replay:
            best, rounds = shrink(best, judge, classify, known, args.repo, 0.0 if os.environ.get("VERIF_NOSHRINK") else 25.0)
            notes.append("replay minimised in %d rounds: %d -> %d characters" % (rounds, original_len, len(case_key(best["case"]))))
        replay_path = os.path.join("replays", "%s-violation.json" % pid)
        core.write_json(os.path.join(core.VERIF, replay_path), {
            "property": pid, "kind": "failing-input", "what": "implementation result differs from what the "
            "specification demands on this input", "case": best["case"], "impl": best["impl"],
            "spec": best["spec"], "mirror": best["mirror"], "assertions": best["assertions"],
            "failing_cases_total": n_prop_fail, "broken_obligations": problems,
            "replay_cmd": "%s harness/check.py %s --replay %s" % (core.PY, pid, replay_path)})
        print("VIOLATION property=%s replay=%s" % (pid, replay_path))
        violations = n_prop_fail
    elif corr_fail or problems or (model_gap and not args.replay):
        replay_path = os.path.join("replays", "%s-broken-tie.json" % pid)
        first = corr_fail[0] if corr_fail else None
        core.write_json(os.path.join(core.VERIF, replay_path), {
            "property": pid, "kind": "no-failing-input-found",
            "broken_obligations": problems,
            "broken_correspondence": None if first is None else {
                "family": first["case"]["fam"], "first_differing_case": first["case"], "impl": first["impl"],
                "mirror": first["mirror"], "differing_cases_total": n_corr_fail},
            "mirror_vs_spec_gap": model_gap[:3],
            "searched": "%d cases on implementation, mirror and spec; none violates the property" % len(cases)})
        print("VIOLATION property=%s replay=%s no-failing-input-found" % (pid, replay_path))
        violations = 1
    for kid, cs in sorted(known_hit.items()):
        k = [k for k in known if k["id"] == kid][0]
        print("KNOWN-FINDING: property=%s %s: %s (%d cases)" % (pid, kid, k["what"], len(cs)))

    # 6. evidence
    nontriv = set()
    nt = getattr(mod, "nontrivial", lambda c: True)
    for c in cases:
        if nt(c):
            nontriv.add(case_key(c))
    ev = {
        "property_id": pid, "tier": args.tier, "seed": seed, "level": "proof",
        "coverage": {
            "obligations": len(thm_names), "discharged": discharged,
            "checker_cmd": "cd lean && lake build Anytree.Props.%s && lake env lean ../.work/Audit%s.lean" % (pid, pid),
            "trusted_base": core.TRUSTED_BASE,
            "theorems": [{"name": n, "kind": k, "axioms": axioms_used.get(n)} for n, k in mod.THEOREMS],
            "not_covered": getattr(mod, "NOT_COVERED", []),
            "evaluations": len(cases) * len(both),
            "distinct_nontrivial": len(nontriv),
            "traces_validated_against_impl": len(cases) * len(both) - n_corr_fail - n_prop_fail,
            "rule": mod.RULE,
            "samples": samples,
            "distribution": dist,
            "known_findings_reproduced": {k: len(v) for k, v in known_hit.items()},
            "assertion_settings": [bool(a) for a in both],
            "broken_obligations": problems,
            "notes": notes,
            "repo": args.repo,
        },
        "assumptions": core.TRUSTED_BASE[2:],
        "wall_s": round(time.time() - t0, 2),
        "violations": violations,
    }
    if not args.replay:
        core.write_json(os.path.join(core.EVID, pid + ".json"), ev)
    else:
        for s in samples:
            print(json.dumps(s))
    print("%s %s: %d cases, %d theorems (%d discharged), %d prop-fail, %d corr-fail, %.1fs" % (
        pid, args.tier, len(cases), len(thm_names), discharged, n_prop_fail, n_corr_fail, time.time() - t0))
    return 1 if violations else 0


if __name__ == "__main__":
    try:
        sys.exit(main())
    except core.InternalError as e:
        print("INTERNAL: %s" % e, file=sys.stderr)
        sys.exit(2)
