"""Shared machinery of the checks: build, audit, driver, implementation workers, verdict, evidence."""
import fcntl
import hashlib
import json
import os
import re
import subprocess
import sys
import time

HERE = os.path.dirname(os.path.abspath(__file__))
VERIF = os.path.dirname(HERE)
LEAN = os.path.join(VERIF, "lean")
WORK = os.path.join(VERIF, ".work")
EVID = os.path.join(VERIF, "evidence")
REPLAYS = os.path.join(VERIF, "replays")
PY = sys.executable
ALLOWED_AXIOMS = {"propext", "Classical.choice", "Quot.sound"}
FORBIDDEN = re.compile(r"\b(sorry|admit|native_decide|bv_decide|implemented_by|maxHeartbeats 0)\b|^\s*axiom\s|\bunsafe\s", re.M)

TRUSTED_BASE = [
    "Lean 4.33 kernel (leanchecker re-checks the .olean files in the thorough tier)",
    "axioms: subset of {propext, Classical.choice, Quot.sound}, audited per theorem on every run; no sorry/admit/native_decide/bv_decide/user axioms",
    "hand-written Lean mirror of the Python code, tied to /repo only by this correspondence run (generators, canonicalisation and harness trusted) and by the constant extractor (harness/extract.py)",
    "CPython semantics of the operations the mirror abstracts (attribute lookup, tuple/list, str, re for the three-token fragment, json, pickle/copy); user callbacks pure and total; hooks do not mutate the tree",
]


class InternalError(Exception):
    """Harness/tool failure: exit 2, never a verdict."""


def ensure_dirs():
    for d in (WORK, EVID, REPLAYS):
        os.makedirs(d, exist_ok=True)


class BuildLock:
    def __enter__(self):
        ensure_dirs()
        self.f = open(os.path.join(WORK, "build.lock"), "w")
        fcntl.flock(self.f, fcntl.LOCK_EX)
        return self

    def __exit__(self, *a):
        fcntl.flock(self.f, fcntl.LOCK_UN)
        self.f.close()


def sh(cmd, cwd=None, timeout=3600, env=None, input=None):
    p = subprocess.run(cmd, cwd=cwd, timeout=timeout, env=env, input=input,
                       stdout=subprocess.PIPE, stderr=subprocess.STDOUT, text=True)
    return p.returncode, p.stdout


def lean_sources():
    out = []
    for root, _dirs, files in os.walk(LEAN):
        if ".lake" in root:
            continue
        for f in files:
            if f.endswith(".lean"):
                out.append(os.path.join(root, f))
    return sorted(out)


def sources_hash():
    h = hashlib.sha256()
    for p in lean_sources():
        h.update(p.encode())
        h.update(open(p, "rb").read())
    return h.hexdigest()


def strip_comments(src):
    # remove /- ... -/ (nested, roughly) and -- line comments; string literals are not special-cased
    out = []
    depth = 0
    i = 0
    while i < len(src):
        if src.startswith("/-", i):
            depth += 1
            i += 2
        elif depth and src.startswith("-/", i):
            depth -= 1
            i += 2
        elif depth:
            i += 1
        elif src.startswith("--", i):
            j = src.find("\n", i)
            i = len(src) if j < 0 else j
        else:
            out.append(src[i])
            i += 1
    return "".join(out)


def grep_forbidden():
    hits = []
    for p in lean_sources():
        body = strip_comments(open(p).read())
        for m in FORBIDDEN.finditer(body):
            hits.append("%s: %s" % (os.path.relpath(p, LEAN), m.group(0).strip()))
    return hits


def build(targets):
    """lake build of the given targets; returns (ok, log)."""
    with BuildLock():
        rc, out = sh(["lake", "build"] + list(targets), cwd=LEAN, timeout=3000)
    return rc == 0, out


def _tree_size(t):
    try:
        if isinstance(t, list) and len(t) == 2 and isinstance(t[1], list):
            return 1 + sum(_tree_size(c) for c in t[1])
    except Exception:  # noqa: BLE001
        pass
    return None


_ERRNAME = re.compile(r"^[A-Z][A-Za-z]*(Error|Abort[:\w]*|Exception)$")


def generic_distribution(cases, results):
    """input distribution of a chunk for properties without a bespoke one: family, node classes, tree sizes, scalar
    options of the case and of its queries, and the outcome kinds seen in the implementation's results"""
    d = {"family": {}, "tree_size": {}, "options": {}, "outcomes": {}}

    def bump(table, key):
        table[key] = table.get(key, 0) + 1

    def outcomes(x, depth=0):
        if depth > 4:
            return
        if isinstance(x, str):
            if _ERRNAME.match(x):
                bump(d["outcomes"], x.split(":")[0])
        elif isinstance(x, dict):
            for k, v in x.items():
                if k in ("exc", "res", "error") and isinstance(v, str):
                    bump(d["outcomes"], v.split(":")[0])
                elif k == "CountError":
                    bump(d["outcomes"], "CountError")
                else:
                    outcomes(v, depth + 1)
        elif isinstance(x, list):
            for v in x[:50]:
                outcomes(v, depth + 1)

    for c, r in zip(cases, results):
        bump(d["family"], c.get("fam", "?"))
        for key in ("tree",):
            sz = _tree_size(c.get(key))
            if sz is not None:
                bump(d["tree_size"], str(sz) if sz < 10 else ("10-19" if sz < 20 else "20+"))
        for t in c.get("trees", []) if isinstance(c.get("trees"), list) else []:
            sz = _tree_size(t)
            if sz is not None:
                bump(d["tree_size"], str(sz) if sz < 10 else ("10-19" if sz < 20 else "20+"))
        for k, v in c.items():
            if k.startswith("_") or k in ("fam", "tree", "trees", "names", "queries", "ops", "attrs", "values", "lines", "pairs", "ca", "data", "params"):
                continue
            if isinstance(v, (str, bool, int)) or v is None:
                if isinstance(v, int) and not isinstance(v, bool) and k not in ("maxlevel", "indent", "n0", "k"):
                    continue
                bump(d["options"], "%s=%s" % (k, v))
        for q in c.get("queries", []) if isinstance(c.get("queries"), list) else []:
            if isinstance(q, dict):
                for k in ("fn", "relax", "ignorecase"):
                    if k in q:
                        bump(d["options"], "query.%s=%s" % (k, q[k]))
        if isinstance(c.get("ops"), list):
            for o in c["ops"]:
                if isinstance(o, dict) and "op" in o:
                    bump(d["options"], "op=%s" % o["op"])
        outcomes(r)
    return d


def merge_counts(a, b):
    """sum two nested dictionaries of counts (input distributions computed chunk by chunk)"""
    if isinstance(a, dict) and isinstance(b, dict):
        out = dict(a)
        for k, v in b.items():
            out[k] = merge_counts(out[k], v) if k in out else v
        return out
    if isinstance(a, (int, float)) and isinstance(b, (int, float)) and not isinstance(a, bool):
        return a + b
    return b if a is None else a


def import_closure(modules):
    """the project modules (Anytree.*) a list of modules imports, transitively, themselves included"""
    seen, todo = [], list(modules)
    while todo:
        m = todo.pop()
        if m in seen or not m.startswith("Anytree"):
            continue
        path = os.path.join(LEAN, *m.split(".")) + ".lean"
        if not os.path.exists(path):
            continue
        seen.append(m)
        for line in open(path, encoding="utf-8"):
            mm = re.match(r"\s*import\s+(Anytree[\w.]*)", line)
            if mm:
                todo.append(mm.group(1))
    return sorted(seen)


def driver_path():
    return os.path.join(LEAN, ".lake", "build", "bin", "driver")


def run_driver(cases, tolerate=False):
    """cases: list of dicts -> list of dicts ({'mirror','spec'} or {'error'})."""
    if not cases:
        return []
    data = "\n".join(json.dumps(c, separators=(",", ":")) for c in cases) + "\n"
    p = subprocess.run([driver_path()], input=data, stdout=subprocess.PIPE, stderr=subprocess.PIPE,
                       text=True, timeout=3000)
    if p.returncode != 0:
        raise InternalError("driver exit %s: %s" % (p.returncode, p.stderr[-2000:]))
    lines = p.stdout.splitlines()
    if len(lines) != len(cases):
        raise InternalError("driver returned %d lines for %d cases" % (len(lines), len(cases)))
    res = [json.loads(l) for l in lines]
    for c, r in zip(cases, res):
        if "error" in r and not tolerate:
            raise InternalError("driver could not decode case %s: %s" % (json.dumps(c)[:300], r["error"]))
    return res


def run_impl(cases, repo, assertions=False, timeout=3000):
    """Run cases on the real implementation in a worker process; returns list of results."""
    if not cases:
        return []
    ensure_dirs()
    tag = "%d_%d" % (os.getpid(), int(assertions))
    fin = os.path.join(WORK, "impl_in_%s.jsonl" % tag)
    fout = os.path.join(WORK, "impl_out_%s.jsonl" % tag)
    with open(fin, "w") as f:
        for c in cases:
            f.write(json.dumps(c, separators=(",", ":")) + "\n")
    env = dict(os.environ)
    env["PYTHONPATH"] = repo + os.pathsep + HERE
    env["PYTHONDONTWRITEBYTECODE"] = "1"
    env["PYTHONHASHSEED"] = "0"
    env["ANYTREE_ASSERTIONS"] = "1" if assertions else "0"
    try:
        p = subprocess.run([PY, os.path.join(HERE, "implrun.py"), fin, fout], env=env, cwd=WORK,
                           stdout=subprocess.PIPE, stderr=subprocess.PIPE, text=True, timeout=timeout)
        if p.returncode != 0:
            # the implementation could not even be imported / the worker crashed: report as a
            # result for every case so that the verdict logic sees a behavioural difference
            msg = (p.stderr or p.stdout)[-1500:]
            return [{"worker_crash": msg} for _ in cases]
        with open(fout) as f:
            res = [json.loads(l) for l in f]
        if len(res) != len(cases):
            raise InternalError("impl worker returned %d lines for %d cases" % (len(res), len(cases)))
        return res
    finally:
        for x in (fin, fout):
            try:
                os.remove(x)
            except OSError:
                pass


def audit(prop_id, theorems, modules=None):
    """`theorems`: list of fully qualified names. Returns dict name -> list of axioms, or raises.
    Cached on the hash of all Lean sources."""
    ensure_dirs()
    key = sources_hash()
    cache = os.path.join(WORK, "audit_%s.json" % prop_id)
    if os.path.exists(cache):
        try:
            c = json.load(open(cache))
            if c.get("key") == key and c.get("names") == theorems:
                return c["result"], c["log"]
        except Exception:
            pass
    modules = modules or ["Anytree.Props.%s" % prop_id]
    src = ["import Lean"] + ["import %s" % m for m in modules] + ["open Lean Elab Command", ""]
    items = ", ".join("``%s" % n for n in theorems)
    src.append("#eval show CommandElabM Unit from do")
    src.append("  for n in [%s] do" % items)
    src.append("    let axs ← Lean.collectAxioms n")
    src.append("    IO.println s!\"AUDIT {n} {axs.toList}\"")
    path = os.path.join(WORK, "Audit%s.lean" % prop_id)
    with open(path, "w") as f:
        f.write("\n".join(src) + "\n")
    rc, out = sh(["lake", "env", "lean", path], cwd=LEAN, timeout=1200)
    result = {}
    for line in out.splitlines():
        m = re.match(r"AUDIT (\S+) \[(.*)\]", line)
        if m:
            axs = [a.strip() for a in m.group(2).split(",") if a.strip()]
            result[m.group(1)] = axs
    if rc == 0:
        json.dump({"key": key, "names": theorems, "result": result, "log": out}, open(cache, "w"))
    return result, out


def write_json(path, obj):
    tmp = path + ".tmp%d" % os.getpid()
    with open(tmp, "w") as f:
        json.dump(obj, f, indent=1, sort_keys=False)
        f.write("\n")
    os.replace(tmp, path)
