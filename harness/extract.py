"""Python-AST -> lean/Anytree/Model/Generated.lean

Regenerates, from the source tree under test, the constant tables the Lean model depends on, so
that the theorems about them are re-checked against what the code says *now*.  A failure to find
a constant (source restructured) raises and is treated by check.py as a broken tie.
"""
import ast
import json
import os

import core

OUT = os.path.join(core.LEAN, "Anytree", "Model", "Generated.lean")


def _parse(repo, rel):
    with open(os.path.join(repo, rel), encoding="utf-8") as f:
        return ast.parse(f.read())


def _cls(tree, name):
    for n in ast.walk(tree):
        if isinstance(n, ast.ClassDef) and n.name == name:
            return n
    raise LookupError("class %s not found" % name)


def _func(node, name):
    for n in ast.walk(node):
        if isinstance(n, ast.FunctionDef) and n.name == name:
            return n
    raise LookupError("function %s not found" % name)


def _assign_const(tree, name):
    for n in tree.body:
        if isinstance(n, ast.Assign) and any(isinstance(t, ast.Name) and t.id == name for t in n.targets):
            return n.value
    raise LookupError("assignment %s not found" % name)


def _defaults(fn):
    """keyword -> constant default of a FunctionDef"""
    args = fn.args.args
    defs = fn.args.defaults
    out = {}
    for a, d in zip(args[len(args) - len(defs):], defs):
        if isinstance(d, ast.Constant):
            out[a.arg] = d.value
    return out


def _style_args(tree, name):
    init = _func(_cls(tree, name), "__init__")
    for n in ast.walk(init):
        if isinstance(n, ast.Call) and len(n.args) == 3 and all(isinstance(a, ast.Constant) for a in n.args):
            return tuple(a.value for a in n.args)
    raise LookupError("style %s: no 3-constant super().__init__ call" % name)


def _str_tuples_in(fn):
    """all tuples/lists of string constants appearing in `x in (...)` tests of a function"""
    out = []
    for n in ast.walk(fn):
        if isinstance(n, ast.Compare) and any(isinstance(o, ast.In) for o in n.ops):
            for c in n.comparators:
                if isinstance(c, (ast.Tuple, ast.List)) and all(
                        isinstance(e, ast.Constant) and isinstance(e.value, str) for e in c.elts):
                    out.append([e.value for e in c.elts])
    return out


def _re_compile_pattern(tree, name):
    v = _assign_const(tree, name)
    if isinstance(v, ast.Call) and v.args and isinstance(v.args[0], ast.Constant):
        return v.args[0].value
    raise LookupError("%s is not re.compile(<const>)" % name)


def lean_str(s):
    out = ['"']
    for ch in s:
        if ch == '"':
            out.append('\\"')
        elif ch == "\\":
            out.append("\\\\")
        elif ch == "\n":
            out.append("\\n")
        elif ch == "\t":
            out.append("\\t")
        elif ord(ch) < 32:
            out.append("\\x%02x" % ord(ch))
        else:
            out.append(ch)
    out.append('"')
    return "".join(out)


def lean_strs(xs):
    return "[" + ", ".join(lean_str(x) for x in xs) + "]"


def _eval_str(node, table):
    """value of a constant expression denoting ONE string: a literal, a name bound to one, a concatenation, an f-string
    or %-format of such; None otherwise"""
    if isinstance(node, ast.Constant) and isinstance(node.value, str):
        return node.value
    if isinstance(node, (ast.Name, ast.Attribute)):
        v = table.get(node.id if isinstance(node, ast.Name) else node.attr)
        return v if isinstance(v, str) else None
    if isinstance(node, ast.BinOp) and isinstance(node.op, ast.Add):
        l, r = _eval_str(node.left, table), _eval_str(node.right, table)
        return None if l is None or r is None else l + r
    if isinstance(node, ast.BinOp) and isinstance(node.op, ast.Mod):
        l = _eval_str(node.left, table)
        args = node.right.elts if isinstance(node.right, ast.Tuple) else [node.right]
        vals = [_eval_str(a, table) for a in args]
        if l is None or any(v is None for v in vals) or l.count("%s") != len(vals) or l.count("%") != len(vals):
            return None
        return l % tuple(vals)
    if isinstance(node, ast.JoinedStr):
        parts = []
        for v in node.values:
            if isinstance(v, ast.Constant) and isinstance(v.value, str):
                parts.append(v.value)
            elif isinstance(v, ast.FormattedValue) and v.format_spec is None and v.conversion in (-1, 115):
                x = _eval_str(v.value, table)
                if x is None:
                    return None
                parts.append(x)
            else:
                return None
        return "".join(parts)
    return None


def _eval_names(node, table):
    """value of a constant expression denoting a sequence of strings: a tuple/list/set literal of constant strings
    (each element itself a constant string expression), a name (or attribute) bound to one, `tuple(...)`/`frozenset(...)`
    of one, or a concatenation of such; None otherwise"""
    if isinstance(node, (ast.Tuple, ast.List, ast.Set)):
        parts = []
        for e in node.elts:
            if isinstance(e, ast.Starred):
                v = _eval_names(e.value, table)
                if v is None:
                    return None
                parts.extend(v)
            else:
                x = _eval_str(e, table)
                if x is None:
                    return None
                parts.append(x)
        return parts or None
    if isinstance(node, ast.Name):
        v = table.get(node.id)
        return v if isinstance(v, list) else None
    if isinstance(node, ast.Attribute):
        v = table.get(node.attr)
        return v if isinstance(v, list) else None
    if isinstance(node, ast.BinOp) and isinstance(node.op, (ast.Add, ast.BitOr)):
        l, r = _eval_names(node.left, table), _eval_names(node.right, table)
        return None if l is None or r is None else l + r
    if isinstance(node, ast.Call) and isinstance(node.func, ast.Name) and node.func.id in ("tuple", "list", "frozenset", "set") \
            and len(node.args) == 1:
        return _eval_names(node.args[0], table)
    return None


def _imported_consts(tree, repo, rel, depth):
    """constants a module imports from other modules of the package (`from .nodemixin import _LINK_ATTRS`,
    `from ..node.nodemixin import _PARENT_ATTR as P`): name -> value, resolved in the defining module"""
    out = {}
    if repo is None or rel is None or depth <= 0:
        return out
    pkgdir = os.path.dirname(rel)
    for n in ast.walk(tree):
        if isinstance(n, ast.ImportFrom) and (n.level or 0) > 0:
            base = pkgdir
            for _ in range(n.level - 1):
                base = os.path.dirname(base)
            mod = (n.module or "").replace(".", "/")
            for cand in (os.path.join(base, mod + ".py"), os.path.join(base, mod, "__init__.py")):
                if mod and os.path.exists(os.path.join(repo, cand)):
                    try:
                        table = _const_table(_parse(repo, cand), repo, cand, depth - 1)
                    except Exception:  # noqa: BLE001
                        table = {}
                    for a in n.names:
                        if a.name in table:
                            out[a.asname or a.name] = table[a.name]
                    break
    return out


def _const_table(tree, repo=None, rel=None, depth=2):
    """module-level and class-level `NAME = <constant string>` / `NAME = <constant sequence of strings>` assignments:
    name -> str or list of strings (iterated to a fixed point so that constants may be built from earlier ones); constants
    imported from other modules of the package are followed (two levels)"""
    out = dict(_imported_consts(tree, repo, rel, depth))
    for _ in range(5):
        grew = False
        for n in ast.walk(tree):
            if isinstance(n, ast.Assign):
                v = _eval_str(n.value, out)
                if v is None:
                    v = _eval_names(n.value, out)
                if v is None:
                    continue
                for t in n.targets:
                    if isinstance(t, ast.Name) and out.get(t.id) != v:
                        out[t.id] = v
                        grew = True
        if not grew:
            break
    return out


def _membership_lists(tree, fn, repo=None, rel=None):
    """string sequences a function tests membership in: inline `x in ("a", "b")` / `x not in (...)`, or through
    module-/class-level constants (`x in _NAMES`, `x in cls._NAMES`, `x in _A + _B`), also imported ones"""
    table = _const_table(tree, repo, rel)
    out = []
    for n in ast.walk(fn):
        if isinstance(n, ast.Compare) and any(isinstance(o, (ast.In, ast.NotIn)) for o in n.ops):
            for c in n.comparators:
                v = _eval_names(c, table)
                if v:
                    out.append(v)
    return out


def _g_render(repo, c):
    render = _parse(repo, "anytree/render.py")
    c["styles"] = [(n,) + _style_args(render, n) for n in ("AsciiStyle", "ContStyle", "ContRoundStyle", "DoubleStyle")]
    rt_init = _func(_cls(render, "RenderTree"), "__init__")
    dstyle = None
    for a, d in zip(rt_init.args.args[len(rt_init.args.args) - len(rt_init.args.defaults):], rt_init.args.defaults):
        if a.arg == "style" and isinstance(d, ast.Call) and isinstance(d.func, ast.Name):
            dstyle = d.func.id
    if dstyle is None:
        raise LookupError("RenderTree default style")
    c["default_style"] = dstyle


def _g_resolver(repo, c):
    resolver = _parse(repo, "anytree/resolver.py")
    mc = _assign_const(resolver, "_MAXCACHE")
    if not (isinstance(mc, ast.Constant) and isinstance(mc.value, int)):
        raise LookupError("_MAXCACHE is not an int constant")
    c["maxcache"] = mc.value


def _returned_const(fn):
    vals = [n.value.value for n in ast.walk(fn) if isinstance(n, ast.Return) and isinstance(n.value, ast.Constant)]
    if len(vals) != 1:
        raise LookupError("%s: expected one constant return" % fn.name)
    return vals[0]


def _g_dot(repo, c):
    dot = _parse(repo, "anytree/exporter/dotexporter.py")
    c["dot_esc"] = _re_compile_pattern(dot, "_RE_ESC")
    dd = _defaults(_func(_cls(dot, "DotExporter"), "__init__"))
    c["dot_graph"], c["dot_name"], c["dot_indent"] = dd["graph"], dd["name"], dd["indent"]
    c["dot_edgetype"] = _returned_const(_func(_cls(dot, "DotExporter"), "_default_edgetypefunc"))


def _g_mermaid(repo, c):
    mer = _parse(repo, "anytree/exporter/mermaidexporter.py")
    c["mermaid_esc"] = _re_compile_pattern(mer, "_RE_ESC")
    md = _defaults(_func(_cls(mer, "MermaidExporter"), "__init__"))
    c["mermaid_graph"], c["mermaid_name"], c["mermaid_indent"] = md["graph"], md["name"], md["indent"]
    c["mermaid_edge"] = _returned_const(_func(_cls(mer, "MermaidExporter"), "_default_edgefunc"))


def _g_separator(repo, c):
    nm = _parse(repo, "anytree/node/nodemixin.py")
    sep = None
    for n in _cls(nm, "NodeMixin").body:
        if isinstance(n, ast.Assign) and any(isinstance(t, ast.Name) and t.id == "separator" for t in n.targets):
            sep = n.value.value
    if sep is None:
        raise LookupError("NodeMixin.separator")
    c["separator"] = sep


def _g_dict(repo, c):
    de = _parse(repo, "anytree/exporter/dictexporter.py")
    tl = _membership_lists(de, _func(_cls(de, "DictExporter"), "_iter_attr_values"), repo, "anytree/exporter/dictexporter.py")
    if not tl:
        raise LookupError("DictExporter._iter_attr_values: skipped names")
    c["dict_skipped"] = tl[0]


def _g_symlink(repo, c):
    sl = _parse(repo, "anytree/node/symlinknodemixin.py")
    gfn = _func(_cls(sl, "SymlinkNodeMixin"), "__getattr__")
    g = _membership_lists(sl, gfn, repo, "anytree/node/symlinknodemixin.py")
    s = _membership_lists(sl, _func(_cls(sl, "SymlinkNodeMixin"), "__setattr__"), repo, "anytree/node/symlinknodemixin.py")
    if not g or not s:
        raise LookupError("SymlinkNodeMixin local names")
    def union(lists):
        # `name in A or name in B` is the same test as `name in A + B`
        out = []
        for l in lists:
            for x in l:
                if x not in out:
                    out.append(x)
        return out
    c["symlink_getattr_local"] = union(g)
    c["symlink_setattr_local"] = union(s)
    guarded = []
    for n in ast.walk(gfn):
        if isinstance(n, ast.Compare) and isinstance(n.ops[0], ast.Eq) and isinstance(n.comparators[0], ast.Constant):
            guarded.append(n.comparators[0].value)
    c["symlink_getattr_guarded"] = guarded


def _g_search(repo, c):
    se = _parse(repo, "anytree/search.py")
    msgs = []
    for n in ast.walk(se):
        if isinstance(n, ast.Constant) and isinstance(n.value, str) and n.value.startswith("Expecting") and "%d" in n.value:
            if n.value not in msgs:
                msgs.append(n.value)
    if len(msgs) != 2:
        raise LookupError("CountError templates")
    c["count_msgs"] = msgs


# constant group -> (extractor, properties whose model or theorems read the group)
GROUPS = {
    "render": (_g_render, ["C09"]),
    "resolver": (_g_resolver, ["C08"]),
    "dot": (_g_dot, ["C12"]),
    "mermaid": (_g_mermaid, ["C13"]),
    "separator": (_g_separator, ["C07", "C08", "C09"]),
    "dict": (_g_dict, ["C10", "C11"]),
    "symlink": (_g_symlink, ["C19", "C20"]),
    "search": (_g_search, ["C14"]),
}
BASELINE = os.path.join(os.path.dirname(os.path.abspath(__file__)), "extract_baseline.json")


PROBED = {}          # group -> True for groups whose values were read back by running the code (last collect())


def _probe(repo):
    """the constant groups as observed by running the package under test through its public API (harness/probe.py)"""
    import subprocess
    import sys
    env = dict(os.environ, PYTHONPATH=repo)
    try:
        p = subprocess.run([sys.executable, os.path.join(os.path.dirname(os.path.abspath(__file__)), "probe.py")],
                           env=env, stdout=subprocess.PIPE, stderr=subprocess.DEVNULL, timeout=120, cwd=repo)
        return json.loads(p.stdout.decode("utf-8"))
    except Exception:  # noqa: BLE001
        return {}


def collect(repo):
    """returns (constants, failures): every group is extracted on its own, first from the syntax tree; a group whose
    source was restructured beyond what the static extractor understands is read back by RUNNING the code under test
    (probe.py: the values the code uses, observed through the public API); only when that is impossible too does the
    group fall back to the recorded baseline values (so that the rest still builds) and is reported as a broken tie -
    to the properties that read it only"""
    c, failures = {}, {}
    base = None
    probed = None
    PROBED.clear()
    for g, (fn, _props) in GROUPS.items():
        part = {}
        try:
            fn(repo, part)
        except Exception as e:      # noqa: BLE001 - any surprise in the source
            msg = "%s: %s" % (type(e).__name__, e)
            if probed is None:
                probed = _probe(repo)
            pv = probed.get(g)
            if isinstance(pv, dict) and "error" not in pv:
                part = pv
                PROBED[g] = msg
            else:
                failures[g] = msg + ("; probe: %s" % pv["error"] if isinstance(pv, dict) and "error" in pv else "")
                if base is None:
                    base = json.load(open(BASELINE, encoding="utf-8"))
                part = base[g]
            if g == "render":
                part = dict(part, styles=[tuple(x) for x in part["styles"]])
        c.update(part)
    return c, failures


def write_baseline(repo):
    out = {}
    for g, (fn, _props) in GROUPS.items():
        part = {}
        fn(repo, part)
        out[g] = part
    with open(BASELINE, "w", encoding="utf-8") as f:
        json.dump(out, f, indent=1, ensure_ascii=False, sort_keys=True)


def render(c):
    L = []
    L.append("/-! GENERATED by harness/extract.py from the repository under test — do not edit. -/")
    L.append("namespace Anytree.Generated")
    L.append("")
    L.append("/-- (class name, vertical, cont, end) of the built-in render styles -/")
    L.append("def styles : List (String × String × String × String) := [")
    L.append(",\n".join("  (%s, %s, %s, %s)" % tuple(lean_str(x) for x in s) for s in c["styles"]))
    L.append("]")
    L.append("def defaultStyle : String := %s" % lean_str(c["default_style"]))
    L.append("def maxCache : Nat := %d" % c["maxcache"])
    L.append("def dotEscPattern : String := %s" % lean_str(c["dot_esc"]))
    L.append("def mermaidEscPattern : String := %s" % lean_str(c["mermaid_esc"]))
    L.append("def dotGraph : String := %s" % lean_str(c["dot_graph"]))
    L.append("def dotName : String := %s" % lean_str(c["dot_name"]))
    L.append("def dotIndent : Nat := %d" % c["dot_indent"])
    L.append("def dotEdgeType : String := %s" % lean_str(c["dot_edgetype"]))
    L.append("def mermaidGraph : String := %s" % lean_str(c["mermaid_graph"]))
    L.append("def mermaidName : String := %s" % lean_str(c["mermaid_name"]))
    L.append("def mermaidIndent : Nat := %d" % c["mermaid_indent"])
    L.append("def mermaidEdge : String := %s" % lean_str(c["mermaid_edge"]))
    L.append("def separator : String := %s" % lean_str(c["separator"]))
    L.append("def dictSkipped : List String := %s" % lean_strs(c["dict_skipped"]))
    L.append("def symlinkGetattrLocal : List String := %s" % lean_strs(c["symlink_getattr_local"]))
    L.append("def symlinkGetattrGuarded : List String := %s" % lean_strs(c["symlink_getattr_guarded"]))
    L.append("def symlinkSetattrLocal : List String := %s" % lean_strs(c["symlink_setattr_local"]))
    L.append("def countMsgs : List String := %s" % lean_strs(c["count_msgs"]))
    L.append("")
    L.append("end Anytree.Generated")
    return "\n".join(L) + "\n"


def regenerate(repo):
    """returns (changed, failures): whether Generated.lean was rewritten, and the groups that could not be extracted"""
    consts, failures = collect(repo)
    text = render(consts)
    with core.BuildLock():
        old = open(OUT, encoding="utf-8").read() if os.path.exists(OUT) else None
        if old != text:
            with open(OUT, "w", encoding="utf-8") as f:
                f.write(text)
            return True, failures
    return False, failures


if __name__ == "__main__":
    import sys
    if len(sys.argv) > 2 and sys.argv[2] == "--write-baseline":
        write_baseline(sys.argv[1])
    print(regenerate(sys.argv[1] if len(sys.argv) > 1 else "/repo"))
