"""Python-AST -> lean/Anytree/Model/Generated.lean

Regenerates, from the source tree under test, the constant tables the Lean model depends on, so
that the theorems about them are re-checked against what the code says *now*.  A failure to find
a constant (source restructured) raises and is treated by check.py as a broken tie.
"""
import ast
import os

import core

OUT = os.path.join(core.LEAN, "Anytree", "Model", "Generated.lean")


def _parse(repo, rel):
    with open(os.path.join(repo, rel), encoding="utf-8") as f:
        return ast.parse(f.read())


def _cls(tree, name):
    for n in ast.walk(tree):
        if isinstance(n, ast.ClassDef) and n.name == name:
            return n
    raise LookupError("class %s not found" % name)


def _func(node, name):
    for n in ast.walk(node):
        if isinstance(n, ast.FunctionDef) and n.name == name:
            return n
    raise LookupError("function %s not found" % name)


def _assign_const(tree, name):
    for n in tree.body:
        if isinstance(n, ast.Assign) and any(isinstance(t, ast.Name) and t.id == name for t in n.targets):
            return n.value
    raise LookupError("assignment %s not found" % name)


def _defaults(fn):
    """keyword -> constant default of a FunctionDef"""
    args = fn.args.args
    defs = fn.args.defaults
    out = {}
    for a, d in zip(args[len(args) - len(defs):], defs):
        if isinstance(d, ast.Constant):
            out[a.arg] = d.value
    return out


def _style_args(tree, name):
    init = _func(_cls(tree, name), "__init__")
    for n in ast.walk(init):
        if isinstance(n, ast.Call) and len(n.args) == 3 and all(isinstance(a, ast.Constant) for a in n.args):
            return tuple(a.value for a in n.args)
    raise LookupError("style %s: no 3-constant super().__init__ call" % name)


def _str_tuples_in(fn):
    """all tuples/lists of string constants appearing in `x in (...)` tests of a function"""
    out = []
    for n in ast.walk(fn):
        if isinstance(n, ast.Compare) and any(isinstance(o, ast.In) for o in n.ops):
            for c in n.comparators:
                if isinstance(c, (ast.Tuple, ast.List)) and all(
                        isinstance(e, ast.Constant) and isinstance(e.value, str) for e in c.elts):
                    out.append([e.value for e in c.elts])
    return out


def _re_compile_pattern(tree, name):
    v = _assign_const(tree, name)
    if isinstance(v, ast.Call) and v.args and isinstance(v.args[0], ast.Constant):
        return v.args[0].value
    raise LookupError("%s is not re.compile(<const>)" % name)


def lean_str(s):
    out = ['"']
    for ch in s:
        if ch == '"':
            out.append('\\"')
        elif ch == "\\":
            out.append("\\\\")
        elif ch == "\n":
            out.append("\\n")
        elif ch == "\t":
            out.append("\\t")
        elif ord(ch) < 32:
            out.append("\\x%02x" % ord(ch))
        else:
            out.append(ch)
    out.append('"')
    return "".join(out)


def lean_strs(xs):
    return "[" + ", ".join(lean_str(x) for x in xs) + "]"


def collect(repo):
    c = {}
    render = _parse(repo, "anytree/render.py")
    c["styles"] = [(n,) + _style_args(render, n) for n in ("AsciiStyle", "ContStyle", "ContRoundStyle", "DoubleStyle")]
    rt_init = _func(_cls(render, "RenderTree"), "__init__")
    # default style of RenderTree: `style=ContStyle()`
    dstyle = None
    for a, d in zip(rt_init.args.args[len(rt_init.args.args) - len(rt_init.args.defaults):], rt_init.args.defaults):
        if a.arg == "style" and isinstance(d, ast.Call) and isinstance(d.func, ast.Name):
            dstyle = d.func.id
    if dstyle is None:
        raise LookupError("RenderTree default style")
    c["default_style"] = dstyle
    resolver = _parse(repo, "anytree/resolver.py")
    mc = _assign_const(resolver, "_MAXCACHE")
    if not (isinstance(mc, ast.Constant) and isinstance(mc.value, int)):
        raise LookupError("_MAXCACHE is not an int constant")
    c["maxcache"] = mc.value
    dot = _parse(repo, "anytree/exporter/dotexporter.py")
    mer = _parse(repo, "anytree/exporter/mermaidexporter.py")
    c["dot_esc"] = _re_compile_pattern(dot, "_RE_ESC")
    c["mermaid_esc"] = _re_compile_pattern(mer, "_RE_ESC")
    dd = _defaults(_func(_cls(dot, "DotExporter"), "__init__"))
    c["dot_graph"], c["dot_name"], c["dot_indent"] = dd["graph"], dd["name"], dd["indent"]
    et = _func(_cls(dot, "DotExporter"), "_default_edgetypefunc")
    c["dot_edgetype"] = [n.value.value for n in ast.walk(et) if isinstance(n, ast.Return)][0]
    md = _defaults(_func(_cls(mer, "MermaidExporter"), "__init__"))
    c["mermaid_graph"], c["mermaid_name"], c["mermaid_indent"] = md["graph"], md["name"], md["indent"]
    ef = _func(_cls(mer, "MermaidExporter"), "_default_edgefunc")
    c["mermaid_edge"] = [n.value.value for n in ast.walk(ef) if isinstance(n, ast.Return)][0]
    nm = _parse(repo, "anytree/node/nodemixin.py")
    sep = None
    for n in _cls(nm, "NodeMixin").body:
        if isinstance(n, ast.Assign) and any(isinstance(t, ast.Name) and t.id == "separator" for t in n.targets):
            sep = n.value.value
    if sep is None:
        raise LookupError("NodeMixin.separator")
    c["separator"] = sep
    de = _parse(repo, "anytree/exporter/dictexporter.py")
    tl = _str_tuples_in(_func(_cls(de, "DictExporter"), "_iter_attr_values"))
    if not tl:
        raise LookupError("DictExporter._iter_attr_values: skipped names")
    c["dict_skipped"] = tl[0]
    sl = _parse(repo, "anytree/node/symlinknodemixin.py")
    g = _str_tuples_in(_func(_cls(sl, "SymlinkNodeMixin"), "__getattr__"))
    s = _str_tuples_in(_func(_cls(sl, "SymlinkNodeMixin"), "__setattr__"))
    if not g or not s:
        raise LookupError("SymlinkNodeMixin local names")
    c["symlink_getattr_local"] = g[0]
    c["symlink_setattr_local"] = s[0]
    gfn = _func(_cls(sl, "SymlinkNodeMixin"), "__getattr__")
    guarded = []
    for n in ast.walk(gfn):
        if isinstance(n, ast.Compare) and isinstance(n.ops[0], ast.Eq) and isinstance(n.comparators[0], ast.Constant):
            guarded.append(n.comparators[0].value)
    c["symlink_getattr_guarded"] = guarded
    se = _parse(repo, "anytree/search.py")
    msgs = [n.value.value for n in ast.walk(_func(se, "_findall"))
            if isinstance(n, ast.Assign) and isinstance(n.value, ast.Constant) and isinstance(n.value.value, str)]
    if len(msgs) != 2:
        raise LookupError("CountError templates")
    c["count_msgs"] = msgs
    return c


def render(c):
    L = []
    L.append("/-! GENERATED by harness/extract.py from the repository under test — do not edit. -/")
    L.append("namespace Anytree.Generated")
    L.append("")
    L.append("/-- (class name, vertical, cont, end) of the built-in render styles -/")
    L.append("def styles : List (String × String × String × String) := [")
    L.append(",\n".join("  (%s, %s, %s, %s)" % tuple(lean_str(x) for x in s) for s in c["styles"]))
    L.append("]")
    L.append("def defaultStyle : String := %s" % lean_str(c["default_style"]))
    L.append("def maxCache : Nat := %d" % c["maxcache"])
    L.append("def dotEscPattern : String := %s" % lean_str(c["dot_esc"]))
    L.append("def mermaidEscPattern : String := %s" % lean_str(c["mermaid_esc"]))
    L.append("def dotGraph : String := %s" % lean_str(c["dot_graph"]))
    L.append("def dotName : String := %s" % lean_str(c["dot_name"]))
    L.append("def dotIndent : Nat := %d" % c["dot_indent"])
    L.append("def dotEdgeType : String := %s" % lean_str(c["dot_edgetype"]))
    L.append("def mermaidGraph : String := %s" % lean_str(c["mermaid_graph"]))
    L.append("def mermaidName : String := %s" % lean_str(c["mermaid_name"]))
    L.append("def mermaidIndent : Nat := %d" % c["mermaid_indent"])
    L.append("def mermaidEdge : String := %s" % lean_str(c["mermaid_edge"]))
    L.append("def separator : String := %s" % lean_str(c["separator"]))
    L.append("def dictSkipped : List String := %s" % lean_strs(c["dict_skipped"]))
    L.append("def symlinkGetattrLocal : List String := %s" % lean_strs(c["symlink_getattr_local"]))
    L.append("def symlinkGetattrGuarded : List String := %s" % lean_strs(c["symlink_getattr_guarded"]))
    L.append("def symlinkSetattrLocal : List String := %s" % lean_strs(c["symlink_setattr_local"]))
    L.append("def countMsgs : List String := %s" % lean_strs(c["count_msgs"]))
    L.append("")
    L.append("end Anytree.Generated")
    return "\n".join(L) + "\n"


def regenerate(repo):
    """returns True when the file content changed"""
    text = render(collect(repo))
    with core.BuildLock():
        old = open(OUT, encoding="utf-8").read() if os.path.exists(OUT) else None
        if old != text:
            with open(OUT, "w", encoding="utf-8") as f:
                f.write(text)
            return True
    return False


if __name__ == "__main__":
    import sys
    print(regenerate(sys.argv[1] if len(sys.argv) > 1 else "/repo"))
