"""Implementation-side runners, one module per case family. Imported only inside the worker
(PYTHONPATH points at the repository under test)."""
import importlib

_mods = {}


def run_impl_case(case):
    fam = case["fam"]
    if fam not in _mods:
        _mods[fam] = importlib.import_module("families.f_" + fam)
    return _mods[fam].impl(case)
