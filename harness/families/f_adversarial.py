"""Family `adversarial` (C17): the same history and the same read-only queries on a node class that
overrides comparison / hashing / truth / container special methods, and on a plain class."""
from anytree import NodeMixin, LightNodeMixin

from . import f_forest
from .observe import observe


class TrapError(Exception):
    pass


def make_class(kind, base, counter):
    ns = {}

    def init(self, parent=None, children=None):
        ctl_register(self)
        self.name = "n%d" % ctl_label(self)
        self.parent = parent
        if children:
            self.children = children

    def rep(self):
        return "Adv<%s>" % kind

    ns["__repr__"] = rep
    if kind == "always_equal":
        ns["__eq__"] = lambda self, other: True
        ns["__ne__"] = lambda self, other: False
        ns["__hash__"] = lambda self: 0
    elif kind == "never_equal":
        ns["__eq__"] = lambda self, other: False
        ns["__ne__"] = lambda self, other: True
        ns["__hash__"] = lambda self: 7
    elif kind == "falsy":
        ns["__bool__"] = lambda self: False
    elif kind == "zero_len":
        ns["__len__"] = lambda self: 0
    elif kind == "unhashable":
        ns["__eq__"] = lambda self, other: self is other
        ns["__hash__"] = None
    elif kind == "trap":
        def trap(name):
            def f(self, *a):
                counter[0] += 1
                counter.append(name)
                raise TrapError(name)
            return f
        for nm in ("__eq__", "__ne__", "__lt__", "__le__", "__gt__", "__ge__", "__hash__", "__bool__", "__len__",
                   "__iter__", "__contains__", "__getitem__"):
            ns[nm] = trap(nm)
    elif kind == "container":
        # a node that is also a container of its children (sequence protocol): iterable, sized, indexable, falsy when empty
        ns["__iter__"] = lambda self: iter(self.children)
        ns["__len__"] = lambda self: len(self.children)
        ns["__contains__"] = lambda self, x: any(c is x for c in self.children)
        ns["__getitem__"] = lambda self, i: self.children[i]
    elif kind == "tuple":
        # a node that IS a tuple (a namedtuple record mixed with NodeMixin): all instances are equal and hash alike, are
        # iterable, sized and indexable - and `"%r" % node` would unpack it
        import collections
        rec = collections.namedtuple("Rec", "x y")
        ns["__new__"] = lambda cls, parent=None, children=None: rec.__new__(cls, 1, 2)
        ns["__init__"] = init
        return type("Adv_tuple", (rec, NodeMixin), ns)       # (a tuple subtype cannot have non-empty __slots__: NodeMixin only)
    elif kind == "plain":
        pass
    else:
        raise ValueError(kind)
    if base is LightNodeMixin:
        ns["__slots__"] = ("name",)
    ns["__init__"] = init
    return type("Adv_" + kind, (base,), ns)


ctl_register = None
ctl_label = None


def run_one(case, kind):
    global ctl_register, ctl_label
    ctl = f_forest.Ctl()
    ctl_register, ctl_label = ctl.register, ctl.label
    counter = [0]
    base = LightNodeMixin if case.get("base") == "light" else NodeMixin
    cls = make_class(kind, base, counter)
    ctl.begin(None)
    for _ in range(case["n0"]):
        cls()
    out = []
    for op in case["ops"]:
        res = "ok"
        try:
            k = op["op"]
            if k == "sp":
                ctl.nodes[op["n"]].parent = None if op["v"] is None else ctl.nodes[op["v"]]
            elif k == "sc":
                ctl.nodes[op["n"]].children = 5 if op["xs"] is None else [ctl.nodes[x] for x in op["xs"]]
            elif k == "dc":
                del ctl.nodes[op["n"]].children
            elif k == "ctor":
                cs = op["cs"]
                kids = None if cs is None else (5 if cs == "x" else [ctl.nodes[x] for x in cs])
                cls(parent=None if op["p"] is None else ctl.nodes[op["p"]], children=kids)
        except TrapError as e:
            res = "TrapError:" + str(e)
        except Exception as e:
            res = type(e).__name__
        out.append({"res": res, "snap": ctl.snapshot()})
    try:
        obs = observe(ctl.nodes, ctl.label, case.get("params", {}))
    except TrapError as e:
        obs = {"TrapError": str(e)}
    except Exception as e:
        obs = {"exc": type(e).__name__, "msg": str(e)[:200]}
    return out, obs, counter[0], counter[1:6]


def impl(case):
    a_ops, a_obs, calls, which = run_one(case, case["kind"])
    p_ops, p_obs, _, _ = run_one(case, "plain")
    return {"adv": a_ops, "plain": p_ops, "adv_obs": a_obs, "plain_obs": p_obs, "special_calls": calls, "which": which}
