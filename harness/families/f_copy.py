"""Family `copy` (C19): pickle round trips (every protocol) and copy.deepcopy from every entry node of
mixed-class forests with symlink nodes; the copy is compared with the original object graph."""
import copy
import pickle

import anytree
from anytree import NodeMixin, LightNodeMixin, Node, AnyNode, SymlinkNode, SymlinkNodeMixin


class UNode(NodeMixin):                       # user NodeMixin class (module level: picklable)
    def __init__(self, label, parent=None):
        self.label = label
        self.name = "u%d" % label
        self.extra = {"k": [label]}
        self.opt = None if label % 2 == 0 else 0
        self.parent = parent


class FalsyNode(UNode):                       # a container-like user class that is falsy / has length 0
    def __bool__(self):
        return False

    def __len__(self):
        return 0


class EqNode(UNode):                          # value equality: every two nodes compare equal
    def __eq__(self, other):
        return isinstance(other, EqNode)

    def __ne__(self, other):
        return not isinstance(other, EqNode)

    def __hash__(self):
        return 1


class LNode(LightNodeMixin):                  # __slots__ class: protocols >= 2 only
    __slots__ = ["label", "extra", "name", "opt", "unset"]

    def __init__(self, label, parent=None):
        self.label = label
        self.name = "l%d" % label
        self.extra = ("t", label)
        self.opt = None if label % 2 == 0 else 0      # a slot holding None / a falsy value is not an unset slot
        self.parent = parent                          # (`unset` is never assigned)


class LDictNode(LightNodeMixin):              # a LightNodeMixin subclass *without* __slots__: attributes live in __dict__
    def __init__(self, label, parent=None):
        self.label = label
        self.name = "d%d" % label
        self.extra = ["d", label]
        self.parent = parent


class LMixedNode(LNode):                      # slots from the base class plus an instance dictionary of its own
    def __init__(self, label, parent=None):
        LNode.__init__(self, label, parent)
        self.colour = "c%d" % label


class Record(object):                         # a slotted non-tree base class ...
    __slots__ = ("key", "value")


class RecordNode(Record, NodeMixin):          # ... mixed with NodeMixin (the documented `MyClass(MyBaseClass, NodeMixin)` pattern):
    def __init__(self, label, parent=None):   # state lives partly in slots, partly in the instance dictionary
        self.key = "k%d" % label
        self.value = {"v": label}
        self.label = label
        self.name = "r%d" % label                 # Node.__repr__ of a node below prints the names along its path
        self.parent = parent


class _LPriv(LightNodeMixin):                 # a class name with a leading underscore and a name-mangled private slot
    __slots__ = ("label", "__secret")

    def __init__(self, label, parent=None):
        self.label = label
        self.__secret = {"k": label}
        self.parent = parent


class LStr(LightNodeMixin):                   # `__slots__` given as a single string: one slot
    __slots__ = "label"

    def __init__(self, label, parent=None):
        self.label = label
        self.parent = parent


def _slot_attrs(o):
    import copyreg
    out = {}
    for name in copyreg._slotnames(type(o)):
        if not name.startswith("_LightNodeMixin") and hasattr(o, name):
            out[name] = getattr(o, name)
    out.update(getattr(o, "__dict__", {}))
    return out


def make(kind, label, target=None):
    if kind == "node":
        return Node("n%d" % label, label=label)
    if kind == "anynode":
        return AnyNode(label=label, name="a%d" % label, data=[label, {"x": label}])
    if kind == "user":
        return UNode(label)
    if kind == "falsy":
        return FalsyNode(label)
    if kind == "eq":
        return EqNode(label)
    if kind == "light":
        return LNode(label)
    if kind == "lightdict":
        return LDictNode(label)
    if kind == "lightmixed":
        return LMixedNode(label)
    if kind == "slotbase":
        return RecordNode(label)
    if kind == "lightpriv":
        return _LPriv(label)
    if kind == "lightstr":
        return LStr(label)
    if kind == "symlink":
        return SymlinkNode(target)
    raise ValueError(kind)


def describe(entry):
    """canonical description of everything reachable from `entry`: objects numbered in discovery order
    (parent, children in order, target), with class names and attributes; plus the set of object ids"""
    order, ids = [], {}

    def visit(o):
        if id(o) in ids:
            return
        ids[id(o)] = len(order)
        order.append(o)
        if o.parent is not None:
            visit(o.parent)
        for c in o.children:
            visit(c)
        if isinstance(o, SymlinkNodeMixin):
            visit(o.__dict__["target"])

    visit(entry)
    desc = []
    for o in order:
        if isinstance(o, SymlinkNodeMixin):
            attrs = {"target": ids[id(o.__dict__["target"])]}
        elif isinstance(o, LNode):
            attrs = {"label": o.label, "extra": list(o.extra), "name": o.name,
                     "opt": repr(getattr(o, "opt", "<unset>")), "unset": repr(getattr(o, "unset", "<unset>"))}
            attrs.update({k: v for k, v in getattr(o, "__dict__", {}).items()})
        elif isinstance(o, (_LPriv, LStr)):
            attrs = _slot_attrs(o)
        elif isinstance(o, RecordNode):
            attrs = {k: v for k, v in _slot_attrs(o).items() if not k.startswith("_NodeMixin")}
        elif isinstance(o, LDictNode):
            attrs = {k: v for k, v in o.__dict__.items() if not k.startswith("_LightNodeMixin")}
        else:
            attrs = {k: v for k, v in o.__dict__.items() if not k.startswith("_NodeMixin")}
        desc.append({"cls": type(o).__name__, "parent": None if o.parent is None else ids[id(o.parent)],
                     "children": [ids[id(c)] for c in o.children], "attrs": repr(sorted(attrs.items(), key=lambda kv: kv[0]))})
    return desc, set(ids), order


def F_reach(node):
    """identity set of everything reachable from `node` (what one copied tree consists of)"""
    return frozenset(describe(node)[1])


def inv_ok(order):
    for o in order:
        for c in o.children:
            if c.parent is not o:
                return False
        if o.parent is not None and sum(1 for c in o.parent.children if c is o) != 1:
            return False
    return True


def label_of(o, lab_by_id):
    return lab_by_id.get(id(o))


def impl(case):
    kinds = case["kinds"]
    tmap = {a: b for a, b in case["targets"]}
    objs = []
    for i, k in enumerate(kinds):
        objs.append(make(k, i, objs[tmap[i]] if k == "symlink" else None))
    for op in case["ops"]:
        try:
            if op["op"] == "sp":
                objs[op["n"]].parent = None if op["v"] is None else objs[op["v"]]
            elif op["op"] == "sc":
                objs[op["n"]].children = [objs[x] for x in op["xs"]]
            elif op["op"] == "dc":
                del objs[op["n"]].children
        except (anytree.LoopError, anytree.TreeError):
            pass
    lab_by_id = {id(o): i for i, o in enumerate(objs)}
    has_slots = any(k.startswith("light") or k == "slotbase" for k in kinds)   # LightNodeMixin itself declares __slots__
    results = []
    reach_sets = []
    for e, entry in enumerate(objs):
        d0, ids0, order0 = describe(entry)
        reach_sets.append(sorted(lab_by_id[i] for i in ids0))
        verdict = {"entry": e, "ok": True, "why": []}
        # two nodes of one tree copied in ONE operation (a container holding both; a shared memo) end up in one copied tree,
        # and an attribute value that cannot be pickled but can be copied (a function) does not stop deepcopy
        if len(order0) >= 2:
            other = order0[-1]
            try:
                pair = copy.deepcopy([entry, other])
                if not F_reach(pair[1]) <= F_reach(pair[0]):
                    verdict["ok"] = False
                    verdict["why"].append(["deepcopy-pair", None, "two nodes of one tree copied into two trees"])
                memo = {}
                a = copy.deepcopy(entry, memo)
                b = copy.deepcopy(other, memo)
                if not F_reach(b) <= F_reach(a):
                    verdict["ok"] = False
                    verdict["why"].append(["deepcopy-memo", None, "a shared memo gave two trees"])
            except RecursionError:
                pass
            except Exception as ex:
                verdict["ok"] = False
                verdict["why"].append(["deepcopy-pair", None, type(ex).__name__])
        methods = [("deepcopy", None)] + [("pickle", p) for p in range(0, pickle.HIGHEST_PROTOCOL + 1)]
        for how, proto in methods:
            if how == "pickle" and has_slots and proto < 2:
                continue                       # __slots__ classes cannot be pickled below protocol 2 (Python itself)
            try:
                c = copy.deepcopy(entry) if how == "deepcopy" else pickle.loads(pickle.dumps(entry, proto))
            except RecursionError:
                verdict["ok"] = False
                verdict["why"].append([how, proto, "RecursionError"])
                continue
            except Exception as ex:
                verdict["ok"] = False
                verdict["why"].append([how, proto, type(ex).__name__])
                continue
            d1, ids1, order1 = describe(c)
            if d1 != d0:
                verdict["ok"] = False
                verdict["why"].append([how, proto, "not isomorphic"])
            if ids0 & ids1:
                verdict["ok"] = False
                verdict["why"].append([how, proto, "shares objects"])
            if not inv_ok(order1):
                verdict["ok"] = False
                verdict["why"].append([how, proto, "copy inconsistent"])
            # mutate the copy: the original must not notice (and vice versa)
            victim = order1[-1]
            before = describe(entry)[0]
            if victim.parent is not None:
                victim.parent = None
            else:
                for ch in list(victim.children)[:1]:
                    ch.parent = None
            if describe(entry)[0] != before:
                verdict["ok"] = False
                verdict["why"].append([how, proto, "original changed by mutating the copy"])
        results.append(verdict)
    return {"reach": reach_sets, "copies": results}
