"""Family `deepchain`: a chain of `depth`+1 nodes (plus a side leaf half-way down and one at the bottom), far deeper than
Python's default recursion limit. The navigation attributes that are defined by walking the parent links - path, ancestors,
root, depth, is_root, is_leaf, siblings, util.commonancestors - Walker.walk and Resolver.get are iterative in the library
and must stay usable at any depth; on a chain their values are known in closed form (node k has path 0..k), so the
expectation needs no model run. (Iterators, height, size, descendants, RenderTree recurse per level in the library itself
and are not part of this family.)"""
import anytree
from anytree import NodeMixin, LightNodeMixin, Node, Resolver, Walker
from anytree import util as autil


class P(NodeMixin):
    def __init__(self, label, parent=None):
        self.label = label
        self.name = "n%d" % label
        self.parent = parent


class L(LightNodeMixin):
    __slots__ = ("label", "name")

    def __init__(self, label, parent=None):
        self.label = label
        self.name = "n%d" % label
        self.parent = parent


class N(Node):
    def __init__(self, label, parent=None):
        Node.__init__(self, "n%d" % label, parent=parent, label=label)


CLS = {"nm": P, "light": L, "node": N}


def impl(case):
    d = case["depth"]
    cls = CLS[case.get("cls", "nm")]
    chain = [cls(0)]
    for i in range(1, d + 1):
        chain.append(cls(i, parent=chain[-1]))
    mid = d // 2
    side_mid = cls(d + 1, parent=chain[mid])
    side_bot = cls(d + 2, parent=chain[d])
    labs = lambda xs: [x.label for x in xs]
    picks = sorted({0, 1, mid, d - 1, d})
    what = case.get("what", "nav")
    try:
        if what == "nav":
            for k in picks:
                n = chain[k]
                if labs(n.path) != list(range(k + 1)):
                    return {"fail": "path of node %d" % k}
                if labs(n.ancestors) != list(range(k)):
                    return {"fail": "ancestors of node %d" % k}
                if n.root is not chain[0] or n.depth != k or n.is_root != (k == 0) or n.is_leaf:
                    return {"fail": "root/depth/is_root/is_leaf of node %d" % k}
            if labs(side_bot.path) != list(range(d + 1)) + [d + 2] or side_bot.depth != d + 1 or not side_bot.is_leaf:
                return {"fail": "bottom side leaf"}
            if labs(chain[mid + 1].siblings) != [d + 1] or labs(side_mid.siblings) != [mid + 1]:
                return {"fail": "siblings half-way down"}
            if labs(autil.commonancestors(side_bot, side_mid)) != list(range(mid + 1)):
                return {"fail": "commonancestors(bottom side leaf, middle side leaf)"}
            if labs(autil.commonancestors(chain[d], side_bot)) != list(range(d)):
                return {"fail": "commonancestors(bottom, bottom side leaf)"}
            if autil.leftsibling(side_mid) is not chain[mid + 1] or autil.rightsibling(chain[mid + 1]) is not side_mid:
                return {"fail": "left/right sibling"}
            # re-parenting deep down (the loop check walks up the whole chain)
            side_bot.parent = chain[d - 1]
            if labs(side_bot.path) != list(range(d)) + [d + 2]:
                return {"fail": "path after re-parenting"}
            try:
                chain[1].parent = side_bot
                return {"fail": "loop accepted"}
            except anytree.LoopError:
                pass
        elif what == "walk":
            w = Walker()
            up, common, down = w.walk(chain[d], chain[mid])
            if labs(up) != list(range(d, mid, -1)) or common is not chain[mid] or down != ():
                return {"fail": "walk(bottom, middle)"}
            up, common, down = w.walk(chain[mid], chain[d])
            if up != () or common is not chain[mid] or labs(down) != list(range(mid + 1, d + 1)):
                return {"fail": "walk(middle, bottom)"}
            if w.walk(chain[d], chain[d]) != ((), chain[d], ()):
                return {"fail": "walk(bottom, bottom)"}
            up, common, down = w.walk(side_bot, side_mid)
            if labs(up) != [d + 2] + list(range(d, mid, -1)) or common is not chain[mid] or labs(down) != [d + 1]:
                return {"fail": "walk(bottom side leaf, middle side leaf)"}
            other = cls(d + 3)
            try:
                w.walk(chain[d], other)
                return {"fail": "walk across trees returned"}
            except anytree.WalkError:
                pass
        elif what == "get":
            r = Resolver("name")
            path = "/" + "/".join("n%d" % i for i in range(d + 1))
            if r.get(chain[0], path) is not chain[d] or r.get(side_mid, path) is not chain[d]:
                return {"fail": "absolute path of the bottom node"}
            if r.get(chain[d], "/".join([".."] * (d - mid))) is not chain[mid]:
                return {"fail": "relative path upwards"}
            if r.get(chain[mid], "/".join("n%d" % i for i in range(mid + 1, d + 1))) is not chain[d]:
                return {"fail": "relative path downwards"}
            if r.get(chain[0], "/".join(["."] * (2 * d)) + "/n1") is not chain[1]:
                return {"fail": "a long run of '.' components"}
            try:
                r.get(chain[0], path + "/zz")
                return {"fail": "unknown child resolved"}
            except anytree.ChildResolverError:
                pass
            if Resolver("name", relax=True).get(chain[0], path + "/zz") is not None:
                return {"fail": "relaxed unknown child"}
    except RecursionError:
        return {"fail": "RecursionError (%s)" % what}
    return {"ok": True}
