import copy
import io
import json

import anytree
from anytree import AnyNode, Node, NodeMixin
from anytree.exporter import DictExporter, JsonExporter
from anytree.importer import DictImporter, JsonImporter


class UserNode(NodeMixin):
    def __init__(self, parent=None, children=None, **kwargs):
        self.__dict__.update(kwargs)
        self.parent = parent
        if children:
            self.children = children


class StrictNode(NodeMixin):
    """a user class whose constructor does not know a `children` keyword (the docs' pattern)"""

    def __init__(self, parent=None, **kwargs):
        if "children" in kwargs:
            raise TypeError("__init__() got an unexpected keyword argument 'children'")
        self.__dict__.update(kwargs)
        self.parent = parent


class LenNode(UserNode):
    """container-like user class: falsy exactly while it has no children (a freshly imported parent is falsy)"""

    def __len__(self):
        return len(self.children)


class EqUser(UserNode):
    """value equality: any two nodes compare equal"""

    def __eq__(self, other):
        return isinstance(other, EqUser)

    def __ne__(self, other):
        return not isinstance(other, EqUser)

    def __hash__(self):
        return 2


class FalsyAny(AnyNode):
    def __bool__(self):
        return False


CLS = {"anynode": AnyNode, "node": Node, "mixin": UserNode, "strict": StrictNode, "lenmixin": LenNode, "falsyany": FalsyAny, "eqmixin": EqUser}
def bookkeeping(key):
    """the mixins' own (name-mangled) link attributes, whatever they are called in the tree under test"""
    return key.startswith("_NodeMixin__") or key.startswith("_LightNodeMixin__")


def vtext(v):
    return json.dumps(v, sort_keys=True)


def build(t, cls, parent=None):
    attrs = {k: json.loads(v) for k, v in t[0]}
    if cls is Node:
        a = dict(attrs)
        name = a.pop("name")
        n = Node(name, parent=parent, **a)
    else:
        n = cls(parent=parent, **attrs)
    for c in t[1]:
        build(c, cls, n)
    return n


def tree_canon(n):
    return [[[k, vtext(v)] for k, v in n.__dict__.items() if not bookkeeping(k)], [tree_canon(c) for c in n.children]]


def ddata_canon(d):
    if not isinstance(d, dict):
        return {"not_a_dict": repr(type(d))}
    attrs = [[k, vtext(v)] for k, v in d.items() if k != "children"]
    ch = d.get("children", None)
    return {"attrs": attrs, "children": None if "children" not in d else [ddata_canon(c) for c in ch]}


def ddata_build(j, share=None):
    """the dictionary described by `j`; with `share` (a dict used as memo) equal sub-dictionaries, children lists and
    container values are ONE Python object used at several places (a template reused, YAML anchors, ...)"""
    if share is not None:
        key = "D" + json.dumps(j, sort_keys=True)
        if key in share:
            return share[key]
    d = {}
    for k, v in j["attrs"]:
        if share is not None and v[:1] in "[{":
            d[k] = share.setdefault("V" + v, json.loads(v))
        else:
            d[k] = json.loads(v)
    if j["children"] is not None:
        ch = [ddata_build(c, share) for c in j["children"]]
        if share is not None:
            ch = share.setdefault("L" + json.dumps(j["children"], sort_keys=True), ch)
        d["children"] = ch
    if share is not None:
        share[key] = d
    return d


ATTRITER = {
    "none": None,
    "sorted": lambda items: sorted(items, key=lambda kv: kv[0]),
    "drop_a": lambda items: [(k, v) for k, v in items if k != "a"],
    "dup_first": lambda items: (lambda l: l + ([(l[0][0], "dup")] if l else []))(list(items)),
}


class SubExporter(DictExporter):
    """a DictExporter *subclass*: the customisation lives in an overridden public method (the attribute `a` is
    dropped from every exported dictionary), not in a constructor option"""

    def export(self, node):
        def strip(d):
            d.pop("a", None)
            for c in d.get("children", ()):
                strip(c)
            return d
        return strip(DictExporter.export(self, node))


class SubExporter2(DictExporter):
    """a DictExporter subclass overriding the hook the exporter reads a node's attributes through (the documented way to
    export slotted nodes, to hide run-time attributes or to add computed ones): here it hides the attribute `a`"""

    @staticmethod
    def _iter_attr_values(node):
        for k, v in DictExporter._iter_attr_values(node):
            if k != "a":
                yield k, v


def childiter_of(k):
    if k == "reversed":
        return lambda cs: list(reversed(cs))
    if k == "first2":
        return lambda cs: list(cs)[:2]
    if k == "none":
        return lambda cs: []
    if k == "tail":
        return lambda cs: list(cs)[1:]
    return list


def _as_kind(ci, kind):
    """the same childiter handing its result back as another kind of iterable: the exporter may only iterate over it once and must
    not test it for truth or length (an iterator/generator is always true, whatever it yields)"""
    if kind == "iter":
        return lambda cs: iter(ci(cs))
    if kind == "tuple":
        return lambda cs: tuple(ci(cs))
    if kind == "gen":
        def g(cs):
            for c in ci(cs):
                yield c
        return g
    return ci


def snapshot(root):
    return tree_canon(root)


def impl(case):
    cls = CLS[case.get("cls", "anynode")]
    top = build(case["tree"], cls)
    root = top
    for i in case.get("start", []):
        root = root.children[i]          # export a subtree in place: maxlevel counts from the start node
    before = snapshot(top)
    kw = {}
    if case.get("maxlevel") is not None or not case.get("defaults"):
        kw["maxlevel"] = case.get("maxlevel")
    if case.get("attriter", "none") != "none":
        kw["attriter"] = ATTRITER[case["attriter"]]
    if case.get("childiter", "list") != "list" or case.get("ci_kind", "list") != "list":
        kw["childiter"] = _as_kind(childiter_of(case.get("childiter", "list")), case.get("ci_kind", "list"))
    if case.get("dictcls") == "ordered":
        import collections
        kw["dictcls"] = collections.OrderedDict
    prior = case.get("prior")
    if prior:
        # the same exporter object was used before and that export was aborted by a user hook raising part-way:
        # every export starts afresh
        state = {"boom_at": None, "calls": 0}
        real = kw.get("attriter") or (lambda items: items)

        def guarded(items, state=state, real=real):
            state["calls"] += 1
            if state["boom_at"] is not None and state["calls"] >= state["boom_at"]:
                raise KeyError("user attriter")
            return real(items)
        kw = dict(kw, attriter=guarded)
    expcls = DictExporter
    if case.get("via_subclass"):
        # same behaviour as attriter "drop_a", obtained by overriding a method of the exporter class
        kw = {k: v for k, v in kw.items() if k != "attriter"}
        expcls = SubExporter2 if case.get("via_subclass") == "iterattr" else SubExporter
    exp = expcls(**kw)
    if case.get("nested_export"):
        # a user callback that exports another node with the SAME exporter while an export is running (cross references
        # serialised in place): the outer export must be unaffected
        inner_real = exp.attriter if hasattr(exp, "attriter") else None
        if inner_real is not None or hasattr(exp, "attriter"):
            busy = {"on": False, "n": 0}
            real2 = exp.attriter or (lambda items: items)

            def reentering(items, busy=busy, real2=real2):
                busy["n"] += 1
                if not busy["on"] and busy["n"] % 2 == 0:
                    busy["on"] = True
                    try:
                        exp.export(top)
                    finally:
                        busy["on"] = False
                return real2(items)
            exp.attriter = reentering
    if prior:
        for k in prior:
            state["boom_at"], state["calls"] = k, 0
            try:
                exp.export(top)
            except KeyError:
                pass
        state["boom_at"] = None
    d = exp.export(root)
    out = {"export": ddata_canon(d)}
    if snapshot(top) != before:
        out["export_mutated_tree"] = True
    d_copy = copy.deepcopy(d)
    imp = DictImporter(nodecls=cls)
    try:
        r = imp.import_(d)
        out["reimport"] = tree_canon(r)
        out["export2"] = ddata_canon(DictExporter().export(r))
    except TypeError:
        out["reimport"] = "TypeError"
        out["export2"] = None
    if d != d_copy:
        out["import_mutated_arg"] = True
    if "data" in case:
        data = ddata_build(case["data"], {} if case.get("data_shared") else None)
        data_copy = copy.deepcopy(data)
        try:
            r = imp.import_(data)
            out["import"] = {"tree": tree_canon(r), "back": ddata_canon(DictExporter().export(r))}
        except TypeError:
            out["import"] = {"tree": "TypeError", "back": None}
        if data != data_copy:
            out["import_mutated_arg"] = True
    else:
        out["import"] = None
    # ---- JSON layer (C11): pure delegation, checked directly against json.dumps of the dict export
    if case.get("json"):
        jk = dict(case["json"])
        jmax = jk.pop("jsonmaxlevel", None)
        custom = jk.pop("customdict", False)
        jkw = dict(jk)
        if custom:
            kw = dict(kw)
            kw["maxlevel"] = case.get("dictmaxlevel")
        de = expcls(**kw) if custom else None
        pj = jk.pop("prior_jsonmax", None)
        jkw.pop("prior_jsonmax", None)
        if pj is not None:
            # another JsonExporter, with its own maxlevel, exported in the same process before
            JsonExporter(maxlevel=pj, **jkw).export(top)
        je = JsonExporter(dictexporter=de, maxlevel=jmax, **jkw)
        text = je.export(root)
        # the reference: the (supplied) dict exporter with the JsonExporter's maxlevel, if it has one, in force
        rkw = dict(kw) if custom else {}
        if jmax is not None:
            rkw["maxlevel"] = jmax
        ref_exp = expcls(**rkw) if custom else DictExporter(**rkw)
        expect = json.dumps(ref_exp.export(root), **jkw)
        fh = io.StringIO()
        je.write(root, fh)
        jout = {"export_is_dumps": text == expect, "write_eq_export": fh.getvalue() == text}
        try:
            r1 = JsonImporter(dictimporter=DictImporter(nodecls=cls)).import_(text)
            r2 = JsonImporter(dictimporter=DictImporter(nodecls=cls)).read(io.StringIO(text))
            jout["import"] = tree_canon(r1)
            jout["read_eq_import"] = tree_canon(r2) == tree_canon(r1)
            # json.loads / json.load accept UTF-8 bytes and binary file handles as well: so must the importer
            if not any(0xD800 <= ord(ch) <= 0xDFFF for ch in text):
                raw = text.encode("utf-8")
                r3 = JsonImporter(dictimporter=DictImporter(nodecls=cls)).import_(raw)
                r4 = JsonImporter(dictimporter=DictImporter(nodecls=cls)).read(io.BytesIO(raw))
                if tree_canon(r3) != tree_canon(r1) or tree_canon(r4) != tree_canon(r1):
                    jout["read_eq_import"] = False
            jout["dict"] = ddata_canon(json.loads(text))
        except TypeError:
            jout["import"] = "TypeError"
        out["json"] = jout
    return out
