import os
import tempfile
import warnings

import anytree
from anytree import Node
from anytree.exporter import DotExporter, UniqueDotExporter, MermaidExporter

warnings.simplefilter("ignore")


class EqNode(Node):
    """value equality/hash by a constant payload: distinct nodes compare equal"""

    def __eq__(self, other):
        return isinstance(other, EqNode)

    def __ne__(self, other):
        return not isinstance(other, EqNode)

    def __hash__(self):
        return 11


class LightNode(anytree.LightNodeMixin):
    """the documented way to use LightNodeMixin: a fully slotted class (no __dict__, no __weakref__)"""
    __slots__ = ("name", "label")

    def __init__(self, name, parent=None, label=None):
        self.name = name
        self.label = label
        self.parent = parent


class FalsyNode(Node):
    def __bool__(self):
        return False

    def __len__(self):
        return 0


NODE_CLASSES = {"eq": EqNode, "light": LightNode, "falsy": FalsyNode}


def build(tree, names, parent=None, index=None, cls=Node):
    if index is None:
        index = {}
    n = cls(names[tree[0]], parent=parent, label=tree[0])     # names[...] may be a non-string object (see `typed`)
    index[tree[0]] = n
    for c in tree[1]:
        build(c, names, n, index, cls)
    return n, index


class FalsyCallable(object):
    """a callable object whose truth value is False (an empty allow-list wrapper, a recorder that has recorded nothing
    yet): the library's `callback or default` idiom treats it as ABSENT - consistently, in every pass"""

    def __init__(self, fn):
        self.fn = fn

    def __call__(self, *a):
        return self.fn(*a)

    def __bool__(self):
        return False

    def __len__(self):
        return 0


# the documented positional order of the constructors (node first)
POSITIONAL = {
    "dot": ["graph", "name", "options", "indent", "nodenamefunc", "nodeattrfunc", "edgeattrfunc", "edgetypefunc", "filter_", "maxlevel", "stop"],
    "unique": ["graph", "name", "options", "indent", "nodenamefunc", "nodeattrfunc", "edgeattrfunc", "edgetypefunc", "filter_", "stop", "maxlevel"],
    "mermaid": ["graph", "name", "options", "indent", "nodenamefunc", "nodefunc", "edgefunc", "filter_", "stop", "maxlevel"],
}
DEFAULTS = {"dot": {"graph": "digraph", "name": "tree", "indent": 4}, "unique": {"graph": "digraph", "name": "tree", "indent": 4},
            "mermaid": {"graph": "graph", "name": "TD", "indent": 0}}


def construct(cls, kind, start, kw, positional):
    if not positional or kind not in POSITIONAL:
        return cls(start, **kw)
    args = [kw.get(k, DEFAULTS[kind].get(k)) for k in POSITIONAL[kind]]
    return cls(start, *args)


def impl(case):
    names = {k: v for k, v in case["names"]}
    for l in case.get("typed") or []:
        import ast
        names[l] = ast.literal_eval(names[l])         # the name is the number/boolean/None that prints like this
    root, index = build(case["tree"], names, cls=NODE_CLASSES.get(case.get("cls"), Node))
    start = index[case["start"]]
    fo, st = set(case["filter_out"]), set(case["stop"])
    kw = {}
    if fo or not case.get("defaults"):
        kw["filter_"] = lambda n: n.label not in fo
    if st or not case.get("defaults"):
        kw["stop"] = lambda n: n.label in st
    if case["maxlevel"] is not None or not case.get("defaults"):
        kw["maxlevel"] = case["maxlevel"]
    fcb = case.get("falsy_cb")
    if fcb:
        # falsy callables: the case's own filter_out / stop are empty (that is what the exporter must behave like)
        hidden_f, hidden_s = set(fcb["filter_out"]), set(fcb["stop"])
        kw["filter_"] = FalsyCallable(lambda n: n.label not in hidden_f)
        kw["stop"] = FalsyCallable(lambda n: n.label in hidden_s)
    if case.get("options") is not None:
        kw["options"] = case["options"]
    if case.get("indent") is not None:
        kw["indent"] = case["indent"]
    if case.get("graph") is not None:
        kw["graph"] = case["graph"]
    if case.get("gname") is not None:
        kw["name"] = case["gname"]
    kind = case["kind"]
    custom = case.get("custom")
    if kind == "mermaid":
        if custom:
            kw["nodenamefunc"] = lambda n: "n%d" % n.label
            kw["nodefunc"] = lambda n: '("%s")' % n.name
            kw["edgefunc"] = lambda p, c: "--%d.%d-->" % (p.label, c.label)
        exp = construct(MermaidExporter, "mermaid", start, kw, case.get("positional"))
    else:
        if custom:
            kw["nodenamefunc"] = lambda n: "%s|%d" % (n.name, n.label)
            kw["nodeattrfunc"] = lambda n: ("shape=box,l=%d" % n.label) if n.label % 2 == 0 else None
            kw["edgeattrfunc"] = lambda p, c: None if (p.label + c.label) % 3 == 0 else 'label="%d-%d"' % (p.label, c.label)
            kw["edgetypefunc"] = lambda p, c: "--" if (p.label + c.label) % 2 == 0 else "->"
        if kind == "unique":
            exp = construct(UniqueDotExporter, "unique", start, kw, case.get("positional"))
        elif kind == "rtg":
            from anytree.dotexport import RenderTreeGraph
            exp = RenderTreeGraph(start, **kw)
        else:
            exp = construct(DotExporter, "dot", start, kw, case.get("positional"))
    lines = []
    part = case.get("partial", 0)
    if part:
        from anytree import PreOrderIter
        n_nodes = len(list(PreOrderIter(start, filter_=kw.get("filter_"), stop=kw.get("stop"), maxlevel=kw.get("maxlevel"))))
        it = iter(exp)
        for _ in range(1 + len(case.get("options") or []) + min(part, n_nodes)):
            next(it)                   # an abandoned first iteration: header, options, `part` node lines
    il = case.get("interleave")
    if il:
        # two live iterators of ONE exporter: the first is paused after il[0] lines, a second one is started, advanced
        # il[1] lines and left unfinished, then the first is resumed - it must yield what an undisturbed iteration yields
        it1 = iter(exp)
        first = []
        for _ in range(il[0]):
            try:
                first.append(next(it1))
            except StopIteration:
                break
        it2 = iter(exp)
        for _ in range(il[1]):
            try:
                next(it2)
            except StopIteration:
                break
        return first + list(it1)
    mseq = case.get("maxlevel_seq") or []
    seq = case.get("seq") or []
    if (mseq or (seq and (case.get("seq_assign") or any(ov and "maxlevel" in ov for ov in seq)))) and \
            not all(hasattr(exp, a) for a in ("filter_", "stop", "maxlevel")):
        # the settings are not kept in public attributes (any more): nothing to reassign, the case does not apply
        return {"skip": "exporter settings are not public attributes"}
    for i in range(case.get("iterations", 1)):
        if i < len(mseq):
            exp.maxlevel = mseq[i]         # the exporter's public attribute changed between two iterations
        ov = seq[i] if i < len(seq) else None
        if ov:
            for l, v in ov.get("names", []):
                if index[l].name != v:
                    index[l].name = v      # the tree was renamed between two iterations
            if "filter_out" in ov:
                if case.get("seq_assign"):
                    exp.filter_ = (lambda s_: (lambda n: n.label not in s_))(set(ov["filter_out"]))
                else:
                    fo.clear()
                    fo.update(ov["filter_out"])      # the predicate reads mutable state
            if "stop" in ov:
                if case.get("seq_assign"):
                    exp.stop = (lambda s_: (lambda n: n.label in s_))(set(ov["stop"]))
                else:
                    st.clear()
                    st.update(ov["stop"])
            if "maxlevel" in ov:
                exp.maxlevel = ov["maxlevel"]
        lines.extend(list(exp))
    if case.get("tofile"):
        # the file writers must emit the same lines (Mermaid: inside a ```mermaid fence)
        with tempfile.TemporaryDirectory() as d:
            fn = os.path.join(d, "out.txt")
            if kind == "mermaid":
                MermaidExporter(start, **kw).to_file(fn)
                text = open(fn, encoding="utf-8").read()
                once = list(MermaidExporter(start, **kw))
                if text != "```mermaid\n" + "".join(l + "\n" for l in once) + "```":
                    return {"tofile_mismatch": text}
            else:
                cls = UniqueDotExporter if kind == "unique" else DotExporter
                cls(start, **kw).to_dotfile(fn)
                text = open(fn, encoding="utf-8").read()
                once = list(cls(start, **kw))
                if text != "".join(l + "\n" for l in once):
                    return {"tofile_mismatch": text}
    return lines
