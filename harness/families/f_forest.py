"""Family `forest`: histories of structural calls on real node objects, with logged hooks that raise
according to the per-call fault schedule. One result per op: res / snapshot / hook log."""
import anytree
from anytree import NodeMixin, LightNodeMixin, Node, AnyNode, SymlinkNode


class AbortMarker(object):
    """what a vetoing hook raises: recognised by this marker; the exception's own class varies (a hook may state its
    rule with `assert`, raise ValueError, or one of the library's own exception classes - none may be treated specially)"""
    tag = None


def _abort_class(base):
    class _Abort(AbortMarker, base):
        def __init__(self, i, kind, label):
            base.__init__(self, "hook %d %s %s" % (i, kind, label))
            self.tag = "HookAbort:%d:%s:%d" % (i, kind, label)
    _Abort.__name__ = "HookAbort_" + base.__name__
    return _Abort


HookAbort = _abort_class(Exception)
ABORT_CLASSES = [HookAbort, _abort_class(AssertionError), _abort_class(ValueError), _abort_class(anytree.TreeError),
                 _abort_class(anytree.LoopError), _abort_class(KeyError), _abort_class(TypeError), _abort_class(AttributeError)]


class Ctl(object):
    def __init__(self):
        self.ids = {}        # id(node) -> label
        self.nodes = []      # label -> node
        self.counter = 0
        self.rule = None
        self.log = []
        self.salt = 0        # varies the class of the exception a vetoing hook raises (set per operation)
        self.nested = False  # inside a structural call made by a hook
        self.pinned = set()  # labels of nodes whose class refuses any change of their parent (classes overriding `parent`)
        self.armed = False

    def register(self, node):
        self.ids[id(node)] = len(self.nodes)
        self.nodes.append(node)

    def label(self, node):
        return self.ids.get(id(node), -1)

    def snapshot(self):
        return [[None if n.parent is None else self.label(n.parent), [self.label(c) for c in n.children]]
                for n in self.nodes]

    def begin(self, rule):
        self.counter = 0
        self.rule = rule or {}
        self.log = []

    def hook(self, node, kind, arg):
        lab = self.label(node)
        if isinstance(arg, tuple):
            a = [self.label(x) for x in arg]
        elif kind.endswith("_children"):
            a = ["not-a-tuple:%s" % type(arg).__name__]      # the hooks are documented to receive the children tuple
        else:
            a = [self.label(arg)]
        self.log.append([kind, lab, a, self.snapshot()])
        i = self.counter
        self.counter += 1
        r = self.rule
        if i in r.get("at", ()) or (kind in r.get("kinds", ()) and (r.get("nodes") is None or lab in r["nodes"])):
            raise ABORT_CLASSES[(i + self.salt) % len(ABORT_CLASSES)](i, kind, lab)
        re = r.get("reenter")
        if re and re["at"] == i and not self.nested:
            # a re-entrant hook: it detaches ANOTHER node (never the one the hook belongs to) while the call is in progress
            target = self.nodes[re["y"]]
            if target is not node and target.parent is not None:
                self.nested = True
                try:
                    target.parent = None
                finally:
                    self.nested = False


def make_classes(ctl):
    class H(object):
        __slots__ = ()

        def _pre_detach(self, parent):
            ctl.hook(self, "pre_detach", parent)

        def _post_detach(self, parent):
            ctl.hook(self, "post_detach", parent)

        def _pre_attach(self, parent):
            ctl.hook(self, "pre_attach", parent)

        def _post_attach(self, parent):
            ctl.hook(self, "post_attach", parent)

        def _pre_detach_children(self, children):
            ctl.hook(self, "pre_detach_children", children)

        def _post_detach_children(self, children):
            ctl.hook(self, "post_detach_children", children)

        def _pre_attach_children(self, children):
            ctl.hook(self, "pre_attach_children", children)

        def _post_attach_children(self, children):
            ctl.hook(self, "post_attach_children", children)

    class NM(H, NodeMixin):
        def __init__(self, parent=None, children=None):
            ctl.register(self)
            self.name = "n%d" % ctl.label(self)
            self.parent = parent
            if children:
                self.children = children

    class EQ(NM):
        """user class with value equality: every two nodes compare equal (hashable)"""

        def __eq__(self, other):
            return isinstance(other, EQ)

        def __ne__(self, other):
            return not isinstance(other, EQ)

        def __hash__(self):
            return 3

    class ND(H, Node):
        def __init__(self, parent=None, children=None):
            ctl.register(self)
            Node.__init__(self, "n%d" % ctl.label(self), parent=parent, children=children)

    class AN(H, AnyNode):
        def __init__(self, parent=None, children=None):
            ctl.register(self)
            AnyNode.__init__(self, parent=parent, children=children, tag=ctl.label(self), name="n%d" % ctl.label(self))

    target = AnyNode(tag="target", name="target")

    class SL(H, SymlinkNode):
        def __init__(self, parent=None, children=None):
            ctl.register(self)
            SymlinkNode.__init__(self, target, parent=parent, children=children)

    class LT(H, LightNodeMixin):
        __slots__ = ("name",)

        def __init__(self, parent=None, children=None):
            ctl.register(self)
            self.name = "n%d" % ctl.label(self)
            self.parent = parent
            if children:
                self.children = children

    class LTEQ(LT):
        __slots__ = ()

        def __eq__(self, other):
            return isinstance(other, LTEQ)

        def __ne__(self, other):
            return not isinstance(other, LTEQ)

        def __hash__(self):
            return 3

    class NMF(NM):
        """a user NodeMixin class whose instances are falsy"""

        def __bool__(self):
            return False

    class LTF(LT):
        """... and its LightNodeMixin twin"""
        __slots__ = ()

        def __bool__(self):
            return False

    class NDF(ND):
        """a Node subclass that is falsy and has length 0 (a node nevertheless)"""

        def __bool__(self):
            return False

        def __len__(self):
            return 0

    class ANL(AN):
        """an AnyNode subclass with container semantics: falsy exactly while it has no children"""

        def __len__(self):
            return len(self.children)

    class NMP(NM):
        """a user class that overrides the public `parent` attribute to refuse moves of pinned nodes; every detach and
        attach the library performs goes through this attribute"""

        @property
        def parent(self):
            return NodeMixin.parent.fget(self)

        @parent.setter
        def parent(self, value):
            if ctl.armed and ctl.label(self) in ctl.pinned:
                raise anytree.TreeError("node %d is pinned" % ctl.label(self))
            NodeMixin.parent.fset(self, value)

    class LTP(LT):
        """... and its LightNodeMixin twin"""
        __slots__ = ()

        @property
        def parent(self):
            return LightNodeMixin.parent.fget(self)

        @parent.setter
        def parent(self, value):
            if ctl.armed and ctl.label(self) in ctl.pinned:
                raise anytree.TreeError("node %d is pinned" % ctl.label(self))
            LightNodeMixin.parent.fset(self, value)

    class NMS(NM):
        """a user class that uses the names of derived read-only attributes for data of its own (a file-system entry whose
        `path` is a string, ...): the structural calls are defined by the parent links alone and never consult them"""
        path = "/a/string/path"
        ancestors = "not-a-tuple-of-nodes"
        root = None
        depth = -3
        height = -3
        siblings = None
        descendants = None
        leaves = None
        is_leaf = True
        is_root = True
        size = 0

    class LTS(LT):
        """... and its LightNodeMixin twin"""
        __slots__ = ()
        path = "/a/string/path"
        ancestors = "not-a-tuple-of-nodes"
        root = None
        depth = -3
        height = -3
        siblings = None
        descendants = None
        leaves = None
        is_leaf = True
        is_root = True
        size = 0

    return {"mixin": NM, "node": ND, "anynode": AN, "symlink": SL, "light": LT, "eqmixin": EQ, "lighteq": LTEQ,
            "falsynode": NDF, "lenany": ANL, "falsymixin": NMF, "lightfalsy": LTF, "shadowmixin": NMS, "lightshadow": LTS,
            "pinmixin": NMP, "lightpin": LTP}


class NotANode(object):
    pass


class FalsyNotANode(object):
    def __bool__(self):
        return False

    def __len__(self):
        return 0


def convert(val, how):
    """the right-hand side of a children assignment may be any iterable"""
    if how == "tuple":
        return tuple(val)
    if how == "iter":
        return iter(val)
    if how == "gen":
        return (x for x in list(val))
    return val


def exc_tag(e):
    if isinstance(e, AbortMarker):
        return e.tag
    return type(e).__name__


def impl(case):
    import sys
    old_limit = sys.getrecursionlimit()
    sys.setrecursionlimit(220)      # a persistent veto of the restore recurses without bound (finding K4);
    try:                            # the histories here never nest legitimately deeper than a few frames
        return _impl(case)
    finally:
        sys.setrecursionlimit(old_limit)


def _impl(case):
    ctl = Ctl()
    classes = make_classes(ctl)
    cls = classes[case.get("cls") or ("light" if case["fl"] == "light" else "mixin")]
    mixed = case.get("mixed")          # optional list of class names per created node (round-robin)
    created = [0]

    def pick():
        if mixed:
            c = classes[mixed[created[0] % len(mixed)]]
        else:
            c = cls
        created[0] += 1
        return c

    ctl.begin(None)
    for _ in range(case["n0"]):
        pick()()

    nonnode_count = [0]
    opkey = [0]

    def arg(v):
        if v is None:
            return None
        if v == "x":
            # an object that is no tree node: one that accepts attributes, a string, a number - in turn (a non-node is
            # refused before it is touched, so its nature must not matter)
            nonnode_count[0] += 1
            return ("not-a-node", NotANode(), 17, 2.5)[(nonnode_count[0] + opkey[0]) % 4]
        if v == "y":
            nonnode_count[0] += 1
            return (FalsyNotANode(), "", 0)[(nonnode_count[0] + opkey[0]) % 3]
        return ctl.nodes[v]

    out = []
    ctl.pinned = set(case.get("pinned") or ())
    arm_at = case.get("pin_after", 0)
    for opi, op in enumerate(case["ops"]):
        ctl.armed = bool(ctl.pinned) and opi >= arm_at
        opkey[0] = len(repr(sorted((k, repr(v)) for k, v in op.items() if k != "faults")))
        ctl.begin(op.get("faults"))
        ctl.salt = opkey[0]
        res = "ok"
        try:
            k = op["op"]
            if k == "sp":
                ctl.nodes[op["n"]].parent = arg(op["v"])
            elif k == "sc":
                xs = op["xs"]
                val = 5 if xs is None else convert([arg(x) for x in xs], op.get("as"))
                ctl.nodes[op["n"]].children = val
            elif k == "dc":
                del ctl.nodes[op["n"]].children
            elif k == "ctor":
                cs = op["cs"]
                kids = None if cs is None else (5 if cs == "x" else convert([arg(x) for x in cs], op.get("as") if cs else None))
                pick()(parent=arg(op["p"]), children=kids)
            else:
                raise ValueError(k)
        except RecursionError:
            res = "RecursionError"
        except Exception as e:
            res = exc_tag(e)
        lv = case.get("loglevel", 2)
        log = ctl.log if lv == 2 else ([e[:3] for e in ctl.log] if lv == 1 else None)
        out.append({"res": res, "snap": ctl.snapshot(), "log": log})
        if res == "RecursionError":
            break
    return out
