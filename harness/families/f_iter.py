import anytree
from anytree import (PreOrderIter, PostOrderIter, LevelOrderIter, LevelOrderGroupIter, ZigZagGroupIter)
from .util import build, CLASSES, snapshot

KINDS = {"pre": PreOrderIter, "post": PostOrderIter, "level": LevelOrderIter,
         "group": LevelOrderGroupIter, "zigzag": ZigZagGroupIter}


def impl(case):
    root, idx = build(case["tree"], CLASSES[case.get("cls", "nm")])
    fout = set(case["filter_out"])
    stop = set(case["stop"])
    # default arguments are passed as None when the sets are empty and the case asks for it
    filter_ = (lambda n: n.label not in fout) if (fout or not case.get("defaults")) else None
    stop_ = (lambda n: n.label in stop) if (stop or not case.get("defaults")) else None
    before = snapshot(idx)
    it = KINDS[case["kind"]](idx[case["start"]], filter_=filter_, stop=stop_, maxlevel=case["maxlevel"])
    grouped = case["kind"] in ("group", "zigzag")
    conv = (lambda g: [n.label for n in g]) if grouped else (lambda n: n.label)
    mode = case.get("consume") or "list"
    proto = []
    if mode == "list":
        res = [conv(x) for x in it]
    else:
        # the iterator object is a one-pass stream (`__iter__` returns the object itself): however it is
        # consumed - a `for` loop left early, explicit next() calls, several iter() handles - the pieces
        # concatenate to the one defined order, and an exhausted iterator stays exhausted
        k = case.get("k", 1)
        res = []
        if mode == "forbreak":
            if k > 0:
                for x in it:
                    res.append(conv(x))
                    if len(res) >= k:
                        break
            res.extend(conv(x) for x in it)
        elif mode == "next":
            for _ in range(k):
                try:
                    res.append(conv(next(it)))
                except StopIteration:
                    break
            res.extend(conv(x) for x in it)
        elif mode == "twoiters":
            i1, i2 = iter(it), iter(it)
            if i1 is not it or i2 is not it:
                proto.append("iter(it) is not it")
            for _ in range(k):
                try:
                    res.append(conv(next(i1)))
                except StopIteration:
                    break
            res.extend(conv(x) for x in i2)
            res.extend(conv(x) for x in i1)
        again = [conv(x) for x in it]
        if again:
            proto.append("exhausted iterator yielded again: %r" % (again[:3],))
        try:
            next(it)
            proto.append("next() on an exhausted iterator returned")
        except StopIteration:
            pass
    if snapshot(idx) != before:
        return {"mutated": True, "res": res}
    if proto:
        return {"protocol": proto, "res": res}
    return res
