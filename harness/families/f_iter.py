import anytree
from anytree import (PreOrderIter, PostOrderIter, LevelOrderIter, LevelOrderGroupIter, ZigZagGroupIter)
from .util import build, CLASSES, snapshot

KINDS = {"pre": PreOrderIter, "post": PostOrderIter, "level": LevelOrderIter,
         "group": LevelOrderGroupIter, "zigzag": ZigZagGroupIter}


def impl(case):
    root, idx = build(case["tree"], CLASSES[case.get("cls", "nm")])
    fout = set(case["filter_out"])
    stop = set(case["stop"])
    # default arguments are passed as None when the sets are empty and the case asks for it
    filter_ = (lambda n: n.label not in fout) if (fout or not case.get("defaults")) else None
    stop_ = (lambda n: n.label in stop) if (stop or not case.get("defaults")) else None
    before = snapshot(idx)
    it = KINDS[case["kind"]](idx[case["start"]], filter_=filter_, stop=stop_, maxlevel=case["maxlevel"])
    if case["kind"] in ("group", "zigzag"):
        res = [[n.label for n in grp] for grp in it]
    else:
        res = [n.label for n in it]
    if snapshot(idx) != before:
        return {"mutated": True, "res": res}
    return res
