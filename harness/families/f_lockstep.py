"""Family `lockstep` (C18): one history on a NodeMixin class and on a LightNodeMixin class, plus every
read-only query on the resulting trees."""
from . import f_forest
from .observe import observe


def run_one(case, clsname):
    ctl = f_forest.Ctl()
    classes = f_forest.make_classes(ctl)
    cls = classes[clsname]
    ctl.begin(None)
    for _ in range(case["n0"]):
        cls()
    out = []
    ctl.pinned = set(case.get("pinned") or ())
    arm_at = case.get("pin_after", 0)
    for opi, op in enumerate(case["ops"]):
        ctl.armed = opi >= arm_at          # the pins take effect after an initial building phase
        ctl.begin(op.get("faults"))
        ctl.salt = len(repr(sorted((k, repr(v)) for k, v in op.items() if k != "faults")))
        res = "ok"
        try:
            k = op["op"]
            if k == "sp":
                ctl.nodes[op["n"]].parent = None if op["v"] is None else ctl.nodes[op["v"]]
            elif k == "sc":
                ctl.nodes[op["n"]].children = (5 if op["xs"] is None else
                                               f_forest.convert([ctl.nodes[x] for x in op["xs"]], op.get("as")))
            elif k == "dc":
                del ctl.nodes[op["n"]].children
            elif k == "ctor":
                cs = op["cs"]
                kids = None if cs is None else (5 if cs == "x" else
                                                f_forest.convert([ctl.nodes[x] for x in cs], op.get("as") if cs else None))
                cls(parent=None if op["p"] is None else ctl.nodes[op["p"]], children=kids)
        except RecursionError:
            res = "RecursionError"
        except Exception as e:
            res = f_forest.exc_tag(e)
        rec = {"res": res, "snap": ctl.snapshot(), "log": ctl.log}
        if case.get("observe_each") and res != "RecursionError":
            # every read-only query after *every* call (a value computed earlier must not survive a later change)
            ctl.begin(None)
            rec["obs"] = observe(ctl.nodes, ctl.label, case.get("params", {}))
        out.append(rec)
        if res == "RecursionError":
            break
    ctl.begin(None)
    obs = observe(ctl.nodes, ctl.label, case.get("params", {}))
    return out, obs


def impl(case):
    import sys
    old = sys.getrecursionlimit()
    sys.setrecursionlimit(220)
    try:
        n_ops, n_obs = run_one(case, case.get("nmcls", "mixin"))
        l_ops, l_obs = run_one(case, {"eqmixin": "lighteq", "falsymixin": "lightfalsy", "pinmixin": "lightpin"}.get(case.get("nmcls"), "light"))
    finally:
        sys.setrecursionlimit(old)
    return {"nm": n_ops, "light": l_ops, "nm_obs": n_obs, "light_obs": l_obs}
