"""Family `nav`: every navigation attribute of every node (static forest or after each call of a history)."""
import warnings

import anytree
from anytree import util as autil
from . import f_forest
from .util import build, CLASSES

warnings.simplefilter("ignore")


def attrs(n, lab):
    left = autil.leftsibling(n)
    right = autil.rightsibling(n)
    return {
        "path": [lab(x) for x in n.path],
        "ancestors": [lab(x) for x in n.ancestors],
        "root": lab(n.root),
        "depth": n.depth,
        "is_root": n.is_root,
        "is_leaf": n.is_leaf,
        "siblings": [lab(x) for x in n.siblings],
        "descendants": [lab(x) for x in n.descendants],
        "leaves": [lab(x) for x in n.leaves],
        "size": n.size,
        "height": n.height,
        "left": None if left is None else lab(left),
        "right": None if right is None else lab(right),
    }


def impl(case):
    tups = case.get("ca", [])
    if "trees" in case:
        index = {}
        if case.get("cls") == "sortedview":
            # the case's trees list the children sorted by label; they are attached in the opposite order
            from .util import SortedView, reversed_tree
            for t in case["trees"]:
                build(reversed_tree(t), SortedView, None, index)
        elif case.get("cls") == "links":
            from .util import build_links
            labels = {}
            for t in case["trees"]:
                build_links(t, index, labels)
            lab = lambda x: labels[id(x)]
            # links first, then their targets, then everything again: a value remembered in the wrong place shows on the second reading
            order = sorted(index, key=lambda k: (k % 2 == 0, k))
            for k in order:
                attrs(index[k], lab)
            nav = {str(k): attrs(index[k], lab) for k in index}
            ca = [[lab(x) for x in autil.commonancestors(*[index[l] for l in tup])] for tup in tups]
            return {"nav": nav, "ca": ca}
        else:
            cls = CLASSES[case.get("cls", "nm")]
            for t in case["trees"]:
                build(t, cls, None, index)
        lab = lambda x: x.label
        nav = {str(k): attrs(n, lab) for k, n in index.items()}
        ca = [[lab(x) for x in autil.commonancestors(*[index[l] for l in tup])] for tup in tups]
        return {"nav": nav, "ca": ca}
    ctl = f_forest.Ctl()
    classes = f_forest.make_classes(ctl)
    cls = classes[case.get("cls") or ("light" if case["fl"] == "light" else "mixin")]
    ctl.begin(None)
    for _ in range(case["n0"]):
        cls()
    out = []

    def arg(v):
        if v is None:
            return None
        if v == "x":
            return f_forest.NotANode()
        return ctl.nodes[v]

    for op in case["ops"]:
        ctl.begin(op.get("faults"))
        res = "ok"
        try:
            k = op["op"]
            if k == "sp":
                ctl.nodes[op["n"]].parent = arg(op["v"])
            elif k == "sc":
                xs = op["xs"]
                ctl.nodes[op["n"]].children = 5 if xs is None else [arg(x) for x in xs]
            elif k == "dc":
                del ctl.nodes[op["n"]].children
            elif k == "ctor":
                cs = op["cs"]
                kids = None if cs is None else (5 if cs == "x" else [arg(x) for x in cs])
                cls(parent=arg(op["p"]), children=kids)
        except RecursionError:
            res = "RecursionError"
        except Exception as e:
            res = f_forest.exc_tag(e)
        ctl.begin(None)
        lab = ctl.label
        nav = {str(i): attrs(n, lab) for i, n in enumerate(ctl.nodes)}
        ca = [[lab(x) for x in autil.commonancestors(*[ctl.nodes[l] for l in tup if l < len(ctl.nodes)])]
              for tup in tups]
        out.append({"res": res, "nav": nav, "ca": ca})
        if res == "RecursionError":
            break
    return out
