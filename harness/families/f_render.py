import anytree
from anytree import NodeMixin, Node, AnyNode, SymlinkNode, RenderTree
from anytree import render as R

STYLES = {"AsciiStyle": R.AsciiStyle, "ContStyle": R.ContStyle, "ContRoundStyle": R.ContRoundStyle,
          "DoubleStyle": R.DoubleStyle}


class RNode(NodeMixin):
    def __init__(self, label, parent=None):
        self.label = label
        self.parent = parent
        self.repr_text = "n%d" % label

    def __repr__(self):
        return self.repr_text

    def __str__(self):
        return "str-of-%d" % self.label      # str(RenderTree) must use repr(node), never str(node)


class RLen(RNode):
    """container-like: falsy exactly while it has no children"""

    def __len__(self):
        return len(self.children)


class RFalsy(RNode):
    def __bool__(self):
        return False


class REq(RNode):
    def __eq__(self, other):
        return isinstance(other, RNode)

    def __ne__(self, other):
        return not isinstance(other, RNode)

    def __hash__(self):
        return 9


RCLASSES = {"len": RLen, "falsy": RFalsy, "eq": REq}


def build(t, parent, index, cls=RNode):
    n = cls(t[0], parent)
    index[t[0]] = n
    for c in t[1]:
        build(c, n, index, cls)
    return n


CHILDITER = {
    "list": list,
    "reversed": lambda cs: list(reversed(cs)),
    "sorted": lambda cs: sorted(cs, key=lambda n: n.label),
    "drop_odd": lambda cs: [c for c in cs if c.label % 2 == 0],
}


def impl(case):
    if "repr" in case:
        r = case["repr"]
        kind = r["kind"]
        attrs = {k: eval(v) for k, v in r["attr_src"]}     # harness-generated literals only
        if kind == "node":
            cls = type("Node", (Node,), {"separator": r["sep"]})
            parent = None
            for nm in r["names"][:-1]:
                parent = cls(nm, parent=parent)
            n = cls(r["names"][-1], parent=parent, **attrs)
        elif kind == "anynode":
            n = AnyNode(**attrs)
        else:
            target = AnyNode(**attrs)
            n = SymlinkNode(target)
        return {"repr": repr(n), "path": None if kind != "node" else
                r["sep"].join([""] + [str(x.name) for x in n.path])}
    index = {}
    build(case["tree"], None, index, RCLASSES.get(case.get("cls"), RNode))
    start = index[case["start"]]
    st = case["style"]
    if isinstance(st, str):
        style = STYLES[st]() if case.get("style_instance", True) else STYLES[st]
    else:
        how = (len(st[0]) + len(case.get("lines", []))) % 3
        if how == 0:
            style = R.AbstractStyle(st[0], st[1], st[2])
        elif how == 1:
            # a subclass of a built-in style that replaces the three strings after the base constructor has run
            class Restyled(R.AsciiStyle):
                def __init__(self, v, c, e):
                    R.AsciiStyle.__init__(self)
                    self.vertical, self.cont, self.end = v, c, e
            style = Restyled(st[0], st[1], st[2])
        else:
            # a style instance whose strings are reassigned after construction
            style = R.ContStyle()
            style.vertical, style.cont, style.end = st[0], st[1], st[2]
    kw = {"style": style, "childiter": CHILDITER[case.get("childiter", "list")]}
    if case["maxlevel"] is not None or not case.get("defaults"):
        kw["maxlevel"] = case["maxlevel"]
    if case.get("default_style"):
        del kw["style"]
    rt = RenderTree(start, **kw)
    # earlier, abandoned uses of the same RenderTree object: every rendering starts afresh, whatever happened before
    for prior in case.get("prior", ()):
        if prior["kind"] == "break":
            seen = 0
            for _row in rt:
                seen += 1
                if seen >= prior["k"]:
                    break
        elif prior["kind"] == "raise":
            calls = [0]

            def boom(node, calls=calls, k=prior["k"]):
                calls[0] += 1
                if calls[0] >= k:
                    raise KeyError("user callable")
                return "x"
            try:
                rt.by_attr(boom)
            except KeyError:
                pass
        elif prior["kind"] == "next":
            it = iter(rt)
            for _ in range(prior["k"]):
                try:
                    next(it)
                except StopIteration:
                    break
    rows = [[pre, fill, node.label] for pre, fill, node in rt]
    mode = case.get("mode", "str")
    lines = {l: ls for l, ls in case["lines"]}
    for lab, n in index.items():
        src = case["values"].get(str(lab))
        if src is None:
            continue
        val = src["v"]
        if mode in ("attr", "callable"):
            if src["t"] == "tuple":
                val = tuple(val)
            n.text = val
        elif mode == "repr":
            n.repr_text = val
    if mode == "attr":
        text = rt.by_attr("text")
    elif mode == "callable":
        text = rt.by_attr(lambda node: getattr(node, "text", ""))
    elif mode == "repr":
        text = str(rt)
    else:
        text = rt.by_attr("label")
    return {"rows": rows, "text": text, "decoded_size": None}
