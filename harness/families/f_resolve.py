import anytree
from anytree import NodeMixin, Resolver, ResolverError, RootResolverError, ChildResolverError


class NoneName(object):
    """marker: set the attribute to None (prints as 'None'), as opposed to leaving it unset"""


RAW = {"0": 0, "1": 1, "0.0": 0.0, "False": False, "True": True, "None": NoneName}


def make_cls(sep, pathattr, kind=None):
    class RN(NodeMixin):
        separator = sep

        def __init__(self, label, name, parent=None):
            self.label = label
            if name is NoneName:
                setattr(self, pathattr, None)
            elif name is not None:
                setattr(self, pathattr, name)
            self.parent = parent

        def __repr__(self):
            return "RN%d" % self.label

    if kind == "len":
        class RNLen(RN):
            """container-like: falsy exactly while it has no children (every leaf is falsy)"""

            def __len__(self):
                return len(self.children)
        return RNLen
    if kind == "falsy":
        class RNFalsy(RN):
            def __bool__(self):
                return False
        return RNFalsy
    if kind == "eq":
        class RNEq(RN):
            def __eq__(self, other):
                return isinstance(other, RN)

            def __ne__(self, other):
                return not isinstance(other, RN)

            def __hash__(self):
                return 5
        return RNEq
    return RN


def build(t, names, cls, parent, index):
    n = cls(t[0], names.get(t[0]), parent)
    index[t[0]] = n
    for c in t[1]:
        build(c, names, cls, n, index)
    return n


def err(e):
    child = e.child
    if isinstance(e, RootResolverError):
        k = "RootResolverError"
    elif isinstance(e, ChildResolverError):
        k = "ChildResolverError"
    else:
        k = "ResolverError"
    return {"err": [k, e.node.label, child]}


def impl(case):
    Resolver._match_cache.clear()          # class-level cache: start every case from the same state
    sep = case.get("sep", "/")
    pathattr = case.get("pathattr", "name")
    cls = make_cls(sep, pathattr, case.get("cls"))
    names = {k: v for k, v in case["names"]}
    # the path attribute may hold any object: the resolver compares its str().  Some names are stored as the
    # non-string object that prints as the name (0, 1, 0.0, False, None)
    typed = set(case.get("typed", ()))
    for k in list(names):
        if k in typed and names[k] in RAW:
            names[k] = RAW[names[k]]
    index = {}
    build(case["tree"], names, cls, None, index)
    out = []
    shared = None
    for q in case["queries"]:
        if q["fn"] == "rename":
            setattr(index[q["label"]], pathattr, q["name"])      # renamed between two queries
            out.append({"ok": None})
            continue
        if case.get("reuse"):
            # one Resolver object for the whole case: its public attributes are reassigned between the calls
            if shared is None:
                shared = Resolver(pathattr, ignorecase=q["ignorecase"], relax=q["relax"])
                if not all(hasattr(shared, a) for a in ("ignorecase", "relax")):
                    return {"skip": "resolver settings are not public attributes"}
            shared.ignorecase = q["ignorecase"]
            shared.relax = q["relax"]
            r = shared
        else:
            r = Resolver(pathattr, ignorecase=q["ignorecase"], relax=q["relax"])
        start = index[q["start"]]
        try:
            if q["fn"] == "get":
                n = r.get(start, q["path"])
                out.append({"ok": None if n is None else n.label})
            else:
                ns = r.glob(start, q["path"])
                out.append({"ok": [n.label for n in ns]})
        except ResolverError as e:
            out.append(err(e))
        except Exception as e:
            out.append({"exc": type(e).__name__})
    return out
