import anytree
from anytree import NodeMixin, Resolver, ResolverError, RootResolverError, ChildResolverError


def make_cls(sep, pathattr):
    class RN(NodeMixin):
        separator = sep

        def __init__(self, label, name, parent=None):
            self.label = label
            if name is not None:
                setattr(self, pathattr, name)
            self.parent = parent

        def __repr__(self):
            return "RN%d" % self.label
    return RN


def build(t, names, cls, parent, index):
    n = cls(t[0], names.get(t[0]), parent)
    index[t[0]] = n
    for c in t[1]:
        build(c, names, cls, n, index)
    return n


def err(e):
    child = e.child
    if isinstance(e, RootResolverError):
        k = "RootResolverError"
    elif isinstance(e, ChildResolverError):
        k = "ChildResolverError"
    else:
        k = "ResolverError"
    return {"err": [k, e.node.label, child]}


def impl(case):
    Resolver._match_cache.clear()          # class-level cache: start every case from the same state
    sep = case.get("sep", "/")
    pathattr = case.get("pathattr", "name")
    cls = make_cls(sep, pathattr)
    names = {k: v for k, v in case["names"]}
    index = {}
    build(case["tree"], names, cls, None, index)
    out = []
    for q in case["queries"]:
        r = Resolver(pathattr, ignorecase=q["ignorecase"], relax=q["relax"])
        start = index[q["start"]]
        try:
            if q["fn"] == "get":
                n = r.get(start, q["path"])
                out.append({"ok": None if n is None else n.label})
            else:
                ns = r.glob(start, q["path"])
                out.append({"ok": [n.label for n in ns]})
        except ResolverError as e:
            out.append(err(e))
        except Exception as e:
            out.append({"exc": type(e).__name__})
    return out
