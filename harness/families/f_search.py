import re

import anytree
from anytree import search, cachedsearch
from .util import build, CLASSES

NUM = re.compile(r"-?\d+")


def canon_count_error(e):
    msg = str(e)
    nums = [int(x) for x in NUM.findall(msg)[:2]]
    return {"CountError": [msg.startswith("Expecting at least"), nums[0], nums[1]]}


def impl(case):
    cls = CLASSES[case.get("cls", "nm")]
    root, index = build(case["tree"], cls)
    if cls is CLASSES["nm"]:
        for lab, name, val in case["attrs"]:
            setattr(index[lab], name, val)
        attrs_ok = True
    else:
        attrs_ok = False       # slots class: no extra attributes
    mod = cachedsearch if case.get("module") == "cachedsearch" else search
    start = index[case["start"]]
    out = []
    for q in case["queries"]:
        fn = q["fn"]
        try:
            if fn in ("findall", "find"):
                fo, st = set(q["filter_out"]), set(q["stop"])
                kw = {}
                if fo or not q.get("defaults"):
                    kw["filter_"] = lambda n: n.label not in fo
                if st or not q.get("defaults"):
                    kw["stop"] = lambda n: n.label in st
                if q["maxlevel"] is not None or not q.get("defaults"):
                    kw["maxlevel"] = q["maxlevel"]
                if fn == "findall":
                    if q["mincount"] is not None or not q.get("defaults"):
                        kw["mincount"] = q["mincount"]
                    if q["maxcount"] is not None or not q.get("defaults"):
                        kw["maxcount"] = q["maxcount"]
                    r = mod.findall(start, **kw)
                    out.append({"ok": [n.label for n in r]})
                else:
                    r = mod.find(start, **kw)
                    out.append({"ok": None if r is None else r.label})
            elif fn == "findall_by_attr":
                r = mod.findall_by_attr(start, q["value"], name=q["name"], maxlevel=q["maxlevel"],
                                        mincount=q["mincount"], maxcount=q["maxcount"])
                out.append({"ok": [n.label for n in r]})
            elif fn == "find_by_attr":
                r = mod.find_by_attr(start, q["value"], name=q["name"], maxlevel=q["maxlevel"])
                out.append({"ok": None if r is None else r.label})
        except search.CountError as e:
            out.append(canon_count_error(e))
        except Exception as e:
            out.append({"exc": type(e).__name__})
    return out
