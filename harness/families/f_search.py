import re

import anytree
from anytree import search, cachedsearch
from .util import build, CLASSES

NUM = re.compile(r"-?\d+")
_MISSING = object()
STORED = ("x", "y")



class _Any(object):
    """a search value that compares equal to everything (like unittest.mock.ANY): selects the nodes that have the attribute"""

    def __eq__(self, other):
        return True

    def __ne__(self, other):
        return False

    def __hash__(self):
        return 7

    def __repr__(self):
        return "<ANY>"


_ANY = _Any()
_NAN = float("nan")      # a value that does not equal itself; ONE object, stored as attribute and used as search value


class _Version(object):
    """a value whose __eq__ assumes its operand is of its own kind (`other.major`): comparing it with anything else raises
    AttributeError - which the by-attr searches promise never to let escape (such a node simply does not match)"""

    def __init__(self, major):
        self.major = major

    def __eq__(self, other):
        return self.major == other.major

    def __ne__(self, other):
        return self.major != other.major

    def __hash__(self):
        return hash(self.major)

    def __repr__(self):
        return "<VER>"


_VER = _Version(3)


def _val(v):
    return _ANY if v == "<ANY>" else (_NAN if v == "<NAN>" else (_VER if v == "<VER>" else v))

def canon_count_error(e):
    msg = str(e)
    nums = [int(x) for x in NUM.findall(msg)[:2]]
    return {"CountError": [msg.startswith("Expecting at least"), nums[0], nums[1]]}


def _thunk(mod, start, q):
    """one query as a re-callable thunk: calling it twice passes the *same* argument objects (the same
    filter/stop functions, equal values), as a caller holding on to its predicates would"""
    fn = q["fn"]
    if fn in ("findall", "find"):
        fo, st = set(q["filter_out"]), set(q["stop"])
        kw = {}
        if fo or not q.get("defaults"):
            kw["filter_"] = lambda n: n.label not in fo
        if st or not q.get("defaults"):
            kw["stop"] = lambda n: n.label in st
        if q["maxlevel"] is not None or not q.get("defaults"):
            kw["maxlevel"] = q["maxlevel"]
        if fn == "findall":
            if q["mincount"] is not None or not q.get("defaults"):
                kw["mincount"] = q["mincount"]
            if q["maxcount"] is not None or not q.get("defaults"):
                kw["maxcount"] = q["maxcount"]
            return lambda: {"ok": [n.label for n in mod.findall(start, **kw)]}

        def find():
            r = mod.find(start, **kw)
            return {"ok": None if r is None else r.label}
        return find
    value = _val(q.get("value"))
    if fn == "findall_by_attr":
        return lambda: {"ok": [n.label for n in mod.findall_by_attr(
            start, value, name=q["name"], maxlevel=q["maxlevel"], mincount=q["mincount"], maxcount=q["maxcount"])]}
    if fn == "find_by_attr":
        def find_by_attr():
            r = mod.find_by_attr(start, value, name=q["name"], maxlevel=q["maxlevel"])
            return {"ok": None if r is None else r.label}
        return find_by_attr
    raise ValueError(fn)


def _run(thunk):
    try:
        return thunk()
    except search.CountError as e:
        return canon_count_error(e)
    except Exception as e:
        return {"exc": type(e).__name__}


def impl(case):
    cls = CLASSES[case.get("cls", "nm")]
    root, index = build(case["tree"], cls)
    if issubclass(cls, CLASSES["nm"]):
        for lab, name, val in case["attrs"]:
            if name in STORED:       # the table also lists what every node has anyway: label, properties, class defaults
                setattr(index[lab], name, _val(val))
    mod = cachedsearch if case.get("module") == "cachedsearch" else search
    start = index[case["start"]]
    thunks = [_thunk(mod, start, q) for q in case["queries"]]
    warm = case.get("warm")
    if warm:
        # the same calls were made earlier, on an earlier state of the same tree (other attribute values, one
        # more node): results must always describe the tree as it is *now*
        extra = cls(-1, parent=index[warm["under"]])
        saved = []
        if issubclass(cls, CLASSES["nm"]):
            extra.x = warm.get("xval", 0)
            for lab, name, val in warm.get("attrs", []):
                saved.append((lab, name, getattr(index[lab], name, _MISSING)))
                setattr(index[lab], name, _val(val))
        for t in thunks:
            _run(t)
        extra.parent = None
        for lab, name, old in reversed(saved):
            if old is _MISSING:
                delattr(index[lab], name)
            else:
                setattr(index[lab], name, old)
    return [_run(t) for t in thunks]
