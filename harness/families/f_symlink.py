"""Family `symlink` (C20): plain nodes and symlink nodes (links to links, to nodes of the same or another
tree); attribute writes/reads, constructor keywords and structural calls interleaved."""
import anytree
from anytree import AnyNode, Node, SymlinkNode, NodeMixin, SymlinkNodeMixin

SKIP = ("_NodeMixin__parent", "_NodeMixin__children", "target")


class UserLink(SymlinkNodeMixin):
    def __init__(self, target, parent=None, **kwargs):
        self.target = target
        for k, v in kwargs.items():
            setattr(self.target, k, v)
        self.parent = parent


def snapshot(objs):
    idx = {id(o): i for i, o in enumerate(objs)}
    return [[None if o.parent is None else idx[id(o.parent)], [idx[id(c)] for c in o.children]] for o in objs]


def impl(case):
    objs = []
    out = []
    for op in case["ops"]:
        k = op["op"]
        try:
            if k == "new":
                objs.append(AnyNode())
            elif k == "link":
                kw = {a: b for a, b in op["kw"]}
                cls = UserLink if (case.get("userlink") and not kw) else SymlinkNode
                objs.append(cls(objs[op["t"]], **kw))
            elif k == "set":
                setattr(objs[op["i"]], op["k"], op["v"])
            elif k == "get":
                try:
                    out.append({"v": getattr(objs[op["i"]], op["k"])})
                except AttributeError:
                    out.append("AttributeError")
            elif k == "dump":
                out.append([[[a, b] for a, b in o.__dict__.items() if a not in SKIP] for o in objs])
            elif k in ("sp", "sc", "dc"):
                res = "ok"
                try:
                    if k == "sp":
                        objs[op["n"]].parent = None if op["v"] is None else objs[op["v"]]
                    elif k == "sc":
                        objs[op["n"]].children = [objs[x] for x in op["xs"]]
                    else:
                        del objs[op["n"]].children
                except (anytree.LoopError, anytree.TreeError) as e:
                    res = type(e).__name__
                out.append({"res": res, "snap": snapshot(objs)})
        except RecursionError:
            out.append("RecursionError")
    return out
