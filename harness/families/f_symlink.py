"""Family `symlink` (C20): plain nodes and symlink nodes (links to links, to nodes of the same or another
tree); attribute writes/reads, constructor keywords and structural calls interleaved."""
import anytree
from anytree import AnyNode, Node, SymlinkNode, NodeMixin, SymlinkNodeMixin

def local(key):
    """a link's own entries: the mixin's (name-mangled) link attributes and `target`"""
    return key.startswith("_NodeMixin__") or key.startswith("_LightNodeMixin__") or key == "target"


class UserLink(SymlinkNodeMixin):
    def __init__(self, target, parent=None, **kwargs):
        self.target = target
        for k, v in kwargs.items():
            setattr(self.target, k, v)
        self.parent = parent


class PropLink(SymlinkNodeMixin):
    """a user link class whose `target` is a property (the mixin's contract is only that the instance HAS a `target`
    attribute; here it is looked up in a registry kept outside the instance dictionary)"""
    _registry = {}

    def __init__(self, target, parent=None, **kwargs):
        PropLink._registry[id(self)] = (self, target)
        for k, v in kwargs.items():
            setattr(self.target, k, v)
        self.parent = parent

    @property
    def target(self):
        return PropLink._registry[id(self)][1]


class Shortcut(SymlinkNode):
    """a user subclass of the link class with a class-level attribute of its own: reading `kind` on such a link - or on a
    link TO such a link - is answered by this class (ordinary attribute lookup on the link), not forwarded further"""
    kind = "shortcut"


class ROAny(AnyNode):
    """a target class with a read-only (getter-only) property: assigning `ro` raises AttributeError"""
    ro = property(lambda self: 42)


class FalsyTarget(AnyNode):
    def __bool__(self):
        return False

    def __len__(self):
        return 0


class EqTarget(AnyNode):
    def __eq__(self, other):
        return isinstance(other, AnyNode)

    def __ne__(self, other):
        return not isinstance(other, AnyNode)

    def __hash__(self):
        return 4


KINDS = {"ro": ROAny, "falsy": FalsyTarget, "eq": EqTarget}


def snapshot(objs):
    idx = {id(o): i for i, o in enumerate(objs)}
    return [[None if o.parent is None else idx[id(o.parent)], [idx[id(c)] for c in o.children]] for o in objs]


_SCALARS = {"None": None, "True": True, "False": False, "0": 0, "1": 1, "1.0": 1.0, "''": ""}


class Values(object):
    """value tokens of a case <-> Python objects.  `v<k>` = a string; `None`/`True`/`1`/`1.0`/... = scalars that compare
    equal across types; `L<k>` = a fresh (empty, mutable) list per token, recognised by identity: storing a value must store
    *that* object, whatever the attribute held before"""

    def __init__(self):
        self.lists = {}

    def obj(self, tok):
        if tok in _SCALARS:
            return _SCALARS[tok]
        if tok.startswith("L"):
            l = []
            self.lists[id(l)] = (tok, l)
            return l
        return tok

    def tok(self, v):
        if isinstance(v, list):
            e = self.lists.get(id(v))
            return e[0] if e is not None and e[1] is v else "unknown-list"
        if v is None or isinstance(v, (bool, int, float)):
            return repr(v)
        if v == "":
            return "''"
        return v


def impl(case):
    objs = []
    out = []
    vals = Values()
    for op in case["ops"]:
        k = op["op"]
        try:
            if k == "new":
                objs.append(KINDS.get(op.get("kind"), AnyNode)())
            elif k == "setro":
                try:
                    setattr(objs[op["i"]], "ro", vals.obj(op["v"]))
                    out.append("ok")
                except AttributeError:
                    out.append("AttributeError")
            elif k == "link":
                kw = {a: vals.obj(b) for a, b in op["kw"]}
                cls = UserLink if (case.get("userlink") and not kw) else SymlinkNode
                if op.get("cls") == "user":
                    cls = Shortcut
                elif op.get("cls") == "prop":
                    cls = PropLink
                objs.append(cls(objs[op["t"]], **kw))
            elif k == "set":
                setattr(objs[op["i"]], op["k"], vals.obj(op["v"]))
            elif k == "get":
                try:
                    out.append({"v": vals.tok(getattr(objs[op["i"]], op["k"]))})
                except AttributeError:
                    out.append("AttributeError")
            elif k == "dump":
                out.append([[[a, vals.tok(b)] for a, b in o.__dict__.items() if not local(a)] for o in objs])
            elif k in ("sp", "sc", "dc"):
                res = "ok"
                try:
                    if k == "sp":
                        objs[op["n"]].parent = None if op["v"] is None else objs[op["v"]]
                    elif k == "sc":
                        objs[op["n"]].children = [objs[x] for x in op["xs"]]
                    else:
                        del objs[op["n"]].children
                except (anytree.LoopError, anytree.TreeError) as e:
                    res = type(e).__name__
                out.append({"res": res, "snap": snapshot(objs)})
        except RecursionError:
            out.append("RecursionError")
    return out
