"""Family `unires`: `Resolver.get` / `Resolver.glob` over names from all of Unicode, judged *without a model*.

The Lean mirror speaks `ignorecase` over a finite alphabet (ASCII plus the letters of `Str.caseTable`); CPython's case mapping for the
rest of Unicode (multi-character upper case: ß -> SS, ﬁ -> FI; context-sensitive lower case: final sigma; titlecase digraphs; combining
marks) is outside it.  Two clauses of C07/C08 need no model to be judged and are checked here on the implementation alone:

* `roundtrip` (C07): in a tree whose sibling names are unique - here: pairwise different case-sensitively *and* under `str.upper()`,
  `str.lower()` and `str.casefold()`, so under any reasonable reading of "ignoring case" - `get(m, absolute path of n)` is `n` and
  `get(m, relative path spelled from the walk m -> n)` is `n`, for every `ignorecase` / `relax` combination and separator.
* `history` (C08): the result of a `glob` never depends on earlier calls - every query of a sequence run on the shared class-level
  pattern cache gives what the same query gives right after the cache has been flushed (through the public API: more distinct
  filler patterns than the cache holds); strict mode returns the relaxed list or raises a ResolverError; relaxed mode never raises.
"""
from anytree import NodeMixin, Resolver
from anytree.resolver import ResolverError, ChildResolverError, RootResolverError


def make_cls(sep):
    class U(NodeMixin):
        separator = sep

        def __init__(self, label, name, parent=None):
            self.label = label
            self.name = name
            self.parent = parent
    return U


def build(t, names, cls, parent, index):
    n = cls(t[0], names[t[0]], parent)
    index[t[0]] = n
    for c in t[1]:
        build(c, names, cls, n, index)


def _outcome(fn):
    try:
        r = fn()
    except RootResolverError:
        return ["RootResolverError"]
    except ChildResolverError:
        return ["ChildResolverError"]
    except ResolverError:
        return ["ResolverError"]
    except Exception as e:           # anything else is not an outcome the property allows
        return ["other", type(e).__name__]
    if r is None:
        return ["none"]
    if isinstance(r, list):
        return ["ok"] + [x.label for x in r]
    return ["ok", r.label]


def _flush(root, k):
    r = Resolver("name", relax=True)
    for i in range(26):
        r.glob(root, "\x00flush%d-%d*" % (k, i))


def impl(case):
    sep = case["sep"]
    cls = make_cls(sep)
    names = {k: v for k, v in case["names"]}
    index = {}
    build(case["tree"], names, cls, None, index)
    root = index[case["tree"][0]]
    if case["what"] == "roundtrip":
        for q in case["queries"]:
            r = Resolver("name", ignorecase=q["ignorecase"], relax=q["relax"])
            got = _outcome(lambda: r.get(index[q["start"]], q["path"]))
            if got != ["ok", q["expect"]]:
                return {"fail": "get(%r, %r, ignorecase=%s, relax=%s) gave %r, expected node %r"
                        % (q["start"], q["path"], q["ignorecase"], q["relax"], got, q["expect"])}
        return {"ok": True}
    # history
    seq = []
    _flush(root, 0)
    for q in case["queries"]:
        r = Resolver("name", ignorecase=q["ignorecase"], relax=q["relax"])
        seq.append(_outcome(lambda: r.glob(index[q["start"]], q["path"])))
    for i, q in enumerate(case["queries"]):
        _flush(root, i + 1)
        r = Resolver("name", ignorecase=q["ignorecase"], relax=q["relax"])
        fresh = _outcome(lambda: r.glob(index[q["start"]], q["path"]))
        if fresh != seq[i]:
            return {"fail": "query %d glob(%r, %r, ignorecase=%s, relax=%s): %r after the earlier calls, %r on a flushed cache"
                    % (i, q["start"], q["path"], q["ignorecase"], q["relax"], seq[i], fresh)}
        if q["relax"] and fresh[0] != "ok":
            return {"fail": "query %d: relaxed glob raised %r" % (i, fresh)}
        if fresh[0] == "other":
            return {"fail": "query %d: %r" % (i, fresh)}
    # strict = relaxed list, or a ResolverError (queries come in strict/relaxed pairs)
    for i in range(0, len(case["queries"]) - 1, 2):
        a, b = case["queries"][i], case["queries"][i + 1]
        if a["path"] == b["path"] and a["start"] == b["start"] and a["ignorecase"] == b["ignorecase"] and not a["relax"] and b["relax"]:
            if seq[i][0] == "ok" and case.get("unique") and seq[i] != seq[i + 1]:
                return {"fail": "query %d: strict %r, relaxed %r" % (i, seq[i], seq[i + 1])}
            if seq[i][0] == "ok" and not set(seq[i][1:]) <= set(seq[i + 1][1:]):
                return {"fail": "query %d: strict result %r not within the relaxed result %r" % (i, seq[i], seq[i + 1])}
    return {"ok": True}
