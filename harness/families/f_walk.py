import anytree
from anytree import Walker, WalkError
from .util import build, CLASSES


def impl(case):
    index = {}
    if case.get("cls") == "links":
        from .util import build_links
        labels = {}
        for t in case["trees"]:
            build_links(t, index, labels)
        lab = lambda x: labels[id(x)]
    else:
        cls = CLASSES[case.get("cls", "nm")]
        for t in case["trees"]:
            build(t, cls, None, index)
        lab = lambda x: x.label
    w = Walker()
    out = []
    for a, b in case["pairs"]:
        try:
            up, common, down = w.walk(index[a], index[b])
            out.append({"up": [lab(x) for x in up], "common": lab(common), "down": [lab(x) for x in down]})
        except WalkError:
            out.append("WalkError")
        except Exception as e:
            out.append(type(e).__name__)
    return out
