import anytree
from anytree import Walker, WalkError
from .util import build, CLASSES


def impl(case):
    cls = CLASSES[case.get("cls", "nm")]
    index = {}
    for t in case["trees"]:
        build(t, cls, None, index)
    w = Walker()
    out = []
    for a, b in case["pairs"]:
        try:
            up, common, down = w.walk(index[a], index[b])
            out.append({"up": [x.label for x in up], "common": common.label, "down": [x.label for x in down]})
        except WalkError:
            out.append("WalkError")
        except Exception as e:
            out.append(type(e).__name__)
    return out
