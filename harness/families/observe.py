"""Everything the library lets one read off a set of trees, mapped to labels: used to compare node
classes with each other (C17, C18)."""
import warnings

import anytree
from anytree import (PreOrderIter, PostOrderIter, LevelOrderIter, LevelOrderGroupIter, ZigZagGroupIter, Walker,
                     WalkError, Resolver, ResolverError, RenderTree, AsciiStyle)
from anytree import util as autil
from anytree import search
from anytree.exporter import DotExporter, UniqueDotExporter, MermaidExporter

warnings.simplefilter("ignore")


def safe(f):
    try:
        return f()
    except (WalkError, ResolverError, search.CountError, anytree.LoopError, anytree.TreeError) as e:
        return {"exc": type(e).__name__}


def observe(nodes, lab, params):
    """nodes: list of node objects (index = label); lab: node -> label; params: deterministic choices"""
    out = {}
    stop = set(params.get("stop", []))
    fout = set(params.get("filter_out", []))
    m = params.get("maxlevel")
    F = lambda n: lab(n) not in fout
    S = lambda n: lab(n) in stop
    for i, n in enumerate(nodes):
        left, right = autil.leftsibling(n), autil.rightsibling(n)
        o = {
            "parent": None if n.parent is None else lab(n.parent),
            "children": [lab(c) for c in n.children],
            "path": [lab(x) for x in n.path], "ancestors": [lab(x) for x in n.ancestors], "root": lab(n.root),
            "depth": n.depth, "is_root": n.is_root, "is_leaf": n.is_leaf,
            "siblings": [lab(x) for x in n.siblings], "descendants": [lab(x) for x in n.descendants],
            "leaves": [lab(x) for x in n.leaves], "size": n.size, "height": n.height,
            "iter_path_reverse": [lab(x) for x in n.iter_path_reverse()],
            "left": None if left is None else lab(left), "right": None if right is None else lab(right),
            "ca1": [lab(x) for x in autil.commonancestors(n)],
            "pre": [lab(x) for x in PreOrderIter(n, filter_=F, stop=S, maxlevel=m)],
            "post": [lab(x) for x in PostOrderIter(n, filter_=F, stop=S, maxlevel=m)],
            "level": [lab(x) for x in LevelOrderIter(n, filter_=F, stop=S, maxlevel=m)],
            "group": [[lab(x) for x in g] for g in LevelOrderGroupIter(n, filter_=F, stop=S, maxlevel=m)],
            "zigzag": [[lab(x) for x in g] for g in ZigZagGroupIter(n, filter_=F, stop=S, maxlevel=m)],
            "findall": safe(lambda: [lab(x) for x in search.findall(n, filter_=F, stop=S, maxlevel=m)]),
            "find": safe(lambda: (lambda r: None if r is None else lab(r))(search.find(n, filter_=lambda x: lab(x) == i))),
            "render": [[pre, fill, lab(x)] for pre, fill, x in RenderTree(n, style=AsciiStyle(), maxlevel=m)],
        }
        out[str(i)] = o
    out["ca0"] = [lab(x) for x in autil.commonancestors()]
    w = Walker()
    pairs = params.get("pairs", [])
    out["walk"] = []
    for a, b in pairs:
        if a < len(nodes) and b < len(nodes):
            r = safe(lambda: w.walk(nodes[a], nodes[b]))
            if isinstance(r, tuple):
                r = [[lab(x) for x in r[0]], lab(r[1]), [lab(x) for x in r[2]]]
            out["walk"].append(r)
            ca = autil.commonancestors(nodes[a], nodes[b])
            out["walk"].append([lab(x) for x in ca])
    out["resolve"] = []
    for start, path, relax in params.get("queries", []):
        if start >= len(nodes):
            continue
        r = Resolver("name", relax=relax)
        g = safe(lambda: r.glob(nodes[start], path))
        out["resolve"].append(g if isinstance(g, dict) else [lab(x) for x in g])
        g = safe(lambda: r.get(nodes[start], path))
        out["resolve"].append(g if isinstance(g, dict) or g is None else lab(g))
    # symbolic links TO these nodes: reading through a link must neither depend on the target's truth value, length or
    # equality nor invoke them
    out["links"] = []
    for n in nodes[:3]:
        link = safe(lambda: anytree.SymlinkNode(n))
        if isinstance(link, dict):
            out["links"].append(link)
            continue
        out["links"].append([safe(lambda: getattr(link, "name", "<no name>")), safe(lambda: lab(link.target)),
                             safe(lambda: [getattr(r.node, "name", None) for r in RenderTree(link)])])
    out["export"] = []
    for i in params.get("export_roots", []):
        if i < len(nodes):
            n = nodes[i]
            out["export"].append(list(DotExporter(n, nodenamefunc=lambda x: "n%d" % lab(x), filter_=F, stop=S, maxlevel=m)))
            out["export"].append(list(MermaidExporter(n, nodenamefunc=lambda x: "n%d" % lab(x), nodefunc=lambda x: "", filter_=F, stop=S, maxlevel=m)))
            ud = list(UniqueDotExporter(n, nodeattrfunc=lambda x: "l=%d" % lab(x), filter_=F, stop=S, maxlevel=m))
            out["export"].append(ud)
    return out
