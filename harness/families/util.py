"""Helpers to build real anytree objects from the JSON tree syntax `[label, [kids]]`."""
import anytree
from anytree import NodeMixin, LightNodeMixin


class PNode(NodeMixin):
    """plain NodeMixin class, payload = integer label"""
    kind = "plain"          # a class-level default: an attribute every node *has* without storing it

    def __init__(self, label, parent=None):
        self.label = label
        self.parent = parent

    def __repr__(self):
        return "P%d" % self.label


class LNode(LightNodeMixin):
    __slots__ = ["label"]

    def __init__(self, label, parent=None):
        self.label = label
        self.parent = parent

    def __repr__(self):
        return "L%d" % self.label


class EqNode(NodeMixin):
    """value equality: all nodes of the class carry the same payload, so any two compare equal"""

    def __init__(self, label, parent=None):
        self.label = label
        self.tag = 0
        self.parent = parent

    def __eq__(self, other):
        return isinstance(other, EqNode) and self.tag == other.tag

    def __ne__(self, other):
        return not self.__eq__(other)

    def __hash__(self):
        return hash(self.tag)

    def __repr__(self):
        return "E%d" % self.label


class FalsyNode(PNode):
    """container-like user class: every node is falsy and has length 0 (and is a node nevertheless)"""

    def __bool__(self):
        return False

    def __len__(self):
        return 0

    def __repr__(self):
        return "F%d" % self.label


CLASSES = {"nm": PNode, "light": LNode, "eq": EqNode, "falsy": FalsyNode}


def build(tree, cls=PNode, parent=None, index=None):
    """returns (root, {label: node})"""
    if index is None:
        index = {}
    n = cls(tree[0], parent=parent)
    index[tree[0]] = n
    for c in tree[1]:
        build(c, cls, n, index)
    return n, index


def snapshot(index):
    """canonical (parent, children) map by label"""
    return {str(k): [None if n.parent is None else n.parent.label, [c.label for c in n.children]]
            for k, n in sorted(index.items())}


def exc_name(e):
    return type(e).__name__
