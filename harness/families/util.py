"""Helpers to build real anytree objects from the JSON tree syntax `[label, [kids]]`."""
import anytree
from anytree import NodeMixin, LightNodeMixin


class PNode(NodeMixin):
    """plain NodeMixin class, payload = integer label"""
    kind = "plain"          # a class-level default: an attribute every node *has* without storing it

    def __init__(self, label, parent=None):
        self.label = label
        self.parent = parent

    def __repr__(self):
        return "P%d" % self.label


class LNode(LightNodeMixin):
    __slots__ = ["label"]

    def __init__(self, label, parent=None):
        self.label = label
        self.parent = parent

    def __repr__(self):
        return "L%d" % self.label


class EqNode(NodeMixin):
    """value equality: all nodes of the class carry the same payload, so any two compare equal"""

    def __init__(self, label, parent=None):
        self.label = label
        self.tag = 0
        self.parent = parent

    def __eq__(self, other):
        return isinstance(other, EqNode) and self.tag == other.tag

    def __ne__(self, other):
        return not self.__eq__(other)

    def __hash__(self):
        return hash(self.tag)

    def __repr__(self):
        return "E%d" % self.label


class FalsyNode(PNode):
    """container-like user class: every node is falsy and has length 0 (and is a node nevertheless)"""

    def __bool__(self):
        return False

    def __len__(self):
        return 0

    def __repr__(self):
        return "F%d" % self.label


class ShadowNode(PNode):
    """a user class that uses the names of the mixin's derived, read-only attributes for data of its own (a scene-graph
    box with a geometric `depth`, a file entry with a `size`, ...): class-level values shadow the properties. Traversal is
    defined by `children`/`parent` alone; iterators, Walker, Resolver never consult these names"""
    depth = -7
    size = -7
    height = 0
    is_leaf = True
    is_root = False
    siblings = ()
    descendants = ()
    leaves = ()

    def __repr__(self):
        return "S%d" % self.label


class SortedView(PNode):
    """a user class that overrides the public `children` attribute: the children are presented sorted by label, whatever
    the order they were attached in (setter and deleter are the library's). Every derived attribute that is defined
    through the children *relation* (siblings, descendants, leaves, left/right sibling) follows the public view"""

    @property
    def children(self):
        return tuple(sorted(NodeMixin.children.fget(self), key=lambda n: n.label))

    @children.setter
    def children(self, value):
        NodeMixin.children.fset(self, value)

    @children.deleter
    def children(self):
        NodeMixin.children.fdel(self)

    def __repr__(self):
        return "V%d" % self.label


def reversed_tree(t):
    return [t[0], [reversed_tree(c) for c in reversed(t[1])]]


CLASSES = {"nm": PNode, "light": LNode, "eq": EqNode, "falsy": FalsyNode, "shadow": ShadowNode}


def build(tree, cls=PNode, parent=None, index=None):
    """returns (root, {label: node})"""
    if index is None:
        index = {}
    n = cls(tree[0], parent=parent)
    index[tree[0]] = n
    for c in tree[1]:
        build(c, cls, n, index)
    return n, index


def build_links(tree, index, labels):
    """the same shape built from library classes, with every node of odd label below the root a `SymlinkNode` whose target is an
    earlier plain `Node` of the forest.  A link forwards attribute reads and writes to its target, except its own parent/children
    links: whatever the library stores on a node besides those two (a memo, a counter) lands on the target.  Structure - and with
    it every navigation attribute - is the link's own.  Labels are kept outside the nodes (`labels[id(node)]`)."""
    from anytree import Node, SymlinkNode
    plain = [n for n in index.values() if not isinstance(n, SymlinkNode)]

    def rec(t, parent):
        lab = t[0]
        if parent is not None and lab % 2 == 1 and plain:
            n = SymlinkNode(plain[lab % len(plain)], parent=parent)
        else:
            n = Node("n%d" % lab, parent=parent)
            plain.append(n)
        index[lab] = n
        labels[id(n)] = lab
        for c in t[1]:
            rec(c, n)
        return n
    return rec(tree, None)


def snapshot(index):
    """canonical (parent, children) map by label"""
    return {str(k): [None if n.parent is None else n.parent.label, [c.label for c in n.children]]
            for k, n in sorted(index.items())}


def exc_name(e):
    return type(e).__name__
