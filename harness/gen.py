"""Generators shared by all case families (validation layer only; every bound here bounds what the
correspondence run can *notice*, never what the theorems cover)."""
import itertools
import random


def shapes(n):
    """All ordered rooted tree shapes with n nodes, as nested lists of children."""
    if n == 1:
        return [[]]
    out = []
    for forest in forests(n - 1):
        out.append(forest)
    return out


_forest_cache = {}


def forests(n):
    """All ordered forests with n nodes in total (list of shapes)."""
    if n in _forest_cache:
        return _forest_cache[n]
    if n == 0:
        res = [[]]
    else:
        res = []
        for k in range(1, n + 1):
            for first in shapes(k):
                for rest in forests(n - k):
                    res.append([first] + rest)
    _forest_cache[n] = res
    return res


def label_shape(shape, labels):
    """shape -> [label, [kids]] consuming `labels` (an iterator) in pre-order."""
    lab = next(labels)
    return [lab, [label_shape(c, labels) for c in shape]]


def tree_labels(t):
    out = [t[0]]
    for c in t[1]:
        out.extend(tree_labels(c))
    return out


def tree_size(t):
    return 1 + sum(tree_size(c) for c in t[1])


def tree_height(t):
    return 0 if not t[1] else 1 + max(tree_height(c) for c in t[1])


def random_shape(rng, n, kind=None):
    """Random shape with n nodes: 'uniform-attach', 'chain', 'star', 'lcomb', 'rcomb', 'bushy'."""
    kind = kind or rng.choice(["attach", "attach", "attach", "chain", "star", "lcomb", "rcomb", "deep"])
    kids = {0: []}
    for i in range(1, n):
        if kind == "chain":
            p = i - 1
        elif kind == "star":
            p = 0
        elif kind == "lcomb":
            p = i - 1 if i % 2 == 1 else max(i - 2, 0)
        elif kind == "rcomb":
            p = i - 2 if i % 2 == 0 and i >= 2 else (i - 1 if i % 2 == 1 and i > 1 and False else max(i - 2, 0))
        elif kind == "deep":
            p = rng.randrange(max(0, i - 2), i)
        else:
            p = rng.randrange(i)
        kids[i] = []
        if kind == "rcomb" or rng.random() < 0.25:
            kids[p].insert(rng.randrange(len(kids[p]) + 1), i)
        else:
            kids[p].append(i)

    def build(i):
        return [build(c) for c in kids[i]]

    return build(0)


def labelled(shape, rng=None, shuffle=False, base=0):
    n = _count(shape)
    labs = list(range(base, base + n))
    if shuffle and rng is not None:
        rng.shuffle(labs)
    return label_shape(shape, iter(labs))


def _count(shape):
    return 1 + sum(_count(c) for c in shape)


def subsets(items, maxsize=None):
    items = list(items)
    r = range(len(items) + 1) if maxsize is None else range(min(maxsize, len(items)) + 1)
    for k in r:
        for c in itertools.combinations(items, k):
            yield list(c)


def random_subset(rng, items, p=None):
    p = rng.choice([0.0, 0.15, 0.3, 0.5]) if p is None else p
    return [x for x in items if rng.random() < p]


# ---- scale: thresholds and cut-offs ("only above N children / levels / nodes / lines") are invisible to small trees
BIG_WIDTHS = (17, 33, 65, 130, 260)
BIG_DEPTHS = (17, 33, 65, 130, 260)


def deep_labels(t):
    """labels along one deepest root-to-leaf path of a labelled tree"""
    out = []
    while True:
        out.append(t[0])
        if not t[1]:
            return out
        t = max(t[1], key=tree_height)


def big_shapes(rng, tier, max_nodes=None):
    """a few large shapes per run: stars, chains, brooms, two-level fans, a bushy random tree; sizes straddle the usual
    cut-offs (16, 32, 64, 128, 256 - CPython caches the ints up to 256, so `is` on counters breaks at 257). quick: 33, 260 and one more size per kind; thorough: all."""
    out = []
    widths = list(BIG_WIDTHS) if tier != "quick" else sorted({33, 260, rng.choice(BIG_WIDTHS[:4])})
    depths = list(BIG_DEPTHS) if tier != "quick" else sorted({33, 260, rng.choice(BIG_DEPTHS[:4])})
    for w in widths:
        out.append([[] for _ in range(w)])                                   # star
        out.append([[[] for _ in range(3)] if i % 5 == 0 else [] for i in range(w)])   # wide fan with some grandchildren
    for d in depths:
        sh = []
        for _ in range(d):
            sh = [sh]
        out.append(sh)                                                       # chain of depth d
        sh = [[], [], []]
        for i in range(d):
            sh = [sh] if i % 7 else [[], sh, []]
        out.append(sh)                                                       # deep spine with side twigs, broom at the bottom
    n = rng.choice([150, 300]) if tier == "quick" else 600
    out.append(random_shape(rng, n, "attach"))
    out.append(random_shape(rng, n, "deep"))
    if max_nodes is not None:
        out = [s for s in out if _count(s) <= max_nodes]
    return out
