#!/usr/bin/env python
"""harmless.py <id> <dir-with-patch.diff> — a behaviour-preserving rewrite must not raise any alarm.
Applies the patch in a scratch worktree, checks the baseline suite, runs every check with --repo <scratch>
and records the verdicts in /verif/seeded/harmless/<id>/meta.json."""
import json
import os
import shutil
import subprocess
import sys

HERE = os.path.dirname(os.path.abspath(__file__))
VERIF = os.path.dirname(HERE)
PY = "/venv/bin/python"


def sh(cmd, cwd=None):
    p = subprocess.run(cmd, cwd=cwd, stdout=subprocess.PIPE, stderr=subprocess.STDOUT, text=True)
    return p.returncode, p.stdout


def main():
    hid, d = sys.argv[1], sys.argv[2]
    scratch = "/tmp/hv_%s" % hid
    sh(["git", "-C", "/repo", "worktree", "remove", "--force", scratch])
    shutil.rmtree(scratch, ignore_errors=True)
    sh(["git", "-C", "/repo", "worktree", "add", "-q", scratch, "HEAD"])
    meta = {"id": hid, "description": open(os.path.join(d, "desc.txt")).read().strip()}
    try:
        rc, out = sh(["git", "-C", scratch, "apply", os.path.join(d, "patch.diff")])
        if rc != 0:
            print("patch does not apply", out)
            return 2
        rc, out = sh([PY, "-m", "pytest", "-q", "-p", "no:cacheprovider"], cwd=scratch)
        meta["suite"] = out.strip().splitlines()[-1]
        alarms = {}
        for i in range(1, 21):
            p = "C%02d" % i
            rc, out = sh([PY, os.path.join(HERE, "check.py"), p, "--tier", "quick", "--repo", scratch], cwd=VERIF)
            if rc != 0:
                alarms[p] = [l for l in out.splitlines() if l.startswith("VIOLATION") or l.startswith("INTERNAL")][:2] or out.strip().splitlines()[-2:]
        meta["alarms"] = alarms
        print(hid, meta["suite"], "| alarms:", alarms)
        dest = os.path.join(VERIF, "seeded", "harmless", hid)
        os.makedirs(dest, exist_ok=True)
        shutil.copy(os.path.join(d, "patch.diff"), os.path.join(dest, "patch.diff"))
        json.dump(meta, open(os.path.join(dest, "meta.json"), "w"), indent=1)
    finally:
        sh(["git", "-C", "/repo", "worktree", "remove", "--force", scratch])
        shutil.rmtree(scratch, ignore_errors=True)
        # restore the extracted constants of the real repository
        sh([PY, os.path.join(HERE, "extract.py"), "/repo"], cwd=VERIF)
    return 0


if __name__ == "__main__":
    sys.exit(main())
