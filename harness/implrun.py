"""Worker: executes case lines on the real anytree (imported from PYTHONPATH = the repo under test)."""
import json
import sys
import traceback
import warnings

warnings.simplefilter("ignore")


def main():
    fin, fout = sys.argv[1], sys.argv[2]
    import families  # noqa: imports anytree
    with open(fin) as f, open(fout, "w") as g:
        for line in f:
            case = json.loads(line)
            try:
                res = families.run_impl_case(case)
            except RecursionError:
                res = {"exc": "RecursionError"}
            except Exception as e:  # an exception escaping a family runner is an observable too
                res = {"exc": type(e).__name__, "where": "runner", "tb": traceback.format_exc()[-600:]}
            g.write(json.dumps(res, separators=(",", ":")) + "\n")


if __name__ == "__main__":
    main()
