"""Worker: executes case lines on the real anytree (imported from PYTHONPATH = the repo under test)."""
import json
import sys
import traceback
import warnings

warnings.simplefilter("ignore")

CASE_TIMEOUT_S = 30          # no modelled operation on trees of the generated sizes takes more than milliseconds
# Interpreter recursion limit while a case runs.  The library recurses per tree level in several places (iterators, glob, render,
# export, copy) and the generated trees are up to 260 levels deep: with CPython's default limit of 1000 a behaviour-preserving rewrite
# that merely uses four frames per level instead of two would end in RecursionError (false alarm 13).  How many frames a level costs is
# not part of any property, so the cases run with a generous limit.  What *is* checked about depth - that the operations defined by
# walking the parent links stay iterative - is the `deepchain` family (1500/3000 levels), which keeps the default limit.
DEEP_LIMIT = 12000


class CaseTimeout(BaseException):
    """raised by the interval timer: the implementation did not return (an unbounded loop is an observable too)"""


def _on_alarm(signum, frame):
    raise CaseTimeout()


def main():
    fin, fout = sys.argv[1], sys.argv[2]
    import signal
    try:
        import resource
        lim = 8 << 30            # an unbounded accumulation ends in MemoryError, not in the OOM killer
        resource.setrlimit(resource.RLIMIT_AS, (lim, lim))
    except Exception:  # noqa: BLE001
        pass
    signal.signal(signal.SIGALRM, _on_alarm)
    import families  # noqa: imports anytree
    timeouts = 0
    default_limit = sys.getrecursionlimit()
    with open(fin) as f, open(fout, "w") as g:
        for line in f:
            case = json.loads(line)
            sys.setrecursionlimit(default_limit if case.get("fam") == "deepchain" else max(default_limit, DEEP_LIMIT))
            if timeouts >= 3:
                # the implementation hangs again and again: the remaining cases are not worth minutes each
                g.write(json.dumps({"exc": "Timeout", "where": "not run: three earlier cases did not return"}) + "\n")
                continue
            try:
                signal.setitimer(signal.ITIMER_REAL, CASE_TIMEOUT_S)
                try:
                    res = families.run_impl_case(case)
                finally:
                    signal.setitimer(signal.ITIMER_REAL, 0)
            except CaseTimeout:
                timeouts += 1
                res = {"exc": "Timeout", "where": "implementation did not return within %d s" % CASE_TIMEOUT_S}
            except MemoryError:
                res = {"exc": "MemoryError", "where": "implementation"}
            except RecursionError:
                res = {"exc": "RecursionError"}
            except Exception as e:  # an exception escaping a family runner is an observable too
                res = {"exc": type(e).__name__, "where": "runner", "tb": traceback.format_exc()[-600:]}
            g.write(json.dumps(res, separators=(",", ":")) + "\n")


if __name__ == "__main__":
    main()
