"""Worker: executes case lines on the real anytree (imported from PYTHONPATH = the repo under test)."""
import json
import sys
import traceback
import warnings

warnings.simplefilter("ignore")

CASE_TIMEOUT_S = 30          # no modelled operation on trees of the generated sizes takes more than milliseconds


class CaseTimeout(BaseException):
    """raised by the interval timer: the implementation did not return (an unbounded loop is an observable too)"""


def _on_alarm(signum, frame):
    raise CaseTimeout()


def main():
    fin, fout = sys.argv[1], sys.argv[2]
    import signal
    try:
        import resource
        lim = 8 << 30            # an unbounded accumulation ends in MemoryError, not in the OOM killer
        resource.setrlimit(resource.RLIMIT_AS, (lim, lim))
    except Exception:  # noqa: BLE001
        pass
    signal.signal(signal.SIGALRM, _on_alarm)
    import families  # noqa: imports anytree
    timeouts = 0
    with open(fin) as f, open(fout, "w") as g:
        for line in f:
            case = json.loads(line)
            if timeouts >= 3:
                # the implementation hangs again and again: the remaining cases are not worth minutes each
                g.write(json.dumps({"exc": "Timeout", "where": "not run: three earlier cases did not return"}) + "\n")
                continue
            try:
                signal.setitimer(signal.ITIMER_REAL, CASE_TIMEOUT_S)
                try:
                    res = families.run_impl_case(case)
                finally:
                    signal.setitimer(signal.ITIMER_REAL, 0)
            except CaseTimeout:
                timeouts += 1
                res = {"exc": "Timeout", "where": "implementation did not return within %d s" % CASE_TIMEOUT_S}
            except MemoryError:
                res = {"exc": "MemoryError", "where": "implementation"}
            except RecursionError:
                res = {"exc": "RecursionError"}
            except Exception as e:  # an exception escaping a family runner is an observable too
                res = {"exc": type(e).__name__, "where": "runner", "tb": traceback.format_exc()[-600:]}
            g.write(json.dumps(res, separators=(",", ":")) + "\n")


if __name__ == "__main__":
    main()
