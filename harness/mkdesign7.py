#!/usr/bin/env python
"""Rewrites the generated tables of DESIGN.md section 7 (between the markers) from seeded/*/meta.json."""
import os
import subprocess
import sys

VERIF = os.path.dirname(os.path.dirname(os.path.abspath(__file__)))
out = subprocess.run([sys.executable, os.path.join(VERIF, "harness", "seedreport.py")], stdout=subprocess.PIPE, text=True).stdout
p = os.path.join(VERIF, "DESIGN.md")
s = open(p, encoding="utf-8").read()
a = s.index("<!-- BEGIN GENERATED TABLES (harness/seedreport.py) -->")
b = s.index("<!-- END GENERATED TABLES -->")
s = s[:a] + "<!-- BEGIN GENERATED TABLES (harness/seedreport.py) -->\n\n" + out + "\n" + s[b:]
open(p, "w", encoding="utf-8").write(s)
print("DESIGN.md section 7 tables rewritten")
