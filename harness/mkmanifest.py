#!/usr/bin/env python
"""Regenerates MANIFEST.json from the property modules that exist under harness/props (one source of truth)."""
import importlib
import json
import os
import sys

HERE = os.path.dirname(os.path.abspath(__file__))
VERIF = os.path.dirname(HERE)
sys.path.insert(0, HERE)

PY = "/venv/bin/python"


def main():
    ids = [json.loads(l)["id"] for l in open(os.path.join(VERIF, "properties.jsonl"))]
    checks, na = [], []
    for pid in ids:
        path = os.path.join(HERE, "props", pid + ".py")
        if not os.path.exists(path):
            na.append({"property_id": pid, "reason": "check under construction (DESIGN.md section 5): model, theorems "
                       "and correspondence run for this property are not committed yet"})
            continue
        mod = importlib.import_module("props." + pid)
        if not getattr(mod, "THEOREMS", None) and not getattr(mod, "CLAIM_WITHOUT_THEOREMS", False):
            na.append({"property_id": pid, "reason": "check under construction (DESIGN.md section 5): the mirror, the "
                       "specification and the correspondence run exist, the Lean theorems are not committed yet"})
            continue
        checks.append({
            "property_id": pid,
            "quick_cmd": "%s harness/check.py %s --tier quick" % (PY, pid),
            "thorough_cmd": "%s harness/check.py %s --tier thorough" % (PY, pid),
            "evidence_file": "evidence/%s.json" % pid,
            "replay_cmd_template": "%s harness/check.py %s --replay {path}" % (PY, pid),
            "engine": "lean4-proof+correspondence",
            "level_claimed": {"category": "proof", "text": mod.LEVEL_TEXT, "design_ref": "DESIGN.md section 4, " + pid},
            "level_note": mod.LEVEL_NOTE,
            "technique": getattr(mod, "TECHNIQUE", "Lean 4 theorems about a hand-written mirror of the code + checked "
                                 "behavioural correspondence (implementation vs mirror vs spec on generated inputs)"),
        })
    man = {
        "version": 1,
        "setup_cmd": "cd lean && lake build Anytree driver",
        "hooks": {
            "guard": "ANYTREE_VERIF_HOOKS",
            "enable": "no source hooks are needed: hook logs come from subclasses defined in the harness, internal "
                      "assertions from the library's own ANYTREE_ASSERTIONS switch; the guard variable is unused",
            "baseline_off_cmd": "cd /repo && /venv/bin/python -m pytest -ra -q -p no:cacheprovider --timeout=900 "
                                "--continue-on-collection-errors",
            "source_commits": [],
            "add_only": True,
        },
        "engines": [{
            "name": "lean4-proof+correspondence",
            "path": "harness/check.py",
            "serves_properties": [c["property_id"] for c in checks],
            "kind_free_text": "Lean 4.33 proofs (lean/Anytree/Props) about an executable mirror of the Python code "
                              "(lean/Anytree/Model) and an independent spec (lean/Anytree/Spec); harness/check.py "
                              "regenerates extracted constants, rebuilds, audits axioms, and diffs implementation, "
                              "mirror and spec on generated cases through the compiled line-protocol driver",
        }],
        "checks": checks,
        "not_applicable": na,
        "notes": "Every check: exit 0 = held; exit 1 + VIOLATION line; exit 2 = tool failure. VERIF_SEED honoured. "
                 "known_findings.json lists genuine defects of the unchanged tree (printed as KNOWN-FINDING lines).",
    }
    with open(os.path.join(VERIF, "MANIFEST.json"), "w") as f:
        json.dump(man, f, indent=1)
        f.write("\n")
    print("claimed:", [c["property_id"] for c in checks])


if __name__ == "__main__":
    main()
