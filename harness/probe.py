"""Dynamic read-back of the constant groups through the PUBLIC API of the package under test.

Run as a separate process with PYTHONPATH=<repo>.  Used by extract.py when a group can no longer be read off the
syntax tree (constants moved, renamed, built by an expression the static evaluator does not understand): what matters
to the model is the VALUE the code uses, and that can be observed by running it.  Prints one JSON object
{group: constants | {"error": ...}}."""
import json
import re
import sys
import warnings

warnings.simplefilter("ignore")


def g_render():
    import anytree
    from anytree import render as R
    styles = []
    for n in ("AsciiStyle", "ContStyle", "ContRoundStyle", "DoubleStyle"):
        s = getattr(R, n)()
        styles.append([n, s.vertical, s.cont, s.end])
    return {"styles": styles, "default_style": type(anytree.RenderTree(anytree.Node("x")).style).__name__}


def g_resolver():
    from anytree import Node, Resolver
    import anytree.resolver as M
    root = Node("r")
    Node("c", parent=root)
    r = Resolver("name", relax=True)
    cache = Resolver._match_cache
    cache.clear()
    top = 0
    for i in range(400):
        r.glob(root, "q%d*" % i)
        top = max(top, len(cache))
    v = getattr(M, "_MAXCACHE", None)
    # the observable is the largest size the shared pattern cache reaches (the bound theorem is about max(_MAXCACHE, 1))
    if isinstance(v, int) and max(v, 1) == top:
        return {"maxcache": v}
    return {"maxcache": top}


def _esc_pattern(esc):
    special = [ch for ch in map(chr, range(32, 127)) if esc(ch) != ch]
    if sorted(special) == sorted(['"', "\\"]) and esc('"') == '\\"' and esc("\\") == "\\\\" and esc('a"b\\c') == 'a\\"b\\\\c':
        return "[\"\\\\]"
    raise LookupError("esc() treats %r specially" % (special,))


def g_dot():
    from anytree import Node
    from anytree.exporter import DotExporter
    a = Node("a")
    Node("b", parent=a)
    lines = list(DotExporter(a))
    m = re.fullmatch(r"(\S+) (\S+) \{", lines[0])
    e = re.fullmatch(r'( *)"a" (\S+) "b";', lines[3])
    if not (m and e and lines[-1] == "}" and lines[1] == e.group(1) + '"a";'):
        raise LookupError("unexpected default DOT text %r" % (lines,))
    return {"dot_esc": _esc_pattern(DotExporter.esc), "dot_graph": m.group(1), "dot_name": m.group(2),
            "dot_indent": len(e.group(1)), "dot_edgetype": e.group(2)}


def g_mermaid():
    from anytree import Node
    from anytree.exporter import MermaidExporter
    a = Node("a")
    Node("b", parent=a)
    lines = list(MermaidExporter(a))
    m = re.fullmatch(r"(\S+) (\S+)", lines[0])
    n0 = re.fullmatch(r'( *)(\w+)\["a"\]', lines[1])
    n1 = re.fullmatch(r'( *)(\w+)\["b"\]', lines[2])
    if not (m and n0 and n1 and len(lines) == 4):
        raise LookupError("unexpected default Mermaid text %r" % (lines,))
    e = re.fullmatch(re.escape(n0.group(1) + n0.group(2)) + r"(\S+?)" + re.escape(n1.group(2)), lines[3])
    if not e:
        raise LookupError("unexpected default Mermaid edge %r" % (lines[3],))
    return {"mermaid_esc": _esc_pattern(MermaidExporter.esc), "mermaid_graph": m.group(1), "mermaid_name": m.group(2),
            "mermaid_indent": len(n0.group(1)), "mermaid_edge": e.group(1)}


def g_separator():
    from anytree import Node, NodeMixin
    if Node("a").separator != NodeMixin.separator:
        raise LookupError("separator differs between Node and NodeMixin")
    return {"separator": NodeMixin.separator}


def g_dict():
    from anytree import NodeMixin
    from anytree.exporter import DictExporter

    class P(NodeMixin):
        def __init__(self, parent=None):
            self.pub = 1
            self._priv = 2
            self.parent = parent

    r = P()
    c = P(parent=r)
    P(parent=c)
    exported = set(DictExporter().export(c)) - {"children"}
    skipped = sorted(set(vars(c)) - exported)
    return {"dict_skipped": skipped}


def g_search():
    from anytree import Node, findall
    from anytree.search import CountError
    r = Node("r")
    for nm in "abc":
        Node(nm, parent=r)          # 4 nodes, no digits in any repr
    msgs = []
    for kw, a, b in (({"mincount": 7}, "7", "4"), ({"maxcount": 2}, "2", "4")):
        try:
            findall(r, **kw)
        except CountError as e:
            msg = str(e)
        else:
            raise LookupError("no CountError for %r" % (kw,))
        i, j = msg.index(a), msg.index(b, msg.index(a) + 1)
        end = msg.index(".", j) + 1
        t = msg[:i] + "%d" + msg[i + len(a):j] + "%d" + msg[j + len(b):end]
        msgs.append(t)
    return {"count_msgs": msgs}


GROUPS = {"render": g_render, "resolver": g_resolver, "dot": g_dot, "mermaid": g_mermaid, "separator": g_separator,
          "dict": g_dict, "search": g_search}


def main():
    out = {}
    for g, fn in GROUPS.items():
        try:
            out[g] = fn()
        except Exception as e:  # noqa: BLE001
            out[g] = {"error": "%s: %s" % (type(e).__name__, e)}
    json.dump(out, sys.stdout)


if __name__ == "__main__":
    main()
