"""C01 — parent and children links always describe one consistent forest."""
import core
from props import forest_common as fc

ID = "C01"
LEVEL_TEXT = ("Inv (child lists and parent pointers agree, no duplicates, parent chains terminate) is proved to be "
              "preserved by every structural call of the Lean mirror of nodemixin.py - parent setter, children "
              "setter with its recursive restore, children deleter, constructors - for every forest, every argument, "
              "every fault schedule of the eight hooks (any hook raising at any invocation, once or persistently), "
              "both flavours, both assertion settings and every fuel value, hence for every finite history "
              "(inv_history); no internal assertion can fire from a consistent forest, for every schedule, fuel and history (no_assertion_exec, no_assertion_history). The mirror is tied to "
              "/repo by running histories over all forests on 3 (thorough 4) nodes x every call x every single fault "
              "position and persistent fault classes on five node classes with ANYTREE_ASSERTIONS off and on, comparing "
              "the full (parent, children) map after every call, and checking Inv directly on the implementation.")
LEVEL_NOTE = ("Trusted: Lean kernel, standard axioms only; the hand-written mirror lean/Anytree/Model/Forest.lean; hooks "
              "only observe or raise (they do not mutate the tree); asynchronous exceptions between the two statements "
              "of an ATOMIC block and mixed NodeMixin/LightNodeMixin trees are outside the model; non-node arguments to "
              "LightNodeMixin classes are outside the model."
              " Hooks that make structural calls of their own are outside the model (its hooks observe or raise); one class of them - a hook that detaches ANOTHER node while the call is in progress - is exercised in the correspondence run against the mirror run on the nested call followed by the outer one (driver field pre_ops); for a parent assignment this equivalence is proved of the extended mirror (Model/ForestR.lean, C02r.setParentR_eq_seq, inv_setParentR); for the children deleter as well (C02s.delChildrenR_eq_seq, inv_delChildrenR); for the attach phase of a children assignment it is searched, not proved.")
MODULES = ['Anytree.Props.C01', 'Anytree.Props.C01b', 'Anytree.Props.C01c', 'Anytree.Props.C01d', 'Anytree.Props.C02r', 'Anytree.Props.C02s']
THEOREMS = [
    ("Anytree.Props.C01.inv_empty", "full"),
    ("Anytree.Props.C01.inv_detachRaw", "full"),
    ("Anytree.Props.C01.inv_attachRaw", "full"),
    ("Anytree.Props.C01.inv_setParent", "full"),
    ("Anytree.Props.C01.inv_delChildren", "full"),
    ("Anytree.Props.C01.inv_setChildren", "full"),
    ("Anytree.Props.C01.inv_ctor", "full"),
    ("Anytree.Props.C01.inv_newNode", "full"),
    ("Anytree.Props.C01.onChain_false", "full"),
    ("Anytree.Props.C01.inv_exec", "full"),
    ("Anytree.Props.C01.inv_history", "full"),
    ("Anytree.Props.C01.child_count_eq_one_iff_parent", "full"),
    ("Anytree.Props.C01.not_in_other_children", "full"),
    ("Anytree.Props.C01.no_self_ancestor", "full"),
    ("Anytree.Props.C01.detached_is_root", "full"),
    ("Anytree.Props.C01.no_assertion_delChildren", "full"),
    ("Anytree.Props.C01.no_assertion_setChildren", "full"),
    ("Anytree.Props.C01.no_assertion_setParent", "full"),
    ("Anytree.Props.C01.no_assertion_ctor", "full"),
    ("Anytree.Props.C01.no_assertion_exec", "full"),
    ("Anytree.Props.C01.no_assertion_history", "full"),
    ("Anytree.Props.C01c.spec_ne_diverged", "full"),
    ("Anytree.Props.C01c.fuel_suffices", "full"),
    ("Anytree.Props.C01d.fuel_suffices_faults", "full"),
    ("Anytree.Props.C01d.fuel_suffices_oneshot", "full"),
    ("Anytree.Props.C02r.inv_setParentR", "full"),
    ("Anytree.Props.C02s.inv_delChildrenR", "full"),
]
NOT_COVERED = ["the fuel of the mirror is proved never to be the reason for an outcome when the fault schedule is bounded (C01d.fuel_suffices_faults: faults only at invocation counters below B, fuel above s.n+B+5; C01c.fuel_suffices without faults); for an unbounded (persistent) schedule no fuel suffices, and the implementation agrees: RecursionError, finding K4 (K4_persistent_preAttachChildren_diverges)"]
ASSERTION_SETTINGS = (False, True)
PREDICATE_SPEC = True
RULE = ("histories = (ops building one of all ordered labelled forests over k nodes, quick k=3 / thorough k=4) + one "
        "final call from the set of all calls (parent targets incl. None/non-node, children sequences up to length "
        "2/3 incl. repeats/own/ancestor/descendant/non-node/non-iterable, deleter, constructors), then every single "
        "fault position of the final call and 7 persistent fault classes; plus seeded random histories of length up "
        "to 10/25 over 4-6 nodes with random per-call fault schedules (thorough: fault pairs); classes NodeMixin, "
        "Node, AnyNode, SymlinkNode, LightNodeMixin subclasses; both assertion settings. Distinct = distinct history; "
        "non-trivial = the history changes the forest at least twice.")


def _final_log_len(cases):
    res = core.run_driver([dict(c, loglevel=1) for c in cases])
    return [len(r["mirror"][-1]["log"]) for r in res]


def generate(tier, rng):
    k = 3 if tier == "quick" else 4
    maxlen = 2 if tier == "quick" else 3
    states = fc.forest_states(k)
    base = []
    for st in states:
        calls_nm = fc.all_calls(k, maxlen, nonnode=True)
        calls_lt = fc.all_calls(k, maxlen, nonnode=False)
        if tier == "quick":
            calls_nm = [c for i, c in enumerate(calls_nm) if c["op"] != "ctor" or i % 3 == 0]
            calls_lt = rng.sample(calls_lt, len(calls_lt) // 4)
        elif k == 4:
            calls_nm = rng.sample(calls_nm, len(calls_nm) // 12)
            calls_lt = rng.sample(calls_lt, len(calls_lt) // 48)
        for call in calls_nm:
            base.append(fc.mk("nm", False, k, st + [call], cls=rng.choice(fc.NM_CLASSES)))
        for call in calls_lt:
            base.append(fc.mk("light", False, k, st + [call]))
    lens = _final_log_len(base)
    for c, n in zip(base, lens):
        c["loglevel"] = 0
        yield c
        if n == 0:
            continue
        variants = fc.fault_variants(c["ops"][-1], n, persistent=True)
        if tier == "quick" and len(variants) > 6:
            variants = rng.sample(variants, 6)
        for v in variants:
            yield dict(c, ops=c["ops"][:-1] + [v])
    for _ in range(80 if tier == "quick" else 1000):
        # trees mixing NodeMixin- and LightNodeMixin-based nodes are not supported by the library (an attach across the two
        # families fails with AttributeError on the other family's private list) and are outside the mirror; but however such
        # a call ends, both link directions must still agree afterwards (checked on the implementation alone)
        n0 = rng.randrange(3, 7)
        ops = [o for o in fc.random_history(rng, n0, rng.randrange(3, 11), nonnode=False) if o["op"] != "ctor"]
        ops = [o for o in ops if max([o.get("n", 0)] + [x for x in (o.get("xs") or []) if isinstance(x, int)] + [o["v"] if isinstance(o.get("v"), int) else 0]) < n0]
        c = fc.mk("nm", False, n0, ops, mixed=rng.choice([["mixin", "light"], ["light", "node", "anynode"], ["anynode", "light", "light"]]))
        c["loglevel"] = 0
        c["xfamily"] = True
        yield c
    for n0, ops in fc.reentrant_histories(rng, tier):
        fl = rng.choice(["nm", "nm", "light"])
        c = fc.mk(fl, False, n0, ops, cls=(rng.choice(fc.NM_CLASSES) if fl == "nm" else None))
        c["loglevel"] = 0
        yield c
    for n0, ops in fc.wide_histories(rng, tier):
        fl = rng.choice(["nm", "nm", "light"])
        if any(fc.has_nonnode(o) for o in ops):
            fl = "nm"
        c = fc.mk(fl, False, n0, ops, cls=(rng.choice(fc.NM_CLASSES) if fl == "nm" else None))
        c["loglevel"] = 0
        yield c
    nrand = 600 if tier == "quick" else 8000
    for _ in range(nrand):
        n0 = rng.randrange(3, 7)
        fl = rng.choice(["nm", "nm", "light"])
        ops = fc.random_history(rng, n0, rng.randrange(3, 11 if tier == "quick" else 26), nonnode=(fl == "nm"))
        for o in ops:
            r = rng.random()
            if r < 0.35:
                o["faults"] = {"at": sorted(set(rng.randrange(0, 12) for _ in range(rng.choice([1, 1, 2, 3]))))}
            elif r < 0.45:
                o["faults"] = {"kinds": rng.sample(fc.ALL_KINDS, rng.choice([1, 2, 4]))}
            elif r < 0.5:
                o["faults"] = {"kinds": rng.sample(fc.ALL_KINDS, 2), "nodes": rng.sample(range(n0), 2)}
        mixed = None
        cls = None
        if fl == "nm":
            if rng.random() < 0.3:
                mixed = [rng.choice(fc.NM_CLASSES) for _ in range(3)]
            else:
                cls = rng.choice(fc.NM_CLASSES)
        c = fc.mk(fl, False, n0, ops, cls=cls, mixed=mixed)
        c["loglevel"] = 0
        yield c


def judge(case, impl, drv):
    """property: Inv holds on the implementation after every call and no internal assertion fires;
    correspondence: outcome class and full link map equal to the mirror's after every call"""
    if not isinstance(impl, list):
        return False, False
    p_ok = all(fc.py_inv(r["snap"]) and r["res"] != "AssertionError" for r in impl)
    if case.get("xfamily"):
        return p_ok, True           # outside the mirror: the invariant is checked on the implementation alone
    mir = drv["mirror"]
    c_ok = True
    for i, r in enumerate(impl):
        if r["res"] == "RecursionError":
            c_ok = c_ok and mir[i]["res"] == "RecursionError"
            break
        if r["res"] != mir[i]["res"] or r["snap"] != mir[i]["snap"]:
            c_ok = False
            break
    if len(impl) != len(mir) and not (impl and impl[-1]["res"] == "RecursionError"):
        c_ok = False
    return p_ok, c_ok


def mirror_spec_ok(case, drv):
    return all(s["inv"] for s in drv["spec"])


def nontrivial(case):
    return sum(1 for o in case["ops"] if o["op"] in ("sp", "sc", "ctor")) >= 3


def distribution(cases, results):
    d = {"ops": {}, "outcomes": {}, "classes": {}, "faulted_calls": 0, "history_len": {}}
    for c, rs in zip(cases, results):
        cl = c.get("cls") or ("mixed" if c.get("mixed") else c["fl"])
        d["classes"][cl] = d["classes"].get(cl, 0) + 1
        L = len(c["ops"])
        d["history_len"][str(L)] = d["history_len"].get(str(L), 0) + 1
        for o in c["ops"]:
            d["ops"][o["op"]] = d["ops"].get(o["op"], 0) + 1
            if o.get("faults"):
                d["faulted_calls"] += 1
        if isinstance(rs, list):
            for r in rs:
                key = r["res"].split(":")[0] + (":" + r["res"].split(":")[2] if r["res"].startswith("HookAbort") else "")
                d["outcomes"][key] = d["outcomes"].get(key, 0) + 1
    return d
