"""C02 — attach, move, detach and children assignment have exactly the specified effect."""
from props import forest_common as fc

ID = "C02"
LEVEL_TEXT = ("The closed-form effect of the fault-free structural calls (Spec.setParent / setChildren / delChildren / "
              "ctor: refusal class decided on the pre-state, final links given without loops) is proved equal to what the "
              "Lean mirror of the setters computes, for every consistent forest and every argument; the mirror is tied "
              "to /repo by running every call (all parent targets, all children sequences up to length 3 incl. repeated, "
              "own, ancestor, descendant and non-node elements, deleter, constructors) from every ordered forest over 3 "
              "(thorough 4) nodes on NodeMixin and LightNodeMixin classes and comparing exception class and the full "
              "link map.")
LEVEL_NOTE = ("Trusted: Lean kernel, standard axioms; the mirror lean/Anytree/Model/Forest.lean; hooks do nothing in this "
              "property (fault-free calls). Non-node arguments to LightNodeMixin classes are outside the model (the "
              "property restricts the TreeError clause to NodeMixin-based classes)."
              " Hooks that make structural calls of their own are outside the model (its hooks observe or raise); one class of them - a hook that detaches ANOTHER node while the call is in progress - is exercised in the correspondence run against the mirror run on the nested call followed by the outer one (driver field pre_ops); for a parent assignment this equivalence is proved of the extended mirror (Model/ForestR.lean, C02r.setParentR_eq_seq, inv_setParentR); for the children deleter as well (C02s.delChildrenR_eq_seq, inv_delChildrenR); for the attach phase of a children assignment it is searched, not proved.")
MODULES = ['Anytree.Props.C02', 'Anytree.Props.C02b', 'Anytree.Props.C02r', 'Anytree.Props.C02s']
THEOREMS = [
    ("Anytree.Props.C02.setParent_eq_spec", "full"),
    ("Anytree.Props.C02.delChildren_eq_spec", "full"),
    ("Anytree.Props.C02.setParent_treeError_iff", "full"),
    ("Anytree.Props.C02.setParent_loopError_iff", "full"),
    ("Anytree.Props.C02.setParent_same", "full"),
    ("Anytree.Props.C02.setParent_none_root", "full"),
    ("Anytree.Props.C02.setParent_effect", "full"),
    ("Anytree.Props.C02.setParent_none_effect", "full"),
    ("Anytree.Props.C02.delChildren_effect", "full"),
    ("Anytree.Props.C02.setChildren_eq_spec", "full"),
    ("Anytree.Props.C02.setChildren_effect", "full"),
    ("Anytree.Props.C02.setChildren_refusal", "full"),
    ("Anytree.Props.C02.checkChildren_eq_firstBad", "full"),
    ("Anytree.Props.C02.setChildren_res_eq_spec", "full"),
    ("Anytree.Props.C02.setChildren_eq_spec_gen", "full"),
    ("Anytree.Props.C02.setChildren_loopError", "full"),
    ("Anytree.Props.C02.setChildren_loopError_state", "full"),
    ("Anytree.Props.C02.ctor_eq_spec", "full"),
    ("Anytree.Props.C02.ctor_eq_spec_gen", "full"),
    ("Anytree.Props.C02.exec_res_eq_spec", "full"),
    ("Anytree.Props.C02.setChildren_typeError_iff", "full"),
    ("Anytree.Props.C02.setChildren_treeError_iff", "full"),
    ("Anytree.Props.C02.setChildren_loopError_iff", "full"),
    ("Anytree.Props.C02.setChildren_ok_iff", "full"),
    ("Anytree.Props.C02.firstBad_none_iff", "full"),
    ("Anytree.Props.C02.firstBad_some_iff", "full"),
    ("Anytree.Props.C02r.setParentR_eq_seq", "full"),
    ("Anytree.Props.C02r.setParentR_forest", "full"),
    ("Anytree.Props.C02r.setParentR_noop", "full"),
    ("Anytree.Props.C02s.delChildrenR_eq_seq", "full"),
    ("Anytree.Props.C02s.delChildrenR_sibling", "full"),
    ("Anytree.Props.C02s.delChildrenR_forest", "full"),
]
NOT_COVERED = ['where the specification refuses a children assignment with LoopError the theorems claim the result class only: the links the code leaves behind are proved to be Spec.restored (setChildren_loopError_state), which differs from the pre-state exactly in finding K3']
PREDICATE_SPEC = True
RULE = ("every ordered labelled forest over k nodes (quick 3, thorough 4) x every call (children sequences up to length "
        "3 quick / 3 thorough, sampled 1/4 for k=4), both flavours; plus seeded random fault-free histories up to length "
        "12/30 over 3-7 nodes. Distinct = distinct history; non-trivial = final call changes the forest or is refused.")


def generate(tier, rng):
    k = 3 if tier == "quick" else 4
    states = fc.forest_states(k)
    for st in states:
        calls = fc.all_calls(k, 3, nonnode=True)
        if k == 4:
            calls = rng.sample(calls, len(calls) // 4)
        for call in calls:
            c = fc.mk("nm", False, k, st + [call], cls=rng.choice(fc.NM_CLASSES))
            c["loglevel"] = 0
            yield c
        calls = fc.all_calls(k, 3, nonnode=False)
        calls = rng.sample(calls, len(calls) // (3 if k == 3 else 12))
        for call in calls:
            c = fc.mk("light", False, k, st + [call])
            c["loglevel"] = 0
            yield c
    for w in ([257] if tier == "quick" else [257, 300]):
        # more children than CPython caches small ints for (and than any 8-bit cut-off)
        kids = list(range(1, w + 1))
        for fl in ("nm", "light"):
            c = fc.mk(fl, False, w + 2, [{"op": "sc", "n": 0, "xs": kids, "as": rng.choice(["list", "tuple"])}],
                      cls=("mixin" if fl == "nm" else None))
            c["loglevel"] = 0
            yield c
        c = fc.mk("nm", False, w + 1, [{"op": "ctor", "p": None, "cs": kids, "as": "list"}], cls="node")
        c["loglevel"] = 0
        yield c
    for n0, ops in fc.reentrant_histories(rng, tier):
        fl = rng.choice(["nm", "light"])
        c = fc.mk(fl, False, n0, ops, cls=(rng.choice(fc.NM_CLASSES) if fl == "nm" else None))
        c["loglevel"] = 0
        yield c
    for n0, ops in fc.wide_histories(rng, tier, faults=False):
        fl = rng.choice(["nm", "light"])
        if any(fc.has_nonnode(o) for o in ops):
            fl = "nm"
        c = fc.mk(fl, False, n0, ops, cls=(rng.choice(fc.NM_CLASSES) if fl == "nm" else None))
        c["loglevel"] = 0
        yield c
    for _ in range(500 if tier == "quick" else 8000):
        n0 = rng.randrange(3, 8)
        fl = rng.choice(["nm", "light"])
        ops = fc.random_history(rng, n0, rng.randrange(3, 13 if tier == "quick" else 31), nonnode=(fl == "nm"))
        c = fc.mk(fl, False, n0, ops, cls=(rng.choice(fc.NM_CLASSES) if fl == "nm" else None))
        c["loglevel"] = 0
        yield c


def judge(case, impl, drv):
    if not isinstance(impl, list):
        return False, False
    mir, spec = drv["mirror"], drv["spec"]
    p_ok = c_ok = True
    if len(impl) != len(mir):
        return False, False
    for r, m, s in zip(impl, mir, spec):
        if r["res"] != m["res"] or r["snap"] != m["snap"]:
            c_ok = False
        # the property: refusal class exactly as specified; links after a successful call as specified
        if s["res"] is not None and r["res"] != s["res"]:
            p_ok = False
        if r["res"] == "ok" and s["snap"] is not None and r["snap"] != s["snap"]:
            p_ok = False
        if not (p_ok and c_ok):
            break
    return p_ok, c_ok


def mirror_spec_ok(case, drv):
    for m, s in zip(drv["mirror"], drv["spec"]):
        if s["res"] is not None and m["res"] != s["res"]:
            return False
        if m["res"] == "ok" and s["snap"] is not None and m["snap"] != s["snap"]:
            return False
    return True


def nontrivial(case):
    return len(case["ops"]) >= 2


def distribution(cases, results):
    from props.C01 import distribution as d
    return d(cases, results)
