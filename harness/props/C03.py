"""C03 — a refused or hook-vetoed structural change leaves the whole forest untouched."""
import core
from props import forest_common as fc

ID = "C03"
LEVEL_TEXT = ("The part of the property that is true of the code is proved on the Lean mirror for every consistent forest: "
              "a refused parent assignment (TreeError, LoopError), a parent assignment vetoed by _pre_detach or (for a root) "
              "_pre_attach, a children assignment refused by its argument checks, and a children deletion/assignment vetoed by "
              "_pre_detach_children or the first child's _pre_detach leave the state untouched (C03_partial). The full "
              "statement is proved FALSE of the mirror by kernel-checked witnesses K1-K3 (decide) and K4 (divergence for "
              "every fuel), each replayed on the implementation and listed in known_findings.json with the exact damage. "
              "The correspondence run enumerates every single pre-hook fault position and the persistent (read-only class) "
              "schedules of every call from every forest over 3 (thorough 4) nodes and compares snapshots before/after.")
LEVEL_NOTE = ("Partial by necessity: the unchanged code violates the property in four characterised classes (K1 vetoed move "
              "leaves the node detached; K2 a later child's _pre_detach veto leaves earlier children detached; K3 a failing "
              "children assignment does not return children taken from other parents; K4 a persistently vetoed restore "
              "recurses without bound). These are reported as KNOWN-FINDING and only a deviation outside these classes, or "
              "a different damage inside them, is a VIOLATION. Trusted: Lean kernel, standard axioms, the mirror.")
MODULES = ['Anytree.Props.C03', 'Anytree.Props.C03b']
THEOREMS = [
    ("Anytree.Props.C03.C03_full_false", "witness"),
    ("Anytree.Props.C03.K1_witness", "witness"),
    ("Anytree.Props.C03.K2_witness", "witness"),
    ("Anytree.Props.C03.K3_witness", "witness"),
    ("Anytree.Props.C03.C03_partial_setParent", "partial"),
    ("Anytree.Props.C03.K1_state", "partial"),
    ("Anytree.Props.C03.setParent_no_assertion", "partial"),
    ("Anytree.Props.C03.C03_partial_setChildren_checks", "partial"),
    ("Anytree.Props.C03.C03_partial_delChildren", "partial"),
    ("Anytree.Props.C03.C03_partial_setChildren_delete_phase", "partial"),
    ("Anytree.Props.C03.delete_loop_errors", "partial"),
    ("Anytree.Props.C03.K4_persistent_preAttachChildren_diverges", "witness"),
    ("Anytree.Props.C03.K4_state", "witness"),
    ("Anytree.K4_witness", "witness"),
    ("Anytree.Props.C03.C03_attach_phase_preAttachChildren_gen", "partial"),
    ("Anytree.Props.C03.C03_attach_phase_preAttachChildren", "partial"),
    ("Anytree.Props.C03.C03_attach_phase_preAttachChildren'", "partial"),
    ("Anytree.Props.C03.C03_attach_phase_preAttach", "partial"),
    ("Anytree.Props.C03.C03_attach_phase_preDetach", "partial"),
    ("Anytree.Props.C03.C03_attach_phase_loopError", "partial"),
    ("Anytree.Props.C03.A1_position_needed", "witness"),
]
NOT_COVERED = ["C03_full is false of the unchanged code (C03_full_false); what is proved are the C03_partial_* theorems (parent "
               "assignment; children deletion; argument checks and delete phase of children assignment) and the C03_attach_phase_* "
               "theorems (a one-shot veto by _pre_attach_children, by the _pre_attach/_pre_detach of an element, or a LoopError in "
               "the attach loop restores the old state when no element processed so far came from another parent: the complements "
               "of K3/K4). Not proved: that the stated hook positions are the only ones at which those errors can arise, and "
               "one-shot faults striking inside the restore after a LoopError (class K4); both are covered by the fault enumeration"]
PREDICATE_SPEC = True
KNOWN_IDS = set()
KNOWN_HITS = {}
RULE = ("every ordered labelled forest over k nodes (quick 3, thorough 4) x every call, then every single fault position "
        "of the call's hook sequence and the persistent fault classes (all pre hooks; each pre kind alone); refused calls "
        "(non-node, duplicate, loop, non-iterable); NodeMixin- and LightNodeMixin-based classes. Distinct = distinct "
        "history; non-trivial = the final call raises.")


def generate(tier, rng):
    k = 3 if tier == "quick" else 4
    states = fc.forest_states(k)
    base = []
    for st in states:
        calls = fc.all_calls(k, 2 if tier == "quick" else 3, nonnode=True)
        if tier == "quick":
            calls = [c for c in calls if c["op"] != "ctor"] + rng.sample([c for c in calls if c["op"] == "ctor"], 12)
        if k == 4:
            calls = rng.sample(calls, len(calls) // 8)
        for call in calls:
            fl = "nm" if rng.random() < 0.7 else "light"
            if fl == "light" and fc.has_nonnode(call):
                fl = "nm"
            base.append(fc.mk(fl, False, k, st + [call], cls=(rng.choice(fc.NM_CLASSES) if fl == "nm" else None)))
    res = core.run_driver([dict(c, loglevel=1) for c in base])
    for c, r in zip(base, res):
        c["loglevel"] = 1
        last = r["mirror"][-1]
        if last["res"] != "ok":
            yield c                                    # refused call
        log = last["log"]
        op = c["ops"][-1]
        for i, e in enumerate(log):
            if e[0].startswith("pre_"):
                yield dict(c, ops=c["ops"][:-1] + [dict(op, faults={"at": [i]})])
        if log:
            variants = [fc.PRE_KINDS, ["pre_attach"], ["pre_detach"], ["pre_detach_children"]]
            if rng.random() < 0.05:
                variants.append(["pre_attach_children"])    # K4: unbounded recursion, expensive to run
            for kinds in variants:
                if any(e[0] in kinds for e in log):
                    yield dict(c, ops=c["ops"][:-1] + [dict(op, faults={"kinds": kinds})])
    for n0, ops, pinned, after in fc.pinned_cases(rng, tier):
        fl = rng.choice(["nm", "light"])
        c = fc.mk(fl, False, n0, ops, cls=("pinmixin" if fl == "nm" else "lightpin"))
        c.update({"pinned": pinned, "pin_after": after, "loglevel": 1})
        yield c
    for n0, ops in fc.wide_histories(rng, tier, pre_only=True):
        fl = rng.choice(["nm", "light"])
        if any(fc.has_nonnode(o) for o in ops):
            fl = "nm"
        c = fc.mk(fl, False, n0, ops, cls=(rng.choice(fc.NM_CLASSES) if fl == "nm" else None))
        c["loglevel"] = 1
        yield c
    for _ in range(300 if tier == "quick" else 5000):
        n0 = rng.randrange(3, 7)
        fl = rng.choice(["nm", "light"])
        ops = fc.random_history(rng, n0, rng.randrange(3, 9 if tier == "quick" else 16), nonnode=(fl == "nm"))
        for o in ops:
            r = rng.random()
            if r < 0.3:
                o["faults"] = {"at": [rng.randrange(0, 10)]}
            elif r < 0.4:
                o["faults"] = {"kinds": rng.choice([fc.PRE_KINDS, ["pre_attach"], ["pre_detach"]])}
        c = fc.mk(fl, False, n0, ops, cls=(rng.choice(fc.NM_CLASSES) if fl == "nm" else None))
        c["loglevel"] = 1
        yield c


def _first_pre(op, r):
    hits = fc.fault_hits(op.get("faults"), r["log"] or [])
    return hits


def judge(case, impl, drv):
    if not isinstance(impl, list):
        return False, False
    if case.get("pinned"):
        # model-free: the final call meets the pinned first child before it has changed anything: it must raise TreeError
        # and leave the forest as it was; the history before it must agree with the mirror
        k = case["pin_after"]
        mirk = drv["mirror"][:k]
        c_ok = len(impl) == len(case["ops"]) and all(r["res"] == m["res"] and r["snap"] == m["snap"] for r, m in zip(impl[:k], mirk))
        before = impl[k - 1]["snap"] if k else [[None, []] for _ in range(case["n0"])]
        p_ok = len(impl) > k and impl[k]["res"] == "TreeError" and impl[k]["snap"] == before
        return p_ok, c_ok
    mir, spec = drv["mirror"], drv["spec"]
    p_ok = c_ok = True
    pre = [[None, []] for _ in range(case["n0"])]
    for i, r in enumerate(impl):
        op, m, s = case["ops"][i], mir[i], spec[i]
        same = (r["res"] == m["res"] and (r["res"] == "RecursionError" or r["snap"] == m["snap"]))
        if not same:
            c_ok = False
        if r["res"] != "ok":
            # the property: a call that raises because it is refused or because a *pre* hook raised
            vetoed = (not r["res"].startswith("HookAbort")) or ":pre_" in r["res"]
            unchanged = (r["res"] != "RecursionError" and s["snap"] is not None and r["snap"] == s["snap"])
            if vetoed and s["snap"] is not None and not unchanged or r["res"] == "RecursionError":
                cls = fc.finding_class(pre, op, r)
                if cls is not None and cls in KNOWN_IDS and same:
                    KNOWN_HITS.setdefault(cls, []).append(case)
                else:
                    p_ok = False
        if r["res"] == "RecursionError":
            break
        pre = r["snap"]
        if not (p_ok and c_ok):
            break
    if len(impl) != len(mir) and not (impl and impl[-1]["res"] == "RecursionError"):
        c_ok = False
    return p_ok, c_ok


def mirror_spec_ok(case, drv):
    # the mirror reproduces the findings, so it differs from the spec exactly inside the finding classes
    pre = [[None, []] for _ in range(case["n0"])]
    for op, m, s in zip(case["ops"], drv["mirror"], drv["spec"]):
        if m["res"] != "ok" and s["snap"] is not None:
            vetoed = (not m["res"].startswith("HookAbort")) or ":pre_" in m["res"]
            if vetoed and (m["res"] == "RecursionError" or m["snap"] != s["snap"]):
                if fc.finding_class(pre, op, m) is None:
                    return False
        if m["res"] == "RecursionError":
            break
        pre = m["snap"]
    return True


def nontrivial(case):
    return len(case["ops"]) >= 2


def distribution(cases, results):
    from props.C01 import distribution as d
    out = d(cases, results)
    out["finding_classes_hit"] = {k: len(v) for k, v in KNOWN_HITS.items()}
    return out
