"""C04 — navigation attributes and sibling/ancestor helpers equal their definitions."""
import itertools

import gen
from props import forest_common as fc

ID = "C04"
LEVEL_TEXT = ("For every tree and every node (as root + address, no bound on size or depth) the Lean mirror of path, "
              "ancestors, root, depth, is_root, is_leaf, siblings, descendants, leaves, size, height, "
              "util.commonancestors, leftsibling and rightsibling is proved equal to its definition over the "
              "parent/children relation (prefix chain, parent's other children, pre-order of the subtree, longest "
              "downward path, longest common prefix of ancestor chains, neighbour in the parent's list). Tied to /repo by "
              "evaluating every attribute of every node of every shape up to 5 (thorough 7) nodes, every pair and sampled "
              "triples for commonancestors, and after every call of mutation histories (model-A state unfolded to trees).")
LEVEL_NOTE = ("Trusted: Lean kernel, standard axioms; the zipper mirror lean/Anytree/Model/Nav.lean; plain node classes "
              "(identity comparison; classes overriding __eq__/__bool__ are C17's subject). 'Correct immediately after any "
              "mutation' is by construction in the model (the functions take only the current links) and is validated by the "
              "history cases; the formal bridge lemma from model A to trees is not proved.")
MODULES = ['Anytree.Props.C04', 'Anytree.Props.Bridge']
THEOREMS = [
    ("Anytree.Props.C04.path_eq", "full"),
    ("Anytree.Props.C04.path_chain", "full"),
    ("Anytree.Props.C04.ancestors_eq", "full"),
    ("Anytree.Props.C04.root_eq", "full"),
    ("Anytree.Props.C04.root_is_path_head", "full"),
    ("Anytree.Props.C04.depth_eq", "full"),
    ("Anytree.Props.C04.depth_eq_len_ancestors", "full"),
    ("Anytree.Props.C04.isRoot_eq", "full"),
    ("Anytree.Props.C04.isLeaf_eq", "full"),
    ("Anytree.Props.C04.siblings_eq", "full"),
    ("Anytree.Props.C04.descendants_eq", "full"),
    ("Anytree.Props.C04.leaves_eq", "full"),
    ("Anytree.Props.C04.size_eq", "full"),
    ("Anytree.Props.C04.size_eq_succ_descendants", "full"),
    ("Anytree.Props.C04.height_eq", "full"),
    ("Anytree.Props.C04.height_spec", "full"),
    ("Anytree.Props.C04.commonAncestors_eq", "full"),
    ("Anytree.Props.C04.lcpAll_prefix", "full"),
    ("Anytree.Props.C04.lcpAll_maximal", "full"),
    ("Anytree.Props.C04.leftSibling_eq", "full"),
    ("Anytree.Props.C04.rightSibling_eq", "full"),
    ("Anytree.Props.Bridge.kids_labels", "full"),
    ("Anytree.Props.Bridge.sub_label", "full"),
    ("Anytree.Props.Bridge.complete", "full"),
    ("Anytree.Props.Bridge.fuel_stable", "full"),
    ("Anytree.Props.Bridge.parent_agrees", "full"),
    ("Anytree.Props.Bridge.child_exists", "full"),
    ("Anytree.Props.Bridge.existsUnique_addr", "full"),
    ("Anytree.Props.Bridge.pre_nodup", "full"),
    ("Anytree.Props.Bridge.mem_pre", "full"),
    ("Anytree.Props.Bridge.roots_partition", "full"),
    ("Anytree.Props.Bridge.path_nodes", "full"),
    ("Anytree.Props.Bridge.parent_attr", "full"),
    ("Anytree.Props.Bridge.children_attr", "full"),
    ("Anytree.Props.Bridge.depth_chain", "full"),
]
NOT_COVERED = []
RULE = ("node classes: plain NodeMixin, LightNodeMixin, and a class with value __eq__/__hash__ under which many distinct nodes "
        "compare equal; static: every ordered shape up to N nodes (quick 5, thorough 7), shuffled labels, plus a second one-node tree, "
        "all attributes of all nodes, commonancestors for (), every single, every pair, sampled triples; random shapes up "
        "to 12/40 nodes; histories: random fault-free call sequences over 4-6 nodes with all attributes of all nodes after "
        "every call. Distinct = distinct case; non-trivial = at least 3 nodes in one tree.")


def _sorted_tree(t):
    return [t[0], sorted((_sorted_tree(c) for c in t[1]), key=lambda c: c[0])]


def generate(tier, rng):
    # far deeper than the interpreter's recursion limit: what is defined by walking the parent links must not recurse per level
    for depth in ([1500] if tier == "quick" else [1500, 3000]):
        yield {"fam": "deepchain", "depth": depth, "cls": rng.choice(["nm", "light", "node"]), "what": "nav"}
    nmax = 5 if tier == "quick" else 7
    for n in range(1, nmax + 1):
        for sh in gen.shapes(n):
            t = gen.labelled(sh, rng, n >= 3)
            labs = gen.tree_labels(t)
            extra = [n + 5, []]
            tups = [[]] + [[a] for a in labs] + [list(p) for p in itertools.product(labs, repeat=2)]
            tups += [[a, n + 5] for a in labs[:2]]
            for _ in range(6):
                tups.append([rng.choice(labs) for _ in range(3)])
            for cls in ("nm", "light", "eq", "falsy"):
                yield {"fam": "nav", "trees": [t, extra], "ca": tups, "cls": cls}
    for _ in range(60 if tier == "quick" else 800):
        n = rng.randrange(6, 13 if tier == "quick" else 41)
        t = gen.labelled(gen.random_shape(rng, n), rng, True)
        labs = gen.tree_labels(t)
        tups = [[rng.choice(labs) for _ in range(rng.choice([2, 2, 3, 4]))] for _ in range(12)]
        yield {"fam": "nav", "trees": [t], "ca": tups, "cls": rng.choice(["nm", "light", "eq", "falsy", "links"])}
        if rng.random() < 0.5:
            # a class overriding the public `children` attribute (a sorted view of the stored list)
            yield {"fam": "nav", "trees": [_sorted_tree(t)], "ca": tups, "cls": "sortedview"}
    # scale: wide and deep trees (cut-offs such as "above 32 children / ancestors" never engage on small trees)
    for sh in gen.big_shapes(rng, tier, 300):
        t = gen.labelled(sh, rng, True)
        labs = gen.tree_labels(t)
        dl = gen.deep_labels(t)
        tups = [[dl[-1]], [dl[-1], dl[-1]], [dl[-1], dl[len(dl) // 2]], [dl[-1], dl[-2], dl[len(dl) // 3]], [dl[-2], dl[-1]]]
        tups += [[rng.choice(labs) for _ in range(rng.choice([2, 3]))] for _ in range(8)]
        # siblings / cousins at the bottom of the deepest path
        from props.C05 import _sub as _subtree
        par = _subtree(t, dl[-2]) if len(dl) >= 2 else t
        kids = [c[0] for c in par[1]]
        if len(kids) >= 2:
            tups += [kids[:2], kids[-2:], kids[:3]]
        yield {"fam": "nav", "trees": [t], "ca": tups, "cls": rng.choice(["nm", "light", "eq", "falsy", "links"])}
    for _ in range(150 if tier == "quick" else 2500):
        n0 = rng.randrange(3, 7)
        fl = rng.choice(["nm", "light"])
        ops = fc.random_history(rng, n0, rng.randrange(3, 9 if tier == "quick" else 16), nonnode=False)
        for o in ops:
            # values must be correct right after *any* mutation, also one that a hook aborted half-way
            if rng.random() < 0.3:
                o["faults"] = {"at": [rng.randrange(0, 8)]}
        tups = [[rng.randrange(n0) for _ in range(rng.choice([2, 3]))] for _ in range(4)]
        yield {"fam": "nav", "fl": fl, "n0": n0, "ops": ops, "ca": tups,
               "cls": (rng.choice(["mixin", "node", "anynode"]) if fl == "nm" else None)}


def judge(case, impl, drv):
    if case.get("fam") == "deepchain":
        return impl == {"ok": True}, True
    if isinstance(impl, list) and impl and impl[-1].get("res") == "RecursionError":
        n = len(impl) - 1          # nothing is comparable from a RecursionError on (finding K4)
        return impl[:n] == drv["spec"][:n], impl[:n] == drv["mirror"][:n]
    return impl == drv["spec"], impl == drv["mirror"]


def nontrivial(case):
    if case.get("fam") == "deepchain":
        return True
    if "trees" in case:
        return gen.tree_size(case["trees"][0]) >= 3
    return len(case["ops"]) >= 3
