"""C05 — each iterator visits every node of the subtree exactly once in its defined order."""
import gen

ID = "C05"
LEVEL_TEXT = ("For every finite ordered tree (no bound on size or depth) the Lean mirror of each of the five iterators, with default arguments, is proved equal to the textbook pre-/post-/level-order traversal (and its grouped and zig-zag forms); all traversals are proved permutations of the pre-order, and per iterator it is proved that the mirror yields exactly size(t) nodes, yields a payload iff the pre-order lists it, and yields none twice under pairwise distinct payloads. The mirror is tied to /repo's iterators by running both on every shape up to 5 (thorough 7) nodes from every start node and on random larger shapes, also checking that iteration does not modify the tree.")
LEVEL_NOTE = ("Trusted: Lean kernel; standard axioms only (propext, Classical.choice, Quot.sound); the hand-written mirror lean/Anytree/Model/Iter.lean (the stop filter of PostOrderIter's recursive call is fused into its loop); the correspondence run's generators. Node identity is modelled by the node's subtree value; 'exactly once' is stated multiset-wise and under pairwise distinct payloads.")
THEOREMS = [
    ("Anytree.Props.C05.preIter_eq", "full"),
    ("Anytree.Props.C05.postIter_eq", "full"),
    ("Anytree.Props.C05.levelIter_eq", "full"),
    ("Anytree.Props.C05.groupIter_eq", "full"),
    ("Anytree.Props.C05.zigzagIter_eq", "full"),
    ("Anytree.Props.C05.group_flatten_eq_level", "full"),
    ("Anytree.Props.C05.pre_perm_post", "full"),
    ("Anytree.Props.C05.pre_perm_levelOrder", "full"),
    ("Anytree.Props.C05.zigzag_flatten_perm", "full"),
    ("Anytree.Props.C05.preIter_nodup", "full"),
    ("Anytree.Props.C05.pre_decorate", "full"),
    ("Anytree.Props.C05.post_decorate", "full"),
    ("Anytree.Props.C05.levels_decorate", "full"),
    ("Anytree.Props.C05b.pieces_flatten", "full"),
    ("Anytree.Props.C05b.exhausted_stays", "full"),
    ("Anytree.Props.C05b.preIter_pieces", "full"),
    ("Anytree.Props.C05c.pre_length", "full"),
    ("Anytree.Props.C05c.postIter_perm", "full"),
    ("Anytree.Props.C05c.levelIter_perm", "full"),
    ("Anytree.Props.C05c.groupIter_perm", "full"),
    ("Anytree.Props.C05c.zigzagIter_perm", "full"),
    ("Anytree.Props.C05c.preIter_length", "full"),
    ("Anytree.Props.C05c.postIter_length", "full"),
    ("Anytree.Props.C05c.levelIter_length", "full"),
    ("Anytree.Props.C05c.groupIter_length", "full"),
    ("Anytree.Props.C05c.zigzagIter_length", "full"),
    ("Anytree.Props.C05c.postIter_mem", "full"),
    ("Anytree.Props.C05c.levelIter_mem", "full"),
    ("Anytree.Props.C05c.groupIter_mem", "full"),
    ("Anytree.Props.C05c.zigzagIter_mem", "full"),
    ("Anytree.Props.C05c.postIter_nodup", "full"),
    ("Anytree.Props.C05c.levelIter_nodup", "full"),
    ("Anytree.Props.C05c.groupIter_nodup", "full"),
    ("Anytree.Props.C05c.zigzagIter_nodup", "full"),
]
MODULES = ["Anytree.Props.C05", "Anytree.Props.C05b", "Anytree.Props.C05c"]
NOT_COVERED = []
RULE = ("every ordered tree shape up to N nodes (quick 5, thorough 7) with pre-order and shuffled labels, every "
        "start node, all five iterators with default arguments; plus seeded random shapes (chains, stars, combs, "
        "random attachment) up to 12/40 nodes; the iterator object consumed in pieces (for-loop left early then resumed, next() calls, "
        "two iter() handles; an exhausted iterator must stay exhausted). Distinct = distinct (tree, start, kind); non-trivial = start "
        "subtree has >= 3 nodes.")
KINDS = ["pre", "post", "level", "group", "zigzag"]


def _sub(tree, label):
    if tree[0] == label:
        return tree
    for c in tree[1]:
        r = _sub(c, label)
        if r is not None:
            return r
    return None


def generate(tier, rng):
    nmax = 5 if tier == "quick" else 7
    for n in range(1, nmax + 1):
        for sh in gen.shapes(n):
            for shuffle in (False, True):
                if shuffle and n < 3:
                    continue
                t = gen.labelled(sh, rng, shuffle)
                for start in gen.tree_labels(t):
                    for k in KINDS:
                        yield {"fam": "iter", "tree": t, "start": start, "kind": k, "filter_out": [],
                               "stop": [], "maxlevel": None, "defaults": True, "cls": rng.choice(["nm", "light", "eq", "falsy", "shadow"])}
    # the iterator object as a one-pass stream: left early and resumed, explicit next(), two iter() handles
    for n in range(1, 5 if tier == "quick" else 6):
        for sh in gen.shapes(n):
            t = gen.labelled(sh, rng, n >= 3)
            for k in KINDS:
                for mode in ("forbreak", "next", "twoiters"):
                    for cut in (0, 1, 2, n):
                        yield {"fam": "iter", "tree": t, "start": t[0], "kind": k, "filter_out": [], "stop": [],
                               "maxlevel": None, "defaults": True, "cls": rng.choice(["nm", "light", "eq", "falsy", "shadow"]),
                               "consume": mode, "k": cut}
    for c in _big(tier, rng):
        yield c
    nrand = 150 if tier == "quick" else 1500
    big = 12 if tier == "quick" else 40
    for _ in range(nrand):
        n = rng.randrange(6, big + 1)
        t = gen.labelled(gen.random_shape(rng, n), rng, rng.random() < 0.7)
        labs = gen.tree_labels(t)
        for start in [t[0]] + rng.sample(labs, min(2, len(labs))):
            for k in KINDS:
                c = {"fam": "iter", "tree": t, "start": start, "kind": k, "filter_out": [],
                     "stop": [], "maxlevel": None, "defaults": rng.random() < 0.5, "cls": rng.choice(["nm", "light", "eq", "falsy", "shadow"])}
                if rng.random() < 0.3:
                    c["consume"] = rng.choice(["forbreak", "next", "twoiters"])
                    c["k"] = rng.randrange(0, n + 1)
                yield c


def _big(tier, rng):
    for sh in gen.big_shapes(rng, tier):
        t = gen.labelled(sh, rng, rng.random() < 0.7)
        dl = gen.deep_labels(t)
        for start in [t[0], dl[len(dl) // 2], dl[1] if len(dl) > 1 else t[0]]:
            for k in KINDS:
                c = {"fam": "iter", "tree": t, "start": start, "kind": k, "filter_out": [], "stop": [], "maxlevel": None,
                     "defaults": rng.random() < 0.5, "cls": rng.choice(["nm", "light", "eq", "falsy", "shadow"])}
                if rng.random() < 0.3:
                    c["consume"] = rng.choice(["forbreak", "next", "twoiters"])
                    c["k"] = rng.randrange(0, gen.tree_size(t) + 1)
                yield c


def nontrivial(case):
    return gen.tree_size(_sub(case["tree"], case["start"])) >= 3
