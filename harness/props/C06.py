"""C06 — filter_, stop and maxlevel restrict all iterators in the same, compositional way."""
import gen
from props.C05 import KINDS, _sub

ID = "C06"
LEVEL_TEXT = ('For every tree, every filter_/stop predicate on node objects and every maxlevel (any integer or None) the mirror of each iterator is proved equal to the textbook traversal of the admitted tree (nodes at relative depth below maxlevel with no stop node on their path) followed by filter_; maxlevel <= 0 and a stopped start node are proved to yield nothing; grouped iterators proved to yield one tuple per admitted level; filter_ proved to compose (iterating with F and G = iterating with F, then dropping what G rejects, for all five under every stop/maxlevel). Tied to /repo by exhaustive stop x filter x maxlevel enumeration on all shapes up to 4 nodes and sampled larger cases for all five iterators.')
LEVEL_NOTE = ('Trusted: Lean kernel; standard axioms only; the mirror lean/Anytree/Model/Iter.lean; generators. filter_/stop assumed pure and total. The characterisation of the admitted tree by addresses (membership = no stop on the path and depth < maxlevel) is by definition of Spec.admitT, a 6-line structural recursion.')
MODULES = ['Anytree.Props.C06', 'Anytree.Props.C06b', 'Anytree.Props.C06c']
THEOREMS = [
    ("Anytree.Props.C06.preIter_spec", "full"),
    ("Anytree.Props.C06.postIter_spec", "full"),
    ("Anytree.Props.C06.levelIter_spec", "full"),
    ("Anytree.Props.C06.groupIter_spec", "full"),
    ("Anytree.Props.C06.zigzagIter_spec", "full"),
    ("Anytree.Props.C06.maxlevel_nonpos_nil", "full"),
    ("Anytree.Props.C06.stop_start_nil", "full"),
    ("Anytree.Props.C06.group_flatten_eq_level", "full"),
    ("Anytree.Props.C06b.admittedB_iff", "full"),
    ("Anytree.Props.C06b.pre_positional", "full"),
    ("Anytree.Props.C06b.post_positional", "full"),
    ("Anytree.Props.C06b.level_positional", "full"),
    ("Anytree.Props.C06b.group_positional", "full"),
    ("Anytree.Props.C06b.preIter_positional", "full"),
    ("Anytree.Props.C06b.postIter_positional", "full"),
    ("Anytree.Props.C06b.levelIter_positional", "full"),
    ("Anytree.Props.C06b.groupIter_positional", "full"),
    ("Anytree.Props.C06b.zigzagIter_positional", "full"),
    ("Anytree.Props.C06b.group_count", "full"),
    ("Anytree.Props.C06b.mem_admitted_iff", "full"),
    ("Anytree.Props.C06b.mem_preIter_iff", "full"),
    ("Anytree.Props.C06b.stop_prunes_subtree", "full"),
    ("Anytree.Props.C06b.maxlevel_cuts_depth", "full"),
    ("Anytree.Props.C06b.filter_hides_only_itself", "full"),
    ("Anytree.Props.C06b.iterators_perm", "full"),
    ("Anytree.Props.C06b.mem_iterators_iff", "full"),
    ("Anytree.Props.C06b.iterators_sublist", "full"),
    ("Anytree.Props.C06c.filter_andF", "full"),
    ("Anytree.Props.C06c.zigzagSpec_map_filter", "full"),
    ("Anytree.Props.C06c.preIter_and", "full"),
    ("Anytree.Props.C06c.postIter_and", "full"),
    ("Anytree.Props.C06c.levelIter_and", "full"),
    ("Anytree.Props.C06c.groupIter_and", "full"),
    ("Anytree.Props.C06c.zigzagIter_and", "full"),
    ("Anytree.Props.C06c.preIter_filter", "full"),
    ("Anytree.Props.C06c.postIter_filter", "full"),
    ("Anytree.Props.C06c.levelIter_filter", "full"),
]
NOT_COVERED = []
RULE = ("all shapes up to 4 nodes, root start, every stop subset x every filtered-out subset x maxlevel in "
        "{None,-1,0..height+2}, all five iterators (exhaustive); every non-root start of shapes up to 5/6 nodes with "
        "every stop subset and a random filter set; random shapes up to 12/40 nodes with random sets. "
        "Distinct = distinct case; non-trivial = start subtree >= 3 nodes and at least one restriction active.")


_CLS = ["nm", "light", "eq", "falsy", "shadow"]


def _case(t, start, k, fo, st, m):
    return {"fam": "iter", "tree": t, "start": start, "kind": k, "filter_out": fo, "stop": st, "maxlevel": m,
            "cls": _CLS[(len(fo) + len(st) + start) % 5]}


def generate(tier, rng):
    ex = 4
    for n in range(1, ex + 1):
        for sh in gen.shapes(n):
            t = gen.labelled(sh, rng, n >= 3 and rng.random() < 0.5)
            labs = gen.tree_labels(t)
            h = gen.tree_height(t)
            for st in gen.subsets(labs):
                for fo in gen.subsets(labs):
                    for m in [None, -1] + list(range(0, h + 3)):
                        for k in KINDS:
                            yield _case(t, t[0], k, fo, st, m)
    nmax = 5 if tier == "quick" else 6
    for n in range(2, nmax + 1):
        for sh in gen.shapes(n):
            t = gen.labelled(sh, rng, True)
            labs = gen.tree_labels(t)
            h = gen.tree_height(t)
            for start in labs:
                sub = gen.tree_labels(_sub(t, start))
                for st in gen.subsets(sub, 3 if tier == "quick" else None):
                    fo = gen.random_subset(rng, labs)
                    m = rng.choice([None, None, 0, 1, 2, 3, h, h + 1])
                    for k in KINDS:
                        yield _case(t, start, k, fo, st, m)
    # scale: wide/deep trees with large maxlevels and big stop/filter sets
    for sh in gen.big_shapes(rng, tier):
        t = gen.labelled(sh, rng, True)
        labs = gen.tree_labels(t)
        dl = gen.deep_labels(t)
        h = gen.tree_height(t)
        for start in [t[0], dl[len(dl) // 2]]:
            st = gen.random_subset(rng, labs, rng.choice([0, 0.02, 0.1]))
            fo = gen.random_subset(rng, labs, rng.choice([0, 0.1, 0.5]))
            m = rng.choice([None, 1, 2, 16, 17, 32, 33, 64, 65, h // 2, h, h + 1, 1000] + ([255, 256, 257, 258, 259, h - 1, h - 2] if h > 256 else []))
            for k in KINDS:
                yield _case(t, start, k, fo, st, m)
        if h > 256:
            # level counters beyond the small-int cache (256): maxlevel just above it, cutting a still deeper tree
            for m in (256, 257, 258, h - 1):
                for k in KINDS:
                    yield _case(t, t[0], k, [], [], m)
    nrand = 400 if tier == "quick" else 6000
    big = 12 if tier == "quick" else 40
    for _ in range(nrand):
        n = rng.randrange(5, big + 1)
        t = gen.labelled(gen.random_shape(rng, n), rng, True)
        labs = gen.tree_labels(t)
        start = rng.choice(labs) if rng.random() < 0.5 else t[0]
        st = gen.random_subset(rng, labs)
        fo = gen.random_subset(rng, labs)
        m = rng.choice([None, None, 0, 1, 2, 3, 4, 6, 50, -3])
        for k in KINDS:
            yield _case(t, start, k, fo, st, m)


def nontrivial(case):
    return gen.tree_size(_sub(case["tree"], case["start"])) >= 3 and (
        bool(case["filter_out"]) or bool(case["stop"]) or case["maxlevel"] is not None)
