"""C07 — Resolver.get returns the node a path denotes and fails cleanly when none exists."""
import gen
from props import resolve_common as rc

ID = "C07"
LEVEL_TEXT = ("The Lean mirror of Resolver.get (split on the class separator, absolute-path handling with its two ResolverErrors, "
              "the component loop, first-matching-child lookup with optional case folding (str.upper() on ASCII and the letters of Str.caseTable), relax) is proved equal to the "
              "component-by-component specification with the first failing component's error class; relax=True is proved to "
              "return None in exactly the cases where strict raises and never to raise; for sibling-unique, well-formed names "
              "get along the components of the absolute path of n, and along the relative components spelled from Walker.walk(m, n), "
              "is proved to reach n from every m. Tied to /repo on every (start, target) pair of every shape up to 5 (thorough 6) "
              "nodes with absolute and Walker-relative paths, and on random paths over names with regex metacharacters, for all "
              "ignorecase x relax combinations, two separators and a non-default path attribute.")
LEVEL_NOTE = ("After the fix: commit for D1 (relaxed miss followed by further components). Trusted: Lean kernel, standard axioms; "
              "the mirror lean/Anytree/Model/Resolver.lean and Str.lean (Python str.split/startswith modelled; str.upper modelled on "
              "ASCII and the 17 letters of Str.caseTable/Str.multiUpper - other characters' case mapping is CPython's and outside the model); the theorems about "
              "absolute/relative paths are stated on component lists plus a split/join lemma for separator-free names.")
THEOREMS = [
    ("Anytree.Props.C07.getLoop_eq_walk", "full"),
    ("Anytree.Props.C07.get_eq_spec", "full"),
    ("Anytree.Props.C07.get_relaxed", "full"),
    ("Anytree.Props.C07.walk_error_class", "full"),
    ("Anytree.Props.C07.walk_down", "full"),
    ("Anytree.Props.C07.walk_up", "full"),
    ("Anytree.Props.C07.walk_append", "full"),
    ("Anytree.Props.C07.walk_relParts", "full"),
    ("Anytree.Props.C07.walk_absParts", "full"),
    ("Anytree.Props.C07.cmp_refl", "full"),
    ("Anytree.Props.C07.split_join_single", "full"),
    ("Anytree.Props.C07b.split_join", "full"),
    ("Anytree.Props.C07b.sepFree_of_head_notin", "full"),
    ("Anytree.Props.C07b.sepFree_necessary", "full"),
    ("Anytree.Props.C07b.get_absPath", "full"),
    ("Anytree.Props.C07b.get_relPath", "full"),
]
MODULES = ["Anytree.Props.C07", "Anytree.Props.C07b"]
NOT_COVERED = ["ignorecase on characters outside the model alphabet (ASCII plus the 17 letters of Str.caseTable/Str.multiUpper) is CPython's Unicode case mapping and not modelled; get_absPath/get_relPath carry the exact side condition SepFree (the separator occurs in name+separator only at the end: sepFree_necessary shows it cannot be dropped) and a non-empty root name"]
PREDICATE_SPEC = True
RULE = ("every ordered pair (m, n) of every shape up to N nodes (quick 5, thorough 6) with sibling-unique names: absolute path of n and "
        "the Walker-relative path from m, all four ignorecase x relax combinations; random paths of up to 4/6 components over names, "
        "unknown names, '..', '.', '' with leading/trailing/double separators; separators '/', ';', '::'; path attributes name/tag; "
        "nodes lacking the attribute. Distinct = distinct case; non-trivial = tree has >= 3 nodes.")


def mkcase(rng, t, sep, ic_names, unique):
    names = rc.names_for(rng, t, sep, unique, ic_names, not unique)
    c = {"fam": "resolve", "tree": t, "names": names, "sep": sep, "pathattr": rng.choice(["name", "name", "tag"]), "queries": [], "typed": rc.typed_labels(rng, names),
         "cls": rng.choice([None, None, "len", "falsy", "eq"])}
    if rng.random() < 0.1 and len(names) > 2:
        names.pop(rng.randrange(1, len(names)))          # a node lacking the attribute -> "None"
        c["lacks"] = True
    return c


def _renames(rng, c, t, sep, ic, candidates):
    """a node resolved before is renamed (the path attribute assigned), then resolved again under the new and the old name"""
    cur = [[l, v] for l, v in c["names"]]
    for x in candidates:
        if x == t[0]:
            continue
        old_abs = rc.abs_path(t, cur, sep, x)
        new = "rn%d" % x
        c["queries"].append({"fn": "rename", "label": x, "name": new, "relax": False, "ignorecase": False, "start": t[0], "path": ""})
        for e in cur:
            if e[0] == x:
                e[1] = new
        relax = rng.random() < 0.4
        c["queries"].append({"fn": "get", "start": rng.choice([t[0], x]), "path": rc.abs_path(t, cur, sep, x),
                             "ignorecase": ic, "relax": relax, "expect": x})
        c["queries"].append({"fn": "get", "start": t[0], "path": old_abs, "ignorecase": ic, "relax": relax})


def generate(tier, rng):
    # far deeper than the interpreter's recursion limit: what is defined by walking the parent links must not recurse per level
    for depth in ([1500] if tier == "quick" else [1500, 3000]):
        yield {"fam": "deepchain", "depth": depth, "cls": rng.choice(["nm", "light", "node"]), "what": "get"}
    nmax = 5 if tier == "quick" else 6
    for n in range(1, nmax + 1):
        for sh in gen.shapes(n):
            t = gen.labelled(sh, rng, True)
            sep = rng.choice(["/", "/", ";", "::"])
            ic = rng.random() < 0.5
            c = mkcase(rng, t, sep, ic, True)
            if c.get("lacks"):
                c.pop("lacks")
                continue
            labs = gen.tree_labels(t)
            if not rc.names_ok(c["names"], sep):
                continue
            for m in labs:
                for x in labs:
                    for relax in (False, True):
                        c["queries"].append({"fn": "get", "start": m, "path": rc.abs_path(t, c["names"], sep, x),
                                             "ignorecase": ic, "relax": relax, "expect": x})
                        c["queries"].append({"fn": "get", "start": m, "path": rc.rel_path(t, c["names"], sep, m, x),
                                             "ignorecase": ic, "relax": relax, "expect": x})
            yield c
    # scale: wide and deep trees (an index or a shortcut that only engages above a cut-off)
    for sh in gen.big_shapes(rng, tier):
        t = gen.labelled(sh, rng, True)
        sep = rng.choice(["/", "/", ";"])
        ic = rng.random() < 0.3
        names = rc.big_names(rng, t)
        c = {"fam": "resolve", "tree": t, "names": names, "sep": sep, "pathattr": "name", "queries": [], "typed": [], "cls": rng.choice([None, None, "eq", "falsy"])}
        labs = gen.tree_labels(t)
        dl = gen.deep_labels(t)
        targets = [dl[-1], dl[len(dl) // 2], labs[-1], labs[len(labs) // 2]] + [rng.choice(labs) for _ in range(6)]
        for x in targets:
            for m in (t[0], rng.choice(labs), dl[-1]):
                relax = rng.random() < 0.5
                c["queries"].append({"fn": "get", "start": m, "path": rc.abs_path(t, names, sep, x), "ignorecase": ic, "relax": relax, "expect": x})
                c["queries"].append({"fn": "get", "start": m, "path": rc.rel_path(t, names, sep, m, x), "ignorecase": ic, "relax": relax, "expect": x})
        for _ in range(8):
            c["queries"].append({"fn": "get", "start": rng.choice(labs), "path": rc.random_path(rng, names, sep, False, 4),
                                 "ignorecase": ic, "relax": rng.random() < 0.5})
        _renames(rng, c, t, sep, ic, targets + [labs[1], labs[len(labs) // 3]])
        yield c
    # all of Unicode, judged without the model: the round trip of C07 over names unique under every folding
    for _ in range(120 if tier == "quick" else 1500):
        t = gen.labelled(gen.random_shape(rng, rng.randrange(2, 8 if tier == "quick" else 12)), rng, True)
        yield rc.unires_roundtrip(rng, t)
    for _ in range(300 if tier == "quick" else 5000):
        t = gen.labelled(gen.random_shape(rng, rng.randrange(2, 9 if tier == "quick" else 16)), rng, True)
        sep = rng.choice(["/", "/", ";", "::"])
        ic = rng.random() < 0.4
        c = mkcase(rng, t, sep, ic, rng.random() < 0.7)
        c.pop("lacks", None)
        c["reuse"] = rng.random() < 0.3
        labs = gen.tree_labels(t)
        ascii_only = all(rc.in_alphabet(v) for _, v in c["names"])      # ASCII plus the letters of the model's case table
        for _ in range(12):
            q_ic = ic if rng.random() < 0.8 else not ic
            if not ascii_only:
                q_ic = False            # str.upper() outside the model's alphabet is CPython's case mapping: not modelled
            c["queries"].append({"fn": "get", "start": rng.choice(labs),
                                 "path": rc.random_path(rng, c["names"], sep, False, 4 if tier == "quick" else 6),
                                 "ignorecase": q_ic, "relax": rng.random() < 0.5})
        if rng.random() < 0.3 and ascii_only and rc.names_ok(c["names"], sep) and c.get("pathattr") == "name" and not c.get("typed") \
                and len(c["names"]) == len(labs) and rc.sibling_unique(t, c["names"], True):
            _renames(rng, c, t, sep, ic, rng.sample(labs, min(2, len(labs))))
        yield c


def judge(case, impl, drv):
    if case.get("fam") in ("deepchain", "unires"):
        return impl == {"ok": True}, True
    if isinstance(impl, dict) and impl.get("skip"):
        return True, True
    if not isinstance(impl, list):
        return False, False
    p_ok = c_ok = True
    for q, r, m, s in zip(case["queries"], impl, drv["mirror"], drv["spec"]):
        if q["fn"] == "rename":
            continue
        if r != m:
            c_ok = False
        if r != s:
            p_ok = False
        if "expect" in q and r != {"ok": q["expect"]}:
            p_ok = False                                  # get(m, path of n) must be n
        if q["relax"] and "ok" not in r:
            p_ok = False                                  # relaxed mode never raises
    return p_ok, c_ok


def mirror_spec_ok(case, drv):
    return drv["mirror"] == drv["spec"]


def nontrivial(case):
    if case.get("fam") in ("deepchain", "unires"):
        return True
    return gen.tree_size(case["tree"]) >= 3
