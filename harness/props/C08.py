"""C08 — Resolver.glob returns exactly the nodes a wildcard pattern denotes."""
import gen
from props import resolve_common as rc

ID = "C08"
LEVEL_TEXT = ("The Lean mirror of Resolver.glob (pattern translation to the three-token fragment and an anchored DOTALL matcher standing "
              "for re.match, __glob/__find with their try/except structure, '**' via pre-order with identity de-duplication, the "
              "class-level compiled-pattern cache with eviction) is related to the denotational specification: the matcher is proved "
              "equivalent to the property's wildcard relation (every non-wildcard character literal, anchored); relaxed glob is proved "
              "total and equal to the denoted node list; results are proved to be in pre-order without '**'/'..' and duplicate-free "
              "when no '..' follows a name/wildcard/'**' component; the cache is proved unobservable for every sequence of earlier "
              "calls; strict glob is proved to return the relaxed list or raise, and to raise only at a genuine dead end. Tied to "
              "/repo on random and systematic patterns over names with regex metacharacters and duplicate siblings, both modes, "
              "interleaved ignorecase flags and sequences of more than 20 distinct patterns (eviction).")
LEVEL_NOTE = ("After the fix: commits for D4 ('..' dead end below '**' swallowed by an enclosing wildcard), D6 (identity de-dup) and D8 "
              "(ChildResolverError for an existing child when the rest of the pattern matched nothing). Trusted: Lean kernel, standard "
              "axioms; the mirror; CPython's re for the fragment '.*', '.', escaped literal with flags (?ms), and IGNORECASE / str.upper() on the model's alphabet "
              "(ASCII plus the 17 letters of Str.caseTable/Str.multiUpper, among them the KELVIN, ANGSTROM and OHM signs on which the two foldings differ; "
              "the table is compared with the running interpreter through the library by the `casetable` case of every run).")
MODULES = ['Anytree.Props.C08', 'Anytree.Props.C08b']
THEOREMS = [
    ("Anytree.Props.C08.match_iff_WMatch", "full"),
    ("Anytree.Props.C08.cacheInv_nil", "full"),
    ("Anytree.Props.C08.matchC_transparent", "full"),
    ("Anytree.Props.C08.matchC_bounded", "full"),
    ("Anytree.Props.C08.glob_cache_transparent", "full"),
    ("Anytree.Props.C08.globRelaxed_eq_denote", "full"),
    ("Anytree.Props.C08.globRelaxed_eq_spec", "full"),
    ("Anytree.Props.C08.globStrict_ok_eq_denote", "full"),
    ("Anytree.Props.C08.globStrict_ok_eq_denote_of_siblingUnique", "full"),
    ("Anytree.Props.C08.globStrict_ok_subset_denote", "full"),
    ("Anytree.Props.C08.globStrict_raises_only_at_dead_end", "full"),
    ("Anytree.Props.C08.denote_preorder", "full"),
    ("Anytree.Props.C08.denote_nodup", "full"),
    ("Anytree.Props.C08.denote_leading", "full"),
    ("Anytree.Props.C08.literalUnique_of_siblingUnique", "full"),
    ("Anytree.Props.C08.literalUnique_of_siblingUniqueRe", "full"),
    ("Anytree.Props.C08.globStrict_ok_eq_denote_of_siblingUniqueRe", "full"),
    ("Anytree.Props.C08.siblingUniqueRe_iff", "full"),
    ("Anytree.CaseFold.caseRegular_regularAlphabet", "full"),
    ("Anytree.CaseFold.caseRegular_ascii", "full"),
    ("Anytree.CaseFold.signs_irregular", "full"),
    ("Anytree.CaseFold.sharp_s_irregular", "full"),
    ("Anytree.CaseFold.not_caseRegular_alphabet", "full"),
    ("Anytree.Spec.caseAgree_of_regular", "full"),
    ("Anytree.Spec.caseAgree_of_ascii", "full"),
    ("Anytree.Props.C08b.matchPure_eq_cmp_ascii", "full"),
    ("Anytree.Props.C08b.glob_eq_get_ascii", "full"),
    ("Anytree.Props.C08b.glob_eq_get_caseSensitive", "full"),
    ("Anytree.Props.C08b.matchPure_eq_cmp", "full"),
    ("Anytree.Props.C08b.literal_matches_itself", "full"),
    ("Anytree.Props.C08b.cmp_trans", "full"),
    ("Anytree.Props.C08b.globM_literal", "full"),
    ("Anytree.Props.C08b.glob_eq_get", "full"),
    ("Anytree.Props.C08b.glob_ok_of_get_ok", "full"),
    ("Anytree.Props.C08b.glob_error_of_get_error", "full"),
    ("Anytree.Props.C08b.get_of_glob", "full"),
]
NOT_COVERED = ['ignorecase on characters outside the model alphabet (ASCII + Str.caseTable) is CPython case mapping and not modelled; glob-vs-get agreement carries CaseAgree (str.upper() and re.IGNORECASE agree on the characters in play): vacuous without ignorecase, proved for ASCII and the regular alphabet, and shown necessary (the real code, like the model, lets get and glob disagree on a child named KELVIN SIGN)', 'strict mode returns the relaxed list (or raises) is proved for sibling-unique names - the scope the property gives strict mode (duplicates among siblings are quantified for relaxed mode only); with duplicate sibling names behind a wildcard strict glob can return a proper sub-list without raising (globStrict_ok_subset_denote is what holds then; witness r->[a->[b], a], pattern **/a/b)']
PREDICATE_SPEC = True
RULE = ("shapes up to 5/6 nodes and random shapes up to 8/15 nodes, names from a pool with regex metacharacters, wildcards, quotes, "
        "backslashes, newline, non-ASCII (with ignorecase: the letters of the case table incl. the KELVIN/ANGSTROM/OHM signs), duplicates among siblings; patterns of up to 4/6 components over names, wildcards, '**', "
        "'..', '.', '', unknown names, relative and absolute; every query in strict and relaxed mode; wildcard-free queries paired "
        "with get; cache stress: >20 distinct patterns and alternating ignorecase between queries on the shared cache. Distinct = "
        "distinct case; non-trivial = tree has >= 3 nodes.")


def generate(tier, rng):
    nmax = 5 if tier == "quick" else 6
    trees = []
    for n in range(1, nmax + 1):
        for sh in gen.shapes(n):
            trees.append(gen.labelled(sh, rng, True))
    for _ in range(200 if tier == "quick" else 4000):
        trees.append(gen.labelled(gen.random_shape(rng, rng.randrange(3, 9 if tier == "quick" else 16)), rng, True))
    # scale: wide and deep trees
    for sh in gen.big_shapes(rng, tier, 450):
        t = gen.labelled(sh, rng, True)
        sep = rng.choice(["/", "/", ";"])
        names = rc.big_names(rng, t)
        c = {"fam": "resolve", "tree": t, "names": names, "sep": sep, "queries": [], "unique": True, "typed": [], "cls": rng.choice([None, None, "eq", "falsy"])}
        labs = gen.tree_labels(t)
        dl = gen.deep_labels(t)
        nm = dict((k, v) for k, v in names)
        pats = (["**/**", "**/..", "**/.", "**/*/**", "**/../*", "**/**/.."] if gen.tree_size(t) <= 140 else []) + ["*", "n*", "k1*", "*7", "?1", "*/*", "**", "**/" + nm[dl[-1]], "**/n*", "*/*/*", nm[dl[min(1, len(dl) - 1)]] + "/*", "item*/**"]
        pats += [rc.abs_path(t, names, sep, dl[-1]).replace("/", sep) if sep != "/" else rc.abs_path(t, names, sep, dl[-1]),
                 rc.abs_path(t, names, sep, dl[len(dl) // 2]) + sep + "*", rc.rel_path(t, names, sep, dl[-1], labs[-1])]
        for p in pats:
            p = p.replace("/", sep) if sep != "/" and "/" in p and not p.startswith(sep) else p
            for start in (t[0], dl[len(dl) // 2]):
                q_ic = rng.random() < 0.3
                for relax in (False, True):
                    c["queries"].append({"fn": "glob", "start": start, "path": p, "ignorecase": q_ic, "relax": relax})
                if "*" not in p and "?" not in p:
                    c["queries"].append({"fn": "get", "start": start, "path": p, "ignorecase": q_ic, "relax": False, "pair": True})
        yield c
    yield rc.casetable_case()
    yield rc.casetable_sparse_case()
    # all of Unicode, judged without the model: history independence (the shared pattern cache), strict within relaxed
    for _ in range(150 if tier == "quick" else 2000):
        t = gen.labelled(gen.random_shape(rng, rng.randrange(2, 8 if tier == "quick" else 12)), rng, True)
        yield rc.unires_history(rng, t)
    for t in trees:
        sep = rng.choice(["/", "/", "/", ";", "::"])
        ic = rng.random() < 0.4
        unique = rng.random() < 0.6
        names = rc.names_for(rng, t, sep, unique, ic or rng.random() < 0.5, not unique, rng.choice(["upper", "re"]))
        c = {"fam": "resolve", "tree": t, "names": names, "sep": sep, "queries": [], "unique": unique, "typed": rc.typed_labels(rng, names),
             "cls": rng.choice([None, None, "len", "falsy", "eq"])}
        labs = gen.tree_labels(t)
        c["reuse"] = rng.random() < 0.3
        stress = rng.random() < 0.15
        nq = 30 if stress else 8
        for i in range(nq):
            wild = rng.random() < 0.8
            p = rc.random_path(rng, names, sep, wild, 4 if tier == "quick" else 6)
            if stress:
                p = p + sep + rng.choice(["*", "?", "x%d*" % i, "%d?" % i])
            start = rng.choice(labs)
            q_ic = ic if rng.random() < 0.7 else not ic
            if q_ic and not all(rc.in_alphabet(v) for _, v in names):
                q_ic = False        # case mapping outside the model's alphabet is CPython's, not modelled
            for relax in (False, True):
                c["queries"].append({"fn": "glob", "start": start, "path": p, "ignorecase": q_ic, "relax": relax})
            if "*" not in p and "?" not in p:
                c["queries"].append({"fn": "get", "start": start, "path": p, "ignorecase": q_ic, "relax": False, "pair": True})
        yield c


def _sibling_unique(case, ic, key="re"):
    """sibling names pairwise different - under re.IGNORECASE (`key="re"`: what glob matches, SiblingUniqueRe) or under str.upper()
    (`key="upper"`: what get compares, SiblingUnique) when `ic`"""
    k = "_su_%s_%s" % (ic, key)
    if k not in case:
        nm = {k_: v for k_, v in case["names"]}
        fold = (lambda x: x.upper()) if key == "upper" else rc.re_key

        def ok(node):
            seen = set()
            for c in node[1]:
                n = nm.get(c[0], "None")
                n = fold(n) if ic else n
                if n in seen:
                    return False
                seen.add(n)
            return all(ok(c) for c in node[1])
        case[k] = ok(case["tree"])
    return case[k]


def _case_agree(case, q):
    """CaseAgree of C08b: without ignorecase, or no KELVIN/ANGSTROM/OHM sign among the characters of the names and of the path"""
    if not q["ignorecase"]:
        return True
    k = "_regular_names"
    if k not in case:
        case[k] = all(rc.regular(v) for _, v in case["names"])
    return case[k] and rc.regular(q["path"])


def judge(case, impl, drv):
    if case.get("fam") == "unires":
        return impl == {"ok": True}, True
    if isinstance(impl, dict) and impl.get("skip"):
        return True, True
    if not isinstance(impl, list):
        return False, False
    p_ok = c_ok = True
    qs = case["queries"]
    for i, (q, r, m, s) in enumerate(zip(qs, impl, drv["mirror"], drv["spec"])):
        if r != m:
            c_ok = False
        if q["fn"] == "get":
            if r != s:
                p_ok = False
            # agreement with glob on wildcard-free paths over sibling-unique, well-formed names
            g = impl[i - 2]                      # the strict glob of the same (start, path, ignorecase)
            if _sibling_unique(case, q["ignorecase"], "upper") and _case_agree(case, q) and rc.names_ok(case["names"], case["sep"]) \
                    and "**" not in q["path"]:
                if "ok" in r and r["ok"] is not None and g != {"ok": [r["ok"]]}:
                    p_ok = False
                if "err" in r and ("err" not in g or g["err"][0] != r["err"][0]):
                    p_ok = False
            continue
        if q["relax"]:
            if r != {"ok": s["ok"]}:
                p_ok = False                     # relaxed: never raises, exactly the denoted nodes
        else:
            if "ok" in r:
                if _sibling_unique(case, q["ignorecase"]):
                    if r["ok"] != s["ok"]:
                        p_ok = False             # strict, sibling-unique names: the same list …
                elif not set(r["ok"]) <= set(s["ok"]):
                    p_ok = False                 # duplicates among siblings are in scope for relaxed mode only
            elif "err" in r:
                if not s["may_raise"]:
                    p_ok = False                 # … or a ResolverError, only at a genuine dead end
            else:
                p_ok = False
    return p_ok, c_ok


def mirror_spec_ok(case, drv):
    if case.get("fam") == "unires":
        return True
    for q, m, s in zip(case["queries"], drv["mirror"], drv["spec"]):
        if q["fn"] == "get":
            if m != s:
                return False
        elif q["relax"]:
            if m != {"ok": s["ok"]}:
                return False
        elif "ok" in m:
            if _sibling_unique(case, q["ignorecase"]):
                if m["ok"] != s["ok"]:
                    return False
            elif not set(m["ok"]) <= set(s["ok"]):
                return False
        elif not s["may_raise"]:
            return False
    return True


def nontrivial(case):
    return gen.tree_size(case["tree"]) >= 3
