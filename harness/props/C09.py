"""C09 — RenderTree draws every tree faithfully; prefixes encode each node's position."""
import gen
from props.C05 import _sub

ID = "C09"
LEVEL_TEXT = ("For every tree, style, childiter and maxlevel the Lean mirror of RenderTree's recursive generator (the continues "
              "tuple, the _is_last look-ahead, __item, the level test) is proved to yield one row per node of the rendered view "
              "(childiter at every level, cut at depth max(maxlevel,1)) in pre-order, with pre/fill the stated function of the "
              "node's address: d segments, bar/blank by 'has a following sibling', continue/end branch last; root row empty; "
              "equal-width styles give widths d*w (the four built-in styles, extracted from the source, are checked equal-width "
              "by the kernel); the shape is reconstructible from the row depths; str()/by_attr() lines are pre + first line, fill "
              "+ further lines, an empty value giving one line. Tied to /repo on all shapes up to 5 (thorough 6) nodes x 4+1 "
              "styles x 4 childiters x maxlevels, single/multi-line/empty values through attribute, list, tuple, callable and "
              "repr selectors; the Node/AnyNode/SymlinkNode repr assembly (class name, path, public attributes by exact-name black-list, sorted by name) is proved of the mirror (C09b) and compared with /repo.")
LEVEL_NOTE = ("Trusted: Lean kernel, standard axioms; the mirror lean/Anytree/Model/Render.lean; str.splitlines() and repr() of "
              "attribute values are CPython's (lines and value reprs are handed to the model); childiter assumed to return "
              "children it was given.")
THEOREMS = [
    ("Anytree.Props.C09.rows_eq_spec", "full"),
    ("Anytree.Props.C09.root_row_empty", "full"),
    ("Anytree.Props.C09.maxlevel_le_one", "full"),
    ("Anytree.Props.C09.row_width", "full"),
    ("Anytree.Props.C09.builtin_styles_equal_width", "full"),
    ("Anytree.Props.C09.flagsAt_spec", "full"),
    ("Anytree.Props.C09.decode_rows", "full"),
    ("Anytree.Props.C09.formatRow_spec", "full"),
    ("Anytree.Props.C09.formatRow_nonempty", "full"),
    ("Anytree.Props.C09b.nodeRepr_shape", "full"),
    ("Anytree.Props.C09b.mem_sortedShown", "full"),
    ("Anytree.Props.C09b.sortedShown_perm", "full"),
    ("Anytree.Props.C09b.sortedShown_sorted", "full"),
    ("Anytree.Props.C09b.sortedShown_unique", "full"),
]
MODULES = ['Anytree.Props.C09', 'Anytree.Props.C09b']
NOT_COVERED = ["repr() of attribute values and str.splitlines() are CPython's (value reprs and lines are handed to the model as strings); the repr assembly itself is proved: exactly the public, not black-listed (exact name) attributes, each once, sorted by name, the order being determined when names are distinct (C09b)"]
PREDICATE_SPEC = True
RULE = ("all shapes up to N nodes (quick 5, thorough 6) x every start node, styles Ascii/Cont/ContRound/Double/custom equal-width, "
        "childiter in {list, reversed, sorted, filtering}, maxlevel in {None,0,1,2,3}, value modes {label, attribute, callable, "
        "repr} (a third of the cases on a RenderTree object whose earlier iteration was abandoned) with single-line, multi-line, empty, list and tuple values and missing attributes; random shapes up to 12/30 nodes; "
        "repr assembly for Node (two separators), AnyNode, SymlinkNode with public/private attributes. Distinct = distinct case; "
        "non-trivial = start subtree >= 3 nodes or a repr case with >= 2 attributes.")
STYLES = ["AsciiStyle", "ContStyle", "ContRoundStyle", "DoubleStyle", ["|  ", "+- ", "`- "], ["¦", "├", "└"]]
VALUES = ["one", "", "a\nb", "x\ny\nz", "tail\n", "\nlead", "é中", "  sp  "]


def mk(rng, t, start):
    labs = gen.tree_labels(t)
    mode = rng.choice(["label", "attr", "attr", "callable", "repr"])
    values, lines = {}, []
    for l in labs:
        if mode == "label":
            lines.append([l, [str(l)]])
            continue
        if mode in ("attr", "callable") and rng.random() < 0.15:
            lines.append([l, []])           # attribute missing -> default '' -> no lines -> ['']
            continue
        r = rng.random()
        if mode != "repr" and r < 0.2:
            v = [rng.choice(["l1", "", "l2"]) for _ in range(rng.randrange(0, 3))]
            values[str(l)] = {"t": rng.choice(["list", "tuple"]), "v": v}
            lines.append([l, v])
        else:
            v = rng.choice(VALUES)
            values[str(l)] = {"t": "str", "v": v}
            lines.append([l, v.splitlines()])
    if mode == "repr":
        for l in labs:
            if str(l) not in values:
                values[str(l)] = {"t": "str", "v": "n%d" % l}
    st = rng.choice(STYLES)
    c = {"fam": "render", "tree": t, "start": start, "style": st, "childiter": rng.choice(["list", "list", "reversed", "sorted", "drop_odd"]),
         "maxlevel": rng.choice([None, None, 0, 1, 2, 3]), "mode": mode, "values": values, "lines": lines,
         "defaults": rng.random() < 0.3, "style_instance": rng.random() < 0.7,
         "cls": rng.choice([None, None, "len", "falsy", "eq"])}
    if st == "ContStyle" and rng.random() < 0.3:
        c["default_style"] = True
    if rng.random() < 0.35:
        # the same RenderTree object was used before and that use was abandoned (loop left early, next() a few times,
        # a user callable raising inside by_attr): the rendering observed afterwards must be unaffected
        n = gen.tree_size(t)
        c["prior"] = [{"kind": rng.choice(["break", "break", "raise", "next"]), "k": rng.randrange(1, n + 2)}
                      for _ in range(rng.choice([1, 1, 2]))]
    return c


def repr_case(rng):
    kind = rng.choice(["node", "anynode", "symlink"])
    keys = rng.sample(["b", "a", "zeta", "_hidden", "x1", "Name", "name2", "n", "nam", "me", "targe", "t", "targets",
                       # names that are prefixes of one another (sorting by name is not sorting the `key=value` texts:
                       # digits, '-', '.', ' ' sort below '='), set through keyword arguments / setattr
                       "x", "x2", "x10", "v", "v1", "a b", "a-b", "a.b", "ab", "B", "é"], rng.randrange(0, 7))
    vals = [rng.choice(["1", "'s'", "None", "[1, 2]", "2.5", "{'k': 1}", "'multi\\nline'"]) for _ in keys]
    attr_src = [[k, v] for k, v in zip(keys, vals)]
    import ast
    attrs = [[k, repr(ast.literal_eval(v))] for k, v in attr_src]
    names = [rng.choice(["r", "a b", "x/y", "é", "n;1", ""]) for _ in range(rng.randrange(1, 4))]
    sep = rng.choice(["/", ";", "::"])
    path = sep.join([""] + names)
    if kind == "node":
        spec = {"classname": "Node", "args": [repr(path)], "blacklist": ["name"], "attrs": attrs + [["name", repr(names[-1])]],
                "names": names, "sep": sep}
    elif kind == "anynode":
        spec = {"classname": "AnyNode", "args": [], "blacklist": [], "attrs": attrs, "names": names, "sep": sep}
    else:
        inner = "AnyNode(" + ", ".join("%s=%s" % (k, v) for k, v in sorted(attrs) if not k.startswith("_")) + ")"
        spec = {"classname": "SymlinkNode", "args": [inner], "blacklist": ["target"], "attrs": [["target", inner]],
                "names": names, "sep": sep}
    spec.update({"kind": kind, "attr_src": attr_src})
    return {"fam": "render", "repr": spec}


def generate(tier, rng):
    nmax = 5 if tier == "quick" else 6
    for n in range(1, nmax + 1):
        for sh in gen.shapes(n):
            t = gen.labelled(sh, rng, True)
            for start in gen.tree_labels(t):
                for _ in range(2 if tier == "quick" else 5):
                    yield mk(rng, t, start)
    for sh in gen.big_shapes(rng, tier, 450):
        t = gen.labelled(sh, rng, True)
        dl = gen.deep_labels(t)
        yield mk(rng, t, rng.choice([t[0], t[0], dl[len(dl) // 3]]))
    for _ in range(150 if tier == "quick" else 2500):
        t = gen.labelled(gen.random_shape(rng, rng.randrange(4, 13 if tier == "quick" else 31)), rng, True)
        yield mk(rng, t, rng.choice(gen.tree_labels(t)))
    for _ in range(150 if tier == "quick" else 1500):
        yield repr_case(rng)


def judge(case, impl, drv):
    if not isinstance(impl, dict):
        return False, False
    if "repr" in case:
        ok = impl["repr"] == drv["spec"]["repr"] and (impl["path"] is None or impl["path"] == drv["spec"]["path"])
        return ok, ok
    spec, mir = drv["spec"], drv["mirror"]
    p_ok = impl["rows"] == spec["rows"] and impl["text"] == spec["text"]
    # the drawing determines the shape: the size decoded from the row depths is the number of rows
    if spec["decoded_size"] is not None and spec["decoded_size"] != len(impl["rows"]):
        p_ok = False
    c_ok = impl["rows"] == mir["rows"] and impl["text"] == mir["text"]
    return p_ok, c_ok


def mirror_spec_ok(case, drv):
    return drv["mirror"] == drv["spec"]


def nontrivial(case):
    if "repr" in case:
        return len(case["repr"]["attrs"]) >= 2
    return gen.tree_size(_sub(case["tree"], case["start"])) >= 3
