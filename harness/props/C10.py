"""C10 — dictionary export and import are faithful inverses of each other."""
from props import dict_common as dc

ID = "C10"
LEVEL_TEXT = ("For every tree with arbitrary attribute dictionaries (abstract values), every maxlevel, attriter and childiter the "
              "Lean mirror of DictExporter.__export is proved equal to the plain dictionary of the exported view (attriter applied "
              "to the public attributes of every node, childiter to every children tuple, nodes at relative depth >= maxlevel cut, "
              "the start node always kept, 'children' only when non-empty); DictImporter is proved to invert it: import(export t) "
              "= t for clean attribute dictionaries (AnyNode; Node up to the position of 'name'), and export(import d) = d with "
              "empty 'children' lists removed. Tied to /repo on all shapes up to 4 (thorough 6) nodes and random larger trees with "
              "nested/non-ASCII/control-character values, three node classes, both directions, including that neither call "
              "modifies its argument.")
LEVEL_NOTE = ("Trusted: Lean kernel, standard axioms; the mirror lean/Anytree/Model/Dict.lean; attribute values are abstract (anytree "
              "never inspects them); dict semantics (insertion order, key overwrite) modelled by association lists; dictcls other "
              "than dict/OrderedDict and attribute keys 'parent'/'children' are outside the property.")
THEOREMS = [
    ("Anytree.Props.C10.dictOf_unique", "full"),
    ("Anytree.Props.C10.clean_attrs_fixed", "full"),
    ("Anytree.Props.C10.exportF_eq_plain_view", "full"),
    ("Anytree.Props.C10.exportF_eq_plain_view_of", "full"),
    ("Anytree.Props.C10.export_default", "full"),
    ("Anytree.Props.C10.view_default", "full"),
    ("Anytree.Props.C10.export_maxlevel_le_one", "full"),
    ("Anytree.Props.C10.import_export", "full"),
    ("Anytree.Props.C10.import_export_node", "full"),
    ("Anytree.Props.C10.export_import", "full"),
    ("Anytree.Props.C10.import_anyNode_total", "full"),
    ("Anytree.Props.C10.import_node_missing_name", "full"),
]
NOT_COVERED = []
PREDICATE_SPEC = True
RULE = ("all shapes up to N nodes (quick 4, thorough 6) and random shapes up to 11/29 nodes, random attribute dictionaries (0-4 keys, "
        "JSON-like values incl. nested containers, non-ASCII, control characters), maxlevel in {None,0,1,2,h,h+1}, attriter in "
        "{none, sorted, dropping, duplicating}, childiter in {list, reversed, truncating}, dictcls in {dict, OrderedDict}, nodecls in "
        "{AnyNode, Node, user NodeMixin}; plus random dictionaries (with empty children lists) imported and re-exported. Distinct = "
        "distinct case; non-trivial = tree has >= 3 nodes.")


def generate(tier, rng):
    return dc.base_cases(tier, rng, False)


def judge(case, impl, drv):
    if not isinstance(impl, dict) or "export" not in impl:
        return False, False
    spec, mir = drv["spec"], drv["mirror"]
    flags_ok = not impl.get("export_mutated_tree") and not impl.get("import_mutated_arg")
    keys = ["export", "reimport", "export2", "import"]
    p_ok = flags_ok and all(dc.sort_attrs(impl[k]) == dc.sort_attrs(spec[k]) for k in keys)
    c_ok = all(impl[k] == mir[k] for k in keys)
    return p_ok, c_ok


def mirror_spec_ok(case, drv):
    return all(dc.sort_attrs(drv["mirror"][k]) == dc.sort_attrs(drv["spec"][k]) for k in ["export", "reimport", "export2", "import"])


def nontrivial(case):
    return dc.atree_size(case["tree"]) >= 3
