"""C11 — JSON export and import round-trip every JSON-representable tree."""
from props import dict_common as dc

ID = "C11"
LEVEL_TEXT = ("JsonExporter/JsonImporter are pure delegations: the Lean model states export = dumps(DictExporter export with the "
              "exporter's maxlevel forwarded) and import = DictImporter import of loads(text), and proves the JSON round trip from "
              "the C10 round-trip theorems under the single assumption loads(dumps d) = d (CPython's json contract for "
              "JSON-representable values, recorded in the trusted base). What can go wrong in anytree - maxlevel not forwarded, "
              "keyword options dropped, write/read diverging from export/import_, a custom dictexporter/dictimporter ignored - is "
              "decided on /repo directly: export is compared with json.dumps of the dict export under the same options, write with "
              "export, read with import_, and the re-imported tree with the Lean prediction.")
LEVEL_NOTE = ("Partial by construction: CPython's json module is trusted (assumption loads(dumps d) = d for JSON-representable d). "
              "Trusted: Lean kernel, standard axioms; the mirror lean/Anytree/Model/Dict.lean.")
THEOREMS = [
    ("Anytree.Props.C11.json_export_eq", "full"),
    ("Anytree.Props.C11.json_round_trip", "full"),
    ("Anytree.Props.C11.json_round_trip_view", "full"),
]
NOT_COVERED = ["json.dumps/json.loads themselves (CPython); the byte-level text is compared with json.dumps of the dict export, not modelled"]
PREDICATE_SPEC = True
RULE = ("as C10 with the JSON layer: json options indent/sort_keys/ensure_ascii/separators, JsonExporter maxlevel, custom "
        "dictexporter with attriter/childiter/maxlevel, values with non-ASCII and control characters, nested containers, None, "
        "booleans, integers, floats. Distinct = distinct case; non-trivial = tree has >= 3 nodes.")


def generate(tier, rng):
    return dc.base_cases(tier, rng, True)


def judge(case, impl, drv):
    if not isinstance(impl, dict) or "json" not in impl:
        return False, False
    j = impl["json"]
    spec, mir = drv["spec"], drv["mirror"]
    p_ok = bool(j.get("export_is_dumps")) and bool(j.get("write_eq_export"))
    if j.get("import") == "TypeError":
        p_ok = p_ok and spec["reimport"] == "TypeError"
        c_ok = mir["reimport"] == "TypeError"
    else:
        p_ok = p_ok and bool(j.get("read_eq_import")) and \
            dc.sort_attrs(j["import"]) == dc.sort_attrs(spec["reimport"]) and \
            dc.sort_attrs(j["dict"]) == dc.sort_attrs(spec["export"])
        c_ok = dc.sort_attrs(j["import"]) == dc.sort_attrs(mir["reimport"]) and dc.sort_attrs(j["dict"]) == dc.sort_attrs(mir["export"])
    return p_ok, c_ok


def mirror_spec_ok(case, drv):
    return all(dc.sort_attrs(drv["mirror"][k]) == dc.sort_attrs(drv["spec"][k]) for k in ["export", "reimport"])


def nontrivial(case):
    return dc.atree_size(case["tree"]) >= 3
