"""C12 — DOT export declares exactly the admitted nodes and only edges between them."""
from props import export_common as ec

ID = "C12"
LEVEL_TEXT = ("For every tree, filter_, stop, maxlevel, options, indent and every naming/attribute function the Lean mirror of "
              "DotExporter/UniqueDotExporter (header, options, node pass, edge pass with maxlevel-1 and the child re-check, "
              "closing brace, the id(node)->counter map threaded through both passes and across iterations) is proved to emit "
              "one node statement per declared node in pre-order and the edge set {(p,c): p declared, c child of p passing "
              "filter_}; this equals the demanded edge set (both ends declared) exactly up to children that satisfy stop - "
              "finding D3, proved to be the only residue and pinned by the repository's own reference files - and equals it "
              "outright when stop is unused; esc is proved injective with an explicit inverse; default UniqueDot identifiers are "
              "proved distinct per node and stable within and across iterations. Tied to /repo by exhaustive stop x filter x "
              "maxlevel enumeration on small shapes and random larger ones for DotExporter, UniqueDotExporter and RenderTreeGraph.")
LEVEL_NOTE = ("Partial: the 'no edge names an undeclared node' clause is false of the unchanged code when a child satisfies stop "
              "(D3, known finding: tests/refdata/test_dotexporter/tree_stop/tree_stop.dot pins the dangling edge). D2 (maxlevel=0) "
              "was repaired by a fix: commit. Trusted: Lean kernel, standard axioms; the mirror lean/Anytree/Model/Export.lean; "
              "id() modelled by an injective key; str()/%-formatting of names is CPython's; default identifiers are compared up "
              "to a renaming (distinctness and stability are what the property asks).")
THEOREMS = [
    ("Anytree.Props.C12.dot_lines_full", "full"),
    ("Anytree.Props.C12.edge_parents_declared", "full"),
    ("Anytree.Props.C12.edge_ends_declared", "full"),
    ("Anytree.Props.C12.no_admitted_link_missing", "full"),
    ("Anytree.Props.C12.unesc_esc", "full"),
    ("Anytree.Props.C12.esc_injective", "full"),
    ("Anytree.Props.C12.get_wf", "full"),
    ("Anytree.Props.C12.get_stable", "full"),
    ("Anytree.Props.C12.get_lookup", "full"),
    ("Anytree.Props.C12.lookup_injective", "full"),
    ("Anytree.Props.C12.dot_unique_eq_pure", "full"),
    ("Anytree.Props.C12.edgeMax_legacy_eq", "full"),
    ("Anytree.Props.C12.dot_lines_pure", "partial"),
    ("Anytree.Props.C12.edgePairs_eq_filter", "partial"),
    ("Anytree.Props.C12.edgeMax_legacy_zero", "witness"),
    ("Anytree.Props.C13b.pyHex_injective", "full"),
    ("Anytree.Props.C13b.dot_declared_have_ids", "full"),
    ("Anytree.Props.C13b.dot_edge_ends_have_ids", "full"),
    ("Anytree.Props.C13b.dot_unique_names_distinct", "full"),
    ("Anytree.Props.C13b.dot_unique_names_distinct_of_ids", "full"),
]
MODULES = ["Anytree.Props.C12", "Anytree.Props.C13b"]
NOT_COVERED = ["the full statement (no edge names an undeclared node) is false of the unchanged code when a child satisfies stop: dot_lines_pure proves the emitted text is Spec.dotLinesD3, edgePairs_eq_filter proves the surplus over the demanded edge set is exactly the edges to stopped children (finding D3); dot_lines_full proves the demanded text when stop is unused"]
PREDICATE_SPEC = True
KINDS = ["dot", "unique", "rtg"]
RULE = ("all shapes up to 3/4 nodes x every stop subset x every filtered-out subset x maxlevel None,0..height+2 (exhaustive), every "
        "start node of shapes up to 5/6 nodes, random shapes up to 12/30 nodes; names over an alphabet with quotes, backslashes, "
        "spaces, brackets, non-ASCII, colliding names for UniqueDotExporter; options/indent/graph/name variations; custom "
        "name/attribute/edge functions; one or two iterations of the same exporter; to_dotfile on a sample. Distinct = distinct "
        "case; non-trivial = start subtree >= 3 nodes.")


def generate(tier, rng):
    for c in ec.generate(KINDS, tier, rng):
        if c["kind"] == "rtg":
            c["tofile"] = False
        yield c


judge = ec.judge
mirror_spec_ok = lambda case, drv: ec.mirror_spec_ok(case, drv) or ec.d3_class(case, drv["mirror"], drv) is not None
known_class = ec.d3_class
nontrivial = ec.nontrivial
