"""C13 — Mermaid export declares exactly the admitted nodes and only edges between them."""
from props import export_common as ec

ID = "C13"
LEVEL_TEXT = ("For every tree, filter_, stop, maxlevel, options, indent and custom functions the Lean mirror of MermaidExporter is "
              "proved to emit the header, the option lines, one node line per declared node in pre-order and exactly one edge line "
              "per parent-child pair whose two ends are both declared (the child is re-checked against filter_ and stop), so every "
              "edge refers to declared identifiers only and no admitted link is missing; default identifiers N<k> are proved "
              "distinct per node and stable within and across iterations of one exporter. Tied to /repo by exhaustive stop x filter x "
              "maxlevel enumeration on small shapes, random larger ones, custom functions and to_file (fence).")
LEVEL_NOTE = ("Full after the fix: commit for D2 (maxlevel=0). Trusted: Lean kernel, standard axioms; the mirror "
              "lean/Anytree/Model/Export.lean; id() modelled by an injective key; default identifiers compared up to renaming.")
THEOREMS = [
    ("Anytree.Props.C13.mermaid_lines_pure", "full"),
    ("Anytree.Props.C13.mermaid_default_eq_pure", "full"),
    ("Anytree.Props.C13.D2_witness", "witness"),
    ("Anytree.Props.C13b.mermaid_edges_between_declared", "full"),
    ("Anytree.Props.C12.no_admitted_link_missing", "full"),
    ("Anytree.Props.C13b.mermaid_declared_have_ids", "full"),
    ("Anytree.Props.C13b.mermaid_default_names_distinct", "full"),
    ("Anytree.Props.C13b.mermaidFmt_injective", "full"),
    ("Anytree.Props.C12.esc_injective", "full"),
]
MODULES = ["Anytree.Props.C13", "Anytree.Props.C12", "Anytree.Props.C13b"]
NOT_COVERED = []
PREDICATE_SPEC = True
RULE = ("as C12, for MermaidExporter: exhaustive small shapes x stop x filter x maxlevel, all start nodes of shapes up to 5/6 nodes, "
        "random shapes; names with quotes/backslashes/non-ASCII/collisions; custom nodenamefunc/nodefunc/edgefunc; options, indent; "
        "one or two iterations; to_file on a sample. Distinct = distinct case; non-trivial = start subtree >= 3 nodes.")


def generate(tier, rng):
    return ec.generate(["mermaid"], tier, rng)


judge = ec.judge
mirror_spec_ok = ec.mirror_spec_ok
nontrivial = ec.nontrivial
