"""C14 — search functions return the filtered pre-order and enforce their count bounds."""
import gen
from props.C05 import _sub

ID = "C14"
LEVEL_TEXT = ("For every tree, start node, filter, stop, maxlevel, mincount and maxcount the Lean mirror of findall/find/"
              "findall_by_attr/find_by_attr is proved to return exactly the PreOrderIter result (hence, by C06, the filtered "
              "pre-order of the admitted tree), to raise CountError iff the count is below mincount or above maxcount with the "
              "failing bound and both numbers, find to give None / the node / CountError, and the *_by_attr variants to select "
              "exactly the nodes whose attribute exists and equals the value. Tied to /repo through both anytree.search and "
              "anytree.cachedsearch with every keyword, bounds at 0, at the match count and beyond, nodes lacking the attribute.")
LEVEL_NOTE = ("Trusted: Lean kernel, standard axioms; the mirror lean/Anytree/Model/Search.lean; attribute values modelled as "
              "JSON values (integers, strings, None, lists) compared by value (user __eq__ on values is the user's); fastcache absent (with it installed the "
              "cached functions memoise on argument identity - out of scope); the CountError message is canonicalised to "
              "(which bound, bound, count).")
THEOREMS = [
    ("Anytree.Props.C14.findall_eq_spec", "full"),
    ("Anytree.Props.C14.findall_ok_eq_preIter", "full"),
    ("Anytree.Props.C14.findall_countError_iff", "full"),
    ("Anytree.Props.C14.find_eq_spec", "full"),
    ("Anytree.Props.C14.filterByName_iff", "full"),
    ("Anytree.Props.C14.findallByAttr_eq_spec", "full"),
    ("Anytree.Props.C14.findByAttr_eq_spec", "full"),
    ("Anytree.Props.C14.cached_eq", "full"),
]
NOT_COVERED = []
RULE = ("all shapes up to N nodes (quick 4, thorough 5) x start nodes x query batteries: findall with stop/filter subsets and "
        "mincount/maxcount in {None,0,count-1,count,count+1}, find, *_by_attr over sparse attribute tables, through search and "
        "cachedsearch; half of the cases repeat every call (same predicate objects, equal values) after the tree changed in between "
        "(attribute values rewritten, a node detached); values include unhashable lists; random shapes up to 12/30 nodes. Distinct = distinct case; non-trivial = start subtree has >= 3 nodes.")


# attribute values: JSON scalars and (unhashable) lists, compared by value
VALUES = [0, 1, 2, None, "s", [1, 2], [], "<NAN>", "<VER>"]      # "<NAN>": the one float('nan') object (equal to nothing, itself included)


NAMES = ["x", "y", "label", "zz", "depth", "height", "kind"]     # stored, missing, computed (properties), class-level
BOOL_NAMES = ["is_leaf", "is_root"]


def _name_value(rng):
    """attribute name and a value of a matching kind (Python's 1 == True must not enter the picture)"""
    if rng.random() < 0.2:
        return rng.choice(BOOL_NAMES), rng.choice([True, False])
    name = rng.choice(NAMES)
    if rng.random() < 0.12:
        return name, "<ANY>"            # an object equal to everything: exactly the nodes that have the attribute
    if name == "kind":
        return name, rng.choice(["plain", "plain", "s", None])
    return name, rng.choice(VALUES + [None])


def _computed(t):
    """[label, name, value] for the attributes every node has without storing them: the navigation properties"""
    out = []

    def walk(node, depth):
        hs = [walk(c, depth + 1) for c in node[1]]
        h = 0 if not hs else 1 + max(hs)
        out.append([node[0], "depth", depth])
        out.append([node[0], "height", h])
        out.append([node[0], "is_leaf", not node[1]])
        out.append([node[0], "is_root", depth == 0])
        return h

    walk(t, 0)
    return out


def _queries(rng, t, start, attrs, n):
    sub = gen.tree_labels(_sub(t, start))
    qs = []
    for _ in range(n):
        fo = gen.random_subset(rng, sub)
        st = gen.random_subset(rng, sub, rng.choice([0, 0.15]))
        m = rng.choice([None, None, 0, 1, 2, 3])
        cnt = rng.randrange(0, len(sub) + 2)
        r = rng.random()
        if r < 0.4:
            qs.append({"fn": "findall", "filter_out": fo, "stop": st, "maxlevel": m,
                       "mincount": rng.choice([None, 0, cnt, cnt + 1, -1]),
                       "maxcount": rng.choice([None, 0, cnt, max(cnt - 1, 0), 50]),
                       "defaults": rng.random() < 0.3})
        elif r < 0.6:
            qs.append({"fn": "find", "filter_out": fo, "stop": st, "maxlevel": m, "defaults": rng.random() < 0.3})
        elif r < 0.8:
            nm, val = _name_value(rng)
            qs.append({"fn": "findall_by_attr", "name": nm, "value": val,
                       "maxlevel": m, "mincount": rng.choice([None, 0, 1, 2]), "maxcount": rng.choice([None, 0, 1, 2, 9])})
        else:
            nm, val = _name_value(rng)
            qs.append({"fn": "find_by_attr", "name": nm, "value": val, "maxlevel": m})
    return qs


def _case(rng, t):
    labs = gen.tree_labels(t)
    attrs = []
    for l in labs:
        for name in ("x", "y"):
            if rng.random() < 0.6:
                attrs.append([l, name, rng.choice(VALUES)])
    cls = rng.choice(["nm", "nm", "nm", "light", "falsy", "eq"])
    if cls in ("light", "eq"):
        attrs = []                                   # classes without the extra attributes: `label` is the only data attribute
    else:
        attrs += [[l, "kind", "plain"] for l in labs]    # class-level default of the harness class
    # every node has a `label` attribute and the navigation properties: mirror them in the table
    attrs += [[l, "label", l] for l in labs] + _computed(t)
    start = rng.choice(labs)
    c = {"fam": "search", "tree": t, "start": start, "attrs": attrs, "cls": cls,
         "queries": _queries(rng, t, start, attrs, 8), "module": rng.choice(["search", "cachedsearch"])}
    if rng.random() < 0.5 and cls != "light":
        # the same calls (same predicate objects, equal values) were already made on an earlier state of the tree:
        # other x/y values, one more node below the start node
        sub = gen.tree_labels(_sub(t, start))
        c["warm"] = {"under": rng.choice(sub), "xval": rng.choice([0, 1, 2]),
                     "attrs": [[l, name, rng.choice(VALUES)] for l in labs for name in ("x", "y") if rng.random() < 0.5]}
    return c


def generate(tier, rng):
    nmax = 4 if tier == "quick" else 5
    for n in range(1, nmax + 1):
        for sh in gen.shapes(n):
            for _ in range(4):
                yield _case(rng, gen.labelled(sh, rng, True))
    for sh in gen.big_shapes(rng, tier, 450):
        yield _case(rng, gen.labelled(sh, rng, True))
    for _ in range(200 if tier == "quick" else 3000):
        n = rng.randrange(5, 13 if tier == "quick" else 31)
        yield _case(rng, gen.labelled(gen.random_shape(rng, n), rng, True))


def nontrivial(case):
    return gen.tree_size(_sub(case["tree"], case["start"])) >= 3
