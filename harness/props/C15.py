"""C15 — Walker.walk returns the unique tree path between two nodes."""
import itertools

import gen

ID = "C15"
LEVEL_TEXT = ("For every pair of nodes (tree id + address, any tree size) the Lean mirror of Walker.walk - paths, root identity "
              "test, the *filter* over the zipped paths, slicing - is proved equal to the specification: common = lowest common "
              "ancestor (longest common prefix of the addresses), upwards = start's chain up to below it, downwards = the chain "
              "below it down to end; the concatenation is proved to be a simple path of adjacent nodes and walk(end, start) its "
              "mirror image; nodes of different trees give WalkError. Tied to /repo on every ordered pair of every shape up to 5 "
              "(thorough 7) nodes and across two trees, plus random larger trees.")
LEVEL_NOTE = ("Trusted: Lean kernel, standard axioms; the mirror lean/Anytree/Model/Walker.lean; node identity modelled as "
              "(tree, address) equality.")
THEOREMS = [
    ("Anytree.Props.C15.walk_eq_spec", "full"),
    ("Anytree.Props.C15.calcCommon_eq_lcp", "full"),
    ("Anytree.Props.C15.walk_different_trees", "full"),
    ("Anytree.Props.C15.common_is_lca", "full"),
    ("Anytree.Props.C15.common_of_ancestor", "full"),
    ("Anytree.Props.C15.walk_chains", "full"),
    ("Anytree.Props.C15.walk_simple_path", "full"),
    ("Anytree.Props.C15.walk_mirror", "full"),
]
NOT_COVERED = []
RULE = ("every ordered pair of nodes of every shape up to N nodes (quick 5, thorough 7) incl. a second tree; random shapes up "
        "to 15/40 nodes with 30 random pairs. Distinct = distinct case; non-trivial = first tree has at least 3 nodes.")


def generate(tier, rng):
    # far deeper than the interpreter's recursion limit: what is defined by walking the parent links must not recurse per level
    for depth in ([1500] if tier == "quick" else [1500, 3000]):
        yield {"fam": "deepchain", "depth": depth, "cls": rng.choice(["nm", "light", "node"]), "what": "walk"}
    nmax = 5 if tier == "quick" else 7
    for n in range(1, nmax + 1):
        for sh in gen.shapes(n):
            t = gen.labelled(sh, rng, n >= 3)
            other = gen.labelled(rng.choice(gen.shapes(rng.choice([1, 2, 3]))), rng, False, base=100)
            labs = gen.tree_labels(t) + gen.tree_labels(other)[:2]
            pairs = [list(p) for p in itertools.product(labs, repeat=2)]
            yield {"fam": "walk", "trees": [t, other], "pairs": pairs, "cls": rng.choice(["nm", "light", "eq", "falsy", "shadow", "links"])}
    # scale: deep and wide trees; ancestor/descendant pairs far apart, a node with itself deep down
    for sh in gen.big_shapes(rng, tier):
        t = gen.labelled(sh, rng, True)
        labs = gen.tree_labels(t)
        dl = gen.deep_labels(t)
        h = len(dl)
        pairs = [[dl[-1], dl[-1]], [dl[0], dl[-1]], [dl[-1], dl[0]], [dl[h // 2], dl[-1]], [dl[-1], dl[h // 2]],
                 [dl[-2], dl[-1]], [dl[-1], dl[-2]], [dl[h // 2], dl[h // 2]], [labs[-1], dl[-1]], [dl[-1], labs[-1]]]
        pairs += [[rng.choice(labs), rng.choice(labs)] for _ in range(10)]
        yield {"fam": "walk", "trees": [t], "pairs": pairs, "cls": rng.choice(["nm", "light", "eq", "falsy", "shadow", "links"])}
    for _ in range(80 if tier == "quick" else 1000):
        n = rng.randrange(6, 16 if tier == "quick" else 41)
        t = gen.labelled(gen.random_shape(rng, n), rng, True)
        labs = gen.tree_labels(t)
        pairs = [[rng.choice(labs), rng.choice(labs)] for _ in range(30)]
        yield {"fam": "walk", "trees": [t], "pairs": pairs, "cls": rng.choice(["nm", "light", "eq", "falsy", "shadow", "links"])}


def nontrivial(case):
    if case.get("fam") == "deepchain":
        return True
    return gen.tree_size(case["trees"][0]) >= 3


def judge(case, impl, drv):
    if case.get("fam") == "deepchain":
        return impl == {"ok": True}, True
    return impl == drv["spec"], impl == drv["mirror"]
