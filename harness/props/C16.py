"""C16 — notification hooks fire exactly once and in order around each link change."""
import core
from props import forest_common as fc

ID = "C16"
LEVEL_TEXT = ("The hook log of the Lean mirror (kind, node, argument and a snapshot of the whole forest at each invocation) "
              "is proved equal to the closed-form log of the specification for every fault-free parent assignment, children "
              "deletion and children assignment on every consistent forest; a raising post hook of a parent assignment is "
              "proved to leave the state of the preceding step. Tied to /repo by comparing the complete logs, snapshots "
              "included, on every call from every forest over 3 (thorough 4) nodes and on post-hook fault positions, for "
              "NodeMixin- and LightNodeMixin-based classes.")
LEVEL_NOTE = ("Trusted: Lean kernel, standard axioms; the mirror; hooks observe but do not mutate. The log during the restore "
              "of a refused or vetoed children assignment is not specified by the property and not compared against the spec "
              "(it is compared against the mirror)."
              " Hooks that make structural calls of their own are outside the model (its hooks observe or raise); one class of them - a hook that detaches ANOTHER node while the call is in progress - is exercised in the correspondence run against the mirror run on the nested call followed by the outer one (driver field pre_ops); for a parent assignment this equivalence is proved of the extended mirror (Model/ForestR.lean, C02r.setParentR_eq_seq, inv_setParentR); for the children deleter as well (C02s.delChildrenR_eq_seq, inv_delChildrenR); for the attach phase of a children assignment it is searched, not proved.")
THEOREMS = [
    ("Anytree.Props.C16.log_setParent", "full"),
    ("Anytree.Props.C16.log_delChildren", "full"),
    ("Anytree.Props.C16.setParent_log_shape", "full"),
    ("Anytree.Props.C16.detach_log_shape", "full"),
    ("Anytree.Props.C16.no_hooks_when_refused_or_noop", "full"),
    ("Anytree.Props.C16.pre_detach_sees", "full"),
    ("Anytree.Props.C16.post_detach_sees", "full"),
    ("Anytree.Props.C16.post_attach_sees", "full"),
    ("Anytree.Props.C16.post_fault_keeps_step", "full"),
    ("Anytree.Props.C16.log_setChildren", "full"),
    ("Anytree.Props.C16.delChildren_log_kinds", "full"),
]
NOT_COVERED = []
PREDICATE_SPEC = True
RULE = ("every ordered labelled forest over k nodes (quick 3, thorough 4) x every call, full hook logs with snapshots; "
        "every single post-hook and pre-hook fault position of parent assignments; random histories. Distinct = distinct "
        "history; non-trivial = final call fires at least two hooks.")


def generate(tier, rng):
    k = 3 if tier == "quick" else 4
    states = fc.forest_states(k)
    base = []
    for st in states:
        calls = fc.all_calls(k, 2 if tier == "quick" else 3, nonnode=True)
        if tier == "quick":
            calls = [c for c in calls if c["op"] != "ctor"] + rng.sample([c for c in calls if c["op"] == "ctor"], 10)
        if k == 4:
            calls = rng.sample(calls, len(calls) // 5)
        for call in calls:
            fl = "nm" if rng.random() < 0.7 else "light"
            if fl == "light" and fc.has_nonnode(call):
                fl = "nm"
            base.append(fc.mk(fl, False, k, st + [call], cls=(rng.choice(fc.NM_CLASSES) if fl == "nm" else None)))
    res = core.run_driver([dict(c, loglevel=1) for c in base])
    for c, r in zip(base, res):
        yield c
        n = len(r["mirror"][-1]["log"])
        if c["ops"][-1]["op"] in ("sp",) and n:
            for v in fc.fault_variants(c["ops"][-1], n, persistent=False):
                yield dict(c, ops=c["ops"][:-1] + [v])
        elif n and rng.random() < 0.15:
            v = rng.choice(fc.fault_variants(c["ops"][-1], n, persistent=False))
            yield dict(c, ops=c["ops"][:-1] + [v])
    for n0, ops in fc.reentrant_histories(rng, tier):
        fl = rng.choice(["nm", "light"])
        yield fc.mk(fl, False, n0, ops, cls=(rng.choice(fc.NM_CLASSES) if fl == "nm" else None))
    for n0, ops in fc.wide_histories(rng, tier):
        fl = rng.choice(["nm", "light"])
        if any(fc.has_nonnode(o) for o in ops):
            fl = "nm"
        yield fc.mk(fl, False, n0, ops, cls=(rng.choice(fc.NM_CLASSES) if fl == "nm" else None))
    for _ in range(300 if tier == "quick" else 4000):
        n0 = rng.randrange(3, 7)
        fl = rng.choice(["nm", "light"])
        ops = fc.random_history(rng, n0, rng.randrange(3, 9 if tier == "quick" else 20), nonnode=(fl == "nm"))
        yield fc.mk(fl, False, n0, ops, cls=(rng.choice(fc.NM_CLASSES) if fl == "nm" else None))


def _observes(e):
    """what the property promises a hook sees, evaluated on the snapshot the hook took (model-free): the moving node is
    still in place before a step and already moved after it"""
    kind, n, arg, snap = e
    if kind in ("pre_detach", "post_detach", "pre_attach", "post_attach") and len(arg) == 1 and 0 <= arg[0] < len(snap):
        p = arg[0]
        par, kids = snap[n][0], snap[p][1]
        if kind == "pre_detach":
            return par == p and kids.count(n) == 1
        if kind == "post_detach":
            return par is None and n not in kids
        if kind == "pre_attach":
            return par is None and n not in kids
        return par == p and kids and kids[-1] == n and kids.count(n) == 1
    return True


def judge(case, impl, drv):
    if not isinstance(impl, list):
        return False, False
    mir, spec = drv["mirror"], drv["spec"]
    if len(impl) != len(mir):
        return False, False
    p_ok = c_ok = True
    for op, r, m, s in zip(case["ops"], impl, mir, spec):
        if "reenter" in (op.get("faults") or {}):
            # a hook that detaches another node while the call is in progress: the logs contain the nested call, so they
            # are not compared with the mirror's; every hook must still observe the tree before / after its own step, and
            # the call must end where the nested call followed by the outer call ends
            if r["res"] != m["res"] or r["snap"] != m["snap"]:
                c_ok = False
            if r["res"] != "ok" or r["snap"] != m["snap"] or not all(_observes(e) for e in (r.get("log") or [])):
                p_ok = False
            if not (p_ok and c_ok):
                break
            continue
        if r != m:
            c_ok = False
        if s["log"] is not None and r["log"] != s["log"]:
            p_ok = False
        # post-hook clause: an exception from a post hook of a parent assignment keeps the preceding step
        if op["op"] == "sp" and r["res"].startswith("HookAbort") and ":post_" in r["res"]:
            if s["snap"] is not None and r["snap"] != s["snap"]:
                p_ok = False
        if not (p_ok and c_ok):
            break
    return p_ok, c_ok


def mirror_spec_ok(case, drv):
    for op, m, s in zip(case["ops"], drv["mirror"], drv["spec"]):
        if s["log"] is not None and m["log"] != s["log"]:
            return False
    return True


def nontrivial(case):
    return len(case["ops"]) >= 2


def distribution(cases, results):
    from props.C01 import distribution as d
    return d(cases, results)
