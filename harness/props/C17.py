"""C17 — tree operations use node identity only, never user-defined special methods."""
from props import forest_common as fc
from props.C18 import _params

ID = "C17"
KINDS = ["always_equal", "never_equal", "falsy", "zero_len", "unhashable", "trap", "container", "tuple"]
LEVEL_TEXT = ("Thin proof + adversarial differential run. In Lean no function of the model takes the user's special methods as "
              "an input (nodes are compared by index/address only), so every modelled result is independent of them; the three "
              "sites that were not identity-based before the fix: commit for D6 (util.leftsibling/rightsibling truthiness and "
              "tuple.index, the 'in' de-duplication of glob '**') are modelled with the user operations as explicit parameters, "
              "proved to coincide with the repaired functions for a plain class and to differ for adversarial classes "
              "(kernel-checked witnesses). The tie is relational: every history and every read-only API (navigation, util helpers, "
              "five iterators, search, Walker, Resolver, RenderTree, three exporters) is run on /repo with node classes that are "
              "always-equal, never-equal, falsy, zero-length, unhashable, and a trap class whose comparison/hash/bool/len/iter/"
              "contains/getitem methods raise and count their invocations, and compared label-for-label with a plain class; the "
              "trap counter must stay at zero.")
LEVEL_NOTE = ("The formal content is parametricity of the model; the assurance for the Python code comes from the adversarial "
              "run (all overriding kinds x both mixins x generated histories), which cannot cover every possible user class. "
              "Trusted: Lean kernel, standard axioms; the harness classes.")
THEOREMS = [
    ("Anytree.Props.C17.leftSibling_legacy_plain", "full"),
    ("Anytree.Props.C17.rightSibling_legacy_plain", "full"),
    ("Anytree.Props.C17.appendNew_legacy_plain", "full"),
    ("Anytree.Props.C17.leftSibling_ignores_user_ops", "full"),
    ("Anytree.Props.C17.D6_witness", "witness"),
]
NOT_COVERED = ["'none of these methods is ever invoked by the library on a node' is a statement about CPython dispatch; it is decided "
               "by the trap class of the correspondence run (invocation counter), not by a theorem"]
PREDICATE_SPEC = True
RULE = ("for each of the six overriding kinds and both mixins: every ordered labelled forest over 3 nodes x sampled calls, seeded "
        "random histories up to length 10/25 over 3-6 nodes; after each history every read-only API on every node (see "
        "harness/families/observe.py), compared with a plain class. Distinct = distinct (history, kind, base); non-trivial = "
        "history of at least 3 calls.")


def generate(tier, rng):
    k = 3
    for st in fc.forest_states(k):
        calls = fc.all_calls(k, 2, nonnode=False)
        calls = rng.sample(calls, len(calls) // (12 if tier == "quick" else 2))
        for call in calls:
            yield {"fam": "adversarial", "fl": "nm", "asrt": False, "n0": k, "ops": st + [call], "kind": rng.choice(KINDS),
                   "base": rng.choice(["nm", "light"]), "params": _params(rng, k + 1), "loglevel": 0}
    # wide sibling lists: equality-based list operations (list.remove, `in`, index) only go wrong when a node
    # has an *earlier* sibling that compares equal, so parents with 3-5 children and every move of every child
    for k in (4, 5, 6):
        star = [{"op": "sp", "n": i, "v": 0} for i in range(1, k)]
        for kind in KINDS:
            for base in ("nm", "light"):
                for n in range(1, k):
                    for v in [None] + [x for x in range(k) if x != 0]:
                        yield {"fam": "adversarial", "fl": "nm", "asrt": False, "n0": k, "ops": star + [{"op": "sp", "n": n, "v": v}],
                               "kind": kind, "base": base, "params": _params(rng, k), "loglevel": 0}
                yield {"fam": "adversarial", "fl": "nm", "asrt": False, "n0": k,
                       "ops": star + [{"op": "sc", "n": 0, "xs": list(range(k - 1, 0, -1))}, {"op": "sc", "n": 0, "xs": [2, 1]}],
                       "kind": kind, "base": base, "params": _params(rng, k), "loglevel": 0}
    # scale: more nodes than any de-duplication / membership shortcut waits for (sets, dicts and `in` engage the user's
    # __hash__/__eq__ only above a cut-off)
    for w in ([40] if tier == "quick" else [20, 40, 70]):
        big = [{"op": "sc", "n": 0, "xs": list(range(1, w + 1))}] + [{"op": "sp", "n": w + i, "v": i} for i in range(1, w)]
        for kind in KINDS:
            prm = _params(rng, 2 * w)
            prm["queries"] = [[0, "**", False], [0, "**/**", True], [0, "**/*", False], [0, "*", True], [0, "**/..", True],
                              [0, "**/n1", False], [1, "../**", True]] + prm["queries"][:3]
            prm["pairs"] += [[2 * w - 1, 1], [0, 2 * w - 1], [w, w]]
            prm["export_roots"] = [0]
            prm["maxlevel"] = None
            yield {"fam": "adversarial", "fl": "nm", "asrt": False, "n0": 2 * w, "ops": big + [{"op": "sp", "n": 3, "v": w + 5}],
                   "kind": kind, "base": rng.choice(["nm", "light"]), "params": prm, "loglevel": 0}
    for _ in range(300 if tier == "quick" else 5000):
        n0 = rng.randrange(3, 7)
        ops = fc.random_history(rng, n0, rng.randrange(3, 11 if tier == "quick" else 26), nonnode=False)
        yield {"fam": "adversarial", "fl": "nm", "asrt": False, "n0": n0, "ops": ops, "kind": rng.choice(KINDS),
               "base": rng.choice(["nm", "light"]), "params": _params(rng, n0 + 3), "loglevel": 0}


def judge(case, impl, drv):
    if not isinstance(impl, dict) or "adv" not in impl:
        return False, False
    p_ok = impl["adv"] == impl["plain"] and impl["adv_obs"] == impl["plain_obs"] and impl["special_calls"] == 0
    mir = drv["mirror"]

    def agrees(rs):
        return all(r["res"] == m["res"] and r["snap"] == m["snap"] for r, m in zip(rs, mir))

    c_ok = agrees(impl["adv"]) == agrees(impl["plain"])
    return p_ok, c_ok


def mirror_spec_ok(case, drv):
    return True


def nontrivial(case):
    return len(case["ops"]) >= 3


def distribution(cases, results):
    d = {}
    for c in cases:
        key = c["kind"] + "/" + c["base"]
        d[key] = d.get(key, 0) + 1
    return {"kinds": d}
