"""C18 — LightNodeMixin behaves identically to NodeMixin."""
from props import forest_common as fc

ID = "C18"
LEVEL_TEXT = ("On the Lean mirror the two flavours are proved to run the same program for every structural call (constructors included) "
              "with tree-node arguments and, by induction, along every operation history (history_flavor, query_flavor): same outcome, same forest and same hook log for every forest, fault schedule, assertion setting and fuel "
              "(the flavour is read only where a non-node argument is type-checked); the read side has a single mirror for both. "
              "The tie is relational: every history (with fault schedules) is run in lock-step on a NodeMixin class and a "
              "LightNodeMixin (__slots__) class of /repo and everything observable is compared - outcome class, full link map and "
              "hook log after every call, then every navigation attribute, all five iterators with restrictions, search, Walker, "
              "commonancestors, Resolver get/glob, RenderTree rows and the three exporters on the resulting trees.")
LEVEL_NOTE = ("Trusted: Lean kernel, standard axioms; the mirror (one Forest.lean for both flavours with a flavour switch). Only "
              "flavour-dependent differences count here: a defect present in both copies is reported by C01-C03/C16, not by C18. "
              "Non-node arguments are excluded (the property quantifies over tree-node arguments); LightNodeMixin has no 'anchestors' "
              "typo alias."
              " Histories with a hook that detaches another node while a call is in progress are run in lock-step on both flavours as well (outside the model: searched, not proved).")
THEOREMS = [
    ("Anytree.Props.C18.setParent_flavor", "full"),
    ("Anytree.Props.C18.delChildren_flavor", "full"),
    ("Anytree.Props.C18.setChildren_flavor", "full"),
    ("Anytree.Props.C18.setChildren_nonIterable_flavor", "full"),
    ("Anytree.Props.C18.setChildrenNodes_eq", "full"),
    ("Anytree.Props.C18b.ctor_flavor", "full"),
    ("Anytree.Props.C18b.exec_flavor", "full"),
    ("Anytree.Props.C18b.history_flavor", "full"),
    ("Anytree.Props.C18b.query_flavor", "full"),
    ("Anytree.Props.C18b.nonNode_differs", "witness"),
]
MODULES = ["Anytree.Props.C18", "Anytree.Props.C18b"]
NOT_COVERED = ["the read-only queries are equal for the two flavours by construction of the model (one mirror); that the two Python "
               "copies of the read-only code agree is established by the lock-step run only"]
PREDICATE_SPEC = True
RULE = ("every ordered labelled forest over 3 nodes x every call with node arguments (children sequences up to length 2) x single "
        "fault positions sampled, plus seeded random histories of length up to 10/25 over 3-6 nodes with random fault schedules; "
        "after each history (for 40% of the random histories: after every call) every read-only query listed in the level text on every node. Distinct = distinct history; non-trivial "
        "= history of at least 3 calls.")


def generate(tier, rng):
    k = 3
    for st in fc.forest_states(k):
        calls = fc.all_calls(k, 2, nonnode=False)
        calls = rng.sample(calls, len(calls) // (4 if tier == "quick" else 1))
        for call in calls:
            c = {"fam": "lockstep", "asrt": False, "n0": k, "ops": st + [call], "nmcls": rng.choice(["mixin", "node", "anynode", "eqmixin", "falsymixin"]),
                 "params": _params(rng, k + 1)}
            if rng.random() < 0.3:
                c["ops"][-1] = dict(call, faults={"at": [rng.randrange(0, 8)]})
            yield c
    for _ in range(120 if tier == "quick" else 1500):
        # classes that override the public `parent` attribute and refuse to move pinned nodes: every detach/attach either
        # flavour performs - also inside `del children` and the children setter with its restore - goes through it
        n0 = rng.randrange(4, 8)
        ops = fc.random_history(rng, n0, rng.randrange(3, 11 if tier == "quick" else 20), nonnode=False)
        yield {"fam": "lockstep", "asrt": False, "n0": n0, "ops": ops, "nmcls": "pinmixin",
               "pinned": rng.sample(range(n0), rng.choice([1, 1, 2])), "pin_after": len(ops) // 2,
               "params": _params(rng, n0 + 3)}
    for n0, ops in fc.reentrant_histories(rng, tier):
        # hooks that detach another node while a call is in progress: both flavours must still behave alike
        yield {"fam": "lockstep", "asrt": False, "n0": n0, "ops": ops, "nmcls": rng.choice(["mixin", "node", "anynode", "eqmixin", "falsymixin"]),
               "params": _params(rng, n0), "observe_each": rng.random() < 0.5}
    for n0, ops in fc.wide_histories(rng, tier):
        if any(fc.has_nonnode(o) for o in ops):
            continue
        yield {"fam": "lockstep", "asrt": False, "n0": n0, "ops": ops, "nmcls": rng.choice(["mixin", "node", "anynode", "eqmixin", "falsymixin"]),
               "params": _params(rng, 6)}
    for _ in range(250 if tier == "quick" else 4000):
        n0 = rng.randrange(3, 7)
        ops = fc.random_history(rng, n0, rng.randrange(3, 11 if tier == "quick" else 26), nonnode=False)
        for o in ops:
            r = rng.random()
            if r < 0.25:
                o["faults"] = {"at": [rng.randrange(0, 10)]}
            elif r < 0.3:
                o["faults"] = {"kinds": rng.sample(fc.ALL_KINDS, 2)}
        c = {"fam": "lockstep", "asrt": False, "n0": n0, "ops": ops, "nmcls": rng.choice(["mixin", "node", "anynode", "eqmixin", "falsymixin"]),
             "params": _params(rng, n0 + 3)}
        if rng.random() < 0.4:
            c["observe_each"] = True      # all read-only queries after every call, not only at the end
        yield c


_FIXED_PATHS = ["*", "**", "../*", "n1", "/n0/*", "*/n2", "..", "n?", "**/n3", "**/..", "**/../*", "**/**", "*/**/..", "../**"]
_COMPONENTS = ["*", "**", "..", ".", "n1", "n2", "n3", "n?", "n*", "", "N1"]


def _rand_path(rng):
    """a glob pattern composed of wildcard, recursive, upward and literal components (so that one node can be reached
    along several routes: the de-duplication sites)"""
    if rng.random() < 0.5:
        return rng.choice(_FIXED_PATHS)
    parts = [rng.choice(_COMPONENTS) for _ in range(rng.randrange(1, 5))]
    if rng.random() < 0.2:
        parts = ["", "n0"] + parts
    return "/".join(parts)


def _params(rng, n):
    labs = list(range(n))
    return {"stop": rng.sample(labs, rng.choice([0, 0, 1])), "filter_out": rng.sample(labs, rng.choice([0, 1, 2])),
            "maxlevel": rng.choice([None, None, 1, 2, 3]),
            "pairs": [[rng.randrange(n), rng.randrange(n)] for _ in range(4)],
            "queries": [[rng.randrange(n), _rand_path(rng), rng.random() < 0.5] for _ in range(6)],
            "export_roots": [rng.randrange(n)]}


def judge(case, impl, drv):
    if not isinstance(impl, dict) or "nm" not in impl:
        return False, False
    # a persistently vetoed restore recurses until Python's recursion limit (finding K4): where exactly the
    # RecursionError strikes depends on the frame count of each class, so log and state of that call are not
    # comparable - only that both flavours end in RecursionError; nothing after it is compared
    p_ok = True
    cut = False
    for a, b in zip(impl["nm"], impl["light"]):
        if a["res"] == "RecursionError" or b["res"] == "RecursionError":
            p_ok = p_ok and a["res"] == b["res"]
            cut = True
            break
        if a != b:
            p_ok = False
            break
    if not cut:
        p_ok = p_ok and len(impl["nm"]) == len(impl["light"]) and impl["nm_obs"] == impl["light_obs"]
    m = drv["mirror"]

    def agrees(rs, ms):
        for r, x in zip(rs, ms):
            if r["res"] == "RecursionError":
                return x["res"] == "RecursionError"
            if r != x:
                return False
        return True

    c_ok = agrees(impl["nm"], m["nm"]) == agrees(impl["light"], m["light"])
    return p_ok, c_ok


def mirror_spec_ok(case, drv):
    return drv["mirror"]["nm"] == drv["mirror"]["light"]


def nontrivial(case):
    return len(case["ops"]) >= 3
