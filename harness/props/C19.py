"""C19 — pickle and deepcopy yield an independent, consistent, isomorphic tree."""
from props import forest_common as fc

ID = "C19"
LEVEL_TEXT = ("Partial by construction: CPython's pickle/copy do the copying and are trusted. What anytree contributes is (1) that "
              "every reference a node holds (parent, children, symlink target) leads only into its own tree or the targets' trees - "
              "proved on the model: the set reachable from any node of a consistent forest through parent/children/target "
              "references is exactly the whole tree of that node plus, transitively, the trees of the symlink targets in it - and "
              "(2) the __getattr__ guard that makes attribute probing on a half-built SymlinkNode terminate: proved for exactly the "
              "guarded names extracted from the source, with the unguarded variant proved to recurse for every fuel. The rest is "
              "decided on /repo: for mixed-class forests (Node, AnyNode, SymlinkNode, user NodeMixin, LightNodeMixin with __slots__) "
              "every node is copied by deepcopy and by pickle under every protocol, and the copy is checked to be isomorphic "
              "(shape, order, classes, attributes, entry position, targets), disjoint from the original, consistent (C01) and "
              "independent under mutation; the reachable set is compared with the Lean prediction.")
LEVEL_NOTE = ("Trusted: CPython's pickle/copy/__reduce_ex__ machinery and the pickle byte stream (not modelled); Lean kernel, standard "
              "axioms; the mirror lean/Anytree/Model/Attr.lean. Protocols 0-1 are skipped for __slots__ classes (a restriction of "
              "Python itself).")
MODULES = ['Anytree.Props.C19', 'Anytree.Props.C19b']
THEOREMS = [
    ("Anytree.Props.C19.lookup_guarded_terminates", "partial"),
    ("Anytree.Props.C19.lookup_restored", "partial"),
    ("Anytree.Props.C19.reach_sound", "partial"),
    ("Anytree.Props.C19.reach_nodup", "partial"),
    ("Anytree.Props.C19.reach_complete", "partial"),
    ("Anytree.Props.C19.mem_reach_iff", "partial"),
    ("Anytree.Props.C19.same_tree_of_conn", "partial"),
    ("Anytree.Props.C19.lookup_unguarded_diverges", "witness"),
    ("Anytree.Props.C19b.copy_inv", "partial"),
    ("Anytree.Props.C19b.copy_size", "partial"),
    ("Anytree.Props.C19b.copy_entry", "partial"),
    ("Anytree.Props.C19b.copy_bijection", "partial"),
    ("Anytree.Props.C19b.copy_parent_iff", "partial"),
    ("Anytree.Props.C19b.copy_children_eq", "partial"),
    ("Anytree.Props.C19b.copy_target_iff", "partial"),
    ("Anytree.Props.C19b.copy_target_total", "partial"),
    ("Anytree.Props.C19b.copy_shape", "partial"),
    ("Anytree.Props.C19b.copy_shape_entry", "partial"),
    ("Anytree.Props.C19b.same_tree_mem_reach", "partial"),
    ("Anytree.Props.C19b.copy_only_connected", "partial"),
    ("Anytree.Props.C19b.copy_congr", "partial"),
    ("Anytree.Props.C19b.deepcopy_correct", "partial"),
]
NOT_COVERED = ["that CPython's pickle/copy actually perform the copy of exactly the reachable object graph with fresh identities (the function copyForest of the model) is established by the correspondence run over every entry node and protocol, not by a theorem; given that, consistency, isomorphism, entry position, targets and completeness of the copy are proved (deepcopy_correct)"]
PREDICATE_SPEC = True
KINDS = ["node", "anynode", "user", "falsy", "eq", "slotbase", "symlink", "symlink"]
RULE = ("seeded random forests of 3-8 (thorough 12) objects of classes Node/AnyNode/user NodeMixin/SymlinkNode (links to earlier "
        "objects, also to links and across trees) or all LightNodeMixin, shaped by random parent/children assignments; every object "
        "as entry node; deepcopy and pickle protocols 0..HIGHEST (>=2 with __slots__). Distinct = distinct forest; non-trivial = at "
        "least one symlink and one tree of >= 3 nodes.")


def generate(tier, rng):
    sizes = [rng.randrange(3, 9 if tier == "quick" else 13) for _ in range(120 if tier == "quick" else 1500)]
    sizes += [40, 70] if tier == "quick" else [40, 70, 70, 130, 130]       # scale: long chains of links, wide and deep trees
    for n in sizes:
        light = rng.random() < 0.25
        kinds, targets = [], []
        for i in range(n):
            if light:
                # LightNodeMixin classes: fully slotted, without __slots__ (attributes in __dict__), or both
                kinds.append(rng.choice(["light", "light", "lightdict", "lightmixed", "lightpriv", "lightstr"]))
            else:
                k = rng.choice(KINDS) if i > 0 else rng.choice(KINDS[:5])
                kinds.append(k)
                if k == "symlink":
                    targets.append([i, rng.randrange(i)])
        ops = []
        for _ in range(rng.randrange(n - 1, 2 * n)):
            r = rng.random()
            if r < 0.8:
                ops.append({"op": "sp", "n": rng.randrange(n), "v": rng.choice([None] + list(range(n)))})
            else:
                xs = list(dict.fromkeys(rng.randrange(n) for _ in range(rng.choice([1, 2, 3]))))
                ops.append({"op": "sc", "n": rng.randrange(n), "xs": xs})
        yield {"fam": "copy", "n0": n, "kinds": kinds, "targets": targets, "ops": ops}


def judge(case, impl, drv):
    if not isinstance(impl, dict) or "copies" not in impl:
        return False, False
    p_ok = all(v["ok"] for v in impl["copies"]) and impl["reach"] == drv["spec"]
    c_ok = impl["reach"] == drv["mirror"]
    return p_ok, c_ok


def mirror_spec_ok(case, drv):
    return drv["mirror"] == drv["spec"]


def nontrivial(case):
    return "symlink" in case["kinds"] and len(case["ops"]) >= 3
