"""C20 — a symlink node has its own tree position and forwards the rest to its target."""
from props import forest_common as fc

ID = "C20"
LEVEL_TEXT = ("On the attribute-store model (objects with their own __dict__, links with a target, the local/guarded name lists "
              "extracted from symlinknodemixin.py on every run) reading an instance attribute through any chain of links is proved "
              "equal to reading it on the real target, an assignment through a link is proved to be stored on the real target "
              "(links keep only their local names: invariant preserved by every assignment and by the repaired constructor), so "
              "writes and reads agree in both directions at any later time; a missing attribute gives AttributeError; structural "
              "calls and attribute operations act on disjoint components of the state. The pre-fix constructor (D7) is shown by a "
              "kernel-checked witness to break the invariant. Tied to /repo by random interleavings of object creation, link "
              "creation with keywords (links to links, same/other tree), attribute writes and reads on links and targets, and "
              "parent/children assignments, comparing every read, every object's own dictionary and the link structure.")
LEVEL_NOTE = ("After the fix: commit for D7. Instance-data names only: names that resolve on the class (separator, properties, "
              "methods) are the link's own by Python's lookup order. Cyclic target chains are outside the model (fuel). Trusted: Lean "
              "kernel, standard axioms; the mirror lean/Anytree/Model/Attr.lean; the extractor for the name lists."
              " Class-level attributes of user subclasses of the link class (ordinary lookup answers before anything is forwarded) are outside the attribute-store model: reads of such a name are decided by the class-aware read of Model/AttrClass.lean, a conservative extension of the store (C20b: equal to getattr without user-class links; a user-class link answers, a plain link forwards), compared with /repo.")
MODULES = ['Anytree.Props.C20', 'Anytree.Props.C20b']
THEOREMS = [
    ("Anytree.Props.C20.link_read_step", "full"),
    ("Anytree.Props.C20.link_write_step", "full"),
    ("Anytree.Props.C20.setattr_preserves_clean", "full"),
    ("Anytree.Props.C20.setattr_target", "full"),
    ("Anytree.Props.C20.getattr_eq_readS", "full"),
    ("Anytree.Props.C20.setattr_stores_on_target", "full"),
    ("Anytree.Props.C20.write_then_read", "full"),
    ("Anytree.Props.C20.missing_attr_error", "full"),
    ("Anytree.Props.C20.ctorLink_clean", "full"),
    ("Anytree.Props.C20.bookkeeping_names_agree", "full"),
    ("Anytree.Props.C20.structure_independent", "full"),
    ("Anytree.Props.C20.D7_witness", "witness"),
    ("Anytree.Props.C20b.getClassAware_user", "full"),
    ("Anytree.Props.C20b.getClassAware_forward", "full"),
    ("Anytree.Props.C20b.getClassAware_node", "full"),
    ("Anytree.Props.C20b.getClassAware_eq_getattr", "full"),
    ("Anytree.Props.C20b.getClassAware_fuel_mono", "full"),
]
NOT_COVERED = []
PREDICATE_SPEC = True
NAMES = ["foo", "bar", "x", "_p", "name", "id"]
RULE = ("seeded random programs of 8-25 (thorough 40) operations over up to 8 objects: new plain node, new link (target = any "
        "earlier object, 0-2 keyword attributes), setattr/getattr on any object for names from a small pool (so collisions and "
        "shadowing opportunities occur), parent/children assignment/deletion among the objects, dumps of all own dictionaries. "
        "Distinct = distinct program; non-trivial = at least one link to a link or a write through a link.")


def _value(rng, counter):
    """mostly distinct strings; sometimes None, scalars that compare equal across types (1 == True == 1.0), or a fresh
    mutable list (every list token names its own object)"""
    r = rng.random()
    if r < 0.6:
        return "v%d" % rng.randrange(100)
    if r < 0.85:
        return rng.choice(["None", "True", "False", "0", "1", "1.0", "''"])
    counter[0] += 1
    return "L%d" % counter[0]


def _long_chain(rng, length):
    """scale: a chain of `length` links, each to the previous one; reads and writes through the far end and the middle"""
    ctr = [0]
    ops = [{"op": "new"}]
    for i in range(length):
        kw = [[rng.choice(NAMES), _value(rng, ctr)]] if i in (0, length // 2, length - 1) and rng.random() < 0.7 else []
        ops.append({"op": "link", "t": i, "kw": kw})
    far, mid = length, length // 2
    for _ in range(12):
        i = rng.choice([far, far, mid, 1, 0, rng.randrange(length + 1)])
        if rng.random() < 0.5:
            ops.append({"op": "set", "i": i, "k": rng.choice(NAMES), "v": _value(rng, ctr)})
        else:
            ops.append({"op": "get", "i": i, "k": rng.choice(NAMES + ["missing"])})
    for i in (0, 1, mid, far - 1, far):
        for k in NAMES:
            ops.append({"op": "get", "i": i, "k": k})
    ops.append({"op": "dump"})
    return {"fam": "symlink", "ops": ops, "userlink": rng.random() < 0.3}


def generate(tier, rng):
    for length in ([17, 45, 70] if tier == "quick" else [17, 33, 45, 70, 130, 260]):
        yield _long_chain(rng, length)
    for _ in range(600 if tier == "quick" else 8000):
        ops = [{"op": "new"}]
        n = 1
        ctr = [0]
        final = {0: "any"}          # object -> class of the object it finally resolves to ("any" | "ro")
        links = set()
        L = rng.randrange(8, 26 if tier == "quick" else 41)
        userclass = rng.random() < 0.3
        names = NAMES + (["kind", "kind"] if userclass else [])
        for _ in range(L):
            r = rng.random()
            if r < 0.1 and n < 8:
                if rng.random() < 0.4:
                    ops.append({"op": "new", "kind": "ro"})      # a target class with a read-only property `ro`
                    final[n] = "ro"
                else:
                    k = rng.choice([None, None, "falsy", "eq"])     # targets that are falsy / compare equal to every node
                    ops.append({"op": "new", "kind": k} if k else {"op": "new"})
                    final[n] = "any"
                n += 1
            elif r < 0.3 and n < 8:
                t = rng.randrange(n)
                kw = [[rng.choice(names), _value(rng, ctr)] for _ in range(rng.choice([0, 0, 1, 2]))]
                kw = list({k: v for k, v in kw}.items())
                kw = [[k, v] for k, v in kw]
                ops.append({"op": "link", "t": t, "kw": kw})
                if userclass and rng.random() < 0.4:
                    ops[-1]["cls"] = "user"          # a link of a user subclass that has a class attribute `kind`
                elif rng.random() < 0.12:
                    ops[-1]["cls"] = "prop"          # a user link class whose `target` is a property
                links.add(n)
                final[n] = final[t]
                n += 1
            elif r < 0.36 and any(v == "ro" for v in final.values()):
                # an assignment the target refuses (read-only property): AttributeError, nothing stored anywhere
                ops.append({"op": "setro", "i": rng.choice([i for i, v in final.items() if v == "ro"]), "v": _value(rng, ctr)})
            elif r < 0.55:
                ops.append({"op": "set", "i": rng.randrange(n), "k": rng.choice(names), "v": _value(rng, ctr)})
            elif r < 0.8:
                ops.append({"op": "get", "i": rng.randrange(n), "k": rng.choice(names + ["missing"])})
            elif r < 0.9:
                a = rng.randrange(n)
                ops.append({"op": "sp", "n": a, "v": rng.choice([None] + list(range(n)))})
            elif r < 0.95:
                a = rng.randrange(n)
                xs = list(dict.fromkeys(rng.randrange(n) for _ in range(rng.choice([0, 1, 2]))))
                ops.append({"op": "sc", "n": a, "xs": xs})
            else:
                ops.append({"op": "dc", "n": rng.randrange(n)})
        for i in range(n):
            for k in dict.fromkeys(names):
                ops.append({"op": "get", "i": i, "k": k})
        ops.append({"op": "dump"})
        yield {"fam": "symlink", "ops": ops, "userlink": rng.random() < 0.3}


def judge(case, impl, drv):
    if not isinstance(impl, list):
        return False, False
    return impl == drv["spec"], impl == drv["mirror"]


def mirror_spec_ok(case, drv):
    return drv["mirror"] == drv["spec"]


def nontrivial(case):
    links = set()
    n = 0
    for o in case["ops"]:
        if o["op"] == "new":
            n += 1
        elif o["op"] == "link":
            if o["t"] in links:
                return True
            links.add(n)
            n += 1
        elif o["op"] == "set" and o["i"] in links:
            return True
    return False
