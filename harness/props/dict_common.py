import json

import gen

# attribute names, including ones that are substrings / superstrings of the special names `children`, `name`, `parent`
KEYS = ["a", "b", "id", "x y", "é", "zz", "_priv", "c", "n", "e", "child", "ren", "childre", "children_", "Children",
        "nam", "names", "parent_", "k\ufeff", "name",
        # names of read-only navigation properties of the node classes: stored in the instance dictionary by the
        # constructors (`__dict__.update`), they are data like any other key
        "size", "depth", "height", "is_leaf", "path", "root", "leaves", "siblings"]


def rand_value(rng, depth=0):
    r = rng.random()
    if r < 0.25:
        return rng.randrange(-5, 100)
    if r < 0.4:
        return rng.choice(["", "s", "line1\nline2", "tab\t", "quote\"q", "back\\slash", "é中", "\u0001ctl", "null", "a\ufeffb", "\ufeff", "ls\u2028ps\u2029", "nel\x85nel", "ws \x0b\x0c\x1c\x1d\x1e ", "trail \r", "\x7f\x00", "\U0001f600"])
    if r < 0.5:
        return rng.choice([None, True, False])
    if r < 0.6:
        return rng.choice([0.5, -1.25, 1e20, 3.0])
    if depth < 2 and r < 0.8:
        return [rand_value(rng, depth + 1) for _ in range(rng.randrange(0, 3))]
    if depth < 2:
        return {rng.choice(["k", "children", "m", "k\ufeff", "name"]): rand_value(rng, depth + 1) for _ in range(rng.randrange(0, 3))}
    return 7


def rand_attrs(rng, need_name=False):
    ks = rng.sample([k for k in KEYS if k != "name"], rng.randrange(0, 4))
    if need_name:
        ks.append("name")          # Node stores `name` after the keyword attributes
    elif rng.random() < 0.3:
        ks.insert(rng.randrange(len(ks) + 1), "name")
    return [[k, json.dumps(rand_value(rng), sort_keys=True)] for k in ks]


def atree(shape, rng, need_name):
    return [rand_attrs(rng, need_name), [atree(c, rng, need_name) for c in shape]]


def rand_ddata(rng, depth, need_name):
    attrs = rand_attrs(rng, need_name)
    rng.shuffle(attrs)               # a dictionary handed to the importer may list `name` anywhere
    r = rng.random()
    if depth >= 3 or r < 0.3:
        ch = None
    elif r < 0.45:
        ch = []
    else:
        ch = [rand_ddata(rng, depth + 1, need_name) for _ in range(rng.randrange(1, 4))]
        if rng.random() < 0.3:
            # the same sub-dictionary listed several times (equal values; with `data_shared` one Python object)
            ch = ch + [rng.choice(ch) for _ in range(rng.choice([1, 1, 2]))]
    return {"attrs": attrs, "children": ch}


def shape_height(sh):
    return 0 if not sh else 1 + max(shape_height(c) for c in sh)


def atree_size(t):
    return 1 + sum(atree_size(c) for c in t[1])


def big_case(rng):
    """a tree whose JSON text is well above 4 kB (long strings, many nodes): block-wise writers must not lose tokens"""
    shape = gen.random_shape(rng, rng.randrange(40, 90))
    c = make(rng, shape, True)
    def fatten(t):
        blob = ["blob", json.dumps("x" * rng.randrange(50, 400) + "é\n\t")]
        if c["cls"] == "node":
            t[0].insert(len(t[0]) - 1, blob)      # Node stores `name` after the keyword attributes: it stays last
        else:
            t[0].append(blob)
        for k in t[1]:
            fatten(k)
    fatten(c["tree"])
    return c


def base_cases(tier, rng, json_layer):
    if json_layer:
        for _ in range(6 if tier == "quick" else 60):
            yield big_case(rng)
    for sh in gen.big_shapes(rng, tier, 450):
        if shape_height(sh) <= 135:          # deeper nestings exhaust the interpreter's recursion limit in copy.deepcopy / json of the harness itself
            yield make(rng, sh, json_layer)
    nmax = 4 if tier == "quick" else 6
    for n in range(1, nmax + 1):
        for sh in gen.shapes(n):
            for _ in range(2 if tier == "quick" else 4):
                yield make(rng, sh, json_layer)
    for _ in range(250 if tier == "quick" else 4000):
        yield make(rng, gen.random_shape(rng, rng.randrange(4, 12 if tier == "quick" else 30)), json_layer)


def make(rng, shape, json_layer):
    cls = rng.choice(["anynode", "anynode", "node", "mixin", "strict", "lenmixin", "falsyany", "eqmixin"])
    need_name = cls == "node" or (cls != "node" and False)
    t = atree(shape, rng, cls == "node")
    h = shape_height(shape)
    c = {"fam": "dict", "tree": t, "cls": cls,
         "maxlevel": rng.choice([None, None, 0, 1, 2, h, h + 1]),
         "attriter": rng.choice(["none", "none", "sorted", "drop_a", "dup_first"]),
         "childiter": rng.choice(["list", "list", "reversed", "first2", "none", "tail"]),
         "ci_kind": rng.choice(["list", "list", "iter", "gen", "tuple"]),
         "dictcls": rng.choice([None, "ordered"]),
         "defaults": rng.random() < 0.3}
    # start node: the root, or some inner node (a random walk down the shape)
    addr, sh = [], shape
    while sh and rng.random() < 0.4:
        i = rng.randrange(len(sh))
        addr.append(i)
        sh = sh[i]
    c["start"] = addr
    if rng.random() < 0.5:
        c["data"] = rand_ddata(rng, 0, cls == "node")
        c["data_shared"] = rng.random() < 0.5
    if c["attriter"] == "drop_a" and rng.random() < 0.5:
        # the same customisation through a DictExporter subclass: an overridden export(), or the overridden attribute hook
        c["via_subclass"] = rng.choice([True, "iterattr"])
    if rng.random() < 0.15:
        c["nested_export"] = True      # a callback exporting with the same exporter while an export is running
    if rng.random() < 0.3 and not c.get("via_subclass"):
        # the same DictExporter object exported before, and a user hook aborted that export at its k-th node
        c["prior"] = [rng.randrange(1, atree_size(t) + 1) for _ in range(rng.choice([1, 1, 2]))]
    if json_layer:
        custom = rng.random() < 0.5
        jmax = rng.choice([None, None, 1, 2, h + 1])
        jk = {}
        if rng.random() < 0.5:
            jk["indent"] = rng.choice([0, 2, None])
        if rng.random() < 0.5:
            jk["sort_keys"] = rng.choice([True, False])
        if rng.random() < 0.4:
            jk["ensure_ascii"] = rng.choice([True, False])
        if rng.random() < 0.3:
            jk["separators"] = rng.choice([[",", ":"], [", ", ": "], [" , ", " : "], [",\t", ":"]])
        jk["jsonmaxlevel"] = jmax
        jk["customdict"] = custom
        if rng.random() < 0.3:
            jk["prior_jsonmax"] = rng.choice([1, 1, 2])      # another JsonExporter exported with this maxlevel before
        c["json"] = jk
        if not custom:
            c["attriter"], c["childiter"], c["dictcls"] = "none", "list", None
            c["ci_kind"] = "list"
            c["maxlevel"] = jmax
            c["defaults"] = True
        else:
            if rng.random() < 0.5 and not c.get("prior"):
                c["attriter"], c["via_subclass"] = "drop_a", rng.choice([True, "iterattr"])     # a DictExporter subclass as the custom exporter
            c["dictmaxlevel"] = c["maxlevel"]        # the custom dictexporter's own maxlevel …
            c["maxlevel"] = jmax if jmax is not None else c["maxlevel"]   # … is overridden by the JSON exporter's
            c["defaults"] = False
    return c


def sort_attrs(x):
    """dictionary equality ignores key order: sort the attribute lists recursively"""
    if isinstance(x, dict) and "attrs" in x:
        return {"attrs": sorted(x["attrs"]), "children": None if x["children"] is None else [sort_attrs(c) for c in x["children"]]}
    if isinstance(x, dict):
        return {k: sort_attrs(v) for k, v in x.items()}
    if isinstance(x, list) and len(x) == 2 and isinstance(x[0], list) and isinstance(x[1], list) and \
            all(isinstance(e, list) and len(e) == 2 and isinstance(e[0], str) for e in x[0]):
        return [sorted(x[0]), [sort_attrs(c) for c in x[1]]]
    return x
