"""Shared generators/judges for the exporter properties C12 (DOT) and C13 (Mermaid)."""
import re

import gen
from props.C05 import _sub

NAME_ALPHABET = ['a', 'b', 'z', ' ', '"', '\\', "'", 'é', '中', '-', '>', '[', ']', ';', '{', '%', 's']
ID_DOT = re.compile(r'"0x[0-9a-f]+"')
ID_MER = re.compile(r'N\d+')


# runs of the two escaped characters (an escaper must treat every character on its own: `\\"` is a backslash and a quote,
# not "an already escaped quote")
ESC_RUNS = ['\\"', '\\\\', '"\\', 'a\\"b', '\\\\"', '""', 'x\\\\y', '\\"\\"', 'C:\\"tmp"\\']


def rand_name(rng, collide=False):
    if collide and rng.random() < 0.5:
        return rng.choice(["same", 'q"q'])
    if rng.random() < 0.12:
        return rng.choice(ESC_RUNS)
    return "".join(rng.choice(NAME_ALPHABET) for _ in range(rng.randrange(0, 5)))


def canon_ids(lines, kind):
    """rename id tokens by order of first appearance (distinctness and stability are what matters)"""
    if not isinstance(lines, list):
        return lines
    pat = ID_MER if kind == "mermaid" else ID_DOT
    table = {}

    def ren(m):
        tok = m.group(0)
        if tok not in table:
            table[tok] = "#%d" % len(table)
        return table[tok]

    out = []
    for i, l in enumerate(lines):
        if kind == "mermaid":
            # ids occur only outside the quoted label part: N3["label"], N3-->N4
            head, sep, tail = l.partition('["')
            out.append(pat.sub(ren, head) + sep + tail)
        else:
            # ids are the quoted tokens before any " [" attribute part
            head, sep, tail = l.partition(" [")
            out.append(pat.sub(ren, head) + sep + tail)
    return out


def make_case(rng, kind, t, start=None, exhaustive=None):
    labs = gen.tree_labels(t)
    collide = kind in ("unique", "mermaid")
    names = [[l, rand_name(rng, collide)] for l in labs]
    if kind == "dot":
        # plain DotExporter identifies nodes by name: keep names distinct (property: distinct names stay distinct)
        seen = set()
        for e in names:
            while e[1] in seen:
                e[1] += rng.choice("abz")
            seen.add(e[1])
    typed = []
    if exhaustive is None and rng.random() < 0.2 and len(labs) >= 2:
        # names that are not strings: numbers/booleans that compare (and hash) equal but print differently
        pool = ["1.0", "True", "1", "0.0", "-0.0", "False", "0", "2.0", "2", "None"]
        rng.shuffle(pool)
        for e, v in zip(rng.sample(names, min(len(names), rng.choice([2, 3, 4]))), pool):
            if kind != "dot" or v not in [x[1] for x in names]:
                e[1] = v
                typed.append(e[0])
    start = t[0] if start is None else start
    sub = gen.tree_labels(_sub(t, start))
    if exhaustive is not None:
        fo, st, m = exhaustive
    else:
        fo = gen.random_subset(rng, sub)
        st = gen.random_subset(rng, sub, rng.choice([0, 0, 0.2]))
        m = rng.choice([None, None, 0, 1, 2, 3, 5])
    custom = rng.random() < 0.3
    c = {"fam": "export", "kind": kind, "tree": t, "start": start, "names": names, "filter_out": fo, "stop": st,
         "maxlevel": m, "options": rng.choice([None, None, [], ["rankdir=LR;", "node [shape=box];"]]),
         "indent": rng.choice([None, None, 0, 2, 7]), "iterations": rng.choice([1, 2]), "custom": custom,
         "graph": rng.choice([None, None, "graph"]), "gname": rng.choice([None, None, "G1"]),
         "defaults": rng.random() < 0.3, "tofile": rng.random() < 0.1, "cls": rng.choice(["plain", "plain", "eq", "light", "falsy"]),
         "partial": rng.choice([0, 0, 0, 1, 2, 3])}
    if typed:
        c["typed"] = typed
    if exhaustive is None and rng.random() < 0.15:
        c["positional"] = True            # options passed by position, in the documented order of the constructor
    if exhaustive is None and rng.random() < 0.1 and (fo or st) and kind != "rtg":
        # filter_/stop given as callables whose truth value is False: treated as absent, consistently in every pass
        c["falsy_cb"] = {"filter_out": fo, "stop": st}
        c["filter_out"], c["stop"] = [], []
        c["defaults"] = True
    if exhaustive is None and rng.random() < 0.2:
        # two interleaved iterators of one exporter (the model runs one undisturbed iteration); the first is mostly paused
        # inside or right after its node statements, the second advanced into its own
        nopt = len(c["options"] or [])
        c["interleave"] = [rng.choice([1, 1 + nopt, 2 + nopt, 1 + nopt + len(sub) // 2, 1 + nopt + len(sub), 2 + nopt + len(sub),
                                       rng.randrange(0, 2 * len(sub) + 3)]),
                           rng.choice([2 + nopt, 3 + nopt, 1 + nopt + len(sub) // 2, rng.randrange(1, len(sub) + 3)])]
        c["iterations"] = 1
        c["partial"] = 0
        c["tofile"] = False
    if c["iterations"] == 2 and "falsy_cb" not in c and rng.random() < 0.5:
        # the exporter's maxlevel attribute is changed between the iterations: the admitted set grows or shrinks,
        # identifiers handed out earlier stay valid and distinct
        c["maxlevel_seq"] = [rng.choice([m, 1, 2, 2, 2, 3]), rng.choice([None, None, None, 1, 3, 5])]
    elif c["iterations"] == 2 and exhaustive is None and "falsy_cb" not in c and rng.random() < 0.7:
        # between the two iterations of one exporter the tree is renamed and/or the exporter's filter_/stop/maxlevel
        # change (by assignment to the public attributes, or because the predicates read mutable state): every
        # iteration must describe the tree and the settings in force when it runs
        ov = {}
        if rng.random() < 0.5:
            nn = [[l, v] for l, v in names]
            for e in nn:
                if rng.random() < 0.5:
                    e[1] = rand_name(rng, collide)
            if kind == "dot":
                seen = set()
                for e in nn:
                    while e[1] in seen:
                        e[1] += rng.choice("abz")
                    seen.add(e[1])
            ov["names"] = nn
        if rng.random() < 0.6:
            ov["filter_out"] = gen.random_subset(rng, sub)
        if rng.random() < 0.4:
            ov["stop"] = gen.random_subset(rng, sub, rng.choice([0, 0.2, 0.4]))
        if rng.random() < 0.3:
            ov["maxlevel"] = rng.choice([None, 1, 2, 3])
        if ov:
            c["seq"] = [None, ov]
            c["seq_assign"] = rng.random() < 0.5
            c["defaults"] = False
    return c


def generate(kinds, tier, rng):
    # exhaustive stop x filter x maxlevel on small shapes
    for n in range(1, 4 if tier == "quick" else 5):
        for sh in gen.shapes(n):
            t = gen.labelled(sh, rng, n >= 3)
            labs = gen.tree_labels(t)
            h = gen.tree_height(t)
            for st in gen.subsets(labs):
                for fo in gen.subsets(labs):
                    for m in [None] + list(range(0, h + 3)):
                        yield make_case(rng, rng.choice(kinds), t, None, (fo, st, m))
    nmax = 5 if tier == "quick" else 6
    for n in range(2, nmax + 1):
        for sh in gen.shapes(n):
            t = gen.labelled(sh, rng, True)
            for start in gen.tree_labels(t):
                for kind in kinds:
                    yield make_case(rng, kind, t, start)
    # scale: hundreds of nodes / lines (chunked writers, caches and cut-offs), also through the file writers
    for sh in gen.big_shapes(rng, tier, 450):
        t = gen.labelled(sh, rng, True)
        dl = gen.deep_labels(t)
        for kind in kinds:
            c = make_case(rng, kind, t, rng.choice([t[0], t[0], dl[len(dl) // 3]]))
            c["tofile"] = rng.random() < 0.7
            c["options"] = rng.choice([None, [], ["rankdir=LR;"]])
            yield c
            # the whole tree, unrestricted, through the file writer (hundreds of lines)
            c = make_case(rng, kind, t, t[0], ([], [], None))
            c["tofile"] = True
            c["iterations"] = 1
            c["partial"] = 0
            yield c
    for _ in range(300 if tier == "quick" else 4000):
        t = gen.labelled(gen.random_shape(rng, rng.randrange(4, 13 if tier == "quick" else 30)), rng, True)
        yield make_case(rng, rng.choice(kinds), t, rng.choice(gen.tree_labels(t)))


def judge(case, impl, drv):
    kind = case["kind"]
    if isinstance(impl, dict) and impl.get("skip"):
        return True, True
    default_ids = (kind in ("unique", "mermaid")) and not case.get("custom")
    if default_ids:
        p_ok = canon_ids(impl, kind) == canon_ids(drv["spec"], kind)
    else:
        p_ok = impl == drv["spec"]
    return p_ok, impl == drv["mirror"]


def mirror_spec_ok(case, drv):
    kind = case["kind"]
    if (kind in ("unique", "mermaid")) and not case.get("custom"):
        return canon_ids(drv["mirror"], kind) == canon_ids(drv["spec"], kind)
    return drv["mirror"] == drv["spec"]


def d3_class(case, impl, drv):
    """finding D3: DOT exporters emit an edge to a child that satisfies `stop` (declared parent,
    undeclared child). Known iff the implementation equals the mirror and every line the spec lacks is an edge line."""
    stops = list(case["stop"]) + [x for ov in (case.get("seq") or []) if ov for x in ov.get("stop", [])]
    if case["kind"] == "mermaid" or not stops:
        return None
    if impl != drv["mirror"]:
        return None
    kind = case["kind"]
    default_ids = kind == "unique" and not case.get("custom")
    a = canon_ids(impl, kind) if default_ids else impl
    s = canon_ids(drv["spec"], kind) if default_ids else drv["spec"]
    if not isinstance(a, list) or len(a) <= len(s):
        return None
    arrow = re.compile(r'(?:"|#\d+) (?:->|--) (?:"|#\d+)')
    # the spec's lines must be a subsequence of the implementation's, the surplus being edge statements
    it = iter(a)
    surplus = []
    j = 0
    for line in a:
        if j < len(s) and (line == s[j] or (default_ids and _same_shape(line, s[j]))):
            j += 1
        else:
            surplus.append(line)
    if j == len(s) and surplus and all(arrow.search(l) for l in surplus):
        return "D3"
    return None


def _same_shape(a, b):
    strip = lambda l: re.sub(r"#\d+", "#", l)
    return strip(a) == strip(b)


def nontrivial(case):
    return gen.tree_size(_sub(case["tree"], case["start"])) >= 3
