"""Generators, oracles and finding classes shared by the model-A properties (C01, C02, C03, C16, C18)."""
import itertools

import gen

PRE_KINDS = ["pre_detach", "pre_attach", "pre_detach_children", "pre_attach_children"]
POST_KINDS = ["post_detach", "post_attach", "post_detach_children", "post_attach_children"]
ALL_KINDS = PRE_KINDS + POST_KINDS
NM_CLASSES = ["mixin", "node", "anynode", "symlink", "eqmixin", "falsynode", "lenany", "falsymixin", "shadowmixin"]


# ----------------------------------------------------------------------------------------------
# states and calls

def forest_states(k):
    """every ordered forest over the labelled nodes 0..k-1, as the op list that builds it from k bare nodes"""
    out = []
    for f in gen.forests(k):
        for perm in itertools.permutations(range(k)):
            it = iter(perm)
            ops = []

            def walk(shape, parent):
                me = next(it)
                if parent is not None:
                    ops.append({"op": "sp", "n": me, "v": parent})
                for c in shape:
                    walk(c, me)

            for t in f:
                walk(t, None)
            out.append(ops)
    # distinct forests can be produced by several (shape, perm) pairs when roots are permuted: dedupe
    seen, res = set(), []
    for ops in out:
        key = tuple((o["n"], o["v"]) for o in ops)
        canon = tuple(sorted(key)) + (tuple(o["n"] for o in ops),)
        if canon not in seen:
            seen.add(canon)
            res.append(ops)
    return res


def all_calls(k, maxlen, nonnode=True):
    """every structural call over nodes 0..k-1 (children sequences up to maxlen)"""
    calls = []
    targets = [None] + list(range(k)) + (["x", "y"] if nonnode else [])      # "y": a falsy non-node object
    for n in range(k):
        for v in targets:
            calls.append({"op": "sp", "n": n, "v": v})
        calls.append({"op": "dc", "n": n})
        calls.append({"op": "sc", "n": n, "xs": None})
        elems = list(range(k)) + (["x"] if nonnode else [])
        for L in range(maxlen + 1):
            for xs in itertools.product(elems, repeat=L):
                # the right-hand side may be any iterable: list, tuple, iterator, generator
                calls.append({"op": "sc", "n": n, "xs": list(xs), "as": ["list", "tuple", "iter", "gen"][len(calls) % 4]})
    for p in targets:
        calls.append({"op": "ctor", "p": p, "cs": None})
        calls.append({"op": "ctor", "p": p, "cs": []})
        calls.append({"op": "ctor", "p": p, "cs": "x"})
        for L in (1, 2):
            for xs in itertools.product(list(range(k)), repeat=L):
                calls.append({"op": "ctor", "p": p, "cs": list(xs), "as": ["list", "tuple", "iter", "gen"][len(calls) % 4]})
    return calls


def has_nonnode(call):
    """does the call pass a non-node object ("x", or the falsy "y") anywhere?"""
    vals = [call.get("v"), call.get("p")]
    for key in ("xs", "cs"):
        v = call.get(key)
        if isinstance(v, list):
            vals.extend(v)
    return any(v in ("x", "y") for v in vals)


def random_call(rng, k, nonnode=True):
    r = rng.random()
    nodes = list(range(k))

    def tgt():
        x = rng.random()
        if x < 0.12:
            return None
        if nonnode and x < 0.17:
            return "x" if x < 0.15 else "y"
        return rng.choice(nodes)

    if r < 0.45:
        return {"op": "sp", "n": rng.choice(nodes), "v": tgt()}
    if r < 0.75:
        if rng.random() < 0.04:
            return {"op": "sc", "n": rng.choice(nodes), "xs": None}
        L = rng.choice([0, 1, 1, 2, 2, 3, 4])
        xs = [rng.choice(nodes) for _ in range(L)]
        if rng.random() < 0.6:
            xs = list(dict.fromkeys(xs))
        if nonnode and rng.random() < 0.05:
            xs.insert(rng.randrange(len(xs) + 1), "x")
        return {"op": "sc", "n": rng.choice(nodes), "xs": xs, "as": rng.choice(["list", "list", "tuple", "iter", "gen"])}
    if r < 0.85:
        return {"op": "dc", "n": rng.choice(nodes)}
    cs = rng.choice([None, None, [], "x" if rng.random() < 0.2 else None,
                     [rng.choice(nodes)], [rng.choice(nodes), rng.choice(nodes)]])
    return {"op": "ctor", "p": tgt(), "cs": cs, "as": rng.choice(["list", "list", "tuple", "iter", "gen"])}


def random_history(rng, k, length, nonnode=True):
    ops = []
    n = k
    for _ in range(length):
        op = random_call(rng, n, nonnode)
        ops.append(op)
        if op["op"] == "ctor":
            n += 1
    return ops


def reentrant_histories(rng, tier):
    """hooks that are not mere observers: at one invocation the hook detaches ANOTHER node (a sibling under the old or
    the new parent, a child about to be detached anyway, an unrelated node) - `x.parent = None` from inside the hook.
    Outside what the mirror's hooks can do (they observe or raise); for the final forest such a call equals the nested
    call followed by the outer one, which is what the driver is asked to run (`pre_ops`). Only calls that succeed and
    fire hooks; the nested call never touches the node(s) the outer call is moving. Yields (n0, ops)."""
    import core
    bases = []
    for _ in range(150 if tier == "quick" else 2000):
        n0 = rng.randrange(4, 8)
        def call():
            while True:
                o = random_call(rng, n0, False)
                if o["op"] != "ctor":
                    return o
        hist = [call() for _ in range(rng.randrange(2, 8))]
        final = call()
        bases.append((n0, hist, final))
    res = core.run_driver([dict(mk("nm", False, n0, hist + [final], cls="mixin"), loglevel=1) for n0, hist, final in bases])
    for (n0, hist, final), r in zip(bases, res):
        mir = r["mirror"]
        last = mir[-1]
        if last["res"] != "ok" or not last["log"]:
            continue
        pre = mir[-2]["snap"] if len(mir) >= 2 else [[None, []] for _ in range(n0)]
        k = final["op"]
        moving = {final["n"]} | (set(final["xs"]) if k == "sc" else set())
        cands = [y for y in range(n0) if pre[y][0] is not None and y not in moving]
        if not cands:
            continue
        for _ in range(2):
            y = rng.choice(cands)
            idx = [i for i, e in enumerate(last["log"]) if e[1] != y]
            if not idx:
                continue
            i = rng.choice(idx)
            yield n0, hist + [dict(final, faults={"reenter": {"at": i, "y": y}}, pre_ops=[{"op": "sp", "n": y, "v": None}])]


def pinned_cases(rng, tier):
    """a class that overrides the public `parent` attribute and refuses to move a pinned node. The pinned node is the
    FIRST child of the node the final call works on, so that the refusal comes before anything has changed: the call must
    raise TreeError and leave the forest as it was (model-free oracle). Yields (n0, ops, pinned, pin_after)."""
    import core
    bases = []
    for _ in range(60 if tier == "quick" else 600):
        n0 = rng.randrange(4, 8)

        def call():
            while True:
                o = random_call(rng, n0, False)
                if o["op"] != "ctor":
                    return o
        hist = [call() for _ in range(rng.randrange(2, 8))]
        bases.append((n0, hist))
    res = core.run_driver([dict(mk("nm", False, n0, hist, cls="mixin"), loglevel=0) for n0, hist in bases])
    for (n0, hist), r in zip(bases, res):
        snap = r["mirror"][-1]["snap"]
        parents = [p for p in range(n0) if snap[p][1]]
        if not parents:
            continue
        p = rng.choice(parents)
        pin = snap[p][1][0]
        others = [x for x in range(n0) if x != p and x not in snap[p][1]]
        finals = [{"op": "dc", "n": p}, {"op": "sc", "n": p, "xs": [], "as": "list"}]
        if others:
            finals.append({"op": "sc", "n": p, "xs": rng.sample(others, min(len(others), rng.choice([1, 2]))), "as": "list"})
        anc = snap[p][0]
        if anc is not None:
            finals.append({"op": "sc", "n": p, "xs": [anc], "as": "list"})       # would be a LoopError after the delete phase
        for f in finals:
            yield n0, hist + [f], [pin], len(hist)


def is_reentrant(case):
    return any("reenter" in (o.get("faults") or {}) for o in case.get("ops", []))


def wide_histories(rng, tier, faults=True, pre_only=False):
    """scale: a node with W children (W straddling the usual cut-offs), then one call on it - deletion, replacement,
    extension, reversal, a single child moved or detached - optionally with a hook raising ONCE at an early, a middle
    or a late invocation, or at the first invocation of one kind for one particular child (the position is read off
    the mirror's log of the unfaulted call). Yields (n0, ops)."""
    import core
    widths = [33, rng.choice([17, 40, 65])] if tier == "quick" else [17, 33, 40, 65, 130]
    bases = []
    for w in widths:
        n0 = w + 4
        kids = list(range(1, w + 1))
        build = [{"op": "sc", "n": 0, "xs": kids, "as": "list"}, {"op": "sp", "n": w + 2, "v": w + 1}]
        finals = [{"op": "dc", "n": 0},
                  {"op": "sc", "n": 0, "xs": [w + 1], "as": "list"},
                  {"op": "sc", "n": 0, "xs": kids + [w + 1], "as": "tuple"},
                  {"op": "sc", "n": 0, "xs": list(reversed(kids)), "as": "list"},
                  {"op": "sc", "n": 0, "xs": kids[: w // 2] + [w + 3], "as": "list"},
                  {"op": "sc", "n": w + 1, "xs": kids[5:], "as": "list"},
                  {"op": "sp", "n": kids[-1], "v": None},
                  {"op": "sp", "n": kids[w // 2], "v": w + 1},
                  {"op": "sp", "n": kids[0], "v": kids[-1]},
                  {"op": "sc", "n": w + 1, "xs": [kids[3], w + 3] + kids[10:] + ["x"], "as": "list"},
                  {"op": "sc", "n": 0, "xs": [w + 2] + kids + [kids[4]], "as": "list"},
                  {"op": "sc", "n": w + 1, "xs": kids[2:] + [w + 1], "as": "list"}]
        for f in finals:
            bases.append((n0, build, f, kids))
    logs = [None] * len(bases)
    if faults:
        res = core.run_driver([dict(mk("nm", False, n0, build + [f], cls="mixin"), loglevel=1) for n0, build, f, _ in bases])
        logs = [r["mirror"][-1]["log"] for r in res]
    for (n0, build, f, kids), log in zip(bases, logs):
        yield n0, build + [dict(f)]
        if not log:
            continue
        w = len(kids)
        idx = [i for i, e in enumerate(log) if (not pre_only or e[0].startswith("pre_"))]
        if not idx:
            continue
        picks = set()
        for _ in range(3 if tier == "quick" else 6):
            if rng.random() < 0.5:
                picks.add(rng.choice([idx[0], idx[min(1, len(idx) - 1)], idx[min(2, len(idx) - 1)], idx[len(idx) // 2],
                                      idx[-1], idx[max(len(idx) - 2, 0)], rng.choice(idx)]))
            else:
                node = rng.choice([kids[0], kids[1], kids[w // 2], kids[-1], w + 1, 0])
                cand = [i for i in idx if log[i][1] == node]
                if cand:
                    picks.add(rng.choice([cand[0], cand[-1], rng.choice(cand)]))
        for i in sorted(picks):
            yield n0, build + [dict(f, faults={"at": [i]})]


LIGHT_CLASSES = ["light", "lighteq", "lightfalsy", "lightshadow"]


def mk(fl, asrt, n0, ops, cls=None, mixed=None):
    c = {"fam": "forest", "fl": fl, "asrt": asrt, "n0": n0, "ops": ops}
    if fl == "light" and not cls and not mixed:
        # the LightNodeMixin flavour, too, comes as a plain class and as one with value equality (all nodes equal);
        # the choice is a function of the history, so that a case is reproducible from its JSON alone
        cls = LIGHT_CLASSES[{0: 1, 1: 1, 2: 2, 3: 3}.get((len(repr(ops)) + n0) % 7, 0)]
    if cls:
        c["cls"] = cls
    if mixed:
        c["mixed"] = mixed
    return c


def fault_variants(op, nevents, persistent=True):
    """every single fault position of a call with `nevents` hook invocations (+ persistent classes)"""
    out = []
    for i in range(nevents):
        o = dict(op)
        o["faults"] = {"at": [i]}
        out.append(o)
    if persistent and nevents:
        for kinds in (PRE_KINDS, ["pre_attach"], ["pre_detach"], ["pre_attach_children"], ["pre_detach_children"],
                      ["post_attach_children"], POST_KINDS):
            o = dict(op)
            o["faults"] = {"kinds": kinds}
            out.append(o)
    return out


# ----------------------------------------------------------------------------------------------
# model-free oracles on implementation snapshots

def py_inv(snap):
    """C01 on a snapshot [[parent, [children]], ...] (node = index)"""
    n = len(snap)
    for c, (p, _cs) in enumerate(snap):
        if p is not None and not (0 <= p < n):
            return False
    for p, (_pp, cs) in enumerate(snap):
        if len(set(cs)) != len(cs):
            return False                       # listed twice
        for c in cs:
            if not (0 <= c < n) or snap[c][0] != p:
                return False                   # child does not point back
    for c, (p, _cs) in enumerate(snap):
        if p is not None and c not in snap[p][1]:
            return False                       # parent does not list the child
    for x in range(n):                         # following parent terminates
        y, steps = x, 0
        while y is not None:
            y = snap[y][0]
            steps += 1
            if steps > n:
                return False
    return True


def detach_in(snap, x):
    s = [[p, list(cs)] for p, cs in snap]
    p = s[x][0]
    if p is not None:
        s[p][1] = [c for c in s[p][1] if c != x]
        s[x][0] = None
    return s


def fault_hits(rule, log):
    if not rule:
        return []
    hits = []
    for i, e in enumerate(log):
        if i in rule.get("at", ()) or (e[0] in rule.get("kinds", ()) and
                                       (rule.get("nodes") is None or e[1] in rule["nodes"])):
            hits.append(i)
    return hits


def finding_class(pre_snap, op, res):
    """Which listed C03 finding class (K1..K4) a raising call falls into, by call, pre-state and the
    position of the raising hook (from the implementation's own log); None if none applies."""
    log = res["log"]
    hits = fault_hits(op.get("faults"), log)
    kinds = [e[0] for e in log]
    k = op["op"]
    if k == "ctor":
        # parent phase of a constructor: the new node has no parent -> no K1; children phase like `sc`
        k = "sc" if isinstance(op.get("cs"), list) and op["cs"] else "sp"
        n = len(pre_snap)
        pre_snap = pre_snap + [[None, []]]
    else:
        n = op["n"]
    in_attach_phase = None
    restore_start = None
    if k == "sc":
        if "pre_attach_children" in kinds:
            in_attach_phase = kinds.index("pre_attach_children")
        # the restore (`self.children = old_children`) re-enters the setter: its deleter fires a second
        # _pre_detach_children on n
        pdc = [i for i, e in enumerate(log) if e[0] == "pre_detach_children" and e[1] == n]
        if len(pdc) >= 2:
            restore_start = pdc[1]
    if res["res"] == "RecursionError":
        return "K4"
    if restore_start is not None and any(h >= restore_start for h in hits):
        return "K4"
    if k == "sp":
        if hits and log[hits[0]][0] == "pre_attach" and pre_snap[n][0] is not None and isinstance(op.get("v"), int):
            return "K1"
        return None
    if k in ("dc", "sc"):
        if hits and log[hits[0]][0] == "pre_detach" and (in_attach_phase is None or hits[0] < in_attach_phase):
            old = pre_snap[n][1]
            if old and log[hits[0]][1] != old[0]:
                return "K2"
            return None
    if k == "sc" and in_attach_phase is not None:
        end = restore_start if restore_start is not None else len(log)
        for e in log[in_attach_phase:end]:
            if e[0] == "post_detach" and e[2] != [n]:
                return "K3"
    return None
