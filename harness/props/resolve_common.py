import gen

NAME_POOL = ["a", "b", "ab", "A", "a.b", "a*", "x?", "[a]", "a+b", "(c)", "c\\d", "$e", "^f", "g|h", "i j", "é", "n\nl", "Ab", "aB", "None", ";", "/",
             "0", "1", "0.0", "False", "True"]       # also stored as the non-string objects that print like this
ASCII_POOL = [n for n in NAME_POOL if all(ord(ch) < 128 for ch in n)]


def names_for(rng, t, sep, unique, ic, allow_dups):
    labs = gen.tree_labels(t)
    pool = [n for n in (ASCII_POOL if ic else NAME_POOL) if sep not in n]
    names = {}

    def walk(node):
        used = set()
        for c in node[1]:
            for _ in range(50):
                nm = rng.choice(pool)
                key = nm.upper() if ic else nm
                if not unique or key not in used:
                    break
            used.add(key)
            names[c[0]] = nm
            walk(c)

    names[t[0]] = rng.choice(pool)
    walk(t)
    return [[l, names[l]] for l in labs]


TYPED_NAMES = ("0", "1", "0.0", "False", "True", "None")


def typed_labels(rng, names):
    """labels whose name is stored as the non-string object printing as that name (0, 0.0, False, None, ...)"""
    return [l for l, v in names if v in TYPED_NAMES and rng.random() < 0.6]


def big_names(rng, t):
    """sibling-unique plain names for a large tree: a short stem plus the label (so that prefixes of one another occur)"""
    stems = ["n", "k", "item", "x"]
    return [[l, "%s%d" % (rng.choice(stems), l)] for l in gen.tree_labels(t)]


def abs_path(t, names, sep, label):
    nm = dict((k, v) for k, v in names)

    def find(node, acc):
        acc = acc + [nm[node[0]]]
        if node[0] == label:
            return acc
        for c in node[1]:
            r = find(c, acc)
            if r:
                return r
        return None

    return sep + sep.join(find(t, []))


def path_labels(t, label):
    def find(node, acc):
        acc = acc + [node[0]]
        if node[0] == label:
            return acc
        for c in node[1]:
            r = find(c, acc)
            if r:
                return r
        return None
    return find(t, [])


def rel_path(t, names, sep, m, n):
    """the relative path spelled from Walker.walk(m, n): one '..' per upward step, then names downward"""
    nm = dict((k, v) for k, v in names)
    pm, pn = path_labels(t, m), path_labels(t, n)
    k = 0
    while k < min(len(pm), len(pn)) and pm[k] == pn[k]:
        k += 1
    parts = [".."] * (len(pm) - k) + [nm[l] for l in pn[k:]]
    return sep.join(parts)


def names_ok(names, sep):
    return all(v not in ("", ".", "..", "**") and sep not in v and "*" not in v and "?" not in v for _, v in names)


def _recase(rng, nm):
    """the same name in another spelling of its ASCII letters (what `ignorecase` is about)"""
    if not all(ord(ch) < 128 for ch in nm):
        return nm
    return rng.choice([nm.swapcase(), nm.upper(), nm.lower(), nm.capitalize()])


def random_component(rng, pool, wild):
    r = rng.random()
    if r < 0.45:
        nm = rng.choice(pool)
        return _recase(rng, nm) if rng.random() < 0.3 else nm
    if r < 0.55:
        return ".."
    if r < 0.62:
        return rng.choice([".", ""])
    if r < 0.68:
        return "zz"
    if not wild:
        return rng.choice(pool)
    if r < 0.8:
        return rng.choice(["*", "?", "a*", "*b", "?b", "a?", "*.*", "**"])
    if r < 0.9:
        return "**"
    nm = rng.choice(pool)
    i = rng.randrange(len(nm) + 1)
    return nm[:i] + rng.choice(["*", "?"]) + nm[i + 1:]


def random_path(rng, names, sep, wild, maxlen):
    pool = [v for _, v in names]
    n = rng.randrange(0, maxlen + 1)
    parts = [random_component(rng, pool, wild) for _ in range(n)]
    p = sep.join(parts)
    r = rng.random()
    if r < 0.25:
        root = names[0][1]
        # also root components that only *wildcard*-match the root name: `get` must treat them literally
        lead = rng.choice([root, root, root.upper(), "zz", "", "*", "?" * len(root), root[:-1] + "?", root + "*",
                           "*" + root[1:]])
        p = sep + lead + (sep + p if parts else "")
    elif r < 0.3:
        p = p + sep
    return p
