import gen

NAME_POOL = ["a", "b", "ab", "A", "a.b", "a*", "x?", "[a]", "a+b", "(c)", "c\\d", "$e", "^f", "g|h", "i j", "é", "n\nl", "Ab", "aB", "None", ";", "/",
             "0", "1", "0.0", "False", "True"]       # also stored as the non-string objects that print like this
ASCII_POOL = [n for n in NAME_POOL if all(ord(ch) < 128 for ch in n)]

# The non-ASCII letters of the model's alphabet (lean/Anytree/Model/Str.lean, `caseTable`): character -> (str.upper(), representative
# under re.IGNORECASE).  The three *signs* (KELVIN, ANGSTROM, OHM) are their own upper case but fold to k / å / ω under re.IGNORECASE:
# there `get` (str.upper) and `glob` (re.IGNORECASE) compare differently.  The `casetable` case of C08 checks the table against the
# running interpreter through the library (every character against every character).
CASE_TABLE = {
    "\u212a": ("\u212a", "k"), "\u017f": ("S", "s"), "\u0131": ("I", "i"),
    "\u00b5": ("\u039c", "\u03bc"), "\u03bc": ("\u039c", "\u03bc"), "\u039c": ("\u039c", "\u03bc"),
    "\u212b": ("\u212b", "\u00e5"), "\u00e5": ("\u00c5", "\u00e5"), "\u00c5": ("\u00c5", "\u00e5"),
    "\u00e9": ("\u00c9", "\u00e9"), "\u00c9": ("\u00c9", "\u00e9"),
    "\u2126": ("\u2126", "\u03c9"), "\u03c9": ("\u03a9", "\u03c9"), "\u03a9": ("\u03a9", "\u03c9"),
    "\u1e9e": ("\u1e9e", "\u00df"),
}
# the two letters of the alphabet whose upper case is two characters long (`Str.multiUpper`); under re.IGNORECASE they fold to themselves
MULTI_UPPER = {"\u00df": "SS", "\ufb01": "FI"}
SIGNS = "\u212a\u212b\u2126" + "\u00df\u1e9e\ufb01"      # where str.upper() and re.IGNORECASE part (CaseFold: not in the regular alphabet)
# names for ignorecase runs: ASCII names, their relatives over the table, and names differing only by such letters
IC_POOL = ASCII_POOL + ["k", "K", "\u212a", "s", "S", "\u017f", "i", "I", "\u0131", "\u00b5", "\u03bc", "\u039c", "\u212b", "\u00e5", "\u00c5",
                        "\u00e9", "\u00c9", "\u2126", "\u03c9", "\u03a9", "ok", "O\u212a", "OK", "a\u017f", "as", "AS", "\u00b5m", "\u03bcm",
                        "\u212bb", "\u00e5b", "\u2126.", "\u03c9.",
                        "\u00df", "ss", "SS", "\u1e9e", "stra\u00dfe", "strasse", "STRASSE", "\ufb01", "fi", "FI", "\ufb01le", "file"]


def in_alphabet(s):
    return all(ord(ch) < 128 or ch in CASE_TABLE or ch in MULTI_UPPER for ch in s)


def re_key(s):
    """representative of s under re.IGNORECASE, character by character (the model's `reKey`)"""
    return "".join(ch.lower() if ord(ch) < 128 else CASE_TABLE.get(ch, (ch, ch))[1] for ch in s)


def regular(s):
    """no KELVIN/ANGSTROM/OHM sign, no sharp s, no fi ligature: str.upper() and re.IGNORECASE agree on such strings
    (CaseFold.caseRegular_regularAlphabet)"""
    return in_alphabet(s) and not any(ch in SIGNS for ch in s)


def _classmates(ch):
    out = {ch, ch.upper() if len(ch.upper()) == 1 else ch, ch.lower() if len(ch.lower()) == 1 else ch}
    k = re_key(ch)
    out |= {x for x in CASE_TABLE if CASE_TABLE[x][1] == k or CASE_TABLE[x][0] == ch.upper()}
    out |= {x for x in (k, k.upper()) if len(x) == 1}
    return sorted(out)


def names_for(rng, t, sep, unique, ic, allow_dups, key="upper"):
    """`key`: the comparison under which `unique` names differ when `ic` - "upper" (what get compares) or "re" (what glob matches)"""
    labs = gen.tree_labels(t)
    pool = [n for n in ((IC_POOL if rng.random() < 0.6 else ASCII_POOL) if ic else NAME_POOL) if sep not in n]
    names = {}
    fold = (lambda x: x.upper()) if key == "upper" else re_key

    def walk(node):
        used = set()
        for c in node[1]:
            for _ in range(50):
                nm = rng.choice(pool)
                key = fold(nm) if ic else nm
                if not unique or key not in used:
                    break
            used.add(key)
            names[c[0]] = nm
            walk(c)

    names[t[0]] = rng.choice(pool)
    walk(t)
    return [[l, names[l]] for l in labs]


TYPED_NAMES = ("0", "1", "0.0", "False", "True", "None")


def typed_labels(rng, names):
    """labels whose name is stored as the non-string object printing as that name (0, 0.0, False, None, ...)"""
    return [l for l, v in names if v in TYPED_NAMES and rng.random() < 0.6]


def big_names(rng, t):
    """sibling-unique plain names for a large tree: a short stem plus the label (so that prefixes of one another occur)"""
    stems = ["n", "k", "item", "x"]
    return [[l, "%s%d" % (rng.choice(stems), l)] for l in gen.tree_labels(t)]


def abs_path(t, names, sep, label):
    nm = dict((k, v) for k, v in names)

    def find(node, acc):
        acc = acc + [nm[node[0]]]
        if node[0] == label:
            return acc
        for c in node[1]:
            r = find(c, acc)
            if r:
                return r
        return None

    return sep + sep.join(find(t, []))


def path_labels(t, label):
    def find(node, acc):
        acc = acc + [node[0]]
        if node[0] == label:
            return acc
        for c in node[1]:
            r = find(c, acc)
            if r:
                return r
        return None
    return find(t, [])


def rel_path(t, names, sep, m, n):
    """the relative path spelled from Walker.walk(m, n): one '..' per upward step, then names downward"""
    nm = dict((k, v) for k, v in names)
    pm, pn = path_labels(t, m), path_labels(t, n)
    k = 0
    while k < min(len(pm), len(pn)) and pm[k] == pn[k]:
        k += 1
    parts = [".."] * (len(pm) - k) + [nm[l] for l in pn[k:]]
    return sep.join(parts)


def sibling_unique(t, names, ic, key="upper"):
    """are sibling names pairwise different (under str.upper() or the model's re.IGNORECASE key when `ic`)?"""
    nm = {k: v for k, v in names}
    fold = (lambda x: x.upper()) if key == "upper" else re_key

    def ok(node):
        seen = set()
        for c in node[1]:
            n = nm.get(c[0], "None")
            n = fold(n) if ic else n
            if n in seen:
                return False
            seen.add(n)
        return all(ok(c) for c in node[1])
    return ok(t)


def names_ok(names, sep):
    return all(v not in ("", ".", "..", "**") and sep not in v and "*" not in v and "?" not in v for _, v in names)


def _recase(rng, nm):
    """the same name in another spelling of its letters (what `ignorecase` is about): ASCII case changes, and for the letters of the
    table another member of the character's class under str.upper() or re.IGNORECASE (k / K / KELVIN SIGN ...)"""
    if not in_alphabet(nm):
        return nm
    if rng.random() < 0.3:
        # spellings that are equal under str.upper() only: sharp s / ss, fi ligature / fi
        for a, b in (("\u00df", "ss"), ("ss", "\u00df"), ("\u00df", "SS"), ("SS", "\u00df"), ("\ufb01", "fi"), ("fi", "\ufb01"), ("FI", "\ufb01")):
            if a in nm and rng.random() < 0.5:
                return nm.replace(a, b)
    if all(ord(ch) < 128 for ch in nm) and rng.random() < 0.7:
        return rng.choice([nm.swapcase(), nm.upper(), nm.lower(), nm.capitalize()])
    return "".join(rng.choice(_classmates(ch)) if ch.isalpha() and rng.random() < 0.7 else ch for ch in nm)


def random_component(rng, pool, wild):
    r = rng.random()
    if r < 0.45:
        nm = rng.choice(pool)
        return _recase(rng, nm) if rng.random() < 0.3 else nm
    if r < 0.55:
        return ".."
    if r < 0.62:
        return rng.choice([".", ""])
    if r < 0.68:
        return "zz"
    if not wild:
        return rng.choice(pool)
    if r < 0.8:
        return rng.choice(["*", "?", "a*", "*b", "?b", "a?", "*.*", "**"])
    if r < 0.9:
        return "**"
    nm = rng.choice(pool)
    i = rng.randrange(len(nm) + 1)
    return nm[:i] + rng.choice(["*", "?"]) + nm[i + 1:]


def random_path(rng, names, sep, wild, maxlen):
    pool = [v for _, v in names]
    n = rng.randrange(0, maxlen + 1)
    parts = [random_component(rng, pool, wild) for _ in range(n)]
    p = sep.join(parts)
    r = rng.random()
    if r < 0.25:
        root = names[0][1]
        # also root components that only *wildcard*-match the root name: `get` must treat them literally
        lead = rng.choice([root, root, root.upper(), "zz", "", "*", "?" * len(root), root[:-1] + "?", root + "*",
                           "*" + root[1:]])
        p = sep + lead + (sep + p if parts else "")
    elif r < 0.3:
        p = p + sep
    return p


def casetable_case():
    """every character of the alphabet against every character, through the library: a flat tree whose children are named by the single
    characters; relaxed `glob(root, x, ignorecase)` returns the children matching x under re.IGNORECASE, `get` the first child equal
    under str.upper()."""
    chars = list("kKsSiIfFaAzZ09_") + sorted(CASE_TABLE) + sorted(MULTI_UPPER) + ["ss", "SS", "sS", "fi", "FI", "Fi", "s\u017f"]
    t = [0, [[i + 1, []] for i in range(len(chars))]]
    names = [[0, "root"]] + [[i + 1, ch] for i, ch in enumerate(chars)]
    qs = []
    for ch in chars:
        for ic in (True, False):
            qs.append({"fn": "glob", "start": 0, "path": ch, "ignorecase": ic, "relax": False})
            qs.append({"fn": "glob", "start": 0, "path": ch, "ignorecase": ic, "relax": True})
            qs.append({"fn": "get", "start": 0, "path": ch, "ignorecase": ic, "relax": True})
    # a literal component followed by a wildcard that matches nothing: no dead end as long as the literal matches some child under
    # re.IGNORECASE - whatever str.upper() says about the two spellings
    for ch in chars:
        for ic in (True, False):
            qs.append({"fn": "glob", "start": 0, "path": ch + "/zz*", "ignorecase": ic, "relax": False})
            qs.append({"fn": "glob", "start": 0, "path": ch + "/zz*", "ignorecase": ic, "relax": True})
    return {"fam": "resolve", "tree": t, "names": names, "sep": "/", "queries": qs, "unique": False, "typed": [], "cls": None,
            "casetable": True}


# ---- model-free cases over all of Unicode (families/f_unires.py) ----
UNI_POOL = ["stra\u00dfe", "strasse", "STRASSE", "Stra\u00dfe", "\u00df", "ss", "SS", "\u1e9e", "\ufb01le", "file", "FILE", "fi", "\ufb01",
            "\u0395\u039b\u039b\u0391\u03a3", "\u03b5\u03bb\u03bb\u03b1\u03c2", "\u03b5\u03bb\u03bb\u03b1\u03c3", "\u0391\u03a3", "a\u03a3", "a\u03c3", "a\u03c2",
            "\u03a3", "\u03c3", "\u03c2", "\u0130", "i", "I", "\u0131", "i\u0307", "K", "k", "\u212a", "\u212b", "\u00e5", "\u00c5", "\u2126", "\u03c9", "\u03a9",
            "\u00b5", "\u03bc", "\u01c5", "\u01c6", "\u01c4", "\u0149", "\u02bcN", "\u00e9", "\u00c9", "e\u0301", "\u01f0", "\u0390", "\u0587",
            "\u039d\u0391\u039e\u039f\u03a3", "\u03a0\u0391\u03a1\u039f\u03a3", "ab", "Ab", "x1", "\u4e2d", "\U0001d400", "\u10d0", "\u1c90"]
UNI_SEPS = ["/", "/", ";", "::", ":", "'", "\u00b7", "^", "-", "|"]


def _folds(nm):
    return (nm, nm.upper(), nm.lower(), nm.casefold())


def uni_names(rng, t, sep, unique):
    """names over UNI_POOL; `unique`: siblings pairwise different case-sensitively and under upper(), lower() and casefold()"""
    pool = [n for n in UNI_POOL if sep not in n and not any(ch in n for ch in sep)]
    names = {t[0]: rng.choice(pool)}

    def walk(node):
        used = [set(), set(), set(), set()]
        for c in node[1]:
            for _ in range(80):
                nm = rng.choice(pool)
                f = _folds(nm)
                if not unique or not any(f[i] in used[i] for i in range(4)):
                    break
            else:
                nm = "u%d" % c[0]
                f = _folds(nm)
            for i in range(4):
                used[i].add(f[i])
            names[c[0]] = nm
            walk(c)
    walk(t)
    return [[l, names[l]] for l in gen.tree_labels(t)]


def unires_roundtrip(rng, t):
    sep = rng.choice(UNI_SEPS)
    names = uni_names(rng, t, sep, True)
    labs = gen.tree_labels(t)
    qs = []
    pairs = [(m, n) for m in labs for n in labs]
    rng.shuffle(pairs)
    for m, n in pairs[:24]:
        for ic in (True, False):
            relax = rng.random() < 0.5
            qs.append({"start": m, "path": abs_path(t, names, sep, n), "ignorecase": ic, "relax": relax, "expect": n})
            qs.append({"start": m, "path": rel_path(t, names, sep, m, n), "ignorecase": ic, "relax": relax, "expect": n})
    return {"fam": "unires", "what": "roundtrip", "tree": t, "names": names, "sep": sep, "queries": qs}


def unires_history(rng, t):
    sep = rng.choice(["/", "/", ";", "::"])
    unique = rng.random() < 0.5
    names = uni_names(rng, t, sep, unique)
    labs = gen.tree_labels(t)
    pool = [v for _, v in names] + [n for n in UNI_POOL if sep not in n]
    qs = []
    for _ in range(rng.randrange(4, 10)):
        parts = []
        for _ in range(rng.randrange(1, 4)):
            r = rng.random()
            nm = rng.choice(pool)
            if r < 0.55:
                parts.append(rng.choice([nm, nm, nm.upper(), nm.lower(), nm.swapcase(), nm.casefold()]))
            elif r < 0.7:
                parts.append(rng.choice(["*", "**", "?", "??"]))
            elif r < 0.85:
                i = rng.randrange(len(nm) + 1)
                parts.append(nm[:i] + rng.choice(["*", "?"]) + nm[i + 1:])
            else:
                parts.append(rng.choice(["..", ".", ""]))
        parts = [p for p in parts if sep not in p] or ["*"]
        p = sep.join(parts)
        if rng.random() < 0.2:
            p = sep + names[0][1] + sep + p
        start = rng.choice(labs)
        ic = rng.random() < 0.75
        qs.append({"start": start, "path": p, "ignorecase": ic, "relax": False})
        qs.append({"start": start, "path": p, "ignorecase": ic, "relax": True})
    return {"fam": "unires", "what": "history", "tree": t, "names": names, "sep": sep, "queries": qs, "unique": False}


def casetable_sparse_case():
    """the irregular letters alone: children named by the KELVIN, ANGSTROM and OHM signs, sharp s and the fi ligature, queried by the
    spellings that are equal to them under only one of the two foldings - where a dead-end test made with the wrong folding shows"""
    chars = ["\u212a", "\u212b", "\u2126", "\u00df", "\ufb01", "x"]
    t = [0, [[i + 1, []] for i in range(len(chars))]]
    names = [[0, "root"]] + [[i + 1, ch] for i, ch in enumerate(chars)]
    qs = []
    for q in ["k", "K", "\u00e5", "\u00c5", "\u03c9", "\u03a9", "\u1e9e", "ss", "SS", "fi", "FI", "\u212a", "\u00df", "X", "y"]:
        for ic in (True, False):
            for p in (q, q + "/zz*", "*/../" + q, q + "/.."):
                qs.append({"fn": "glob", "start": 0, "path": p, "ignorecase": ic, "relax": False})
                qs.append({"fn": "glob", "start": 0, "path": p, "ignorecase": ic, "relax": True})
            qs.append({"fn": "glob", "start": 0, "path": q, "ignorecase": ic, "relax": False})
            qs.append({"fn": "glob", "start": 0, "path": q, "ignorecase": ic, "relax": True})
            qs.append({"fn": "get", "start": 0, "path": q, "ignorecase": ic, "relax": False, "pair": True})
    return {"fam": "resolve", "tree": t, "names": names, "sep": "/", "queries": qs, "unique": True, "typed": [], "cls": None,
            "casetable": True}
