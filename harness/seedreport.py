#!/usr/bin/env python
"""Prints the markdown table of DESIGN.md section 7 from seeded/*/meta.json."""
import glob
import json
import os

VERIF = os.path.dirname(os.path.dirname(os.path.abspath(__file__)))
rows = []
for f in sorted(glob.glob(os.path.join(VERIF, "seeded", "S*", "meta.json"))):
    m = json.load(open(f))
    own = m.get("breaks")
    caught = m.get("caught_by", [])
    fi = m.get("caught_with_failing_input", [])
    others = [c for c in caught if c != own]
    rows.append("| %s | %s | %s | %s | %s | %s |" % (
        m["seed"], own, m.get("needs", ""),
        "yes (replay)" if own in fi else ("broken tie only" if own in caught else "**no**"),
        ", ".join("%s%s" % (c, "" if c in fi else "°") for c in others) or "–",
        "valid" if m.get("valid") else "INVALID"))
print("| seed | breaks | needs, to manifest | caught by its own check | also reported by (° = `no-failing-input-found`) | suite/demo |")
print("|------|--------|--------------------|-------------------------|-----------------------------------------------|------------|")
print("\n".join(rows))
h = []
for f in sorted(glob.glob(os.path.join(VERIF, "seeded", "harmless", "*", "meta.json"))):
    m = json.load(open(f))
    h.append("| %s | %s | %s | %s |" % (m["id"], m["description"], m["suite"].split(" in ")[0], "none" if not m["alarms"] else json.dumps(m["alarms"])))
print()
print("| harmless rewrite | what | suite | alarms |")
print("|------------------|------|-------|--------|")
print("\n".join(h))
