#!/usr/bin/env python
"""seedtest.py <seed-id> <dir-with-patch.diff-and-demo.py> [--props C01,C02,…] [--tier quick]

Validates a seeded defect and runs the checks against it, all in a scratch worktree of /repo
(outside /repo and /verif, removed afterwards):
  1. patch applies to /repo's HEAD; the baseline suite still passes (160 passed, the 3 graphviz tests fail);
  2. demo.py fails with the patch and passes without it;
  3. every requested check (default: all) is run with --repo <scratch>; its verdict is recorded.
Writes /verif/seeded/<seed-id>/{patch.diff,demo.py,meta.json}.
"""
import argparse
import json
import os
import shutil
import subprocess
import sys

HERE = os.path.dirname(os.path.abspath(__file__))
VERIF = os.path.dirname(HERE)
PY = "/venv/bin/python"


def sh(cmd, cwd=None, timeout=1800):
    p = subprocess.run(cmd, cwd=cwd, stdout=subprocess.PIPE, stderr=subprocess.STDOUT, text=True, timeout=timeout)
    return p.returncode, p.stdout


def suite(d):
    rc, out = sh([PY, "-m", "pytest", "-q", "-p", "no:cacheprovider"], cwd=d)
    last = out.strip().splitlines()[-1] if out.strip() else ""
    failed = sorted(l.split()[1] for l in out.splitlines() if l.startswith("FAILED"))
    return last, failed


def main():
    ap = argparse.ArgumentParser()
    ap.add_argument("seed")
    ap.add_argument("dir")
    ap.add_argument("--props")
    ap.add_argument("--tier", default="quick")
    ap.add_argument("--breaks", help="property the seed is meant to break")
    ap.add_argument("--needs", default="")
    args = ap.parse_args()
    scratch = "/tmp/sv_%s" % args.seed
    sh(["git", "-C", "/repo", "worktree", "remove", "--force", scratch])
    shutil.rmtree(scratch, ignore_errors=True)
    rc, out = sh(["git", "-C", "/repo", "worktree", "add", "-q", scratch, "HEAD"])
    if rc != 0:
        print(out)
        return 2
    meta = {"seed": args.seed, "breaks": args.breaks, "needs": args.needs, "ran": []}
    try:
        patch = os.path.join(args.dir, "patch.diff")
        demo = os.path.join(args.dir, "demo.py")
        shutil.copy(demo, os.path.join(scratch, "demo.py"))
        rc0, out0 = sh([PY, "demo.py"], cwd=scratch)
        meta["demo_without_patch_exit"] = rc0
        rc, out = sh(["git", "-C", scratch, "apply", patch])
        if rc != 0:
            print("patch does not apply:", out)
            meta["error"] = "patch does not apply"
            return 2
        last, failed = suite(scratch)
        meta["suite_with_patch"] = last
        meta["suite_failed_tests"] = failed
        rc1, out1 = sh([PY, "demo.py"], cwd=scratch)
        meta["demo_with_patch_exit"] = rc1
        meta["demo_with_patch_tail"] = out1.strip().splitlines()[-1][:300] if out1.strip() else ""
        ok_suite = "160 passed" in last and all("test_dotexport.py" in f for f in failed) and len(failed) == 3
        meta["valid"] = bool(ok_suite and rc0 == 0 and rc1 != 0)
        print("suite:", last, "| demo without:", rc0, "with:", rc1, "| valid:", meta["valid"])
        props = args.props.split(",") if args.props else ["C%02d" % i for i in range(1, 21)]
        caught = {}
        for p in props:
            rc, out = sh([PY, os.path.join(HERE, "check.py"), p, "--tier", args.tier, "--repo", scratch], cwd=VERIF)
            vio = [l for l in out.splitlines() if l.startswith("VIOLATION")]
            caught[p] = {"exit": rc, "violation": vio[0] if vio else None}
            meta["ran"].append("%s harness/check.py %s --tier %s --repo <scratch worktree with patch>" % (PY, p, args.tier))
            if rc == 2:
                caught[p]["tail"] = out.strip().splitlines()[-3:]
        meta["checks"] = caught
        meta["caught_by"] = sorted(p for p, v in caught.items() if v["exit"] == 1)
        meta["caught_with_failing_input"] = sorted(p for p, v in caught.items()
                                                   if v["exit"] == 1 and v["violation"] and "no-failing-input-found" not in v["violation"])
        print("caught by:", meta["caught_by"], "| with failing input:", meta["caught_with_failing_input"])
        # keep the minimised failing inputs as regression cases (they run first in every later check)
        added = []
        for p in meta["caught_with_failing_input"]:
            rp = os.path.join(VERIF, "replays", "%s-violation.json" % p)
            if os.path.exists(rp):
                rc, out = sh([PY, os.path.join(HERE, "addcorpus.py"), p, rp, "--src", args.seed], cwd=VERIF)
                if rc == 0 and "added" in out:
                    added.append(p)
        meta["corpus_cases_added"] = added
        dest = os.path.join(VERIF, "seeded", args.seed)
        os.makedirs(dest, exist_ok=True)
        shutil.copy(patch, os.path.join(dest, "patch.diff"))
        shutil.copy(demo, os.path.join(dest, "demo.py"))
        with open(os.path.join(dest, "meta.json"), "w") as f:
            json.dump(meta, f, indent=1)
            f.write("\n")
    finally:
        sh(["git", "-C", "/repo", "worktree", "remove", "--force", scratch])
        shutil.rmtree(scratch, ignore_errors=True)
    return 0


if __name__ == "__main__":
    sys.exit(main())
