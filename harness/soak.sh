#!/bin/bash
# soak.sh <tier> <seed>...  — runs every check for every seed on the unchanged tree; prints anything that is not a clean pass
tier=$1; shift
cd "$(dirname "$0")/.."
for seed in "$@"; do
  for i in 01 02 03 04 05 06 07 08 09 10 11 12 13 14 15 16 17 18 19 20; do
    out=$(VERIF_SEED=$seed /venv/bin/python harness/check.py C$i --tier $tier 2>&1); rc=$?
    if [ $rc -ne 0 ] || echo "$out" | grep -q '^VIOLATION'; then
      echo "ALARM seed=$seed C$i rc=$rc"; echo "$out" | tail -3
      cp replays/C$i-violation.json .work/alarm_${seed}_C$i.json 2>/dev/null
      cp replays/C$i-broken-tie.json .work/alarm_${seed}_C${i}_tie.json 2>/dev/null
    fi
  done
  echo "seed $seed done"
done
