"""Which source files a property is anchored in, and whether they differ from the recorded baseline.

The baseline (harness/source_baseline.json) records, per file of the package, a hash of its AST with docstrings
removed - comments, docstrings and formatting do not count.  A difference is *not* a verdict: it only tells the
check that the code it is tied to has been edited since the model was last validated against it, and the check
answers by widening its search (see check.py, `escalate`)."""
import ast
import hashlib
import json
import os

HERE = os.path.dirname(os.path.abspath(__file__))
VERIF = os.path.dirname(HERE)
BASELINE = os.path.join(HERE, "source_baseline.json")
# files every structural property depends on besides its own anchors
COMMON = ["anytree/node/nodemixin.py", "anytree/node/lightnodemixin.py"]


def _strip_docstrings(tree):
    for n in ast.walk(tree):
        if isinstance(n, (ast.FunctionDef, ast.ClassDef, ast.AsyncFunctionDef, ast.Module)):
            b = n.body
            if b and isinstance(b[0], ast.Expr) and isinstance(b[0].value, ast.Constant) and isinstance(b[0].value.value, str):
                n.body = b[1:] or [ast.Pass()]
    return tree


def file_hash(path):
    try:
        src = open(path, encoding="utf-8").read()
        tree = _strip_docstrings(ast.parse(src))
        return hashlib.sha256(ast.dump(tree).encode("utf-8")).hexdigest()[:16]
    except (OSError, SyntaxError) as e:
        return "unreadable:%s" % type(e).__name__


def package_files(repo):
    out = []
    for root, _d, files in os.walk(os.path.join(repo, "anytree")):
        for f in files:
            if f.endswith(".py"):
                out.append(os.path.relpath(os.path.join(root, f), repo))
    return sorted(out)


def snapshot(repo):
    return {rel: file_hash(os.path.join(repo, rel)) for rel in package_files(repo)}


def anchors(pid):
    for l in open(os.path.join(VERIF, "properties.jsonl")):
        p = json.loads(l)
        if p["id"] == pid:
            return sorted(set(p["anchors"]["files"]))
    return []


def changed_files(repo, pid=None):
    """package files whose code differs from the baseline (restricted to the property's anchor files, the two
    mixins and files added since, when `pid` is given)"""
    base = json.load(open(BASELINE))
    now = snapshot(repo)
    diff = sorted(f for f in set(base) | set(now) if base.get(f) != now.get(f))
    if pid is None:
        return diff
    keep = set(anchors(pid)) | set(COMMON)
    return [f for f in diff if f in keep or f not in base]


if __name__ == "__main__":
    import sys
    if len(sys.argv) > 2 and sys.argv[2] == "--write":
        json.dump(snapshot(sys.argv[1]), open(BASELINE, "w"), indent=1, sort_keys=True)
    print(changed_files(sys.argv[1] if len(sys.argv) > 1 else "/repo"))
