import Anytree.Model.Tree
