import Anytree.Model.Tree
import Anytree.Model.Iter
import Anytree.Model.Generated
import Anytree.Spec.Iter
import Anytree.Props.C05
import Anytree.Props.C06
