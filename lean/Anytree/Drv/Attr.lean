import Anytree.Drv.Forest
import Anytree.Model.Attr
import Anytree.Spec.Attr
import Anytree.Model.AttrClass
namespace Anytree.Drv
open Lean Anytree Attr

def resAttrJ : Res String → Json
  | .value v => Json.mkObj [("v", toJson v)]
  | .attributeError => "AttributeError"
  | .diverged => "RecursionError"

/-- family `symlink`: objects (plain or link), a sequence of attribute writes / constructor calls /
reads; every read is answered by the mirror (`getattr`) and by the spec (`readS` on the resolved target).
ops: `{"op":"new"}`, `{"op":"link","t":i,"kw":[[k,v]…]}`, `{"op":"set","i":i,"k":k,"v":v}`, `{"op":"get","i":i,"k":k}` -/
def runSymlink (j : Json) : R (Json × Json) := do
  let legacy ← (getBool j "legacy" <|> pure false)
  let ops ← getArr j "ops"
  let mut h : Heap String := fun _ => ⟨[], none⟩
  let mut n : Nat := 0
  let mut f : Forest := Forest.empty
  let mut ms : Array Json := #[]
  let mut ss : Array Json := #[]
  let mut users : List Nat := []
  -- a link chain is never longer than the number of objects, which is at most the number of operations
  let fuel := max 64 (ops.size + 8)
  for oj in ops do
    let o ← getStr oj "op"
    match o with
    | "new" =>
      n := n + 1
      f := f.newNode
    | "sp" | "sc" | "dc" =>
      -- structural calls act on the links only (model A); the attribute store is a separate component
      let op ← opOfJson oj
      let out := exec ⟨.nm, false, noFaults⟩ 64 op f
      f := out.f
      ms := ms.push (Json.mkObj [("res", resJ out.res), ("snap", snapJ out.f.snap)])
      ss := ss.push (Json.mkObj [("res", resJ out.res), ("snap", snapJ out.f.snap)])
    | "link" =>
      let t ← getNat oj "t"
      let kwa ← getArr oj "kw"
      let kw ← kwa.toList.mapM (fun e => do let p ← asArr e; pure ((← asStr p[0]!), (← asStr p[1]!)))
      match ctorLink legacy h fuel n t kw with
      | some h' => h := h'
      | none => throw "ctorLink diverged"
      if (← (getStr oj "cls" <|> pure "")) == "user" then users := n :: users
      n := n + 1
      f := f.newNode
    | "set" =>
      let i ← getNat oj "i"
      match setattr h fuel i (← getStr oj "k") (← getStr oj "v") with
      | some h' => h := h'
      | none => throw "setattr diverged"
    | "setro" =>
      -- an assignment the (resolved) target itself refuses with AttributeError (a read-only property of the
      -- target's class): nothing is stored anywhere - in particular not on the link
      ms := ms.push (Json.str "AttributeError")
      ss := ss.push (Json.str "AttributeError")
    | "get" =>
      let i ← getNat oj "i"
      let k ← getStr oj "k"
      if k == "kind" && !users.isEmpty then
        let us := users
        let r := getClassAware h (fun x => us.contains x) "shortcut" fuel i k
        ms := ms.push (resAttrJ r)
        ss := ss.push (resAttrJ r)
      else
        ms := ms.push (resAttrJ (getattr h fuel i k))
        ss := ss.push (resAttrJ (Spec.readS h fuel i k))
    | "dump" =>
      -- own dictionaries of all objects (links must hold nothing but local names)
      let d := (List.range n).map (fun i => Json.arr ((h i).dict.map (fun e => Json.arr #[toJson e.1, toJson e.2])).toArray)
      ms := ms.push (Json.arr d.toArray)
      ss := ss.push (Json.arr d.toArray)
    | k => throw s!"unknown symlink op {k}"
  pure (Json.arr ms, Json.arr ss)

/-- family `copy`: a forest built by structural calls plus a target map; for every entry node the set
of objects a deep copy contains: mirror = graph reachability, spec = whole tree(s) -/
def runCopy (j : Json) : R (Json × Json) := do
  let n0 ← getNat j "n0"
  let ops ← getArr j "ops"
  let ta ← getArr j "targets"
  let tgs ← ta.toList.mapM (fun e => do let p ← asArr e; pure ((← asNat p[0]!), (← asNat p[1]!)))
  let tg : Nat → Option Nat := fun x => (tgs.find? (fun e => e.1 == x)).map Prod.snd
  let mut s : Forest := { Forest.empty with n := n0 }
  for oj in ops do
    let op ← opOfJson oj
    s := (exec ⟨.nm, false, noFaults⟩ 64 op s).f
  let sortN := fun (l : List Nat) => (l.toArray.qsort (· < ·)).toList
  let entries := List.range s.n
  pure (Json.arr (entries.map (fun e => natsJ (sortN (reach s tg e)))).toArray,
        Json.arr (entries.map (fun e => natsJ (sortN (Spec.copySet s tg e)))).toArray)

end Anytree.Drv
