import Lean.Data.Json
import Anytree.Model.Tree
/-! JSON helpers for the line-protocol driver (not part of the model; trusted glue). -/
namespace Anytree.Drv
open Lean Anytree

abbrev R := Except String

def getField (j : Json) (k : String) : R Json :=
  match j.getObjVal? k with
  | .ok v => .ok v
  | .error _ => .error s!"missing field {k}"

def getNat (j : Json) (k : String) : R Nat := do
  let v ← getField j k
  match v.getNat? with
  | .ok n => pure n
  | .error e => throw s!"{k}: {e}"

def getStr (j : Json) (k : String) : R String := do
  let v ← getField j k
  match v.getStr? with
  | .ok n => pure n
  | .error e => throw s!"{k}: {e}"

def getBool (j : Json) (k : String) : R Bool := do
  let v ← getField j k
  match v.getBool? with
  | .ok n => pure n
  | .error e => throw s!"{k}: {e}"

def getArr (j : Json) (k : String) : R (Array Json) := do
  let v ← getField j k
  match v.getArr? with
  | .ok n => pure n
  | .error e => throw s!"{k}: {e}"

def asNat (j : Json) : R Nat :=
  match j.getNat? with
  | .ok n => pure n
  | .error e => throw e

def asInt (j : Json) : R Int :=
  match j.getInt? with
  | .ok n => pure n
  | .error e => throw e

def asStr (j : Json) : R String :=
  match j.getStr? with
  | .ok n => pure n
  | .error e => throw e

def asArr (j : Json) : R (Array Json) :=
  match j.getArr? with
  | .ok n => pure n
  | .error e => throw e

def getNatList (j : Json) (k : String) : R (List Nat) := do
  let a ← getArr j k
  a.toList.mapM asNat

/-- `null` ↦ none -/
def getOptInt (j : Json) (k : String) : R (Option Int) := do
  let v ← getField j k
  if v.isNull then pure none else some <$> asInt v

def getOptNat (j : Json) (k : String) : R (Option Nat) := do
  let v ← getField j k
  if v.isNull then pure none else some <$> asNat v

/-- tree syntax: `[label, [child, child, …]]` -/
partial def treeOfJson (j : Json) : R (Tree Nat) := do
  let a ← asArr j
  if a.size ≠ 2 then throw "tree: expected [label, kids]"
  let l ← asNat a[0]!
  let ks ← asArr a[1]!
  let cs ← ks.toList.mapM treeOfJson
  pure (Tree.node l cs)

def natsJ (l : List Nat) : Json := Json.arr (l.map (fun (n : Nat) => toJson n)).toArray
def natssJ (l : List (List Nat)) : Json := Json.arr (l.map natsJ).toArray
def strsJ (l : List String) : Json := Json.arr (l.map (fun (n : String) => toJson n)).toArray
def optNatJ : Option Nat → Json
  | none => Json.null
  | some n => toJson n

partial def findLabel (l : Nat) (t : Tree Nat) : Option (Tree Nat) :=
  if t.label = l then some t else t.kids.findSome? (findLabel l)

def labelsOf (ts : List (Tree Nat)) : List Nat := ts.map Tree.label

end Anytree.Drv
