import Anytree.Drv.Common
import Anytree.Model.Dict
import Anytree.Spec.Dict
namespace Anytree.Drv
open Lean Anytree Tree Dict

abbrev A := Attrs String

def attrsOfJson (j : Json) : R A := do
  let a ← asArr j
  a.toList.mapM (fun e => do let p ← asArr e; pure ((← asStr p[0]!), (← asStr p[1]!)))

/-- attributed tree syntax: `[[[key, valuetext], …], [child, …]]` -/
partial def atreeOfJson (j : Json) : R (Tree A) := do
  let a ← asArr j
  let at_ ← attrsOfJson a[0]!
  let ks ← asArr a[1]!
  pure (Tree.node at_ (← ks.toList.mapM atreeOfJson))

partial def ddataOfJson (j : Json) : R (DData String) := do
  let at_ ← attrsOfJson (← getField j "attrs")
  let c ← getField j "children"
  if c.isNull then pure (.mk at_ none)
  else pure (.mk at_ (some (← (← asArr c).toList.mapM ddataOfJson)))

def attrsJ (a : A) : Json := Json.arr (a.map (fun (k, v) => Json.arr #[toJson k, toJson v])).toArray

partial def ddataJ : DData String → Json
  | .mk a none => Json.mkObj [("attrs", attrsJ a), ("children", Json.null)]
  | .mk a (some cs) => Json.mkObj [("attrs", attrsJ a), ("children", Json.arr (cs.map ddataJ).toArray)]

partial def atreeJ : Tree A → Json
  | .node a cs => Json.arr #[attrsJ a, Json.arr (cs.map atreeJ).toArray]

/-- the tree the re-import must be isomorphic to: the exported view, attributes stored the way the
node class stores constructor keywords -/
partial def ctorView (cls : NodeCls) : Tree A → Option (Tree A)
  | .node a cs =>
    match ctorAttrs cls a, cs.mapM (ctorView cls) with
    | some a', some cs' => some (.node a' cs')
    | _, _ => none

def optTreeJ : Option (Tree A) → Json
  | none => "TypeError"
  | some t => atreeJ t

def attriterOf (k : String) : A → A :=
  match k with
  | "sorted" => fun a => (a.toArray.qsort (fun x y => x.1 < y.1)).toList
  | "drop_a" => fun a => a.filter (fun e => e.1 != "a")
  | "dup_first" => fun a => match a with | [] => [] | e :: _ => a ++ [(e.1, "\"dup\"")]
  | _ => id

def childiterOf (k : String) : List (Tree A) → List (Tree A) :=
  match k with
  | "reversed" => List.reverse
  | "first2" => List.take 2
  | "none" => fun _ => []                      -- a filtering childiter may remove every child
  | "tail" => List.drop 1
  | "sorted" => fun cs => (cs.toArray.qsort (fun x y => toString (repr x.label) < toString (repr y.label))).toList
  | _ => id

/-- family `dict`: export with options, re-import of the export, and import of a given dictionary -/
def runDict (j : Json) : R (Json × Json) := do
  let t0 ← atreeOfJson (← getField j "tree")
  -- the export may start at any node of the tree (address = child indices from the root)
  let addr ← (getNatList j "start" <|> pure [])
  let t := (Tree.sub t0 addr).getD t0
  let m ← getOptInt j "maxlevel"
  let ai ← (getStr j "attriter" <|> pure "none")
  let ci ← (getStr j "childiter" <|> pure "list")
  let cls : NodeCls := if (← (getStr j "cls" <|> pure "anynode")) == "node" then .node else .anyNode
  let ex := exportD (attriterOf ai) (childiterOf ci) m t
  let sz := t.size + 1
  let exS := Spec.plainT (Spec.viewF (attriterOf ai) (childiterOf ci) m sz 1 t)
  let re := importT cls ex
  -- second round trip: export (defaults) of the re-imported tree
  let ex2 : Json := match re with
    | none => Json.null
    | some t' => ddataJ (exportD id id none t')
  let ex2S : Json := match re with
    | none => Json.null
    | some _ => ddataJ (Spec.stripEmptyT exS)
  let (impM, impS) ← (do
    match j.getObjVal? "data" with
    | .error _ => pure (Json.null, Json.null)
    | .ok dj =>
      let d ← ddataOfJson dj
      let r := importT cls d
      -- spec for a given dictionary: re-exporting gives the dictionary back, up to empty children lists
      let back : Json := match r with | none => Json.null | some t' => ddataJ (exportD id id none t')
      pure (Json.mkObj [("tree", optTreeJ r), ("back", back)],
            Json.mkObj [("tree", optTreeJ r), ("back", match r with | none => Json.null | some _ => ddataJ (Spec.stripEmptyT d))]))
  pure (Json.mkObj [("export", ddataJ ex), ("reimport", optTreeJ re), ("export2", ex2), ("import", impM)],
        Json.mkObj [("export", ddataJ exS),
          ("reimport", optTreeJ (ctorView cls (Spec.viewF (attriterOf ai) (childiterOf ci) m sz 1 t))),
          ("export2", ex2S), ("import", impS)])

end Anytree.Drv
