import Anytree.Drv.Common
import Anytree.Model.Export
import Anytree.Spec.Export
namespace Anytree.Drv
open Lean Anytree Tree Export

/-- family `export`: DotExporter / UniqueDotExporter / MermaidExporter, `iterations` passes over
one exporter object. mirror: literal lines (id counter reproduced); spec: lines the property demands,
default ids written as `0x<1000+label>` / `N<1000+label>` (compared up to a renaming of ids). -/
def runExport (j : Json) : R (Json × Json) := do
  let kind ← getStr j "kind"
  let t ← treeOfJson (← getField j "tree")
  let startL ← getNat j "start"
  let some s := findLabel startL t | throw "start not found"
  let na ← getArr j "names"
  let names ← na.toList.mapM (fun e => do
    let a ← asArr e
    pure ((← asNat a[0]!), (← asStr a[1]!)))
  let nameOf : Tree Nat → String := fun n => ((names.find? (fun e => e.1 == n.label)).map Prod.snd).getD "?"
  let fOut ← getNatList j "filter_out"
  let stopS ← getNatList j "stop"
  let m ← getOptInt j "maxlevel"
  let legacy ← (getBool j "legacy" <|> pure false)
  let iters ← (getNat j "iterations" <|> pure 1)
  -- a first iteration abandoned after `partial` node lines (the generator is lazy: only those ids exist)
  let partialN ← (getNat j "partial" <|> pure 0)
  let custom ← (getBool j "custom" <|> pure false)
  let opts ← (do
    let v ← getField j "options"
    if v.isNull then pure [] else (do let a ← asArr v; a.toList.mapM asStr))
  let indent ← (getOptNat j "indent" <|> pure none)
  let graph ← (do let v ← getField j "graph"; if v.isNull then pure none else some <$> asStr v) <|> pure none
  let gname ← (do let v ← getField j "gname"; if v.isNull then pure none else some <$> asStr v) <|> pure none
  let F : Tree Nat → Bool := fun n => !fOut.contains n.label
  let S : Tree Nat → Bool := fun n => stopS.contains n.label
  let key : Tree Nat → Nat := fun n => n.label
  -- deterministic custom functions, mirrored by the Python harness
  let cName : Tree Nat → String := fun n => nameOf n ++ "|" ++ toString n.label
  let cNodeAttr : Tree Nat → Option String := fun n =>
    if n.label % 2 == 0 then some ("shape=box,l=" ++ toString n.label) else none
  let cEdgeAttr : Tree Nat → Tree Nat → Option String := fun p c =>
    if (p.label + c.label) % 3 == 0 then none else some ("label=\"" ++ toString p.label ++ "-" ++ toString c.label ++ "\"")
  let cEdgeType : Tree Nat → Tree Nat → String := fun p c => if (p.label + c.label) % 2 == 0 then "--" else "->"
  let specId : Tree Nat → String := fun n => pyHex (1000 + n.label)
  let specIdM : Tree Nat → String := fun n => "N" ++ toString (1000 + n.label)
  -- `exporter.maxlevel` may be changed between two iterations of one exporter: `maxlevel_seq[i]` (if given) is the
  -- value in force during iteration i
  let mseq : List (Option Int) ← (do
    let v ← getField j "maxlevel_seq"
    if v.isNull then pure [] else (do
      let a ← asArr v
      pure (a.toList.map (fun x => match x.getInt? with | .ok n => some n | .error _ => none)))) <|> pure []
  let mAt : Nat → Option Int := fun i => match mseq[i]? with | some v => v | none => m
  let rec runIters {σ : Type} (i k : Nat) (step : Nat → σ → List String × σ) (st : σ) (acc : List String) : List String :=
    match k with
    | 0 => acc
    | k+1 => let (ls, st') := step i st; runIters (i + 1) k step st' (acc ++ ls)
  match kind with
  | "mermaid" =>
    let cfg : MermaidCfg Nat Nat := {
      graph := graph.getD Generated.mermaidGraph, name := gname.getD Generated.mermaidName,
      options := opts, indent := indent.getD Generated.mermaidIndent,
      nodename := if custom then NameFn.pure (fun n => "n" ++ toString n.label) else mermaidName key,
      nodefunc := if custom then (fun n => "(\"" ++ nameOf n ++ "\")") else (fun n => "[\"" ++ esc (nameOf n) ++ "\"]"),
      edgefunc := if custom then (fun p c => "--" ++ toString p.label ++ "." ++ toString c.label ++ "-->")
                  else (fun _ _ => Generated.mermaidEdge),
      filter := F, stop := S, maxlevel := m }
    let nodes0 := Iter.preIter cfg.filter cfg.stop cfg.maxlevel s
    let st0 := (merNodes cfg (spaces cfg.indent) (nodes0.take partialN) ([] : IdMap Nat)).2
    let mir := runIters 0 iters (fun i st => merIter legacy { cfg with maxlevel := mAt i } s st) st0 []
    let nm : Tree Nat → String := if custom then (fun n => "n" ++ toString n.label) else specIdM
    let sp := (List.range iters).flatMap (fun i => Spec.merLinesS { cfg with maxlevel := mAt i } nm s)
    pure (strsJ mir, strsJ sp)
  | _ =>
    let uniq := kind == "unique"
    let cfg : DotCfg Nat Nat := {
      graph := graph.getD Generated.dotGraph, name := gname.getD Generated.dotName,
      options := opts, indent := indent.getD Generated.dotIndent,
      nodename := if custom then NameFn.pure cName else if uniq then uniqueName key else NameFn.pure nameOf,
      nodeattr := if custom then cNodeAttr else if uniq then (fun n => some ("label=\"" ++ nameOf n ++ "\"")) else (fun _ => none),
      edgeattr := if custom then cEdgeAttr else (fun _ _ => none),
      edgetype := if custom then cEdgeType else (fun _ _ => Generated.dotEdgeType),
      filter := F, stop := S, maxlevel := m }
    let nodes0 := Iter.preIter cfg.filter cfg.stop cfg.maxlevel s
    let st0 := (dotNodes cfg (spaces cfg.indent) (nodes0.take partialN) ([] : IdMap Nat)).2
    let mir := runIters 0 iters (fun i st => dotIter legacy { cfg with maxlevel := mAt i } s st) st0 []
    let nm : Tree Nat → String := if custom then cName else if uniq then specId else nameOf
    let sp := (List.range iters).flatMap (fun i => Spec.dotLinesS { cfg with maxlevel := mAt i } nm s)
    pure (strsJ mir, strsJ sp)

end Anytree.Drv
