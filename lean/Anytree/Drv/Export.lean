import Anytree.Drv.Common
import Anytree.Model.Export
import Anytree.Spec.Export
namespace Anytree.Drv
open Lean Anytree Tree Export

/-- family `export`: DotExporter / UniqueDotExporter / MermaidExporter, `iterations` passes over
one exporter object. mirror: literal lines (id counter reproduced); spec: lines the property demands,
default ids written as `0x<1000+label>` / `N<1000+label>` (compared up to a renaming of ids). -/
def runExport (j : Json) : R (Json × Json) := do
  let kind ← getStr j "kind"
  let t ← treeOfJson (← getField j "tree")
  let startL ← getNat j "start"
  let some s := findLabel startL t | throw "start not found"
  let na ← getArr j "names"
  let names ← na.toList.mapM (fun e => do
    let a ← asArr e
    pure ((← asNat a[0]!), (← asStr a[1]!)))
  let fOut ← getNatList j "filter_out"
  let stopS ← getNatList j "stop"
  let m ← getOptInt j "maxlevel"
  let legacy ← (getBool j "legacy" <|> pure false)
  let iters ← (getNat j "iterations" <|> pure 1)
  -- a first iteration abandoned after `partial` node lines (the generator is lazy: only those ids exist)
  let partialN ← (getNat j "partial" <|> pure 0)
  let custom ← (getBool j "custom" <|> pure false)
  let opts ← (do
    let v ← getField j "options"
    if v.isNull then pure [] else (do let a ← asArr v; a.toList.mapM asStr))
  let indent ← (getOptNat j "indent" <|> pure none)
  let graph ← (do let v ← getField j "graph"; if v.isNull then pure none else some <$> asStr v) <|> pure none
  let gname ← (do let v ← getField j "gname"; if v.isNull then pure none else some <$> asStr v) <|> pure none
  -- `exporter.maxlevel` may be changed between two iterations of one exporter: `maxlevel_seq[i]` (if given) is the
  -- value in force during iteration i
  let mseq : List (Option Int) ← (do
    let v ← getField j "maxlevel_seq"
    if v.isNull then pure [] else (do
      let a ← asArr v
      pure (a.toList.map (fun x => match x.getInt? with | .ok n => some n | .error _ => none)))) <|> pure []
  -- more generally `seq[i]` (if given and not null) overrides, for iteration i, the names of the nodes, the filtered-out
  -- and stopped sets and maxlevel (the tree was renamed / the exporter's attributes were changed between two iterations)
  let seqA : List Json ← (do
    let v ← getField j "seq"
    if v.isNull then pure [] else (do let a ← asArr v; pure a.toList)) <|> pure []
  let parP : Nat → R (List (Nat × String) × List Nat × List Nat × Option Int) := fun i => do
    let m0 : Option Int := match mseq[i]? with | some v => v | none => m
    match seqA[i]? with
    | none => pure (names, fOut, stopS, m0)
    | some o =>
      if o.isNull then pure (names, fOut, stopS, m0) else
      let nm ← (do
        let a ← getArr o "names"
        a.toList.mapM (fun e => do
          let a ← asArr e
          pure ((← asNat a[0]!), (← asStr a[1]!)))) <|> pure names
      let fo ← (getNatList o "filter_out" <|> pure fOut)
      let st ← (getNatList o "stop" <|> pure stopS)
      let mm ← (match o.getObjVal? "maxlevel" with
        | .ok _ => getOptInt o "maxlevel"
        | .error _ => pure m0)
      pure (nm, fo, st, mm)
  let ps ← (List.range iters).mapM parP
  let pAt : Nat → (List (Nat × String) × List Nat × List Nat × Option Int) := fun i => ps[i]?.getD (names, fOut, stopS, m)
  let nameOfP : List (Nat × String) → Tree Nat → String := fun nms n =>
    ((nms.find? (fun e => e.1 == n.label)).map Prod.snd).getD "?"
  let key : Tree Nat → Nat := fun n => n.label
  -- deterministic custom functions, mirrored by the Python harness
  let cNameP : List (Nat × String) → Tree Nat → String := fun nms n => nameOfP nms n ++ "|" ++ toString n.label
  let cNodeAttr : Tree Nat → Option String := fun n =>
    if n.label % 2 == 0 then some ("shape=box,l=" ++ toString n.label) else none
  let cEdgeAttr : Tree Nat → Tree Nat → Option String := fun p c =>
    if (p.label + c.label) % 3 == 0 then none else some ("label=\"" ++ toString p.label ++ "-" ++ toString c.label ++ "\"")
  let cEdgeType : Tree Nat → Tree Nat → String := fun p c => if (p.label + c.label) % 2 == 0 then "--" else "->"
  let specId : Tree Nat → String := fun n => pyHex (1000 + n.label)
  let specIdM : Tree Nat → String := fun n => "N" ++ toString (1000 + n.label)
  let rec runIters {σ : Type} (i k : Nat) (step : Nat → σ → List String × σ) (st : σ) (acc : List String) : List String :=
    match k with
    | 0 => acc
    | k+1 => let (ls, st') := step i st; runIters (i + 1) k step st' (acc ++ ls)
  match kind with
  | "mermaid" =>
    let cfgP : (List (Nat × String) × List Nat × List Nat × Option Int) → MermaidCfg Nat Nat := fun (nms, fo, st, mm) => {
      graph := graph.getD Generated.mermaidGraph, name := gname.getD Generated.mermaidName,
      options := opts, indent := indent.getD Generated.mermaidIndent,
      nodename := if custom then NameFn.pure (fun n => "n" ++ toString n.label) else mermaidName key,
      nodefunc := if custom then (fun n => "(\"" ++ nameOfP nms n ++ "\")") else (fun n => "[\"" ++ esc (nameOfP nms n) ++ "\"]"),
      edgefunc := if custom then (fun p c => "--" ++ toString p.label ++ "." ++ toString c.label ++ "-->")
                  else (fun _ _ => Generated.mermaidEdge),
      filter := fun n => !fo.contains n.label, stop := fun n => st.contains n.label, maxlevel := mm }
    let cfg := cfgP (names, fOut, stopS, m)
    let nodes0 := Iter.preIter cfg.filter cfg.stop cfg.maxlevel s
    let st0 := (merNodes cfg (spaces cfg.indent) (nodes0.take partialN) ([] : IdMap Nat)).2
    let mir := runIters 0 iters (fun i st => merIter legacy (cfgP (pAt i)) s st) st0 []
    let nm : Tree Nat → String := if custom then (fun n => "n" ++ toString n.label) else specIdM
    let sp := (List.range iters).flatMap (fun i => Spec.merLinesS (cfgP (pAt i)) nm s)
    pure (strsJ mir, strsJ sp)
  | _ =>
    let uniq := kind == "unique"
    let cfgP : (List (Nat × String) × List Nat × List Nat × Option Int) → DotCfg Nat Nat := fun (nms, fo, st, mm) => {
      graph := graph.getD Generated.dotGraph, name := gname.getD Generated.dotName,
      options := opts, indent := indent.getD Generated.dotIndent,
      nodename := if custom then NameFn.pure (cNameP nms) else if uniq then uniqueName key else NameFn.pure (nameOfP nms),
      nodeattr := if custom then cNodeAttr else if uniq then (fun n => some ("label=\"" ++ nameOfP nms n ++ "\"")) else (fun _ => none),
      edgeattr := if custom then cEdgeAttr else (fun _ _ => none),
      edgetype := if custom then cEdgeType else (fun _ _ => Generated.dotEdgeType),
      filter := fun n => !fo.contains n.label, stop := fun n => st.contains n.label, maxlevel := mm }
    let cfg := cfgP (names, fOut, stopS, m)
    let nodes0 := Iter.preIter cfg.filter cfg.stop cfg.maxlevel s
    let st0 := (dotNodes cfg (spaces cfg.indent) (nodes0.take partialN) ([] : IdMap Nat)).2
    let mir := runIters 0 iters (fun i st => dotIter legacy (cfgP (pAt i)) s st) st0 []
    let nmP : List (Nat × String) → Tree Nat → String := fun nms => if custom then cNameP nms else if uniq then specId else nameOfP nms
    let sp := (List.range iters).flatMap (fun i => Spec.dotLinesS (cfgP (pAt i)) (nmP (pAt i).1) s)
    pure (strsJ mir, strsJ sp)

end Anytree.Drv
