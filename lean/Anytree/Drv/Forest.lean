import Anytree.Drv.Common
import Anytree.Model.Forest
import Anytree.Spec.Forest
namespace Anytree.Drv
open Lean Anytree

def kindName : HookKind → String
  | .preDetach => "pre_detach" | .postDetach => "post_detach"
  | .preAttach => "pre_attach" | .postAttach => "post_attach"
  | .preDetachChildren => "pre_detach_children" | .postDetachChildren => "post_detach_children"
  | .preAttachChildren => "pre_attach_children" | .postAttachChildren => "post_attach_children"

def kindOfName : String → R HookKind
  | "pre_detach" => pure .preDetach | "post_detach" => pure .postDetach
  | "pre_attach" => pure .preAttach | "post_attach" => pure .postAttach
  | "pre_detach_children" => pure .preDetachChildren | "post_detach_children" => pure .postDetachChildren
  | "pre_attach_children" => pure .preAttachChildren | "post_attach_children" => pure .postAttachChildren
  | k => throw s!"unknown hook kind {k}"

def errName : Err → String
  | .treeError => "TreeError" | .loopError => "LoopError" | .typeError => "TypeError"
  | .hook i k n => s!"HookAbort:{i}:{kindName k}:{n}"
  | .assertion => "AssertionError" | .unmodelled => "unmodelled" | .diverged => "RecursionError"

def resJ : Except Err Unit → Json
  | .ok () => "ok"
  | .error e => errName e

def snapJ (s : List (Option Nat × List Nat)) : Json :=
  Json.arr (s.map (fun (p, cs) => Json.arr #[optNatJ p, natsJ cs])).toArray

def eventJ (e : Event) : Json :=
  Json.arr #[kindName e.kind, toJson e.node, natsJ e.arg, snapJ e.snapshot]

def eventJ1 (e : Event) : Json :=
  Json.arr #[kindName e.kind, toJson e.node, natsJ e.arg]

/-- log level 2: events with snapshots; 1: events only; 0: omitted -/
def logJ (lv : Nat) (l : List Event) : Json :=
  match lv with
  | 0 => Json.null
  | 1 => Json.arr (l.map eventJ1).toArray
  | _ => Json.arr (l.map eventJ).toArray

def argOfJson (j : Json) : R Arg :=
  match j.getNat? with
  | .ok n => pure (.node n)
  | .error _ => pure .nonNode

def optArgOfJson (j : Json) : R (Option Arg) :=
  if j.isNull then pure none else some <$> argOfJson j

/-- `null` = non-iterable / None (caller decides), `"x"` handled by caller, list = list -/
def argsOfJson (j : Json) : R (List Arg) := do
  let a ← asArr j
  a.toList.mapM argOfJson

def faultsOfJson (j : Json) : R Faults := do
  match j.getObjVal? "faults" with
  | .error _ => pure noFaults
  | .ok f =>
    if f.isNull then pure noFaults else
    let at_ ← (getNatList f "at" <|> pure [])
    let kindsA ← (getArr f "kinds" <|> pure #[])
    let kinds ← kindsA.toList.mapM (fun k => do kindOfName (← asStr k))
    let nodes : Option (List Nat) ←
      match f.getObjVal? "nodes" with
      | .error _ => pure none
      | .ok v => if v.isNull then pure none else some <$> (v.getArr? |> fun
          | .ok a => a.toList.mapM asNat
          | .error e => throw e)
    pure (fun i k n => at_.contains i ||
      (kinds.contains k && (match nodes with | none => true | some ns => ns.contains n)))

def opOfJson (j : Json) : R Op := do
  let o ← getStr j "op"
  match o with
  | "sp" => pure (.setParent (← getNat j "n") (← optArgOfJson (← getField j "v")))
  | "sc" =>
    let x ← getField j "xs"
    if x.isNull then pure (.setChildren (← getNat j "n") none)
    else pure (.setChildren (← getNat j "n") (some (← argsOfJson x)))
  | "dc" => pure (.delChildren (← getNat j "n"))
  | "ctor" =>
    let p ← optArgOfJson (← getField j "p")
    let x ← getField j "cs"
    if x.isNull then pure (.ctor p .none)
    else match x.getStr? with
      | .ok _ => pure (.ctor p .nonIterable)
      | .error _ => pure (.ctor p (.list (← argsOfJson x)))
  | k => throw s!"unknown op {k}"

def optJ {α} (f : α → Json) : Option α → Json
  | none => Json.null
  | some a => f a

/-- family `forest`: a history of structural calls, each with its own fault schedule.
mirror: per op `{res, snap, log}`; spec: per op what the properties demand, computed on the
mirror's pre-state (`null` where the texts leave it open), plus `inv` = C01 on the mirror state. -/
def runForest (j : Json) : R (Json × Json) := do
  let fl ← (do let s ← getStr j "fl"; if s == "light" then pure Flavor.light else pure Flavor.nm)
  let asrt ← getBool j "asrt"
  let n0 ← getNat j "n0"
  let fuelOpt : Option Nat ← (some <$> getNat j "fuel") <|> pure none
  let lv ← (getNat j "loglevel" <|> pure 2)
  let ops ← getArr j "ops"
  let mut s : Forest := { Forest.empty with n := n0 }
  let mut ms : Array Json := #[]
  let mut ss : Array Json := #[]
  for oj in ops do
    -- `pre_ops`: calls run silently before the op. Used to describe a *re-entrant* hook of the implementation run (a hook
    -- that detaches another node while the call is in progress): for the final forest such a call equals the nested call
    -- followed by the outer one (the mirror's hooks themselves only observe or raise)
    let pre ← (getArr oj "pre_ops" <|> pure #[])
    for pj in pre do
      let pop ← opOfJson pj
      s := (exec ⟨fl, asrt, noFaults⟩ (max 64 (s.n + 8)) pop s).f
    let op ← opOfJson oj
    let φ ← faultsOfJson oj
    -- a fuel above `s.n + B + 5` (B = one more than the last scheduled one-shot counter) is never the reason for an
    -- outcome (`C01d.fuel_suffices_faults`); persistent fault classes diverge under every fuel (finding K4)
    let bound : Nat ← (do
      let f ← getField oj "faults"
      if f.isNull then pure 0 else (do
        let at_ ← (getNatList f "at" <|> pure [])
        pure (at_.foldl (fun a b => max a (b + 1)) 0))) <|> pure 0
    let fuel := fuelOpt.getD (max 64 (s.n + bound + 8))
    let out := exec ⟨fl, asrt, φ⟩ fuel op s
    let sp := Spec.runFaulty fl φ s op
    ms := ms.push (Json.mkObj [("res", resJ out.res), ("snap", snapJ out.f.snap), ("log", logJ lv out.log)])
    ss := ss.push (Json.mkObj [("res", optJ resJ sp.res), ("snap", optJ snapJ sp.snap),
                               ("log", optJ (logJ lv) sp.log), ("inv", toJson (Spec.invB out.f))])
    s := out.f
  pure (Json.arr ms, Json.arr ss)

end Anytree.Drv

namespace Anytree.Drv
open Lean Anytree

/-- family `lockstep`: the same history (tree-node arguments only) on both flavours -/
def runLockstep (j : Json) : R (Json × Json) := do
  let jn := j.setObjVal! "fl" "nm"
  let jl := j.setObjVal! "fl" "light"
  let (mn, sn) ← runForest jn
  let (ml, sl) ← runForest jl
  pure (Json.mkObj [("nm", mn), ("light", ml)], Json.mkObj [("nm", sn), ("light", sl)])

end Anytree.Drv
