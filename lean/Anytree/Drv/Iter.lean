import Anytree.Drv.Common
import Anytree.Model.Iter
import Anytree.Spec.Iter
namespace Anytree.Drv
open Lean Anytree

/-- family `iter`: one iterator call; result = labels (grouped iterators: list of lists) -/
def runIter (j : Json) : R (Json × Json) := do
  let t ← treeOfJson (← getField j "tree")
  let startL ← getNat j "start"
  let kind ← getStr j "kind"
  let fOut ← getNatList j "filter_out"
  let stopS ← getNatList j "stop"
  let m ← getOptInt j "maxlevel"
  let some s := findLabel startL t | throw "start not found"
  let F : Tree Nat → Bool := fun n => !fOut.contains n.label
  let S : Tree Nat → Bool := fun n => stopS.contains n.label
  match kind with
  | "pre" => pure (natsJ (labelsOf (Iter.preIter F S m s)), natsJ (labelsOf (Spec.preSpec F S m s)))
  | "post" => pure (natsJ (labelsOf (Iter.postIter F S m s)), natsJ (labelsOf (Spec.postSpec F S m s)))
  | "level" => pure (natsJ (labelsOf (Iter.levelIter F S m s)), natsJ (labelsOf (Spec.levelSpec F S m s)))
  | "group" => pure (natssJ ((Iter.groupIter F S m s).map labelsOf),
                     natssJ ((Spec.groupSpec F S m s).map labelsOf))
  | "zigzag" => pure (natssJ ((Iter.zigzagIter F S m s).map labelsOf),
                      natssJ ((Spec.zigzagIterSpec F S m s).map labelsOf))
  | k => throw s!"unknown iterator kind {k}"

end Anytree.Drv
