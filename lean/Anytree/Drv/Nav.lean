import Anytree.Drv.Forest
import Anytree.Model.Nav
import Anytree.Model.Bridge
import Anytree.Spec.Nav
namespace Anytree.Drv
open Lean Anytree Tree

def labAt (t : Tree Nat) (a : Addr) : Nat :=
  match sub t a with
  | some u => u.label
  | none => 1000000   -- cannot happen for addresses produced by the model

def labs (t : Tree Nat) (as : List Addr) : Json := natsJ (as.map (labAt t))
def optLab (t : Tree Nat) : Option Addr → Json
  | none => Json.null
  | some a => toJson (labAt t a)

def navMirror (t : Tree Nat) (a : Addr) : Json :=
  Json.mkObj [
    ("path", labs t (Nav.path a)), ("ancestors", labs t (Nav.ancestors a)),
    ("root", toJson (labAt t (Nav.root a))), ("depth", toJson (Nav.depth a)),
    ("is_root", toJson (Nav.isRoot a)), ("is_leaf", toJson (Nav.isLeaf t a)),
    ("siblings", labs t (Nav.siblings t a)), ("descendants", labs t (Nav.descendants t a)),
    ("leaves", labs t (Nav.leaves t a)), ("size", toJson (Nav.size t a)),
    ("height", toJson (Nav.height t a)), ("left", optLab t (Nav.leftSibling t a)),
    ("right", optLab t (Nav.rightSibling t a))]

def navSpec (t : Tree Nat) (a : Addr) : Json :=
  Json.mkObj [
    ("path", labs t (Spec.pathS a)), ("ancestors", labs t (Spec.ancestorsS a)),
    ("root", toJson (labAt t (Spec.rootS a))), ("depth", toJson (Spec.depthS a)),
    ("is_root", toJson (Spec.isRootS a)), ("is_leaf", toJson (Spec.isLeafS t a)),
    ("siblings", labs t (Spec.siblingsS t a)), ("descendants", labs t (Spec.descendantsS t a)),
    ("leaves", labs t (Spec.leavesS t a)), ("size", toJson (Spec.sizeS t a)),
    ("height", toJson (Spec.heightS t a)), ("left", optLab t (Spec.leftS t a)),
    ("right", optLab t (Spec.rightS t a))]

/-- all nodes of a list of trees: `label ↦ (tree, addr)` -/
def indexTrees (ts : List (Tree Nat)) : List (Nat × Tree Nat × Addr) :=
  ts.flatMap (fun t => (addrs t).map (fun a => (labAt t a, t, a)))

def navAll (ts : List (Tree Nat)) (f : Tree Nat → Addr → Json) : Json :=
  let idx := indexTrees ts
  Json.mkObj (idx.map (fun (l, t, a) => (toString l, f t a)))

def caChains (ts : List (Tree Nat)) (mirror : Bool) (tup : List Nat) : List (List Nat) :=
  let idx := indexTrees ts
  tup.filterMap (fun l =>
    match idx.find? (fun e => e.1 == l) with
    | none => none
    | some (_, t, a) =>
      some ((if mirror then Nav.ancestors a else Spec.ancestorsS a).map (labAt t)))

def caJ (ts : List (Tree Nat)) (tups : List (List Nat)) : Json × Json :=
  (Json.arr (tups.map (fun tup => natsJ (Nav.commonAncestors (caChains ts true tup)))).toArray,
   Json.arr (tups.map (fun tup => natsJ (Spec.lcpAll (caChains ts false tup)))).toArray)

def natTuples (j : Json) (k : String) : R (List (List Nat)) := do
  match j.getObjVal? k with
  | .error _ => pure []
  | .ok v =>
    let a ← asArr v
    a.toList.mapM (fun x => do let b ← asArr x; b.toList.mapM asNat)

/-- family `nav`: either a static forest (`"trees": [tree, …]`) or a fault-free history of
structural calls (`"n0"`, `"ops"`), after **every** call of which all navigation attributes of all
nodes are evaluated (model A state → `toTree` → navigation mirror). -/
def runNav (j : Json) : R (Json × Json) := do
  let tups ← natTuples j "ca"
  match j.getObjVal? "trees" with
  | .ok tj =>
    let ta ← asArr tj
    let ts ← ta.toList.mapM treeOfJson
    let (cm, cs) := caJ ts tups
    pure (Json.mkObj [("nav", navAll ts navMirror), ("ca", cm)],
          Json.mkObj [("nav", navAll ts navSpec), ("ca", cs)])
  | .error _ =>
    let fl ← (do let s ← getStr j "fl"; if s == "light" then pure Flavor.light else pure Flavor.nm)
    let n0 ← getNat j "n0"
    let ops ← getArr j "ops"
    let mut s : Forest := { Forest.empty with n := n0 }
    let mut ms : Array Json := #[]
    let mut ss : Array Json := #[]
    for oj in ops do
      let op ← opOfJson oj
      let φ ← faultsOfJson oj
      let out := exec ⟨fl, false, φ⟩ 64 op s
      s := out.f
      let ts := s.roots.map (s.toTree (s.n + 1))
      let (cm, cs) := caJ ts tups
      ms := ms.push (Json.mkObj [("res", resJ out.res), ("nav", navAll ts navMirror), ("ca", cm)])
      ss := ss.push (Json.mkObj [("res", resJ out.res), ("nav", navAll ts navSpec), ("ca", cs)])
    pure (Json.arr ms, Json.arr ss)

end Anytree.Drv
