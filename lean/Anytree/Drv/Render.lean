import Anytree.Drv.Common
import Anytree.Model.Render
import Anytree.Spec.Render
namespace Anytree.Drv
open Lean Anytree Tree Render

def styleOf (j : Json) : R Style := do
  match j.getStr? with
  | .ok name =>
    match Generated.styles.find? (fun e => e.1 == name) with
    | some (_, v, c, e) => pure ⟨v, c, e⟩
    | none => throw s!"unknown style {name}"
  | .error _ =>
    let a ← asArr j
    pure ⟨← asStr a[0]!, ← asStr a[1]!, ← asStr a[2]!⟩

def renderChilditer (k : String) : List (Tree Nat) → List (Tree Nat) :=
  match k with
  | "reversed" => List.reverse
  | "sorted" => fun cs => (cs.toArray.qsort (fun x y => x.label < y.label)).toList
  | "drop_odd" => List.filter (fun c => c.label % 2 == 0)
  | _ => id

/-- family `render`: rows of RenderTree and the text of `by_attr`/`__str__` for given per-node lines;
family `repr` (same entry, field `repr`): `_repr` assembly -/
def runRender (j : Json) : R (Json × Json) := do
  match j.getObjVal? "repr" with
  | .ok rj =>
    let cls ← getStr rj "classname"
    let args ← (← getArr rj "args").toList.mapM asStr
    let bl ← (← getArr rj "blacklist").toList.mapM asStr
    let attrs ← (← getArr rj "attrs").toList.mapM (fun e => do
      let p ← asArr e; pure ((← asStr p[0]!), (← asStr p[1]!)))
    let names ← (← getArr rj "names").toList.mapM asStr
    let sep ← getStr rj "sep"
    let out := Json.mkObj [("repr", toJson (nodeRepr cls args bl attrs)),
                           ("path", toJson (nodePathString sep names))]
    pure (out, out)
  | .error _ =>
  let t ← treeOfJson (← getField j "tree")
  let startL ← getNat j "start"
  let some s := findLabel startL t | throw "start not found"
  let style ← styleOf (← getField j "style")
  let ci := renderChilditer (← (getStr j "childiter" <|> pure "list"))
  let m ← getOptInt j "maxlevel"
  let la ← getArr j "lines"
  let linesTab ← la.toList.mapM (fun e => do
    let p ← asArr e
    pure ((← asNat p[0]!), (← (← asArr p[1]!).toList.mapM asStr)))
  let linesOfLabel : Nat → List String := fun l => ((linesTab.find? (fun e => e.1 == l)).map Prod.snd).getD []
  let rs := rows style ci m s
  let rowJ := fun (p : String × String × Nat) => Json.arr #[toJson p.1, toJson p.2.1, toJson p.2.2]
  let mir := rs.map (fun r => (r.pre, r.fill, r.node.label))
  let sp := Spec.rowsS style ci m s
  let text := fun (rows : List (String × String × Nat)) =>
    "\n".intercalate (rows.flatMap (fun r =>
      formatRow (⟨r.1, r.2.1, Tree.node r.2.2 []⟩ : Row Nat) (linesOfLabel r.2.2)))
  let v := Spec.renderView ci m (s.height + 1) 0 s
  let w := style.end_.length
  let depths := mir.map (fun r => if w == 0 then 0 else r.2.1.length / w)
  let decoded : Json := match Spec.treeOfDepths depths with
    | none => Json.null
    | some u => toJson (u.size)
  pure (Json.mkObj [("rows", Json.arr (mir.map rowJ).toArray), ("text", toJson (render style ci m (fun n => linesOfLabel n.label) s)),
                    ("decoded_size", decoded)],
        Json.mkObj [("rows", Json.arr (sp.map rowJ).toArray), ("text", toJson (text sp)),
                    ("decoded_size", if w == 0 then decoded else toJson v.size)])

end Anytree.Drv
