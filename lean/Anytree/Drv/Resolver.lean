import Anytree.Drv.Nav
import Anytree.Model.Resolver
import Anytree.Spec.Resolver
namespace Anytree.Drv
open Lean Anytree Tree Resolver

def rerrJ (t : Tree Nat) : RErr → Json
  | .root n => Json.mkObj [("err", Json.arr #["RootResolverError", toJson (labAt t n), Json.null])]
  | .child n x => Json.mkObj [("err", Json.arr #["ChildResolverError", toJson (labAt t n), toJson x])]
  | .plain n => Json.mkObj [("err", Json.arr #["ResolverError", toJson (labAt t n), toJson ""])]

/-- family `resolve`: a sequence of `get`/`glob` calls sharing one compiled-pattern cache -/
def runResolve (j : Json) : R (Json × Json) := do
  let t ← treeOfJson (← getField j "tree")
  let na ← getArr j "names"
  let names0 ← na.toList.mapM (fun e => do let a ← asArr e; pure ((← asNat a[0]!), (← asStr a[1]!)))
  let mut names : List (Nat × String) := names0
  let sep ← (getStr j "sep" <|> pure Generated.separator)
  let legacy ← (getBool j "legacy" <|> pure false)
  let qs ← getArr j "queries"
  let mut cache : Cache := []
  let mut ms : Array Json := #[]
  let mut ss : Array Json := #[]
  for q in qs do
    let fn ← getStr q "fn"
    if fn == "rename" then
      -- the path attribute of one node is changed between two queries: later queries see the tree as it is then
      let l ← getNat q "label"
      let v ← getStr q "name"
      names := (names.filter (fun e => e.1 != l)) ++ [(l, v)]
      ms := ms.push (Json.mkObj [("ok", Json.null)])
      ss := ss.push (Json.mkObj [("ok", Json.null)])
      continue
    let namesNow := names
    let nameOf : Nat → String := fun l => ((namesNow.find? (fun e => e.1 == l)).map Prod.snd).getD "None"
    let startL ← getNat q "start"
    let path ← getStr q "path"
    let ic ← getBool q "ignorecase"
    let relax ← getBool q "relax"
    let some a := (addrs t).find? (fun a => labAt t a == startL) | throw "start not found"
    let c : Ctx Nat := ⟨t, nameOf, sep, ic, relax⟩
    match fn with
    | "get" =>
      let r := Resolver.get c a path
      let s := Spec.getS c a path
      let toJ := fun (x : Except RErr (Option Addr)) => match x with
        | .ok none => Json.mkObj [("ok", Json.null)]
        | .ok (some b) => Json.mkObj [("ok", toJson (labAt t b))]
        | .error e => rerrJ t e
      ms := ms.push (toJ r)
      ss := ss.push (toJ s)
    | _ =>
      let (r, cache') := Resolver.glob legacy c a path cache
      cache := cache'
      ms := ms.push (match r with
        | .ok l => Json.mkObj [("ok", natsJ (l.map (labAt t)))]
        | .error e => rerrJ t e)
      ss := ss.push (Json.mkObj [("ok", natsJ ((Spec.globS c a path).map (labAt t))),
                                 ("may_raise", toJson (!relax && Spec.mayRaise c a path))])
  pure (Json.arr ms, Json.arr ss)

end Anytree.Drv
