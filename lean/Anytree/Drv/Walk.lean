import Anytree.Drv.Nav
import Anytree.Model.Walker
import Anytree.Spec.Walker
import Anytree.Model.Search
import Anytree.Spec.Search
namespace Anytree.Drv
open Lean Anytree Tree

def wnodeLab (ts : List (Tree Nat)) (x : Walker.WNode) : Nat :=
  match ts[x.1]? with
  | some t => labAt t x.2
  | none => 1000001

def walkResJ (ts : List (Tree Nat)) : Walker.Res → Json
  | .walkError => "WalkError"
  | .indexError => "IndexError"
  | .ok up c down => Json.mkObj [("up", natsJ (up.map (wnodeLab ts))), ("common", toJson (wnodeLab ts c)),
                                 ("down", natsJ (down.map (wnodeLab ts)))]

def findW (ts : List (Tree Nat)) (l : Nat) : Option Walker.WNode :=
  (List.range ts.length).findSome? (fun i =>
    match ts[i]? with
    | none => none
    | some t => ((addrs t).find? (fun a => labAt t a == l)).map (fun a => (i, a)))

/-- family `walk`: `Walker.walk(start, end)` for pairs of labels over a list of trees -/
def runWalk (j : Json) : R (Json × Json) := do
  let ta ← getArr j "trees"
  let ts ← ta.toList.mapM treeOfJson
  let pairs ← natTuples j "pairs"
  let mut ms : Array Json := #[]
  let mut ss : Array Json := #[]
  for p in pairs do
    match p with
    | [a, b] =>
      let some x := findW ts a | throw "walk: unknown label"
      let some y := findW ts b | throw "walk: unknown label"
      ms := ms.push (walkResJ ts (Walker.walk x y))
      ss := ss.push (walkResJ ts (Spec.walkS x y))
    | _ => throw "walk: pair expected"
  pure (Json.arr ms, Json.arr ss)

def searchResJ {β : Type} (f : β → Json) : Search.Res β → Json
  | .ok r => Json.mkObj [("ok", f r)]
  | .countError isMin b n => Json.mkObj [("CountError", Json.arr #[toJson isMin, toJson b, toJson n])]

/-- family `search`: queries against `anytree.search` / `anytree.cachedsearch` -/
def runSearch (j : Json) : R (Json × Json) := do
  let t ← treeOfJson (← getField j "tree")
  let startL ← getNat j "start"
  let some s := findLabel startL t | throw "start not found"
  -- attrs: [[label, name, value], …]  (value: any JSON scalar, compared by its JSON text; `null` = None)
  let aa ← getArr j "attrs"
  let attrs ← aa.toList.mapM (fun e => do
    let a ← asArr e
    pure ((← asNat a[0]!), (← asStr a[1]!), (a[2]!).compress))
  let attr : Tree Nat → String → Option String := fun n name =>
    (attrs.find? (fun e => e.1 == n.label && e.2.1 == name)).map (fun e => e.2.2)
  let qs ← getArr j "queries"
  let mut ms : Array Json := #[]
  let mut ss : Array Json := #[]
  for q in qs do
    let fn ← getStr q "fn"
    let m ← getOptInt q "maxlevel"
    let labsJ := fun (l : List (Tree Nat)) => natsJ (labelsOf l)
    let optJ' := fun (o : Option (Tree Nat)) => match o with | none => Json.null | some n => toJson n.label
    match fn with
    | "findall" =>
      let fOut ← getNatList q "filter_out"
      let stopS ← getNatList q "stop"
      let mn ← getOptInt q "mincount"
      let mx ← getOptInt q "maxcount"
      let F : Tree Nat → Bool := fun n => !fOut.contains n.label
      let S : Tree Nat → Bool := fun n => stopS.contains n.label
      ms := ms.push (searchResJ labsJ (Search.findall F S m mn mx s))
      ss := ss.push (searchResJ labsJ (Spec.findallS F S m mn mx s))
    | "find" =>
      let fOut ← getNatList q "filter_out"
      let stopS ← getNatList q "stop"
      let F : Tree Nat → Bool := fun n => !fOut.contains n.label
      let S : Tree Nat → Bool := fun n => stopS.contains n.label
      ms := ms.push (searchResJ optJ' (Search.find F S m s))
      ss := ss.push (searchResJ optJ' (Spec.findS F S m s))
    | "findall_by_attr" =>
      let name ← getStr q "name"
      let value := (← getField q "value").compress
      let mn ← getOptInt q "mincount"
      let mx ← getOptInt q "maxcount"
      -- the value `"<ANY>"` stands for an object that compares equal to everything: it selects exactly the nodes that
      -- HAVE the attribute (every stored value is read as that token for this query) - except a stored `"<VER>"`, whose own
      -- `__eq__` is asked first and raises AttributeError on a foreign operand (swallowed: no match)
      let attr : Tree Nat → String → Option String :=
        if value == "\"<ANY>\"" then (fun n nm => (attr n nm).bind (fun v => if v == "\"<VER>\"" then none else some value))
        else if value == "\"<NAN>\"" then (fun _ _ => none)     -- a value that does not equal itself selects nothing
        else attr
      ms := ms.push (searchResJ labsJ (Search.findallByAttr attr value name m mn mx s))
      ss := ss.push (searchResJ labsJ
        (Spec.findallS (fun n => attr n name == some value) (fun _ => false) m mn mx s))
    | "find_by_attr" =>
      let name ← getStr q "name"
      let value := (← getField q "value").compress
      let attr : Tree Nat → String → Option String :=
        if value == "\"<ANY>\"" then (fun n nm => (attr n nm).bind (fun v => if v == "\"<VER>\"" then none else some value))
        else if value == "\"<NAN>\"" then (fun _ _ => none)     -- a value that does not equal itself selects nothing
        else attr
      ms := ms.push (searchResJ optJ' (Search.findByAttr attr value name m s))
      ss := ss.push (searchResJ optJ' (Spec.findS (fun n => attr n name == some value) (fun _ => false) m s))
    | f => throw s!"unknown search fn {f}"
  pure (Json.arr ms, Json.arr ss)

end Anytree.Drv
