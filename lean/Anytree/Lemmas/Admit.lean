import Anytree.Lemmas.Iter
/-!
# The admitted tree, worded by positions

`Spec.admitT` is a structural recursion.  The property C06 words admission by *positions*: a node
below the start node is admitted iff its relative depth is below `maxlevel` and no node on the path
from the start node down to and including itself satisfies `stop`.  This file states that wording
(`Spec.Admitted`, over addresses) and proves that the admitted tree holds exactly the nodes at
admitted addresses, in the order of the unrestricted traversal — for pre-order, post-order and
level order.
-/
namespace Anytree
open Tree
variable {α β : Type}

namespace Spec

/-- the node at address `a` below `t` is admitted: relative depth below `maxlevel`, and no node on the
path from the start node down to and including itself satisfies `stop` -/
def Admitted (S : Tree α → Bool) (m : Option Int) (t : Tree α) (a : Addr) : Prop :=
  (∀ k, m = some k → (a.length : Int) < k) ∧
  ∀ b, b <+: a → ∀ u, sub t b = some u → S u = false

/-- Boolean version of `Admitted` (the prefixes of `a` are `a.take 0 … a.take a.length`) -/
def admittedB (S : Tree α → Bool) (m : Option Int) (t : Tree α) (a : Addr) : Bool :=
  (match m with
   | none => true
   | some k => decide ((a.length : Int) < k)) &&
  (List.range (a.length + 1)).all (fun n =>
    match sub t (a.take n) with
    | none => true
    | some u => !S u)

theorem admittedB_iff (S : Tree α → Bool) (m : Option Int) (t : Tree α) (a : Addr) :
    admittedB S m t a = true ↔ Admitted S m t a := by
  unfold admittedB Admitted
  rw [Bool.and_eq_true, List.all_eq_true]
  constructor
  · rintro ⟨h1, h2⟩
    refine ⟨?_, ?_⟩
    · intro k hk; subst hk; simpa using h1
    · intro b hb u hu
      have hlen := hb.length_le
      have h := h2 b.length (List.mem_range.mpr (by omega))
      rw [← List.prefix_iff_eq_take.mp hb, hu] at h
      simpa using h
  · rintro ⟨h1, h2⟩
    refine ⟨?_, ?_⟩
    · cases m with
      | none => rfl
      | some k => simpa using h1 k rfl
    · intro n _
      cases hu : sub t (a.take n) with
      | none => rfl
      | some u => simp [h2 _ (List.take_prefix n a) u hu]

instance (S : Tree α → Bool) (m : Option Int) (t : Tree α) (a : Addr) :
    Decidable (Admitted S m t a) :=
  decidable_of_iff _ (admittedB_iff S m t a)

theorem admittedB_eq_decide (S : Tree α → Bool) (m : Option Int) (t : Tree α) (a : Addr) :
    admittedB S m t a = decide (Admitted S m t a) := by
  rw [Bool.eq_iff_iff, admittedB_iff, decide_eq_true_iff]

/-! ## unfolding `Admitted` along the address -/

theorem Admitted.not_cut {S : Tree α → Bool} {m : Option Int} {t : Tree α} {a : Addr}
    (h : Admitted S m t a) : cut m = false := by
  cases m with
  | none => rfl
  | some k =>
    have := h.1 k rfl
    simp only [cut, decide_eq_false_iff_not]
    omega

theorem Admitted.not_stop_start {S : Tree α → Bool} {m : Option Int} {t : Tree α} {a : Addr}
    (h : Admitted S m t a) : S t = false :=
  h.2 [] (List.nil_prefix) t rfl

theorem admitted_nil (S : Tree α → Bool) (m : Option Int) (t : Tree α) :
    Admitted S m t [] ↔ cut m = false ∧ S t = false := by
  constructor
  · intro h; exact ⟨h.not_cut, h.not_stop_start⟩
  · rintro ⟨hc, hs⟩
    refine ⟨?_, ?_⟩
    · intro k hk; subst hk
      simpa [cut] using hc
    · intro b hb u hu
      have : b = [] := List.prefix_nil.mp hb
      subst this
      simp only [sub, Option.some.injEq] at hu
      subst hu; exact hs

theorem sub_cons_of_kid (t : Tree α) (i : Nat) (is : Addr) (c : Tree α) (hc : t.kids[i]? = some c) :
    sub t (i :: is) = sub c is := by
  cases t with
  | node x cs =>
    simp only [kids_node] at hc
    simp only [sub, hc]

/-- one step down: the child at index `i` is `c` -/
theorem admitted_cons (S : Tree α → Bool) (m : Option Int) (t : Tree α) (i : Nat) (is : Addr)
    (c : Tree α) (hc : t.kids[i]? = some c) :
    Admitted S m t (i :: is) ↔ S t = false ∧ Admitted S (lower m) c is := by
  constructor
  · intro h
    refine ⟨h.not_stop_start, ?_, ?_⟩
    · intro k' hk'
      cases m with
      | none => simp [lower] at hk'
      | some k =>
        simp only [lower, Option.map_some, Option.some.injEq] at hk'
        have := h.1 k rfl
        simp only [List.length_cons] at this
        omega
    · intro b hb u hu
      apply h.2 (i :: b) ((List.prefix_cons_inj i).mpr hb) u
      rw [sub_cons_of_kid t i b c hc]; exact hu
  · rintro ⟨hs, h1, h2⟩
    refine ⟨?_, ?_⟩
    · intro k hk; subst hk
      have := h1 (k - 1) (by simp [lower])
      simp only [List.length_cons]
      omega
    · intro b hb u hu
      cases b with
      | nil => simp only [sub, Option.some.injEq] at hu; subst hu; exact hs
      | cons j b' =>
        rw [List.cons_prefix_cons] at hb
        obtain ⟨rfl, hb⟩ := hb
        rw [sub_cons_of_kid t j b' c hc] at hu
        exact h2 b' hb u hu

/-! ## stop prunes a whole subtree, maxlevel everything from its depth on -/

/-- a node that satisfies `stop` takes its whole subtree with it -/
theorem not_admitted_of_stop (S : Tree α → Bool) (m : Option Int) (t : Tree α) (a : Addr)
    (u : Tree α) (hu : sub t a = some u) (hs : S u = true) (a' : Addr) (h : a <+: a') :
    ¬ Admitted S m t a' := by
  intro hA
  have := hA.2 a h u hu
  rw [hs] at this; cases this

/-- nothing at relative depth `≥ maxlevel` is admitted -/
theorem not_admitted_of_depth (S : Tree α → Bool) (k : Int) (t : Tree α) (a : Addr)
    (h : k ≤ (a.length : Int)) : ¬ Admitted S (some k) t a := by
  intro hA
  have := hA.1 k rfl
  omega

/-- admission is inherited upwards: every node on the path to an admitted node is admitted -/
theorem Admitted.of_prefix {S : Tree α → Bool} {m : Option Int} {t : Tree α} {a b : Addr}
    (h : Admitted S m t a) (hb : b <+: a) : Admitted S m t b := by
  refine ⟨?_, ?_⟩
  · intro k hk
    have := h.1 k hk
    have := hb.length_le
    omega
  · intro c hc u hu
    exact h.2 c (hc.trans hb) u hu

/-! ## addresses -/

theorem mem_addrs (t : Tree α) : ∀ a : Addr, a ∈ addrs t ↔ (sub t a).isSome = true := by
  induction t using Tree.rec
    (motive_2 := fun cs => ∀ (i : Nat) (a : Addr), a ∈ addrsL i cs ↔
      ∃ j is c, a = (i + j) :: is ∧ cs[j]? = some c ∧ (sub c is).isSome = true) with
  | node x cs ih =>
    intro a
    simp only [addrs, List.mem_cons]
    cases a with
    | nil => simp [sub]
    | cons j is =>
      simp only [reduceCtorEq, false_or, ih 0]
      constructor
      · rintro ⟨j', is', c, h, hc, hs⟩
        simp only [Nat.zero_add, List.cons.injEq] at h
        obtain ⟨rfl, rfl⟩ := h
        rw [sub_cons_of_kid (node x cs) j is c (by simpa using hc)]; exact hs
      · intro h
        cases hc : cs[j]? with
        | none => simp [sub, hc] at h
        | some c =>
          refine ⟨j, is, c, by simp, hc, ?_⟩
          rw [sub_cons_of_kid (node x cs) j is c (by simpa using hc)] at h; exact h
  | nil => rename_i i a; simp [addrsL]
  | cons c cs ihc ihcs =>
    rename_i i a
    simp only [addrsL, List.mem_append, List.mem_map, ihc, ihcs]
    constructor
    · rintro (⟨is, hs, rfl⟩ | ⟨j, is, c', rfl, hc', hs⟩)
      · exact ⟨0, is, c, by simp, by simp, hs⟩
      · exact ⟨j + 1, is, c', by simp; omega, by simpa using hc', hs⟩
    · rintro ⟨j, is, c', rfl, hc', hs⟩
      cases j with
      | zero =>
        simp only [List.getElem?_cons_zero, Option.some.injEq] at hc'
        subst hc'
        exact Or.inl ⟨is, hs, by simp⟩
      | succ j =>
        exact Or.inr ⟨j, is, c', by simp; omega, by simpa using hc', hs⟩

/-! ## pre-order -/

/-- **Pre-order = unrestricted pre-order filtered by admission.**  (In the induction, the statement
for a child list is generalised over the index offset; `P` and `g` stand for the admission test and
the node lookup of the parent.) -/
theorem optPre_admitT_eq (S : Tree α → Bool) (t : Tree α) :
    ∀ m : Option Int, optPre (admitT S m t) =
      ((addrs t).filter (admittedB S m t)).filterMap (sub t) := by
  induction t using Tree.rec
    (motive_2 := fun cs => ∀ (m : Option Int) (i : Nat) (P : Addr → Bool)
        (g : Addr → Option (Tree α)),
      (∀ j is c, cs[j]? = some c →
        P ((i + j) :: is) = admittedB S m c is ∧ g ((i + j) :: is) = sub c is) →
      Tree.preL (admitL S m cs) = ((addrsL i cs).filter P).filterMap g) with
  | node x cs ih =>
    intro m
    by_cases hok : cut m = false ∧ S (node x cs) = false
    · obtain ⟨hc, hs⟩ := hok
      have h0 : admittedB S m (node x cs) [] = true :=
        (admittedB_iff _ _ _ _).mpr ((admitted_nil _ _ _).mpr ⟨hc, hs⟩)
      rw [admitT_of_ok S m _ hc hs]
      simp only [optPre, Tree.pre, kids_node, addrs, List.filter_cons, h0, if_true,
        List.filterMap_cons, sub]
      congr 1
      apply ih (lower m) 0
      intro j is c hj
      rw [Nat.zero_add]
      refine ⟨?_, sub_cons_of_kid (node x cs) j is c (by simpa using hj)⟩
      rw [Bool.eq_iff_iff, admittedB_iff, admittedB_iff,
        admitted_cons S m (node x cs) j is c (by simpa using hj)]
      simp [hs]
    · have hnone : admitT S m (node x cs) = none := by
        cases hc : cut m with
        | true => exact admitT_of_cut S m _ hc
        | false =>
          cases hs : S (node x cs) with
          | true => exact admitT_of_stop S m _ hs
          | false => exact absurd ⟨hc, hs⟩ hok
      have hnil : (addrs (node x cs)).filter (admittedB S m (node x cs)) = [] := by
        rw [List.filter_eq_nil_iff]
        intro a _ ha
        have hA := (admittedB_iff _ _ _ _).mp ha
        exact hok ⟨hA.not_cut, hA.not_stop_start⟩
      rw [hnone, hnil]; rfl
  | nil => rename_i m i P g h; simp [admitL, Tree.preL, addrsL]
  | cons c cs ihc ihcs =>
    rename_i m i P g h
    have hP : (P ∘ fun is => i :: is) = admittedB S m c := by
      funext is; exact (h 0 is c (by simp)).1
    have hg : (g ∘ fun is => i :: is) = sub c := by
      funext is; exact (h 0 is c (by simp)).2
    have h2 := ihcs m (i + 1) P g (by
      intro j is c' hj
      have := h (j + 1) is c' (by simpa using hj)
      rwa [show i + (j + 1) = i + 1 + j by omega] at this)
    simp only [admitL, Tree.preL_append, addrsL, List.filter_append, List.filterMap_append,
      List.filter_map, List.filterMap_map, hP, hg, ← h2, ← ihc m]
    congr 1
    cases admitT S m c <;> simp [optPre, Tree.preL]

/-! ## post-order and level order, by positions

`addrTree t` is `t` relabelled with addresses; its traversals are the *unrestricted* traversals of
the positions of `t`.  `Tracks … p P g` says that below the address prefix `p` the test `P` is the
admission test of `t` and `g` its node lookup. -/

def Tracks (S : Tree α → Bool) (m : Option Int) (t : Tree α) (p : Addr) (P : Addr → Bool)
    (g : Addr → Option (Tree α)) : Prop :=
  ∀ a, P (p ++ a) = admittedB S m t a ∧ g (p ++ a) = sub t a

theorem tracks_self (S : Tree α → Bool) (m : Option Int) (t : Tree α) :
    Tracks S m t [] (admittedB S m t) (sub t) := fun _ => ⟨rfl, rfl⟩

theorem Tracks.child {S : Tree α → Bool} {m : Option Int} {t : Tree α} {p : Addr}
    {P : Addr → Bool} {g : Addr → Option (Tree α)} (h : Tracks S m t p P g) (hs : S t = false)
    (j : Nat) (c : Tree α) (hc : t.kids[j]? = some c) : Tracks S (lower m) c (p ++ [j]) P g := by
  intro a
  have := h (j :: a)
  rw [List.append_assoc, List.singleton_append]
  refine ⟨this.1.trans ?_, this.2.trans (sub_cons_of_kid t j a c hc)⟩
  rw [Bool.eq_iff_iff, admittedB_iff, admittedB_iff, admitted_cons S m t j a c hc]
  simp [hs]

theorem Tracks.root {S : Tree α → Bool} {m : Option Int} {t : Tree α} {p : Addr}
    {P : Addr → Bool} {g : Addr → Option (Tree α)} (h : Tracks S m t p P g)
    (hc : cut m = false) (hs : S t = false) : P p = true ∧ g p = some t := by
  have := h []
  rw [List.append_nil] at this
  exact ⟨this.1.trans ((admittedB_iff _ _ _ _).mpr ((admitted_nil _ _ _).mpr ⟨hc, hs⟩)), this.2⟩

/-- below a start node that is not admitted, nothing is -/
theorem Tracks.filter_nil {S : Tree α → Bool} {m : Option Int} {t : Tree α} {p : Addr}
    {P : Addr → Bool} {g : Addr → Option (Tree α)} (h : Tracks S m t p P g)
    (hno : ¬ (cut m = false ∧ S t = false)) (l : List Addr) (hl : ∀ q ∈ l, p <+: q) :
    l.filter P = [] := by
  rw [List.filter_eq_nil_iff]
  intro q hq hP
  obtain ⟨a, rfl⟩ := hl q hq
  rw [(h a).1] at hP
  have hA := (admittedB_iff _ _ _ _).mp hP
  exact hno ⟨hA.not_cut, hA.not_stop_start⟩

theorem admitT_none_of_not_ok (S : Tree α → Bool) (m : Option Int) (t : Tree α)
    (hno : ¬ (cut m = false ∧ S t = false)) : admitT S m t = none := by
  cases hc : cut m with
  | true => exact admitT_of_cut S m _ hc
  | false =>
    cases hs : S t with
    | true => exact admitT_of_stop S m _ hs
    | false => exact absurd ⟨hc, hs⟩ hno

theorem post_addrTreeAux_prefix (t : Tree α) :
    ∀ (p : Addr), ∀ q ∈ post (addrTreeAux p t), p <+: q := by
  induction t using Tree.rec
    (motive_2 := fun cs => ∀ (p : Addr) (i : Nat), ∀ q ∈ Tree.postL (addrTreeAuxL p i cs),
      p <+: q) with
  | node x cs ih =>
    intro p q hq
    simp only [addrTreeAux, post, List.mem_append, List.mem_singleton] at hq
    rcases hq with hq | rfl
    · exact ih p 0 q hq
    · exact List.prefix_refl _
  | nil => rename_i p i q hq; simp [addrTreeAuxL, Tree.postL] at hq
  | cons c cs ihc ihcs =>
    rename_i p i q hq
    simp only [addrTreeAuxL, Tree.postL, List.mem_append] at hq
    rcases hq with hq | hq
    · exact (List.prefix_append p [i]).trans (ihc (p ++ [i]) q hq)
    · exact ihcs p (i + 1) q hq

theorem atDepth_addrTreeAux_prefix (t : Tree α) :
    ∀ (k : Nat) (p : Addr), ∀ q ∈ atDepth k (addrTreeAux p t), p <+: q := by
  induction t using Tree.rec
    (motive_2 := fun cs => ∀ (k : Nat) (p : Addr) (i : Nat),
      ∀ q ∈ atDepthL k (addrTreeAuxL p i cs), p <+: q) with
  | node x cs ih =>
    intro k p q hq
    cases k with
    | zero =>
      simp only [addrTreeAux, atDepth, List.mem_singleton] at hq
      subst hq; exact List.prefix_refl _
    | succ k =>
      simp only [addrTreeAux, atDepth] at hq
      exact ih k p 0 q hq
  | nil => rename_i k p i q hq; simp [addrTreeAuxL, atDepthL] at hq
  | cons c cs ihc ihcs =>
    rename_i k p i q hq
    simp only [addrTreeAuxL, atDepthL, List.mem_append] at hq
    rcases hq with hq | hq
    · exact (List.prefix_append p [i]).trans (ihc k (p ++ [i]) q hq)
    · exact ihcs k p (i + 1) q hq

/-- post-order of the admitted tree = unrestricted post-order of the positions, filtered by
admission (general form) -/
theorem optPost_admitT_aux (S : Tree α → Bool) (t : Tree α) :
    ∀ (m : Option Int) (p : Addr) (P : Addr → Bool) (g : Addr → Option (Tree α)),
      Tracks S m t p P g →
      optPost (admitT S m t) = ((post (addrTreeAux p t)).filter P).filterMap g := by
  induction t using Tree.rec
    (motive_2 := fun cs => ∀ (m : Option Int) (p : Addr) (i : Nat) (P : Addr → Bool)
        (g : Addr → Option (Tree α)),
      (∀ j c, cs[j]? = some c → Tracks S m c (p ++ [i + j]) P g) →
      Tree.postL (admitL S m cs) = ((Tree.postL (addrTreeAuxL p i cs)).filter P).filterMap g) with
  | node x cs ih =>
    intro m p P g h
    by_cases hok : cut m = false ∧ S (node x cs) = false
    · obtain ⟨hc, hs⟩ := hok
      obtain ⟨hP, hg⟩ := h.root hc hs
      rw [admitT_of_ok S m _ hc hs]
      simp only [optPost, Tree.post, kids_node, addrTreeAux, List.filter_append,
        List.filterMap_append, List.filter_cons, hP, if_true, List.filter_nil,
        List.filterMap_cons, hg, List.filterMap_nil]
      congr 1
      apply ih (lower m) p 0 P g
      intro j c hj
      rw [Nat.zero_add]
      exact h.child hs j c (by simpa using hj)
    · rw [admitT_none_of_not_ok S m _ hok,
        h.filter_nil hok _ (post_addrTreeAux_prefix (node x cs) p)]
      rfl
  | nil => rename_i m p i P g h; simp [admitL, Tree.postL, addrTreeAuxL]
  | cons c cs ihc ihcs =>
    rename_i m p i P g h
    have h1 := ihc m (p ++ [i]) P g (h 0 c (by simp))
    have h2 := ihcs m p (i + 1) P g (by
      intro j c' hj
      have := h (j + 1) c' (by simpa using hj)
      rwa [show i + (j + 1) = i + 1 + j by omega] at this)
    simp only [admitL, Tree.postL_append, addrTreeAuxL, Tree.postL, List.filter_append,
      List.filterMap_append, ← h1, ← h2]
    congr 1
    cases admitT S m c <;> simp [optPost, Tree.postL]

def optAtDepth (k : Nat) : Option (Tree β) → List β
  | none => []
  | some t => atDepth k t

/-- one level of the admitted tree = that level of the positions, filtered by admission -/
theorem optAtDepth_admitT_aux (S : Tree α → Bool) (t : Tree α) :
    ∀ (k : Nat) (m : Option Int) (p : Addr) (P : Addr → Bool) (g : Addr → Option (Tree α)),
      Tracks S m t p P g →
      optAtDepth k (admitT S m t) = ((atDepth k (addrTreeAux p t)).filter P).filterMap g := by
  induction t using Tree.rec
    (motive_2 := fun cs => ∀ (k : Nat) (m : Option Int) (p : Addr) (i : Nat) (P : Addr → Bool)
        (g : Addr → Option (Tree α)),
      (∀ j c, cs[j]? = some c → Tracks S m c (p ++ [i + j]) P g) →
      atDepthL k (admitL S m cs) = ((atDepthL k (addrTreeAuxL p i cs)).filter P).filterMap g) with
  | node x cs ih =>
    intro k m p P g h
    by_cases hok : cut m = false ∧ S (node x cs) = false
    · obtain ⟨hc, hs⟩ := hok
      obtain ⟨hP, hg⟩ := h.root hc hs
      rw [admitT_of_ok S m _ hc hs]
      cases k with
      | zero => simp [optAtDepth, atDepth, addrTreeAux, hP, hg]
      | succ k =>
        simp only [optAtDepth, atDepth, kids_node, addrTreeAux]
        apply ih k (lower m) p 0 P g
        intro j c hj
        rw [Nat.zero_add]
        exact h.child hs j c (by simpa using hj)
    · rw [admitT_none_of_not_ok S m _ hok,
        h.filter_nil hok _ (atDepth_addrTreeAux_prefix (node x cs) k p)]
      rfl
  | nil => rename_i k m p i P g h; simp [admitL, atDepthL, addrTreeAuxL]
  | cons c cs ihc ihcs =>
    rename_i k m p i P g h
    have h1 := ihc k m (p ++ [i]) P g (h 0 c (by simp))
    have h2 := ihcs k m p (i + 1) P g (by
      intro j c' hj
      have := h (j + 1) c' (by simpa using hj)
      rwa [show i + (j + 1) = i + 1 + j by omega] at this)
    simp only [admitL, Tree.atDepthL_append, addrTreeAuxL, atDepthL, List.filter_append,
      List.filterMap_append, ← h1, ← h2]
    congr 1
    cases admitT S m c <;> simp [optAtDepth, atDepthL]

/-! ### heights -/

theorem height_addrTreeAux (t : Tree α) : ∀ p : Addr, height (addrTreeAux p t) = height t := by
  induction t using Tree.rec
    (motive_2 := fun cs => ∀ (p : Addr) (i : Nat),
      heightL (addrTreeAuxL p i cs) = heightL cs) with
  | node x cs ih => intro p; simp only [addrTreeAux, height]; exact ih p 0
  | nil => rename_i p i; simp [addrTreeAuxL, heightL]
  | cons c cs ihc ihcs => rename_i p i; simp [addrTreeAuxL, heightL, ihc, ihcs]

theorem height_admitT_le (S : Tree α → Bool) (t : Tree α) :
    ∀ (m : Option Int) (A : Tree (Tree α)), admitT S m t = some A → height A ≤ height t := by
  induction t using Tree.rec
    (motive_2 := fun cs => ∀ m : Option Int, heightL (admitL S m cs) ≤ heightL cs) with
  | node x cs ih =>
    intro m A hA
    simp only [admitT] at hA
    split at hA
    · cases hA
    · simp only [Option.some.injEq] at hA
      subst hA
      simpa [height] using ih (lower m)
  | nil => rename_i m; simp [admitL, heightL]
  | cons c cs ihc ihcs =>
    rename_i m
    have h2 := ihcs m
    simp only [admitL, Tree.heightL_append, heightL]
    cases hA : admitT S m c with
    | none => simp only [heightL]; omega
    | some A =>
      have := ihc m A hA
      simp only [heightL]; omega

theorem atDepth_of_height_lt (t : Tree β) : ∀ k, height t < k → atDepth k t = [] := by
  induction t using Tree.rec
    (motive_2 := fun cs => ∀ k, heightL cs ≤ k → atDepthL k cs = []) with
  | node x cs ih =>
    intro k hk
    cases k with
    | zero => omega
    | succ k => simp only [atDepth]; exact ih k (by simp only [height] at hk; omega)
  | nil => rename_i k hk; simp [atDepthL]
  | cons c cs ihc ihcs =>
    rename_i k hk
    simp only [heightL] at hk
    simp only [atDepthL, ihc k (by omega), ihcs k (by omega), List.append_nil]

theorem flatMap_range_extend (f : Nat → List β) (n n' : Nat) (hn : n ≤ n')
    (hf : ∀ k, n ≤ k → f k = []) : (List.range n').flatMap f = (List.range n).flatMap f := by
  induction n' with
  | zero => have : n = 0 := by omega
            subst this; rfl
  | succ n' ih =>
    by_cases h : n = n' + 1
    · subst h; rfl
    · rw [List.range_succ, List.flatMap_append, ih (by omega)]
      simp [hf n' (by omega)]

/-- level order of the admitted tree = unrestricted level order of the positions, filtered by
admission -/
theorem optLevels_admitT_eq (S : Tree α → Bool) (m : Option Int) (t : Tree α) :
    (optLevels (admitT S m t)).flatten =
      ((levelOrder (addrTree t)).filter (admittedB S m t)).filterMap (sub t) := by
  have key := fun k => optAtDepth_admitT_aux S t k m [] _ _ (tracks_self S m t)
  have hR : ((levelOrder (addrTree t)).filter (admittedB S m t)).filterMap (sub t) =
      (List.range (height t + 1)).flatMap (fun k => optAtDepth k (admitT S m t)) := by
    simp only [levelOrder, levels, addrTree, height_addrTreeAux, key, ← List.flatMap_def,
      List.filter_flatMap, List.filterMap_flatMap]
  rw [hR]
  cases hA : admitT S m t with
  | none => simp [optLevels, optAtDepth]
  | some A =>
    simp only [optLevels, levels, optAtDepth, ← List.flatMap_def]
    symm
    apply flatMap_range_extend
    · have := height_admitT_le S t m A hA; omega
    · intro k hk; exact atDepth_of_height_lt A k (by omega)

/-- post-order of the admitted tree = unrestricted post-order of the positions, filtered by
admission -/
theorem optPost_admitT_eq (S : Tree α → Bool) (m : Option Int) (t : Tree α) :
    optPost (admitT S m t) =
      ((post (addrTree t)).filter (admittedB S m t)).filterMap (sub t) :=
  optPost_admitT_aux S t m [] _ _ (tracks_self S m t)

/-! ## without restriction: the admitted tree is the whole tree -/

theorem admitT_unrestricted (t : Tree α) :
    admitT (fun _ => false) none t = some (decorate t) := by
  induction t using Tree.rec
    (motive_2 := fun cs => admitL (fun _ => false) none cs = decorateL cs) with
  | node a cs ih => simp [admitT, cut, lower, decorate] at ih ⊢; exact ih
  | nil => simp [admitL, decorateL]
  | cons c cs ihc ihcs => simp [admitL, decorateL, ihc, ihcs]

theorem admittedB_unrestricted (t : Tree α) (a : Addr) :
    admittedB (fun _ => false) none t a = true := by
  rw [admittedB_iff]
  exact ⟨fun k hk => (by cases hk), fun _ _ _ _ => rfl⟩

theorem filter_admittedB_unrestricted (t : Tree α) (l : List Addr) :
    l.filter (admittedB (fun _ => false) none t) = l := by
  rw [List.filter_eq_self]; intro a _; exact admittedB_unrestricted t a

/-- the nodes at all positions, pre-order = unrestricted pre-order of node objects -/
theorem pre_decorate_eq (t : Tree α) : pre (decorate t) = (addrs t).filterMap (sub t) := by
  have := optPre_admitT_eq (fun _ => false) t none
  rwa [admitT_unrestricted, filter_admittedB_unrestricted] at this

theorem post_decorate_eq (t : Tree α) :
    post (decorate t) = (post (addrTree t)).filterMap (sub t) := by
  have := optPost_admitT_eq (fun _ => false) none t
  rwa [admitT_unrestricted, filter_admittedB_unrestricted] at this

theorem levelOrder_decorate_eq (t : Tree α) :
    levelOrder (decorate t) = (levelOrder (addrTree t)).filterMap (sub t) := by
  have := optLevels_admitT_eq (fun _ => false) none t
  rwa [admitT_unrestricted, filter_admittedB_unrestricted] at this

/-! ## sublists of the unrestricted traversals -/

theorem optPre_sublist (S : Tree α → Bool) (m : Option Int) (t : Tree α) :
    (optPre (admitT S m t)).Sublist (pre (decorate t)) := by
  rw [optPre_admitT_eq, pre_decorate_eq]
  exact List.Sublist.filterMap _ List.filter_sublist

theorem optPost_sublist (S : Tree α → Bool) (m : Option Int) (t : Tree α) :
    (optPost (admitT S m t)).Sublist (post (decorate t)) := by
  rw [optPost_admitT_eq, post_decorate_eq]
  exact List.Sublist.filterMap _ List.filter_sublist

theorem optLevels_sublist (S : Tree α → Bool) (m : Option Int) (t : Tree α) :
    ((optLevels (admitT S m t)).flatten).Sublist (levelOrder (decorate t)) := by
  rw [optLevels_admitT_eq, levelOrder_decorate_eq]
  exact List.Sublist.filterMap _ List.filter_sublist

end Spec
end Anytree
