import Anytree.Spec.Attr
/-! # Lemmas about model D (attribute forwarding) used by C20 -/
namespace Anytree
namespace Attr
variable {V : Type}

theorem dictGet_nil (name : String) : dictGet ([] : List (String × V)) name = none := rfl

theorem dictGet_cons (e : String × V) (d : List (String × V)) (name : String) :
    dictGet (e :: d) name = if e.1 == name then some e.2 else dictGet d name := by
  unfold dictGet
  by_cases h : (e.1 == name) = true
  · simp [h]
  · simp [h]

theorem dictGet_map_put_self (d : List (String × V)) (name : String) (v : V)
    (hany : d.any (fun e => e.1 == name) = true) :
    dictGet (d.map (fun e => if e.1 == name then (name, v) else e)) name = some v := by
  induction d with
  | nil => simp at hany
  | cons e d ih =>
    rw [List.map_cons, dictGet_cons]
    by_cases he : (e.1 == name) = true
    · simp [he]
    · have hany' : d.any (fun e => e.1 == name) = true := by
        simpa [List.any_cons, he] using hany
      simp only [he]
      simpa [he] using ih hany'

theorem dictGet_append_put_self (d : List (String × V)) (name : String) (v : V)
    (hany : d.any (fun e => e.1 == name) = false) :
    dictGet (d ++ [(name, v)]) name = some v := by
  induction d with
  | nil => simp [dictGet_cons]
  | cons e d ih =>
    rw [List.cons_append, dictGet_cons]
    simp only [List.any_cons, Bool.or_eq_false_iff] at hany
    simp only [hany.1]
    exact ih hany.2

/-- reading back the key just written -/
theorem dictGet_dictPut_self (d : List (String × V)) (name : String) (v : V) :
    dictGet (dictPut d name v) name = some v := by
  unfold dictPut
  by_cases hany : d.any (fun e => e.1 == name) = true
  · rw [if_pos hany]; exact dictGet_map_put_self d name v hany
  · rw [if_neg hany]
    exact dictGet_append_put_self d name v (Bool.eq_false_iff.2 hany)

/-- every entry of the updated dictionary is an old entry or the new one -/
theorem mem_dictPut {d : List (String × V)} {name : String} {v : V} {e : String × V}
    (he : e ∈ dictPut d name v) : e ∈ d ∨ e = (name, v) := by
  unfold dictPut at he
  by_cases hany : d.any (fun e => e.1 == name) = true
  · rw [if_pos hany] at he
    obtain ⟨a, ha, hae⟩ := List.mem_map.1 he
    by_cases hk : (a.1 == name) = true
    · rw [if_pos hk] at hae; exact Or.inr hae.symm
    · rw [if_neg hk] at hae; exact Or.inl (hae ▸ ha)
  · rw [if_neg hany] at he
    rcases List.mem_append.1 he with h | h
    · exact Or.inl h
    · exact Or.inr (by simpa using h)

/-- a dictionary all of whose keys are in `L` has no entry for a name outside `L` -/
theorem dictGet_none_of_keys (d : List (String × V)) (L : List String) (name : String)
    (hd : ∀ e ∈ d, L.contains e.1 = true) (hn : L.contains name = false) :
    dictGet d name = none := by
  induction d with
  | nil => rfl
  | cons e d ih =>
    rw [dictGet_cons]
    have hne : (e.1 == name) = false := by
      cases hk : (e.1 == name) with
      | false => rfl
      | true =>
        have : e.1 = name := by simpa using hk
        have h1 := hd e (List.mem_cons_self ..)
        rw [this, hn] at h1
        exact absurd h1 (by simp)
    simp only [hne]
    exact ih (fun e' he' => hd e' (List.mem_cons_of_mem _ he'))

/-- the heap after storing `name := v` in object `i`'s own dictionary -/
def upd (h : Heap V) (i : Nat) (name : String) (v : V) : Heap V :=
  fun j => if j = i then { h i with dict := dictPut (h i).dict name v } else h j

theorem upd_target (h : Heap V) (i : Nat) (name : String) (v : V) (j : Nat) :
    (upd h i name v j).target = (h j).target := by
  unfold upd
  by_cases hj : j = i
  · subst hj; simp
  · simp [hj]

theorem upd_self_dict (h : Heap V) (i : Nat) (name : String) (v : V) :
    (upd h i name v i).dict = dictPut (h i).dict name v := by
  simp [upd]

theorem upd_other (h : Heap V) (i : Nat) (name : String) (v : V) (j : Nat) (hj : j ≠ i) :
    upd h i name v j = h j := by
  simp [upd, hj]

theorem setattr_zero (h : Heap V) (i : Nat) (name : String) (v : V) :
    setattr h 0 i name v = none := rfl

theorem setattr_succ_plain (h : Heap V) (fuel i : Nat) (name : String) (v : V)
    (ht : (h i).target = none) : setattr h (fuel + 1) i name v = some (upd h i name v) := by
  simp only [setattr, ht]
  congr 1; funext j; simp only [upd]
  by_cases hj : j = i <;> simp [hj, ht]

theorem setattr_succ_local (h : Heap V) (fuel i t : Nat) (name : String) (v : V)
    (ht : (h i).target = some t) (hl : Generated.symlinkSetattrLocal.contains name = true) :
    setattr h (fuel + 1) i name v = some (upd h i name v) := by
  simp only [setattr, ht]; rw [if_pos hl]
  congr 1; funext j; simp only [upd]
  by_cases hj : j = i <;> simp [hj, ht]

theorem setattr_succ_fwd (h : Heap V) (fuel i t : Nat) (name : String) (v : V)
    (ht : (h i).target = some t) (hl : Generated.symlinkSetattrLocal.contains name = false) :
    setattr h (fuel + 1) i name v = setattr h fuel t name v := by
  simp only [setattr, ht]; rw [if_neg (by rw [hl]; simp)]

end Attr

namespace Spec
open Attr
variable {V : Type}

theorem resolve_congr (h h' : Heap V) (ht : ∀ j, (h' j).target = (h j).target) (fuel i : Nat) :
    resolve h' fuel i = resolve h fuel i := by
  induction fuel generalizing i with
  | zero => rfl
  | succ n ih =>
    simp only [resolve, ht i]
    cases (h i).target with
    | none => rfl
    | some t => exact ih t

theorem isLocal_false {name : String} (hn : isLocal name = false) :
    Generated.symlinkSetattrLocal.contains name = false ∧
    Generated.symlinkGetattrLocal.contains name = false ∧
    Generated.symlinkGetattrGuarded.contains name = false := by
  unfold isLocal at hn
  simp only [Bool.or_eq_false_iff] at hn
  exact ⟨hn.1.1, hn.1.2, hn.2⟩

theorem linkClean_upd (h : Heap V) (hc : LinkClean h) (i : Nat) (name : String) (v : V)
    (hok : (h i).target ≠ none → Generated.symlinkSetattrLocal.contains name = true) :
    LinkClean (upd h i name v) := by
  intro j hj e he
  rw [upd_target] at hj
  by_cases hji : j = i
  · subst hji
    rw [upd_self_dict] at he
    rcases mem_dictPut he with h1 | h1
    · exact hc j hj e h1
    · rw [h1]; exact hok hj
  · rw [upd_other _ _ _ _ _ hji] at he
    exact hc j hj e he

end Spec
end Anytree
