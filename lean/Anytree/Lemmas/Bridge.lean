import Anytree.Model.Bridge
import Anytree.Lemmas.Copy
import Anytree.Lemmas.Nav
/-!
Helper lemmas for the bridge from model A (link maps) to model B (rose trees):
`Forest.toTree s fuel r` faithfully represents the forest state below `r`.
-/
namespace Anytree
open Tree

namespace Forest

/-- follow `s.children` by index from `r` -/
def nodeAt (s : Forest) : Nat → Addr → Option Nat
  | r, [] => some r
  | r, i :: is => ((s.children r)[i]?).bind (fun c => nodeAt s c is)

@[simp] theorem nodeAt_nil (s : Forest) (r : Nat) : s.nodeAt r [] = some r := rfl
theorem nodeAt_cons (s : Forest) (r i : Nat) (is : Addr) :
    s.nodeAt r (i :: is) = ((s.children r)[i]?).bind (fun c => s.nodeAt c is) := rfl

theorem nodeAt_singleton (s : Forest) (r i : Nat) : s.nodeAt r [i] = (s.children r)[i]? := by
  rw [nodeAt_cons]
  cases (s.children r)[i]? <;> rfl

theorem nodeAt_append (s : Forest) : ∀ (a b : Addr) (r : Nat),
    s.nodeAt r (a ++ b) = (s.nodeAt r a).bind (fun p => s.nodeAt p b) := by
  intro a
  induction a with
  | nil => intro b r; simp
  | cons i is ih =>
    intro b r
    rw [List.cons_append, nodeAt_cons, nodeAt_cons]
    cases (s.children r)[i]? with
    | none => rfl
    | some c => simp only [Option.bind_some]; exact ih b c

theorem nodeAt_concat (s : Forest) (a : Addr) (i r : Nat) :
    s.nodeAt r (a ++ [i]) = (s.nodeAt r a).bind (fun p => (s.children p)[i]?) := by
  rw [nodeAt_append]
  congr 1
  funext p
  exact nodeAt_singleton s p i

/-! ## 1. local faithfulness -/

theorem toTree_zero (s : Forest) (r : Nat) : s.toTree 0 r = .node r [] := rfl
theorem toTree_succ (s : Forest) (fuel r : Nat) :
    s.toTree (fuel + 1) r = .node r ((s.children r).map (s.toTree fuel)) := rfl

@[simp] theorem toTree_label (s : Forest) (fuel r : Nat) : (s.toTree fuel r).label = r := by
  cases fuel <;> rfl

theorem toTree_kids (s : Forest) (fuel r : Nat) :
    (s.toTree (fuel + 1) r).kids = (s.children r).map (s.toTree fuel) := rfl

theorem toTree_kids_labels (s : Forest) (fuel r : Nat) :
    (s.toTree (fuel + 1) r).kids.map Tree.label = s.children r := by
  rw [toTree_kids, List.map_map]
  have : (Tree.label ∘ s.toTree fuel) = id := by
    funext c; simp
  rw [this, List.map_id]

theorem toTree_kids_eq_nil_iff (s : Forest) (fuel r : Nat) :
    (s.toTree (fuel + 1) r).kids = [] ↔ s.children r = [] := by
  rw [toTree_kids, List.map_eq_nil_iff]

/-! ## 2. addresses follow child indices -/

/-- the subtree at an address within the fuel is the unfolding, with the remaining fuel, of the node
reached by following child indices -/
theorem sub_toTree (s : Forest) : ∀ (a : Addr) (fuel r : Nat), a.length ≤ fuel →
    Tree.sub (s.toTree fuel r) a = (s.nodeAt r a).map (s.toTree (fuel - a.length)) := by
  intro a
  induction a with
  | nil => intro fuel r _; simp [Tree.sub]
  | cons i is ih =>
    intro fuel r hl
    cases fuel with
    | zero => simp at hl
    | succ fuel =>
      have hl' : is.length ≤ fuel := by simpa using hl
      rw [toTree_succ, nodeAt_cons]
      simp only [Tree.sub, List.getElem?_map, List.length_cons, Nat.add_sub_add_right]
      cases (s.children r)[i]? with
      | none => rfl
      | some c => simpa using ih fuel c hl'

theorem sub_toTree_label (s : Forest) (a : Addr) (fuel r : Nat) (h : a.length ≤ fuel) :
    (Tree.sub (s.toTree fuel r) a).map Tree.label = s.nodeAt r a := by
  rw [sub_toTree s a fuel r h]
  cases s.nodeAt r a <;> simp

/-- beyond the fuel there is nothing -/
theorem sub_toTree_none (s : Forest) : ∀ (a : Addr) (fuel r : Nat), fuel < a.length →
    Tree.sub (s.toTree fuel r) a = none := by
  intro a
  induction a with
  | nil => intro fuel r h; simp at h
  | cons i is ih =>
    intro fuel r hl
    cases fuel with
    | zero => simp [toTree_zero, Tree.sub]
    | succ fuel =>
      have hl' : fuel < is.length := by simpa using hl
      rw [toTree_succ]
      simp only [Tree.sub, List.getElem?_map]
      cases (s.children r)[i]? with
      | none => rfl
      | some c => simpa using ih fuel c hl'

/-! ## 4. parent relation (needs only `bidir`) -/

theorem nodeAt_child_mem {s : Forest} {r : Nat} {a : Addr} {i c : Nat}
    (hc : s.nodeAt r (a ++ [i]) = some c) :
    ∃ p, s.nodeAt r a = some p ∧ (s.children p)[i]? = some c := by
  rw [nodeAt_concat] at hc
  cases hp : s.nodeAt r a with
  | none => simp [hp] at hc
  | some p => rw [hp] at hc; exact ⟨p, rfl, hc⟩

end Forest

theorem Inv.nodeAt_parent {s : Forest} (h : Inv s) {r : Nat} {a : Addr} {i c : Nat}
    (hc : s.nodeAt r (a ++ [i]) = some c) :
    ∃ p, s.nodeAt r a = some p ∧ s.parent c = some p := by
  obtain ⟨p, hp, hi⟩ := Forest.nodeAt_child_mem hc
  exact ⟨p, hp, (h.bidir c p).2 (List.mem_of_getElem? hi)⟩

/-- conversely every forest child of the node at `a` sits at some `a ++ [i]` -/
theorem Inv.nodeAt_of_parent {s : Forest} (h : Inv s) {r : Nat} {a : Addr} {p c : Nat}
    (hp : s.nodeAt r a = some p) (hc : s.parent c = some p) :
    ∃ i, s.nodeAt r (a ++ [i]) = some c := by
  have hm := (h.bidir c p).1 hc
  obtain ⟨i, hi⟩ := List.mem_iff_getElem?.1 hm
  exact ⟨i, by rw [Forest.nodeAt_concat, hp]; exact hi⟩

/-! ## 3. depth bound / fuel adequacy -/

theorem Inv.nodeAt_up {s : Forest} (h : Inv s) : ∀ (a : Addr) (r x : Nat),
    s.nodeAt r a = some x → s.up a.length x = some r := by
  intro a
  induction a with
  | nil => intro r x hx; simp at hx; subst hx; rfl
  | cons i is ih =>
    intro r x hx
    rw [Forest.nodeAt_cons] at hx
    cases hc : (s.children r)[i]? with
    | none => simp [hc] at hx
    | some c =>
      rw [hc] at hx
      have h1 := ih c x hx
      have hpc : s.parent c = some r := (h.bidir c r).2 (List.mem_of_getElem? hc)
      have := Forest.up_add is.length 1 x c h1
      rw [List.length_cons, this]
      simp [Forest.up, hpc]

theorem Inv.nodeAt_lt {s : Forest} (h : Inv s) {r : Nat} (hr : r < s.n) :
    ∀ (a : Addr) (x : Nat), s.nodeAt r a = some x → x < s.n := by
  intro a
  induction a using snoc_induction with
  | h0 => intro x hx; simp at hx; subst hx; exact hr
  | h1 b i _ =>
    intro x hx
    obtain ⟨p, _, hp⟩ := h.nodeAt_parent hx
    exact (h.lt_of_parent hp).1

/-- every address of the forest below an existing node is shorter than the number of nodes -/
theorem Inv.nodeAt_length_lt {s : Forest} (h : Inv s) {r : Nat} (hr : r < s.n) {a : Addr} {x : Nat}
    (hx : s.nodeAt r a = some x) : a.length < s.n :=
  h.chain_lt (h.nodeAt_lt hr a x hx) (h.nodeAt_up a r x hx)


/-- the address-indexed view of the unfolded tree is complete with the driver's fuel `s.n + 1` -/
theorem Inv.sub_toTree_label {s : Forest} (h : Inv s) {r : Nat} (hr : r < s.n) (a : Addr) :
    (Tree.sub (s.toTree (s.n + 1) r) a).map Tree.label = s.nodeAt r a := by
  by_cases hl : a.length ≤ s.n + 1
  · exact Forest.sub_toTree_label s a _ r hl
  · rw [Forest.sub_toTree_none s a _ r (by omega)]
    cases hx : s.nodeAt r a with
    | none => rfl
    | some x => have := h.nodeAt_length_lt hr hx; omega

/-- the node object at a valid address: right label, right ordered children -/
theorem Inv.sub_toTree_node {s : Forest} (h : Inv s) {r : Nat} (hr : r < s.n) {a : Addr} {x : Nat}
    (hx : s.nodeAt r a = some x) :
    ∃ t, Tree.sub (s.toTree (s.n + 1) r) a = some t ∧ t.label = x ∧
      t.kids.map Tree.label = s.children x ∧ (t.kids = [] ↔ s.children x = []) := by
  have hl := h.nodeAt_length_lt hr hx
  refine ⟨s.toTree (s.n + 1 - a.length) x, ?_, by simp, ?_, ?_⟩
  · rw [Forest.sub_toTree s a _ r (by omega), hx]; rfl
  · rw [show s.n + 1 - a.length = (s.n - a.length) + 1 by omega]
    exact Forest.toTree_kids_labels s _ x
  · rw [show s.n + 1 - a.length = (s.n - a.length) + 1 by omega]
    exact Forest.toTree_kids_eq_nil_iff s _ x

namespace Forest

/-- if every address below `r` is shorter than the fuel, more fuel changes nothing -/
theorem toTree_stable (s : Forest) (k : Nat) : ∀ (fuel r : Nat),
    (∀ a x, s.nodeAt r a = some x → a.length < fuel) → s.toTree (fuel + k) r = s.toTree fuel r := by
  intro fuel
  induction fuel with
  | zero => intro r hb; exact absurd (hb [] r rfl) (by simp)
  | succ fuel ih =>
    intro r hb
    rw [show fuel + 1 + k = (fuel + k) + 1 by omega, toTree_succ, toTree_succ]
    congr 1
    apply List.map_congr_left
    intro c hc
    obtain ⟨i, hi⟩ := List.mem_iff_getElem?.1 hc
    apply ih c
    intro a x hx
    have := hb (i :: a) x (by rw [nodeAt_cons, hi]; exact hx)
    simpa using this

end Forest

theorem Inv.toTree_stable {s : Forest} (h : Inv s) {r : Nat} (hr : r < s.n) (k : Nat) :
    s.toTree (s.n + 1 + k) r = s.toTree (s.n + 1) r :=
  Forest.toTree_stable s k _ r (fun _ _ hx => Nat.lt_succ_of_lt (h.nodeAt_length_lt hr hx))

/-- already `s.n` suffices (the bound mentioned in `Model/Bridge.lean`) -/
theorem Inv.toTree_stable' {s : Forest} (h : Inv s) {r : Nat} (hr : r < s.n) (k : Nat) :
    s.toTree (s.n + k) r = s.toTree s.n r :=
  Forest.toTree_stable s k _ r (fun _ _ hx => h.nodeAt_length_lt hr hx)

/-! ## 5. every node below `r` appears exactly once -/

theorem Inv.nodeAt_exists {s : Forest} (h : Inv s) {r : Nat} : ∀ (k x : Nat),
    s.up k x = some r → ∃ a : Addr, a.length = k ∧ s.nodeAt r a = some x := by
  intro k
  induction k with
  | zero => intro x hx; simp [Forest.up] at hx; subst hx; exact ⟨[], rfl, rfl⟩
  | succ k ih =>
    intro x hx
    simp only [Forest.up] at hx
    cases hp : s.parent x with
    | none => simp [hp] at hx
    | some p =>
      simp only [hp] at hx
      obtain ⟨a, hl, ha⟩ := ih p hx
      obtain ⟨i, hi⟩ := h.nodeAt_of_parent ha hp
      exact ⟨a ++ [i], by simp [hl], hi⟩

/-- two chains from `x` to the same node have the same length -/
theorem Inv.up_length_unique {s : Forest} (h : Inv s) {x r k k' : Nat}
    (h1 : s.up k x = some r) (h2 : s.up k' x = some r) : k = k' := by
  have key : ∀ {a b : Nat}, a ≤ b → s.up a x = some r → s.up b x = some r → a = b := by
    intro a b hab ha hb
    obtain ⟨d, rfl⟩ := Nat.exists_eq_add_of_le hab
    rw [Forest.up_add _ _ _ _ ha] at hb
    cases d with
    | zero => rfl
    | succ d => exact absurd hb (h.no_self_ancestor r (d + 1) (by omega))
  cases Nat.le_total k k' with
  | inl hle => exact key hle h1 h2
  | inr hle => exact (key hle h2 h1).symm

theorem Inv.nodeAt_inj {s : Forest} (h : Inv s) {r : Nat} : ∀ (a b : Addr) (x : Nat),
    s.nodeAt r a = some x → s.nodeAt r b = some x → a = b := by
  intro a
  induction a using snoc_induction with
  | h0 =>
    intro b x ha hb
    have hl := h.up_length_unique (h.nodeAt_up [] r x ha) (h.nodeAt_up b r x hb)
    exact (List.length_eq_zero_iff.mp hl.symm).symm
  | h1 a' i ih =>
    intro b x ha hb
    have hl := h.up_length_unique (h.nodeAt_up _ r x ha) (h.nodeAt_up b r x hb)
    rcases snoc_cases b with rfl | ⟨b', j, rfl⟩
    · simp at hl
    · obtain ⟨p, hp, hi⟩ := Forest.nodeAt_child_mem ha
      obtain ⟨p', hp', hj⟩ := Forest.nodeAt_child_mem hb
      have e1 : s.parent x = some p := (h.bidir x p).2 (List.mem_of_getElem? hi)
      have e2 : s.parent x = some p' := (h.bidir x p').2 (List.mem_of_getElem? hj)
      have : p = p' := by rw [e1] at e2; exact Option.some.inj e2
      subst this
      have hab : a' = b' := ih b' p hp hp'
      subst hab
      have hij : i = j :=
        (List.getElem?_inj (List.getElem?_eq_some_iff.mp hi).1 (h.nodup p)).1 (hi.trans hj.symm)
      rw [hij]

/-- the nodes below (and including) `r`, each at exactly one address -/
theorem Inv.nodeAt_existsUnique {s : Forest} (h : Inv s) {r k x : Nat} (hx : s.up k x = some r) :
    ∃ a : Addr, s.nodeAt r a = some x ∧ a.length = k ∧ ∀ b, s.nodeAt r b = some x → b = a := by
  obtain ⟨a, hl, ha⟩ := h.nodeAt_exists k x hx
  exact ⟨a, ha, hl, fun b hb => h.nodeAt_inj b a x hb ha⟩


/-! ## pre-order and addresses of an arbitrary tree -/
namespace Tree
variable {α : Type}

/-- pre-order = the labels at the addresses, in address order -/
theorem pre_eq_addrs (t : Tree α) :
    pre t = (addrs t).filterMap (fun a => (sub t a).map label) := by
  induction t using Tree.rec
    (motive_2 := fun cs => ∀ (i : Nat) (g : Addr → Option α),
      (∀ j b, g ((i + j) :: b) = (cs[j]?).bind (fun c => (sub c b).map label)) →
      preL cs = (addrsL i cs).filterMap g) with
  | node x cs ih =>
    have := ih 0 (fun a => (sub (node x cs) a).map label) (by
      intro j b
      simp only [Nat.zero_add, sub]
      cases cs[j]? <;> rfl)
    simp [pre, addrs, sub, this]
  | nil => simp [preL, addrsL]
  | cons c cs ihc ihcs =>
    rename_i i g hg
    have h0 : (g ∘ fun x => i :: x) = fun b => (sub c b).map label := by
      funext b
      have := hg 0 b
      simpa using this
    have h1 := ihcs (i + 1) g (by
      intro j b
      have := hg (j + 1) b
      rw [show i + 1 + j = i + (j + 1) by omega, this]
      simp)
    rw [preL, addrsL, List.filterMap_append, List.filterMap_map, h0, ← ihc, ← h1]

theorem mem_addrs (t : Tree α) : ∀ a, a ∈ addrs t ↔ (sub t a).isSome = true := by
  induction t using Tree.rec
    (motive_2 := fun cs => ∀ (i : Nat) (a : Addr), a ∈ addrsL i cs ↔
      ∃ j b c, a = (i + j) :: b ∧ cs[j]? = some c ∧ (sub c b).isSome = true) with
  | node x cs ih =>
    intro a
    cases a with
    | nil => simp [addrs, sub]
    | cons j b =>
      simp only [addrs, List.mem_cons, reduceCtorEq, false_or, ih 0, Nat.zero_add, sub]
      constructor
      · rintro ⟨j', b', c, he, hc, hs⟩
        cases he
        simpa [hc] using hs
      · intro hs
        cases hc : cs[j]? with
        | none => simp [hc] at hs
        | some c => exact ⟨j, b, c, rfl, hc, by simpa [hc] using hs⟩
  | nil => simp [addrsL]
  | cons c cs ihc ihcs =>
    rename_i i a
    simp only [addrsL, List.mem_append, List.mem_map, ihc, ihcs]
    constructor
    · rintro (⟨b, hb, rfl⟩ | ⟨j, b, c', rfl, hc, hs⟩)
      · exact ⟨0, b, c, rfl, by simp, hb⟩
      · exact ⟨j + 1, b, c', by simp; omega, by simpa using hc, hs⟩
    · rintro ⟨j, b, c', rfl, hc, hs⟩
      cases j with
      | zero =>
        simp at hc; subst hc
        exact Or.inl ⟨b, hs, rfl⟩
      | succ j =>
        exact Or.inr ⟨j, b, c', by simp; omega, by simpa using hc, hs⟩

theorem nodup_addrs (t : Tree α) : (addrs t).Nodup := by
  induction t using Tree.rec
    (motive_2 := fun cs => ∀ (i : Nat), (addrsL i cs).Nodup ∧
      ∀ a ∈ addrsL i cs, ∃ j b, a = j :: b ∧ i ≤ j) with
  | node x cs ih =>
    obtain ⟨h1, h2⟩ := ih 0
    rw [addrs, List.nodup_cons]
    refine ⟨?_, h1⟩
    intro hm
    obtain ⟨j, b, he, _⟩ := h2 [] hm
    cases he
  | nil => simp [addrsL]
  | cons c cs ihc ihcs =>
    rename_i i
    obtain ⟨h1, h2⟩ := ihcs (i + 1)
    constructor
    · rw [addrsL, List.nodup_append]
      refine ⟨?_, h1, ?_⟩
      · exact List.Pairwise.map _ (fun a b hab he => hab (List.cons.inj he).2) ihc
      · intro a ha b hb hab
        subst hab
        obtain ⟨b', _, rfl⟩ := List.mem_map.1 ha
        obtain ⟨j, b'', he, hj⟩ := h2 _ hb
        cases he
        omega
    · intro a ha
      rw [addrsL, List.mem_append] at ha
      rcases ha with ha | ha
      · obtain ⟨b', _, rfl⟩ := List.mem_map.1 ha
        exact ⟨i, b', rfl, Nat.le_refl _⟩
      · obtain ⟨j, b, he, hj⟩ := h2 a ha
        exact ⟨j, b, he, by omega⟩

end Tree

/-! ## 5 (continued). the pre-order of the unfolded tree lists every node below `r` exactly once -/

theorem Inv.pre_toTree {s : Forest} (h : Inv s) {r : Nat} (hr : r < s.n) :
    (s.toTree (s.n + 1) r).pre = (addrs (s.toTree (s.n + 1) r)).filterMap (s.nodeAt r) := by
  rw [Tree.pre_eq_addrs]
  congr 1
  funext a
  exact h.sub_toTree_label hr a

theorem Inv.nodup_pre_toTree {s : Forest} (h : Inv s) {r : Nat} (hr : r < s.n) :
    (s.toTree (s.n + 1) r).pre.Nodup := by
  rw [h.pre_toTree hr]
  refine List.Pairwise.filterMap (S := (· ≠ ·)) _ ?_ (Tree.nodup_addrs _)
  intro a a' hne x hx x' hx' hxx
  subst hxx
  exact hne (h.nodeAt_inj a a' x hx hx')

/-- reachable by child indices = below `r` in the parent relation -/
theorem Inv.nodeAt_iff_up {s : Forest} (h : Inv s) {r x : Nat} :
    (∃ a, s.nodeAt r a = some x) ↔ ∃ k, s.up k x = some r := by
  constructor
  · rintro ⟨a, ha⟩; exact ⟨a.length, h.nodeAt_up a r x ha⟩
  · rintro ⟨k, hk⟩
    obtain ⟨a, _, ha⟩ := h.nodeAt_exists k x hk
    exact ⟨a, ha⟩

theorem Inv.mem_pre_toTree {s : Forest} (h : Inv s) {r : Nat} (hr : r < s.n) (x : Nat) :
    x ∈ (s.toTree (s.n + 1) r).pre ↔ ∃ k, s.up k x = some r := by
  rw [h.pre_toTree hr, List.mem_filterMap, ← h.nodeAt_iff_up]
  constructor
  · rintro ⟨a, _, ha⟩; exact ⟨a, ha⟩
  · rintro ⟨a, ha⟩
    refine ⟨a, ?_, ha⟩
    rw [Tree.mem_addrs]
    have := h.sub_toTree_label hr a
    rw [ha] at this
    cases hs : Tree.sub (s.toTree (s.n + 1) r) a with
    | none => simp [hs] at this
    | some t => rfl

/-! ## the roots partition the existing nodes -/

theorem Forest.mem_roots (s : Forest) (r : Nat) : r ∈ s.roots ↔ r < s.n ∧ s.parent r = none := by
  simp [Forest.roots]

/-- every existing node occurs in the unfolded tree of exactly one root -/
theorem Inv.roots_partition {s : Forest} (h : Inv s) {x : Nat} (hx : x < s.n) :
    ∃ r, r ∈ s.roots ∧ x ∈ (s.toTree (s.n + 1) r).pre ∧
      ∀ r', r' ∈ s.roots → x ∈ (s.toTree (s.n + 1) r').pre → r' = r := by
  obtain ⟨r, k, hk, hp⟩ := h.has_root x
  have hr : r < s.n := h.up_lt hx k r hk
  refine ⟨r, (Forest.mem_roots s r).2 ⟨hr, hp⟩, (h.mem_pre_toTree hr x).2 ⟨k, hk⟩, ?_⟩
  intro r' hr' hm
  obtain ⟨hr'n, hp'⟩ := (Forest.mem_roots s r').1 hr'
  obtain ⟨k', hk'⟩ := (h.mem_pre_toTree hr'n x).1 hm
  exact Forest.root_unique hk' hp' hk hp

/-! ## 6. navigation attributes read off the unfolded tree -/

/-- the node at the `k`-th prefix of the address of `x` is the `(|a| - k)`-th ancestor of `x` -/
theorem Inv.nodeAt_take {s : Forest} (h : Inv s) {r x : Nat} {a : Addr}
    (hx : s.nodeAt r a = some x) (k : Nat) :
    s.nodeAt r (a.take k) = s.up (a.length - k) x := by
  have hx' := hx
  rw [← List.take_append_drop k a, Forest.nodeAt_append] at hx'
  cases hp : s.nodeAt r (a.take k) with
  | none => simp [hp] at hx'
  | some p =>
    rw [hp, Option.bind_some] at hx'
    have := h.nodeAt_up _ p x hx'
    rw [List.length_drop] at this
    exact this.symm

/-- `path`: the nodes on the zipper path of `x` are `r = up |a| x, …, up 1 x, up 0 x = x` -/
theorem Inv.path_nodeAt {s : Forest} (h : Inv s) {r x : Nat} {a : Addr}
    (hx : s.nodeAt r a = some x) :
    (Nav.path a).map (s.nodeAt r) =
      (List.range (a.length + 1)).map (fun k => s.up (a.length - k) x) := by
  rw [Nav.path_eq_prefixes]
  apply List.ext_getElem
  · simp [Spec.length_prefixes]
  · intro i h1 h2
    simp only [List.getElem_map, Spec.prefixes_getElem, List.getElem_range]
    exact h.nodeAt_take hx i

/-- consecutive nodes on the path are forest parent and child -/
theorem Inv.path_step {s : Forest} (h : Inv s) {r x : Nat} {a : Addr}
    (hx : s.nodeAt r a = some x) (k : Nat) (hk : k < a.length) :
    ∃ p c, s.nodeAt r (a.take k) = some p ∧ s.nodeAt r (a.take (k + 1)) = some c ∧
      s.parent c = some p := by
  have h1 := h.nodeAt_take hx (k + 1)
  obtain ⟨c, hc⟩ := Forest.up_prefix (h.nodeAt_up a r x hx) (a.length - (k + 1)) (by omega)
  rw [hc] at h1
  have h2 := h1
  rw [List.take_succ_eq_append_getElem hk] at h2
  obtain ⟨p, hp, hpc⟩ := h.nodeAt_parent h2
  exact ⟨p, c, hp, h1, hpc⟩

/-- `depth`: the zipper depth is the length of the parent chain up to the root -/
theorem Inv.depth_nodeAt {s : Forest} (h : Inv s) {r x : Nat} {a : Addr}
    (hx : s.nodeAt r a = some x) : s.up (Nav.depth a) x = some r := by
  have : Nav.depth a = a.length := by simp [Nav.depth, Nav.length_climb]
  rw [this]
  exact h.nodeAt_up a r x hx

/-- `parent`: the zipper parent `dropLast` is the forest `__parent` -/
theorem Inv.dropLast_nodeAt {s : Forest} (h : Inv s) {r x : Nat} {a : Addr} (ha : a ≠ [])
    (hx : s.nodeAt r a = some x) : s.nodeAt r a.dropLast = s.parent x := by
  rcases snoc_cases a with rfl | ⟨b, i, rfl⟩
  · exact absurd rfl ha
  · obtain ⟨p, hp, hpc⟩ := h.nodeAt_parent hx
    rw [List.dropLast_concat, hp, hpc]

/-- `children`: the zipper children of the node at `a` are the forest `__children`, in order -/
theorem Inv.childAddrs_nodeAt {s : Forest} (h : Inv s) {r : Nat} (hr : r < s.n) {x : Nat} {a : Addr}
    (hx : s.nodeAt r a = some x) :
    (Nav.childAddrs (s.toTree (s.n + 1) r) a).map (s.nodeAt r) = (s.children x).map some := by
  obtain ⟨t, ht, _, hk, _⟩ := h.sub_toTree_node hr hx
  have hlen : t.kids.length = (s.children x).length := by
    rw [← hk, List.length_map]
  simp only [Nav.childAddrs, ht, List.map_map]
  apply List.ext_getElem
  · simp [hlen]
  · intro i h1 h2
    simp only [List.getElem_map, List.getElem_range, Function.comp]
    rw [Forest.nodeAt_concat, hx, Option.bind_some]
    exact List.getElem?_eq_getElem _

end Anytree
