import Anytree.Lemmas.Restore
/-!
The refused children assignment (`LoopError`) in general: the elements attached before the
offending one may have come from *other* parents (finding K3), so the restore
`self.children = old_children` does not put every link back — but it still *terminates with `ok`*
when no hook raises, and the call re-raises the original exception.  Hence the **result class** of
the mirror is the specification's even where the state is damaged.

This file repeats the window argument of `Restore.lean` without the hypothesis "every processed
element was parentless or a child of `n`" (`hpar`), and reads off the result class and the state the
restore really produces.
-/
namespace Anytree
open Forest

/-- the first element of a list satisfying a test -/
theorem any_split_first {α : Type} (p : α → Bool) : ∀ xs : List α, xs.any p = true →
    ∃ pre x post, xs = pre ++ x :: post ∧ (∀ y ∈ pre, p y = false) ∧ p x = true := by
  intro xs
  induction xs with
  | nil => intro h; simp at h
  | cons a xs ih =>
    intro h
    by_cases ha : p a = true
    · exact ⟨[], a, xs, rfl, fun _ hm => by simp at hm, ha⟩
    · have ha' : p a = false := by simpa using ha
      have hx : xs.any p = true := by simpa [List.any_cons, ha'] using h
      obtain ⟨pre, x, post, e, hpre, hx⟩ := ih hx
      refine ⟨a :: pre, x, post, by rw [e]; rfl, ?_, hx⟩
      intro y hy
      rcases List.mem_cons.mp hy with e | hy
      · rw [e]; exact ha'
      · exact hpre y hy

/-! ## specification side: the state after a partial attach phase, without `hpar` -/

/-- `pre` = the part of the new children tuple that was attached before the failure (each of them
could legally become a child of `n`; **no** assumption on where they came from).  The resulting
forest is consistent, `n` has exactly the children `pre`, the parent chain of `n` is the one before
the call, and every old child of `n` can legally be re-attached. -/
theorem Spec.partial_attach_props {s : Forest} (h : Inv s) {n : Nat} (hn : n < s.n) (pre : List Nat)
    (hnd : pre.Nodup) (hlt : ∀ y ∈ pre, y < s.n)
    (hatt : ∀ y ∈ pre, y ≠ n ∧ Spec.isAnc s y n = false) :
    Inv (Spec.attachAll (Spec.delChildren s n).f n pre).1 ∧
    (Spec.attachAll (Spec.delChildren s n).f n pre).1.n = s.n ∧
    (Spec.attachAll (Spec.delChildren s n).f n pre).1.children n = pre ∧
    (∀ y, (Spec.attachAll (Spec.delChildren s n).f n pre).1.parent y =
      if pre.contains y then some n else if s.parent y = some n then none else s.parent y) ∧
    (∀ j, (Spec.attachAll (Spec.delChildren s n).f n pre).1.up j n = s.up j n) ∧
    (∀ x ∈ s.children n, x < (Spec.attachAll (Spec.delChildren s n).f n pre).1.n) ∧
    (∀ x ∈ s.children n,
      x ≠ n ∧ Spec.isAnc (Spec.attachAll (Spec.delChildren s n).f n pre).1 x n = false) := by
  obtain ⟨di, dn, dc, du, dp, dq⟩ := Spec.delChildren_props h n
  have hchD : ∀ x ∈ pre, ∀ j, (Spec.delChildren s n).f.up j n ≠ some x := by
    intro x hx j
    rw [du]
    exact h.chain_avoid_of_not_anc hn (hatt x hx).1 (hatt x hx).2 j
  obtain ⟨ai, an, ac, au, ap, aq⟩ := Spec.attachAll_props n pre (Spec.delChildren s n).f [] di
    (by omega) hnd (fun x hx => by rw [dn]; exact hlt x hx) dc (fun _ _ hm => by simp at hm) hchD
  generalize hS1 : (Spec.attachAll (Spec.delChildren s n).f n pre).1 = S1 at ai an ac au ap aq ⊢
  have hS1n : S1.n = s.n := by rw [an, dn]
  have hup : ∀ j, S1.up j n = s.up j n := fun j => by rw [au, du]
  refine ⟨ai, hS1n, by simpa using ac, fun y => by rw [ap, dp], hup, ?_, ?_⟩
  · intro x hx
    rw [hS1n]
    exact (h.lt_of_parent ((h.bidir x n).2 hx)).1
  · intro x hx
    constructor
    · intro e
      exact h.child_not_on_chain hx 0 (by simp [up, e])
    · cases ha : Spec.isAnc S1 x n with
      | false => rfl
      | true =>
        obtain ⟨k, _, hk⟩ := (ai.isAnc_iff (by omega)).1 ha
        rw [hup] at hk
        exact absurd hk (h.child_not_on_chain hx k)

/-- the forest the restore `self.children = old_children` produces after the elements `pre` had been
attached: the closed-form children assignment of the old children, from the partially attached state -/
def Spec.restored (fl : Flavor) (s : Forest) (n : Nat) (pre : List Nat) : Forest :=
  (Spec.setChildren fl (Spec.attachAll (Spec.delChildren s n).f n pre).1 n
    (some ((s.children n).map Arg.node))).f

/-! ## mirror side -/

/-- **the restore, in general**: after a quiet delete phase, if the `try` block raises `e` in the
state in which the elements `pre` have been attached (wherever they came from), and no later hook
invocation raises, then the restore terminates with `ok` and the call raises `e`; the final links
are those of `Spec.restored`. -/
theorem setChildrenNodes_restore_res {c : Cfg} (fuel n : Nat) (xs pre : List Nat) (w w3 : World)
    (e : Err) (he : e ≠ .diverged) (h : Inv w.f) (hfuel : w.f.n + 2 < fuel) (hn : n < w.f.n)
    (hnd : pre.Nodup) (hlt : ∀ y ∈ pre, y < w.f.n)
    (hatt : ∀ y ∈ pre, y ≠ n ∧ Spec.isAnc w.f y n = false)
    (hqd : Quiet c w.cnt (w.cnt + (Spec.delChildren w.f n).log.length))
    (ht : (hook c .preAttachChildren n xs ⨾
        forM' xs (fun x => setParent c fuel x (some (.node n))) ⨾
        hook c .postAttachChildren n xs ⨾
        assertM c (fun f => (f.children n).length == xs.length))
        (w.adv (Spec.delChildren w.f n).f (Spec.delChildren w.f n).log) = (.error e, w3))
    (hw3 : w3.f = (Spec.attachAll (Spec.delChildren w.f n).f n pre).1)
    (hqr : ∀ i k m, w3.cnt ≤ i → c.φ i k m = false) :
    (setChildrenNodes c (fuel + 1) n xs w).1 = .error e ∧
    (setChildrenNodes c (fuel + 1) n xs w).2.f = Spec.restored c.fl w.f n pre := by
  obtain ⟨ai, an, _, _, _, holt, hok⟩ := Spec.partial_attach_props h hn pre hnd hlt hatt
  obtain ⟨f3, l3, c3⟩ := w3
  simp only at hw3 hqr
  subst hw3
  have hd := delChildren_window (c := c) fuel n w h (by omega) hqd
  have hr := setChildrenNodes_window (c := c) fuel n (w.f.children n)
    ⟨(Spec.attachAll (Spec.delChildren w.f n).f n pre).1, l3, c3⟩ ai
    (by simp only [an]; omega) (by simp only [an]; exact hn) (h.nodup n) holt hok
    (fun i k m hlo _ => hqr i k m hlo)
  rw [setChildrenNodes_fail_restore c fuel n xs w _ _ _ e he hd ht (checkChildren_old c.fl h n) hr]
  exact ⟨rfl, rfl⟩

/-- general form: everything up to the element `x` (after the prefix `pre`) is quiet, the parent
assignment `x.parent = n` raises `e` without changing a link, nothing raises afterwards -/
theorem setChildrenNodes_attach_step_fail_res {c : Cfg} (fuel n : Nat) (pre : List Nat) (x : Nat)
    (post : List Nat) (w w3 : World) (e : Err) (he : e ≠ .diverged) (h : Inv w.f)
    (hfuel : w.f.n + 2 < fuel) (hn : n < w.f.n) (hnd : pre.Nodup) (hlt : ∀ y ∈ pre, y < w.f.n)
    (hatt : ∀ y ∈ pre, y ≠ n ∧ Spec.isAnc w.f y n = false)
    (hq : Quiet c w.cnt (loopWorld w n (pre ++ x :: post) pre).cnt)
    (hstep : setParent c fuel x (some (.node n)) (loopWorld w n (pre ++ x :: post) pre) =
      (.error e, w3))
    (hw3 : w3.f = (Spec.attachAll (Spec.delChildren w.f n).f n pre).1)
    (hqr : ∀ i k m, w3.cnt ≤ i → c.φ i k m = false) :
    (setChildrenNodes c (fuel + 1) n (pre ++ x :: post) w).1 = .error e ∧
    (setChildrenNodes c (fuel + 1) n (pre ++ x :: post) w).2.f = Spec.restored c.fl w.f n pre := by
  obtain ⟨di, dn, dc, du, _, _⟩ := Spec.delChildren_props h n
  have hchD : ∀ y ∈ pre, ∀ j, (Spec.delChildren w.f n).f.up j n ≠ some y := by
    intro y hy j
    rw [du]
    exact h.chain_avoid_of_not_anc hn (hatt y hy).1 (hatt y hy).2 j
  simp only [loopWorld, World.adv_cnt, List.length_append, List.length_cons, List.length_nil] at hq
  have e2 := hook_window (c := c) .preAttachChildren n (pre ++ x :: post)
    (w.adv (Spec.delChildren w.f n).f (Spec.delChildren w.f n).log)
    (hq _ _ _ (by simp only [World.adv_cnt]; omega) (by simp only [World.adv_cnt]; omega))
  rw [World.adv_f, World.adv_adv] at e2
  have e3 := attachLoop_window (c := c) fuel n pre
    (w.adv (Spec.delChildren w.f n).f ((Spec.delChildren w.f n).log ++
      [Spec.ev .preAttachChildren n (pre ++ x :: post) (Spec.delChildren w.f n).f])) []
    (by simpa using di) (by simp only [World.adv_f]; omega) (by simp only [World.adv_f]; omega)
    hnd (fun y hy => by simp only [World.adv_f]; rw [dn]; exact hlt y hy)
    (by simpa using dc) (fun _ _ hm => by simp at hm) (by simpa using hchD)
    (by
      apply hq.mono
      · simp only [World.adv_cnt]; omega
      · simp only [World.adv_cnt, World.adv_f, List.length_append, List.length_cons,
          List.length_nil]; omega)
  rw [World.adv_f, World.adv_adv] at e3
  have e4 := forM'_prefix pre (x :: post) _ _ e3
  have e5 : forM' (pre ++ x :: post) (fun x => setParent c fuel x (some (.node n)))
      (w.adv (Spec.delChildren w.f n).f ((Spec.delChildren w.f n).log ++
        [Spec.ev .preAttachChildren n (pre ++ x :: post) (Spec.delChildren w.f n).f])) =
      (.error e, w3) := by
    rw [e4]
    simp only [forM']
    exact M.seq_err hstep
  have ht := M.seq_err (b := assertM c (fun f => (f.children n).length == (pre ++ x :: post).length))
    (M.seq_err (b := hook c .postAttachChildren n (pre ++ x :: post)) ((M.seq_ok e2).trans e5))
  exact setChildrenNodes_restore_res fuel n (pre ++ x :: post) pre w w3 e he h hfuel hn hnd hlt hatt
    (hq.mono (Nat.le_refl _) (by omega)) ht hw3 hqr

/-- **`LoopError`, in general**: no hook raises; the element `x` of the new children tuple is `n`
itself or an ancestor of `n`; the elements before it are attachable but may have come from anywhere
(K3 included).  The call raises `LoopError`; the links are those of `Spec.restored`. -/
theorem setChildrenNodes_loopError_res {c : Cfg} (fuel n : Nat) (pre : List Nat) (x : Nat)
    (post : List Nat) (w : World) (h : Inv w.f) (hfuel : w.f.n + 2 < fuel) (hn : n < w.f.n)
    (hnd : pre.Nodup) (hlt : ∀ y ∈ pre, y < w.f.n)
    (hatt : ∀ y ∈ pre, y ≠ n ∧ Spec.isAnc w.f y n = false)
    (hbad : x = n ∨ Spec.isAnc w.f x n = true)
    (hq : ∀ i k m, w.cnt ≤ i → c.φ i k m = false) :
    (setChildrenNodes c (fuel + 1) n (pre ++ x :: post) w).1 = .error .loopError ∧
    (setChildrenNodes c (fuel + 1) n (pre ++ x :: post) w).2.f = Spec.restored c.fl w.f n pre := by
  obtain ⟨ai, an, ac, ap, au, _, _⟩ := Spec.partial_attach_props h hn pre hnd hlt hatt
  generalize hW : loopWorld w n (pre ++ x :: post) pre = W
  have hWf : W.f = (Spec.attachAll (Spec.delChildren w.f n).f n pre).1 := by rw [← hW]; rfl
  have hWc : w.cnt ≤ W.cnt := by rw [← hW]; simp only [loopWorld, World.adv_cnt]; omega
  rw [← hWf] at ai an ac ap au
  have hup : ∃ j, W.f.up j n = some x := by
    rcases hbad with e | e
    · exact ⟨0, by simp [up, e]⟩
    · obtain ⟨k, _, hk⟩ := (h.isAnc_iff hn).1 e
      exact ⟨k, by rw [au]; exact hk⟩
  have hxlt : x < W.f.n := by
    obtain ⟨j, hj⟩ := hup
    exact ai.up_lt (by omega) j x hj
  have hne : W.f.parent x ≠ some n := by
    intro hp
    obtain ⟨j, hj⟩ := hup
    have := up_add j 1 n x hj
    rw [show W.f.up 1 x = some n by simp [up, hp]] at this
    exact ai.no_self_ancestor n (j + 1) (by omega) this
  have hcl := checkLoop_refuse (w := W) ai fuel x n (by omega) (by omega) hup
  have hstep : setParent c fuel x (some (.node n)) W = (.error .loopError, W) := by
    unfold setParent
    simp only [hne, if_false]
    exact M.seq_err (M.seq_err hcl)
  exact setChildrenNodes_attach_step_fail_res fuel n pre x post w W _ (by intro e; cases e) h hfuel
    hn hnd hlt hatt (fun i k m hi _ => hq i k m hi) (by rw [hW]; exact hstep) hWf
    (fun i k m hi => hq i k m (Nat.le_trans hWc hi))

/-- **refused children assignment, result class**: no hook raises, the tuple is duplicate-free, and
some element is `n` itself or an ancestor of `n`: the mirror raises `LoopError` (whatever the
partially processed elements did to the links). -/
theorem setChildrenNodes_loopError_nf {c : Cfg} (hφ : c.φ = noFaults) (fuel n : Nat) (xs : List Nat)
    (w : World) (h : Inv w.f) (hfuel : w.f.n + 2 < fuel) (hn : n < w.f.n) (hnd : xs.Nodup)
    (hlt : ∀ x ∈ xs, x < w.f.n)
    (hbad : xs.any (fun x => x = n || Spec.isAnc w.f x n) = true) :
    (setChildrenNodes c (fuel + 1) n xs w).1 = .error .loopError := by
  obtain ⟨pre, x, post, e, hpre, hx⟩ := any_split_first _ xs hbad
  subst e
  have hndp : pre.Nodup := (List.nodup_append.mp hnd).1
  refine (setChildrenNodes_loopError_res fuel n pre x post w h hfuel hn hndp
    (fun y hy => hlt y (by simp [hy])) ?_ ?_ (fun i k m _ => by rw [hφ]; rfl)).1
  · intro y hy
    have := hpre y hy
    simp only [Bool.or_eq_false_iff, decide_eq_false_iff_not] at this
    exact this
  · simp only [Bool.or_eq_true, decide_eq_true_eq] at hx
    exact hx

end Anytree
