import Anytree.Spec.Resolver
import Anytree.Lemmas.Glob
import Anytree.Lemmas.Resolver
/-!
# Helper lemmas for C08b: strict `glob` agrees with `get` on wildcard-free paths
-/
namespace Anytree
namespace C08bL
open Tree Str Resolver Spec GlobL
variable {α : Type}

/-! ## a literal pattern matches exactly itself -/

/-- the names are equal character by character under `eqChar ic` (same length, pairwise) -/
def EqChars (ic : Bool) (pat name : List Char) : Prop :=
  List.Forall₂ (fun x c => eqChar ic x c = true) pat name

theorem matchToks_literal_iff (ic : Bool) (p : List Char) : ∀ n : List Char,
    matchToks ic (p.map .lit) n = true ↔ EqChars ic p n := by
  unfold EqChars
  induction p with
  | nil => intro n; cases n <;> simp [matchToks]
  | cons x xs ih =>
    intro n
    cases n with
    | nil => simp [matchToks]
    | cons y ys => simp [matchToks, ih]

theorem eqChars_iff_normRe (ic : Bool) (p : List Char) : ∀ n : List Char,
    EqChars ic p n ↔ normRe ic n = normRe ic p := by
  unfold EqChars normRe eqChar
  cases ic with
  | true =>
    simp only [if_true]
    induction p with
    | nil => intro n; cases n <;> simp
    | cons x xs ih =>
      intro n
      cases n with
      | nil => simp
      | cons y ys =>
        rw [List.forall₂_cons, ih]
        simp only [beq_iff_eq, List.map_cons, List.cons.injEq]
        constructor
        · rintro ⟨h1, h2⟩; exact ⟨h1.symm, h2⟩
        · rintro ⟨h1, h2⟩; exact ⟨h1.symm, h2⟩
  | false =>
    simp only [Bool.false_eq_true, if_false]
    induction p with
    | nil => intro n; cases n <;> simp
    | cons x xs ih =>
      intro n
      cases n with
      | nil => simp
      | cons y ys =>
        rw [List.forall₂_cons, ih]
        simp only [beq_iff_eq, List.cons.injEq]
        constructor
        · rintro ⟨h1, h2⟩; exact ⟨h1.symm, h2⟩
        · rintro ⟨h1, h2⟩; exact ⟨h1.symm, h2⟩

/-- `str.upper` agrees on two strings iff the per-character upper cases concatenate to the same string -/
theorem upper_eq_iff (s t : String) :
    upper s = upper t ↔ s.toList.flatMap upperStr = t.toList.flatMap upperStr := by
  unfold upper
  exact String.ofList_inj

theorem cmp_iff_norm (ic : Bool) (s t : String) :
    cmp ic s t = true ↔ norm ic s.toList = norm ic t.toList := by
  unfold cmp norm
  cases ic with
  | true =>
    simp only [if_true, beq_iff_eq]
    exact upper_eq_iff s t
  | false =>
    simp only [Bool.false_eq_true, if_false, beq_iff_eq]
    exact String.toList_inj.symm

theorem cmp_symm (ic : Bool) (s t : String) (h : cmp ic s t = true) : cmp ic t s = true := by
  rw [cmp_iff_norm] at h ⊢; exact h.symm

theorem cmp_trans (ic : Bool) (s t u : String) (h1 : cmp ic s t = true) (h2 : cmp ic t u = true) :
    cmp ic s u = true := by
  rw [cmp_iff_norm] at h1 h2 ⊢; exact h1.trans h2

theorem matchPure_literal_iff (ic : Bool) (name pat : String) (hw : isWildcard pat = false) :
    matchPure ic name pat = true ↔ EqChars ic pat.toList name.toList := by
  unfold matchPure
  rw [translate_literal _ hw]
  exact matchToks_literal_iff ic _ _

/-- on a wildcard-free pattern `__match` and `__cmp` are the same test, provided `str.upper()` and
`re.IGNORECASE` agree on the characters of the name and of the pattern (`P`) -/
theorem matchPure_eq_cmp (ic : Bool) (name pat : String) (hw : isWildcard pat = false)
    {P : Char → Prop} (hP : ic = true → CaseFold.CaseRegular P)
    (hn : ∀ x ∈ name.toList, P x) (hp : ∀ x ∈ pat.toList, P x) :
    matchPure ic name pat = cmp ic name pat := by
  rw [Bool.eq_iff_iff, matchPure_literal_iff ic name pat hw, eqChars_iff_normRe,
    normRe_eq_iff_norm ic hP _ _ hn hp, cmp_iff_norm]

/-! ## `findP` on a literal component that selects no / exactly one child -/

theorem findP_filter_nil (hit : Addr → Bool) (wild : Bool) (g : Addr → Except RErr (List Addr))
    (l : List Addr) : ∀ acc, l.filter hit = [] → findP hit wild g l acc = .ok acc := by
  induction l with
  | nil => intro acc _; rfl
  | cons s ss ih =>
    intro acc h
    rw [findP]
    by_cases hs : hit s = true
    · rw [List.filter_cons_of_pos hs] at h; cases h
    · rw [List.filter_cons_of_neg hs] at h
      simp only [hs, Bool.false_eq_true, if_false]
      exact ih acc h

theorem findP_filter_singleton (hit : Addr → Bool) (g : Addr → Except RErr (List Addr))
    (ch : Addr) (l : List Addr) : ∀ acc, l.filter hit = [ch] →
      findP hit false g l acc =
        (match g ch with
         | .ok ms => .ok (acc ++ ms)
         | .error e => .error e) := by
  induction l with
  | nil => intro acc h; cases h
  | cons s ss ih =>
    intro acc h
    rw [findP]
    by_cases hs : hit s = true
    · rw [List.filter_cons_of_pos hs] at h
      simp only [List.cons.injEq] at h
      obtain ⟨h1, h2⟩ := h
      subst h1
      simp only [hs, if_true, Bool.false_eq_true, if_false]
      cases g s with
      | error e => rfl
      | ok ms => simp only []; exact findP_filter_nil hit false g ss _ h2
    · rw [List.filter_cons_of_neg hs] at h
      simp only [hs, Bool.false_eq_true, if_false]
      exact ih acc h

/-- under sibling-uniqueness the child `__get` finds is the only child a literal pattern selects -/
theorem filter_cmp_of_find (c : Ctx α) (hsu : SiblingUnique c) (a : Addr) (name : String) (ch : Addr)
    (hf : (c.children a).find? (fun x => cmp c.ignorecase (c.name x) name) = some ch) :
    (c.children a).filter (fun x => cmp c.ignorecase (c.name x) name) = [ch] := by
  have hmem : ch ∈ c.children a := List.mem_of_find?_eq_some hf
  have hch := List.find?_some hf
  have hnd : ((c.children a).filter (fun x => cmp c.ignorecase (c.name x) name)).Nodup :=
    List.filter_sublist.nodup (children_nodup c a)
  have hin : ch ∈ (c.children a).filter (fun x => cmp c.ignorecase (c.name x) name) :=
    List.mem_filter.mpr ⟨hmem, hch⟩
  have hall : ∀ x ∈ (c.children a).filter (fun x => cmp c.ignorecase (c.name x) name), x = ch := by
    intro x hx
    rw [List.mem_filter] at hx
    exact hsu a x ch hx.1 hmem
      (cmp_trans _ _ _ _ hx.2 (cmp_symm _ _ _ hch))
  rcases hm : (c.children a).filter (fun x => cmp c.ignorecase (c.name x) name) with _ | ⟨x, _ | ⟨y, t⟩⟩
  · rw [hm] at hin; cases hin
  · rw [hm] at hall; rw [hall x (by simp)]
  · rw [hm] at hall hnd
    have hx := hall x (by simp)
    have hy := hall y (by simp)
    rw [hx, hy] at hnd
    simp at hnd

/-! ## component lists -/

/-- what strict `glob` must give where `get`'s walk gives `r` -/
def lift (r : Except RErr Addr) : Except RErr (List Addr) :=
  match r with
  | .ok b => .ok [b]
  | .error e => .error e

theorem isWildcard_starstar : isWildcard "**" = true := by decide

theorem globP_literal (c : Ctx α) (hr : c.relax = false) (hsu : SiblingUnique c)
    {P : Char → Prop} (hca : CaseAgree c P)
    (parts : List String) (hp : ∀ p ∈ parts, isWildcard p = false)
    (hpP : ∀ p ∈ parts, ∀ x ∈ p.toList, P x) :
    ∀ a, globP false c parts a = lift (walkPath c parts a) := by
  induction parts with
  | nil => intro a; rfl
  | cons name rem ih =>
    have ih := ih (fun p h => hp p (List.mem_cons_of_mem _ h))
      (fun p h => hpP p (List.mem_cons_of_mem _ h))
    have hw : isWildcard name = false := hp name (List.mem_cons_self ..)
    intro a
    rw [globP, walkPath, stepS]
    by_cases h1 : (name == "..") = true
    · simp only [h1, if_true]
      by_cases ha : a = []
      · simp [ha, hr, lift]
      · simp only [ha, if_false]; exact ih _
    · simp only [h1, Bool.false_eq_true, ↓reduceIte]
      by_cases h2 : (name == "" || name == ".") = true
      · simp only [h2, if_true]; exact ih _
      · simp only [h2, Bool.false_eq_true, ↓reduceIte]
        have h3 : (name == "**") = false := by
          cases h : name == "**" with
          | false => rfl
          | true => rw [eq_of_beq h, isWildcard_starstar] at hw; cases hw
        simp only [h3, Bool.false_eq_true, ↓reduceIte]
        have hhit : (fun ch => matchPure c.ignorecase (c.name ch) name) =
            (fun ch => cmp c.ignorecase (c.name ch) name) :=
          funext fun ch => matchPure_eq_cmp _ _ _ hw hca
            (fun x hx => Or.inr ⟨ch, hx⟩) (fun x hx => Or.inl (hpP name (List.mem_cons_self ..) x hx))
        rw [hhit, hw]
        cases hf : (c.children a).find? (fun ch => cmp c.ignorecase (c.name ch) name) with
        | none =>
          have hnil : (c.children a).filter (fun ch => cmp c.ignorecase (c.name ch) name) = [] := by
            rw [List.filter_eq_nil_iff]
            exact List.find?_eq_none.mp hf
          have hany : (c.children a).any (fun ch => cmp c.ignorecase (c.name ch) name) = false := by
            rw [List.any_eq_false]
            exact List.find?_eq_none.mp hf
          rw [findP_filter_nil _ _ _ _ _ hnil]
          simp [hr, hany, lift]
        | some ch =>
          rw [findP_filter_singleton _ _ ch _ _ (filter_cmp_of_find c hsu a name ch hf), ih ch]
          simp only []
          cases walkPath c rem ch with
          | error e => rfl
          | ok b => simp [lift]

/-! ## the pieces of a wildcard-free path are wildcard-free -/

theorem stripPrefix_subset : ∀ (p s rest : List Char), stripPrefix p s = some rest →
    ∀ x ∈ rest, x ∈ s := by
  intro p
  induction p with
  | nil => intro s rest h x hx; simp [stripPrefix] at h; subst h; exact hx
  | cons q qs ih =>
    intro s rest h x hx
    cases s with
    | nil => simp [stripPrefix] at h
    | cons y ys =>
      rw [stripPrefix] at h
      by_cases hq : q = y
      · simp only [hq, if_true] at h
        exact List.mem_cons_of_mem _ (ih ys rest h x hx)
      · simp [hq] at h

theorem splitAux_chars (sep : List Char) : ∀ (fuel : Nat) (s acc : List Char),
    ∀ piece ∈ splitAux sep fuel s acc, ∀ x ∈ piece, x ∈ s ∨ x ∈ acc := by
  intro fuel
  induction fuel with
  | zero =>
    intro s acc piece hp x hx
    simp only [splitAux, List.mem_singleton] at hp
    subst hp
    exact Or.inr (List.mem_reverse.mp hx)
  | succ n ih =>
    intro s acc piece hp x hx
    cases s with
    | nil =>
      simp only [splitAux, List.mem_singleton] at hp
      subst hp
      exact Or.inr (List.mem_reverse.mp hx)
    | cons y ys =>
      rw [splitAux] at hp
      cases hst : stripPrefix sep (y :: ys) with
      | none =>
        rw [hst] at hp
        rcases ih ys (y :: acc) piece hp x hx with h | h
        · exact Or.inl (List.mem_cons_of_mem _ h)
        · rcases List.mem_cons.mp h with h | h
          · exact Or.inl (by rw [h]; exact List.mem_cons_self ..)
          · exact Or.inr h
      | some rest =>
        rw [hst] at hp
        simp only at hp
        by_cases he : sep.isEmpty = true
        · simp only [he, if_true] at hp
          rcases ih ys (y :: acc) piece hp x hx with h | h
          · exact Or.inl (List.mem_cons_of_mem _ h)
          · rcases List.mem_cons.mp h with h | h
            · exact Or.inl (by rw [h]; exact List.mem_cons_self ..)
            · exact Or.inr h
        · simp only [he, Bool.false_eq_true, if_false, List.mem_cons] at hp
          rcases hp with hp | hp
          · subst hp
            exact Or.inr (List.mem_reverse.mp hx)
          · rcases ih rest [] piece hp x hx with h | h
            · exact Or.inl (stripPrefix_subset sep (y :: ys) rest hst x h)
            · cases h

theorem split_chars (sep s : String) : ∀ p ∈ split sep s, ∀ x ∈ p.toList, x ∈ s.toList := by
  intro p hp x hx
  unfold split at hp
  rw [List.mem_map] at hp
  obtain ⟨piece, hpiece, rfl⟩ := hp
  rw [String.toList_ofList] at hx
  rcases splitAux_chars sep.toList _ _ _ piece hpiece x hx with h | h
  · exact h
  · cases h

/-- no `*`/`?` in the path ⇒ none in any component -/
theorem split_wildcard_free (sep path : String) (hw : isWildcard path = false) :
    ∀ p ∈ split sep path, isWildcard p = false := by
  intro p hp
  unfold isWildcard at hw ⊢
  rw [List.any_eq_false] at hw ⊢
  intro x hx
  exact hw x (split_chars sep path p hp x hx)

/-! ## whole paths -/

theorem globTopP_literal (c : Ctx α) (hr : c.relax = false) (hsu : SiblingUnique c) (a : Addr)
    (path : String) (hca : CaseAgree c (· ∈ path.toList))
    (hp : ∀ p ∈ split c.sep path, isWildcard p = false) :
    globTopP false c a path = lift (getStrictS c a path) := by
  have hch : ∀ p ∈ split c.sep path, ∀ x ∈ p.toList, x ∈ path.toList :=
    fun p hpm x hx => split_chars c.sep path p hpm x hx
  unfold globTopP getStrictS
  simp only
  by_cases h1 : startsWith path c.sep = true
  · simp only [h1, if_true]
    rcases hd : (split c.sep path).drop 1 with _ | ⟨p0, rest⟩
    · rfl
    · have hmem : ∀ p ∈ p0 :: rest, p ∈ split c.sep path := by
        intro p hpm
        have : p ∈ (split c.sep path).drop 1 := by rw [hd]; exact hpm
        exact List.mem_of_mem_drop this
      have hsub : ∀ p ∈ p0 :: rest, isWildcard p = false := fun p hpm => hp p (hmem p hpm)
      simp only
      by_cases h2 : (p0 == "") = true
      · simp [h2, hr, lift]
      · simp only [h2, Bool.false_eq_true, ↓reduceIte]
        rw [matchPure_eq_cmp _ _ _ (hsub p0 (List.mem_cons_self ..)) hca
          (fun x hx => Or.inr ⟨[], hx⟩)
          (fun x hx => Or.inl (hch p0 (hmem p0 (List.mem_cons_self ..)) x hx))]
        cases cmp c.ignorecase (c.name []) p0 with
        | false => simp [hr, lift]
        | true =>
          simp only [Bool.not_true, Bool.false_eq_true, if_false]
          exact globP_literal c hr hsu hca rest (fun p h => hsub p (List.mem_cons_of_mem _ h))
            (fun p h => hch p (hmem p (List.mem_cons_of_mem _ h))) []
  · simp only [h1, Bool.false_eq_true, ↓reduceIte]
    exact globP_literal c hr hsu hca _ hp hch a

/-- strict `get` is the strict specification — also for `sep = ""` (both sides then report the
missing root component) -/
theorem get_strict (c : Ctx α) (hr : c.relax = false) (a : Addr) (path : String) :
    Resolver.get c a path =
      (match getStrictS c a path with
       | .ok n => .ok (some n)
       | .error e => .error e) := by
  have hloop : ∀ parts n, getLoop c parts n =
      (match walkPath c parts n with
       | .ok n => .ok (some n)
       | .error e => .error e) := by
    intro parts
    induction parts with
    | nil => intro n; rfl
    | cons p ps ih =>
      intro n
      simp only [getLoop, walkPath, stepS]
      by_cases h1 : (p == "..") = true
      · simp only [h1, if_true]
        by_cases h2 : n = []
        · simp [h2, hr]
        · simp only [h2, if_false]; exact ih _
      · simp only [h1]
        by_cases h3 : (p == "" || p == ".") = true
        · simp only [h3, if_true]; exact ih _
        · simp only [h3, getChild]
          cases (c.children n).find? (fun ch => cmp c.ignorecase (c.name ch) p) with
          | none => simp [hr]
          | some ch => simp only []; exact ih _
  unfold Resolver.get start getStrictS
  by_cases hs : startsWith path c.sep = true
  · simp only [hs, if_true]
    cases hd : (split c.sep path).drop 1 with
    | nil => rfl
    | cons p0 rest =>
      simp only []
      by_cases h0 : (p0 == "") = true
      · simp [h0, hr]
      · simp only [h0]
        by_cases h1 : (!cmp c.ignorecase (c.name []) p0) = true
        · simp [h1, hr]
        · simp only [h1]; exact hloop rest []
  · simp only [hs]; exact hloop _ a

end C08bL
end Anytree
