import Anytree.Model.Str
/-!
# `str.upper()` versus `re.IGNORECASE`

`Resolver.__cmp` (used by `get`) compares `name.upper() == pat.upper()`; `Resolver.__match` (used by
`glob`) matches the escaped pattern under `re.IGNORECASE`.  On ASCII, and on most letters, the two
tests coincide; on the KELVIN, ANGSTROM and OHM signs they do not.  This file states the agreement
as a predicate on the characters in play and proves it for the regular part of the model's alphabet.
-/
namespace Anytree
namespace CaseFold
open Str

/-- `str.upper()` and `re.IGNORECASE` induce the same equivalence on the characters satisfying `P` -/
def CaseRegular (P : Char → Prop) : Prop :=
  ∀ x y, P x → P y → (reKey x = reKey y ↔ upperChar x = upperChar y)

theorem CaseRegular.mono {P Q : Char → Prop} (h : CaseRegular Q) (hpq : ∀ x, P x → Q x) :
    CaseRegular P := fun x y hx hy => h x y (hpq x hx) (hpq y hy)

/-- on strings over such characters: equal under `reKey` character by character iff equal under
`upperChar` character by character -/
theorem map_agree {P : Char → Prop} (hP : CaseRegular P) : ∀ (l1 l2 : List Char),
    (∀ x ∈ l1, P x) → (∀ x ∈ l2, P x) →
    (l1.map reKey = l2.map reKey ↔ l1.map upperChar = l2.map upperChar) := by
  intro l1
  induction l1 with
  | nil => intro l2 _ _; cases l2 <;> simp
  | cons a as ih =>
    intro l2 h1 h2
    cases l2 with
    | nil => simp
    | cons b bs =>
      have hab := hP a b (h1 a (List.mem_cons_self ..)) (h2 b (List.mem_cons_self ..))
      have ih' := ih bs (fun x hx => h1 x (List.mem_cons_of_mem _ hx))
        (fun x hx => h2 x (List.mem_cons_of_mem _ hx))
      simp only [List.map_cons, List.cons.injEq]
      rw [hab, ih']

/-- the 128 ASCII characters -/
def asciiChars : List Char := (List.range 128).map Char.ofNat

theorem mem_asciiChars (c : Char) (h : c.toNat < 128) : c ∈ asciiChars := by
  rw [asciiChars, List.mem_map]
  exact ⟨c.toNat, List.mem_range.2 h, Char.ofNat_toNat c⟩

/-- ASCII plus the letters of `caseTable` other than the three signs -/
def regularAlphabet : List Char :=
  asciiChars ++ ['\u017f', '\u0131', '\u00b5', '\u03bc', '\u039c', '\u00e5', '\u00c5', '\u00e9', '\u00c9', '\u03c9', '\u03a9']

/-- the whole alphabet of the model -/
def alphabet : List Char := regularAlphabet ++ ['K', 'Å', 'Ω']

theorem regularAlphabet_agree : ∀ x ∈ regularAlphabet, ∀ y ∈ regularAlphabet,
    (reKey x = reKey y ↔ upperChar x = upperChar y) := by decide +kernel

/-- **`str.upper()` and `re.IGNORECASE` agree on the regular alphabet** (a finite table, checked
entry by entry by the kernel) -/
theorem caseRegular_regularAlphabet : CaseRegular (· ∈ regularAlphabet) :=
  fun x y hx hy => regularAlphabet_agree x hx y hy

/-- … in particular on ASCII -/
theorem caseRegular_ascii : CaseRegular (fun c => c.toNat < 128) :=
  caseRegular_regularAlphabet.mono fun x hx =>
    List.mem_append_left _ (mem_asciiChars x hx)

/-- the three signs are where the two tests part: each is its own upper case but folds to a letter
under `re.IGNORECASE` -/
theorem signs_irregular :
    (reKey 'K' = reKey 'k' ∧ upperChar 'K' ≠ upperChar 'k') ∧
    (reKey 'Å' = reKey 'å' ∧ upperChar 'Å' ≠ upperChar 'å') ∧
    (reKey 'Ω' = reKey 'ω' ∧ upperChar 'Ω' ≠ upperChar 'ω') := by decide

/-- so the whole alphabet is not regular -/
theorem not_caseRegular_alphabet : ¬ CaseRegular (· ∈ alphabet) := by
  intro h
  have := h 'K' 'k' (by decide) (by decide)
  exact signs_irregular.1.2 (this.mp signs_irregular.1.1)

/-- `re.IGNORECASE` is an equivalence relation in the model (it is equality of `reKey`); `upper`
equality likewise.  Both refine to plain equality on characters outside ASCII letters and the table. -/
theorem reKey_idem : ∀ x ∈ alphabet, reKey (reKey x) = reKey x := by decide +kernel

theorem upperChar_idem : ∀ x ∈ alphabet, upperChar (upperChar x) = upperChar x := by decide +kernel

end CaseFold
end Anytree
