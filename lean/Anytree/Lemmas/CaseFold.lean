import Anytree.Model.Str
/-!
# `str.upper()` versus `re.IGNORECASE`

`Resolver.__cmp` (used by `get`) compares `name.upper() == pat.upper()`; `Resolver.__match` (used by
`glob`) matches the escaped pattern under `re.IGNORECASE`.  On ASCII, and on most letters, the two
tests coincide; on the KELVIN, ANGSTROM and OHM signs they do not.  This file states the agreement
as a predicate on the characters in play and proves it for the regular part of the model's alphabet.
-/
namespace Anytree
namespace CaseFold
open Str

/-- `str.upper()` and `re.IGNORECASE` induce the same equivalence on the characters satisfying `P`:
their upper case is one character long, and two of them have the same upper case iff they fold to
the same character under `re.IGNORECASE` -/
def CaseRegular (P : Char → Prop) : Prop :=
  (∀ x, P x → upperStr x = [upperChar x]) ∧
  ∀ x y, P x → P y → (reKey x = reKey y ↔ upperChar x = upperChar y)

theorem CaseRegular.mono {P Q : Char → Prop} (h : CaseRegular Q) (hpq : ∀ x, P x → Q x) :
    CaseRegular P :=
  ⟨fun x hx => h.1 x (hpq x hx), fun x y hx hy => h.2 x y (hpq x hx) (hpq y hy)⟩

/-- over such characters `str.upper()` works character by character -/
theorem flatMap_upperStr {P : Char → Prop} (hP : CaseRegular P) : ∀ (l : List Char),
    (∀ x ∈ l, P x) → l.flatMap upperStr = l.map upperChar := by
  intro l
  induction l with
  | nil => intro _; rfl
  | cons a as ih =>
    intro h
    rw [List.flatMap_cons, List.map_cons, hP.1 a (h a (List.mem_cons_self ..)),
      ih (fun x hx => h x (List.mem_cons_of_mem _ hx))]
    rfl

/-- on strings over such characters: equal under `reKey` character by character iff the upper-cased
strings are equal -/
theorem map_agree {P : Char → Prop} (hP : CaseRegular P) (l1 l2 : List Char)
    (h1 : ∀ x ∈ l1, P x) (h2 : ∀ x ∈ l2, P x) :
    (l1.map reKey = l2.map reKey ↔ l1.flatMap upperStr = l2.flatMap upperStr) := by
  rw [flatMap_upperStr hP l1 h1, flatMap_upperStr hP l2 h2]
  induction l1 generalizing l2 with
  | nil => cases l2 <;> simp
  | cons a as ih =>
    cases l2 with
    | nil => simp
    | cons b bs =>
      have hab := hP.2 a b (h1 a (List.mem_cons_self ..)) (h2 b (List.mem_cons_self ..))
      have ih' := ih bs (fun x hx => h1 x (List.mem_cons_of_mem _ hx))
        (fun x hx => h2 x (List.mem_cons_of_mem _ hx))
      simp only [List.map_cons, List.cons.injEq]
      rw [hab, ih']

/-- the 128 ASCII characters -/
def asciiChars : List Char := (List.range 128).map Char.ofNat

theorem mem_asciiChars (c : Char) (h : c.toNat < 128) : c ∈ asciiChars := by
  rw [asciiChars, List.mem_map]
  exact ⟨c.toNat, List.mem_range.2 h, Char.ofNat_toNat c⟩

/-- ASCII plus the letters of `caseTable` other than the three signs -/
def regularAlphabet : List Char :=
  asciiChars ++ ['\u017f', '\u0131', '\u00b5', '\u03bc', '\u039c', '\u00e5', '\u00c5', '\u00e9', '\u00c9', '\u03c9', '\u03a9']

/-- the whole alphabet of the model -/
def alphabet : List Char :=
  regularAlphabet ++ ['\u212a', '\u212b', '\u2126', '\u00df', '\u1e9e', '\ufb01']

theorem regularAlphabet_agree : ∀ x ∈ regularAlphabet, ∀ y ∈ regularAlphabet,
    (reKey x = reKey y ↔ upperChar x = upperChar y) := by decide +kernel

theorem regularAlphabet_single : ∀ x ∈ regularAlphabet, upperStr x = [upperChar x] := by decide +kernel

/-- **`str.upper()` and `re.IGNORECASE` agree on the regular alphabet** (a finite table, checked
entry by entry by the kernel) -/
theorem caseRegular_regularAlphabet : CaseRegular (· ∈ regularAlphabet) :=
  ⟨regularAlphabet_single, fun x y hx hy => regularAlphabet_agree x hx y hy⟩

/-- … in particular on ASCII -/
theorem caseRegular_ascii : CaseRegular (fun c => c.toNat < 128) :=
  caseRegular_regularAlphabet.mono fun x hx =>
    List.mem_append_left _ (mem_asciiChars x hx)

/-- the three signs are where the two tests part: each is its own upper case but folds to a letter
under `re.IGNORECASE` -/
theorem signs_irregular :
    (reKey 'K' = reKey 'k' ∧ upperChar 'K' ≠ upperChar 'k') ∧
    (reKey 'Å' = reKey 'å' ∧ upperChar 'Å' ≠ upperChar 'å') ∧
    (reKey 'Ω' = reKey 'ω' ∧ upperChar 'Ω' ≠ upperChar 'ω') := by decide

/-- so the whole alphabet is not regular -/
theorem not_caseRegular_alphabet : ¬ CaseRegular (· ∈ alphabet) := by
  intro h
  have := h.2 '\u212a' 'k' (by decide) (by decide)
  exact signs_irregular.1.2 (this.mp signs_irregular.1.1)

/-- `ß` and `ﬁ` have a two-character upper case (`SS`, `FI`): under `str.upper()` the strings `ß` and
`ss` are equal, under `re.IGNORECASE` `ß` matches only `ß` and `ẞ` -/
theorem sharp_s_irregular :
    upperStr '\u00df' = ['S', 'S'] ∧ upperStr '\ufb01' = ['F', 'I'] ∧
    reKey '\u1e9e' = reKey '\u00df' ∧ upperStr '\u1e9e' ≠ upperStr '\u00df' ∧
    reKey '\u00df' ≠ reKey 's' := by decide

/-- `re.IGNORECASE` is an equivalence relation in the model (it is equality of `reKey`); `upper`
equality likewise.  Both refine to plain equality on characters outside ASCII letters and the table. -/
theorem reKey_idem : ∀ x ∈ alphabet, reKey (reKey x) = reKey x := by decide +kernel

theorem upperChar_idem : ∀ x ∈ alphabet, upperChar (upperChar x) = upperChar x := by decide +kernel

/-- upper-casing twice changes nothing more (also for the two-character cases) -/
theorem upperStr_idem : ∀ x ∈ alphabet, (upperStr x).flatMap upperStr = upperStr x := by decide +kernel

end CaseFold
end Anytree
