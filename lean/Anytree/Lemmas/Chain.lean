import Anytree.Lemmas.Forest
import Batteries.Data.List.Perm
/-!
Parent chains in a consistent forest are shorter than the number of nodes (pigeonhole), so the
fuelled loop check decides ancestry exactly.
-/
namespace Anytree
open Forest

namespace Forest

theorem up_add {s : Forest} : ∀ a b y z, s.up a y = some z → s.up (a + b) y = s.up b z := by
  intro a
  induction a with
  | zero => intro b y z hz; simp [up] at hz; subst hz; simp
  | succ a iha =>
    intro b y z hz
    simp only [up] at hz
    cases hp : s.parent y with
    | none => simp [hp] at hz
    | some q =>
      simp only [hp] at hz
      have := iha b q z hz
      rw [show a + 1 + b = (a + b) + 1 by omega]
      simp only [up, hp]; exact this

/-- prefixes of a defined chain are defined -/
theorem up_prefix {s : Forest} {k x y} (h : s.up k x = some y) : ∀ j, j ≤ k → ∃ z, s.up j x = some z := by
  intro j hj
  cases hz : s.up j x with
  | some z => exact ⟨z, rfl⟩
  | none =>
    have := up_add_none hz (k - j)
    rw [show j + (k - j) = k by omega, h] at this
    simp at this

end Forest

theorem Inv.no_self_ancestor {s : Forest} (h : Inv s) (x : Nat) :
    ∀ k, 0 < k → s.up k x ≠ some x := by
  intro k hk hx
  obtain ⟨m, hm⟩ := h.term x
  have hcyc : ∀ j, s.up (j * k) x = some x := by
    intro j
    induction j with
    | zero => simp [up]
    | succ j ih =>
      rw [show (j + 1) * k = j * k + k by rw [Nat.succ_mul]]
      rw [up_add _ _ _ _ ih]; exact hx
  have h1 : m ≤ m * k := Nat.le_mul_of_pos_right m hk
  have := up_add_none hm (m * k - m)
  rw [show m + (m * k - m) = m * k by omega, hcyc m] at this
  simp at this

theorem Inv.up_lt {s : Forest} (h : Inv s) {x : Nat} (hx : x < s.n) :
    ∀ k y, s.up k x = some y → y < s.n := by
  intro k
  induction k generalizing x with
  | zero => intro y hy; simp [up] at hy; subst hy; exact hx
  | succ k ih =>
    intro y hy
    simp only [up] at hy
    cases hp : s.parent x with
    | none => simp [hp] at hy
    | some q =>
      simp only [hp] at hy
      exact ih (h.lt_of_parent hp).2 y hy

/-- the nodes `x, parent x, …` up to `k` steps -/
def chainList (s : Forest) : Nat → Nat → List Nat
  | 0, x => [x]
  | k+1, x => x :: (match s.parent x with
    | none => []
    | some p => chainList s k p)

theorem mem_chainList {s : Forest} : ∀ k x z, z ∈ chainList s k x → ∃ j, j ≤ k ∧ s.up j x = some z := by
  intro k
  induction k with
  | zero => intro x z hz; simp [chainList] at hz; subst hz; exact ⟨0, Nat.le_refl _, rfl⟩
  | succ k ih =>
    intro x z hz
    simp only [chainList, List.mem_cons] at hz
    cases hz with
    | inl e => subst e; exact ⟨0, Nat.zero_le _, rfl⟩
    | inr hz =>
      cases hp : s.parent x with
      | none => simp [hp] at hz
      | some p =>
        simp only [hp] at hz
        obtain ⟨j, hj, hu⟩ := ih p z hz
        exact ⟨j + 1, by omega, by simp [up, hp, hu]⟩

theorem Inv.chainList_props {s : Forest} (h : Inv s) :
    ∀ k x y, x < s.n → s.up k x = some y →
      (chainList s k x).length = k + 1 ∧ (chainList s k x).Nodup ∧ ∀ z ∈ chainList s k x, z < s.n := by
  intro k
  induction k with
  | zero => intro x y hx _; simp [chainList, hx]
  | succ k ih =>
    intro x y hx hy
    simp only [up] at hy
    cases hp : s.parent x with
    | none => simp [hp] at hy
    | some p =>
      simp only [hp] at hy
      obtain ⟨hl, hn, hm⟩ := ih p y (h.lt_of_parent hp).2 hy
      simp only [chainList, hp, List.length_cons, hl, List.nodup_cons, List.mem_cons]
      refine ⟨trivial, ⟨?_, hn⟩, ?_⟩
      · intro hx'
        obtain ⟨j, _, hu⟩ := mem_chainList k p x hx'
        exact h.no_self_ancestor x (j + 1) (by omega) (by simp [up, hp, hu])
      · intro z hz
        cases hz with
        | inl e => subst e; exact hx
        | inr hz => exact hm z hz

/-- pigeonhole: a defined `k`-step chain from an existing node has `k < n` -/
theorem Inv.chain_lt {s : Forest} (h : Inv s) {x : Nat} (hx : x < s.n) {k y : Nat}
    (hk : s.up k x = some y) : k < s.n := by
  obtain ⟨hl, hn, hm⟩ := h.chainList_props k x y hx hk
  have hsub : chainList s k x ⊆ List.range s.n := by
    intro z hz; simpa using hm z hz
  have := (List.subperm_of_subset hn hsub).length_le
  simp [hl] at this
  omega

/-- with enough fuel the loop check never runs dry … -/
theorem Inv.onChain_some {s : Forest} (h : Inv s) (n : Nat) :
    ∀ fuel p, p < s.n → (∀ k y, s.up k p = some y → k < fuel) → onChain s n fuel p ≠ none := by
  intro fuel
  induction fuel with
  | zero => intro p _ hb; exact absurd (hb 0 p rfl) (by omega)
  | succ fuel ih =>
    intro p hp hb
    simp only [onChain]
    by_cases hpn : p = n
    · simp [hpn]
    · simp only [hpn, if_false]
      cases hq : s.parent p with
      | none => simp
      | some q =>
        simp only []
        apply ih q (h.lt_of_parent hq).2
        intro k y hy
        have := hb (k + 1) y (by simp [up, hq, hy])
        omega

theorem onChain_false {s : Forest} {n : Nat} :
    ∀ fuel p, onChain s n fuel p = some false → ∀ j, s.up j p ≠ some n := by
  intro fuel
  induction fuel with
  | zero => intro p h; simp [onChain] at h
  | succ fuel ih =>
    intro p h j
    simp only [onChain] at h
    by_cases hpn : p = n
    · simp [hpn] at h
    · simp only [hpn, if_false] at h
      cases hp : s.parent p with
      | none =>
        cases j with
        | zero => simp [up]; exact hpn
        | succ j => simp [up, hp]
      | some q =>
        simp only [hp] at h
        cases j with
        | zero => simp [up]; exact hpn
        | succ j => simp only [up, hp]; exact ih q h j

theorem onChain_true {s : Forest} {n : Nat} :
    ∀ fuel p, onChain s n fuel p = some true → ∃ j, s.up j p = some n := by
  intro fuel
  induction fuel with
  | zero => intro p h; simp [onChain] at h
  | succ fuel ih =>
    intro p h
    simp only [onChain] at h
    by_cases hpn : p = n
    · exact ⟨0, by simp [up, hpn]⟩
    · simp only [hpn, if_false] at h
      cases hq : s.parent p with
      | none => simp [hq] at h
      | some q =>
        simp only [hq] at h
        obtain ⟨j, hj⟩ := ih q h
        exact ⟨j + 1, by simp [up, hq, hj]⟩

/-- … and the bounded ancestor test of the specification is exact -/
theorem Inv.isAnc_iff {s : Forest} (h : Inv s) {a x : Nat} (hx : x < s.n) :
    Spec.isAnc s a x = true ↔ ∃ k, 0 < k ∧ s.up k x = some a := by
  simp only [Spec.isAnc, List.any_eq_true, List.mem_range, beq_iff_eq]
  constructor
  · rintro ⟨k, _, hk⟩; exact ⟨k + 1, by omega, hk⟩
  · rintro ⟨k, hk0, hk⟩
    have := h.chain_lt hx hk
    exact ⟨k - 1, by omega, by rw [show k - 1 + 1 = k by omega]; exact hk⟩

end Anytree
