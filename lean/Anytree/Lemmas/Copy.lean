import Anytree.Spec.Attr
import Anytree.Lemmas.Chain
/-!
Helper lemmas for C19: roots of parent chains, and invariants of the breadth-first traversal `reachF`.
-/
namespace Anytree
open Forest Attr

/-- every node of a consistent forest has a root -/
theorem Inv.has_root {s : Forest} (h : Inv s) (x : Nat) :
    ∃ r k, s.up k x = some r ∧ s.parent r = none := by
  obtain ⟨k, hk⟩ := h.term x
  induction k generalizing x with
  | zero => simp [up] at hk
  | succ k ih =>
    cases hp : s.parent x with
    | none => exact ⟨x, 0, rfl, hp⟩
    | some p =>
      simp only [up, hp] at hk
      obtain ⟨r, j, hj, hr⟩ := ih p hk
      exact ⟨r, j + 1, by simp [up, hp, hj], hr⟩

namespace Forest

theorem up_succ_of_parent {s : Forest} {c p : Nat} (hp : s.parent c = some p) (k : Nat) :
    s.up (k + 1) c = s.up k p := by
  simp [up, hp]

theorem up_succ_root {s : Forest} {r : Nat} (hr : s.parent r = none) (k : Nat) :
    s.up (k + 1) r = none := by
  simp [up, hr]

/-- the parentless node on the parent chain of `x` is unique -/
theorem root_unique {s : Forest} {x r r' k k' : Nat}
    (h1 : s.up k x = some r) (hr : s.parent r = none)
    (h2 : s.up k' x = some r') (hr' : s.parent r' = none) : r = r' := by
  have key : ∀ {a b ra rb : Nat}, a ≤ b → s.up a x = some ra → s.parent ra = none →
      s.up b x = some rb → ra = rb := by
    intro a b ra rb hab ha hra hb
    obtain ⟨d, rfl⟩ := Nat.exists_eq_add_of_le hab
    rw [up_add _ _ _ _ ha] at hb
    cases d with
    | zero => simpa [up] using hb
    | succ d => rw [up_succ_root hra] at hb; cases hb
  cases Nat.le_total k k' with
  | inl hle => exact key hle h1 hr h2
  | inr hle => exact (key hle h2 hr' h1).symm

end Forest

namespace Attr

/-- a predicate closed under the three kinds of references is an invariant of the traversal -/
theorem reachF_inv {s : Forest} {tg : Nat → Option Nat} (P : Nat → Prop)
    (hp : ∀ x p, P x → s.parent x = some p → P p)
    (hc : ∀ x c, P x → c ∈ s.children x → P c)
    (ht : ∀ x t, P x → tg x = some t → P t) :
    ∀ fuel frontier seen, (∀ x ∈ frontier, P x) → (∀ x ∈ seen, P x) →
      ∀ x ∈ reachF s tg fuel frontier seen, P x := by
  intro fuel
  induction fuel with
  | zero => intro frontier seen _ hs; simpa [reachF] using hs
  | succ fuel ih =>
    intro frontier seen hf hs
    cases frontier with
    | nil => simpa [reachF] using hs
    | cons y fr =>
      have hy : P y := hf y (List.mem_cons_self ..)
      have hfr : ∀ x ∈ fr, P x := fun x hx => hf x (List.mem_cons_of_mem _ hx)
      simp only [reachF]
      by_cases hsy : seen.contains y = true
      · simp only [hsy, if_true]
        exact ih fr seen hfr hs
      · simp only [hsy]
        apply ih
        · intro x hx
          simp only [List.mem_append, Option.mem_toList] at hx
          rcases hx with hx | (hx | hx) | hx
          · exact hfr x hx
          · exact hp y x hy hx
          · exact hc y x hy hx
          · exact ht y x hy hx
        · intro x hx
          simp only [List.mem_append, List.mem_singleton] at hx
          rcases hx with hx | hx
          · exact hs x hx
          · subst hx; exact hy

theorem reachF_nodup {s : Forest} {tg : Nat → Option Nat} :
    ∀ fuel frontier seen, seen.Nodup → (reachF s tg fuel frontier seen).Nodup := by
  intro fuel
  induction fuel with
  | zero => intro frontier seen hs; simpa [reachF] using hs
  | succ fuel ih =>
    intro frontier seen hs
    cases frontier with
    | nil => simpa [reachF] using hs
    | cons y fr =>
      simp only [reachF]
      by_cases hsy : seen.contains y = true
      · simp only [hsy, if_true]
        exact ih fr seen hs
      · simp only [hsy]
        apply ih
        rw [List.nodup_append]
        refine ⟨hs, by simp, ?_⟩
        intro a ha b hb
        simp only [List.mem_singleton] at hb
        subst hb
        intro hab; subst hab
        exact hsy (List.contains_iff_mem.mpr ha)

/-! ## completeness of the traversal (fuel bound) -/

/-- pigeonhole: a duplicate-free list of numbers below `m` has at most `m` entries -/
theorem length_le_of_nodup_lt {l : List Nat} {m : Nat} (hn : l.Nodup) (hm : ∀ x ∈ l, x < m) :
    l.length ≤ m := by
  have hsub : l ⊆ List.range m := by
    intro z hz; simpa using hm z hz
  have := (List.subperm_of_subset hn hsub).length_le
  simpa using this

/-- the references held by object `x` -/
def nb (s : Forest) (tg : Nat → Option Nat) (x : Nat) : List Nat :=
  (s.parent x).toList ++ s.children x ++ (tg x).toList

theorem reachF_cons {s : Forest} {tg : Nat → Option Nat} (fuel x : Nat) (fr seen : List Nat) :
    reachF s tg (fuel + 1) (x :: fr) seen =
      if seen.contains x then reachF s tg fuel fr seen
      else reachF s tg fuel (fr ++ nb s tg x) (seen ++ [x]) := rfl

theorem reachF_zero {s : Forest} {tg : Nat → Option Nat} (fr seen : List Nat) :
    reachF s tg 0 fr seen = seen := rfl

theorem reachF_nil {s : Forest} {tg : Nat → Option Nat} (fuel : Nat) (seen : List Nat) :
    reachF s tg fuel [] seen = seen := by
  cases fuel <;> rfl

theorem nb_lt {s : Forest} {tg : Nat → Option Nat} (h : Inv s)
    (htg : ∀ x, x < s.n → ∀ t, tg x = some t → t < s.n) {x : Nat} (hx : x < s.n) :
    ∀ y ∈ nb s tg x, y < s.n := by
  intro y hy
  simp only [nb, List.mem_append, Option.mem_toList] at hy
  rcases hy with (hy | hy) | hy
  · exact (h.lt_of_parent hy).2
  · exact (h.lt_of_parent ((h.bidir y x).mpr hy)).1
  · exact htg x hx y hy

theorem nb_length {s : Forest} {tg : Nat → Option Nat} (h : Inv s) (x : Nat) :
    (nb s tg x).length ≤ s.n + 2 := by
  have h1 : (s.parent x).toList.length ≤ 1 := by cases s.parent x <;> simp
  have h2 : (tg x).toList.length ≤ 1 := by cases tg x <;> simp
  have h3 : (s.children x).length ≤ s.n :=
    length_le_of_nodup_lt (h.nodup x)
      (fun y hy => (h.lt_of_parent ((h.bidir y x).mpr hy)).1)
  simp only [nb, List.length_append]
  omega

/-- with fuel for every frontier entry that can still arise, the traversal stops on an empty
frontier: the result contains `seen` and `frontier` and is closed under references -/
theorem reachF_closed {s : Forest} {tg : Nat → Option Nat} (h : Inv s)
    (htg : ∀ x, x < s.n → ∀ t, tg x = some t → t < s.n) :
    ∀ fuel frontier seen, seen.Nodup → (∀ x ∈ seen, x < s.n) → (∀ x ∈ frontier, x < s.n) →
      (∀ z ∈ seen, ∀ y ∈ nb s tg z, y ∈ seen ∨ y ∈ frontier) →
      frontier.length + (s.n - seen.length) * (s.n + 2) ≤ fuel →
      (∀ x ∈ seen, x ∈ reachF s tg fuel frontier seen) ∧
      (∀ x ∈ frontier, x ∈ reachF s tg fuel frontier seen) ∧
      (∀ z ∈ reachF s tg fuel frontier seen, ∀ y ∈ nb s tg z, y ∈ reachF s tg fuel frontier seen) := by
  intro fuel
  induction fuel with
  | zero =>
    intro frontier seen _ _ _ hJ hfuel
    have hfr : frontier = [] := by
      cases frontier with
      | nil => rfl
      | cons a l => simp at hfuel
    subst hfr
    rw [reachF_zero]
    refine ⟨fun x hx => hx, fun x hx => (nomatch hx), ?_⟩
    intro z hz y hy
    rcases hJ z hz y hy with h1 | h1
    · exact h1
    · cases h1
  | succ fuel ih =>
    intro frontier seen hnd hseen hfront hJ hfuel
    cases frontier with
    | nil =>
      rw [reachF_nil]
      refine ⟨fun x hx => hx, fun x hx => (nomatch hx), ?_⟩
      intro z hz y hy
      rcases hJ z hz y hy with h1 | h1
      · exact h1
      · cases h1
    | cons x fr =>
      have hx : x < s.n := hfront x (List.mem_cons_self ..)
      have hfr : ∀ y ∈ fr, y < s.n := fun y hy => hfront y (List.mem_cons_of_mem _ hy)
      rw [reachF_cons]
      by_cases hsx : seen.contains x = true
      · simp only [hsx, if_true]
        have hxs : x ∈ seen := List.contains_iff_mem.mp hsx
        have hJ' : ∀ z ∈ seen, ∀ y ∈ nb s tg z, y ∈ seen ∨ y ∈ fr := by
          intro z hz y hy
          rcases hJ z hz y hy with h1 | h1
          · exact Or.inl h1
          · rcases List.mem_cons.mp h1 with e | h2
            · subst e; exact Or.inl hxs
            · exact Or.inr h2
        have hfuel' : fr.length + (s.n - seen.length) * (s.n + 2) ≤ fuel := by
          simp only [List.length_cons] at hfuel; omega
        obtain ⟨r1, r2, r3⟩ := ih fr seen hnd hseen hfr hJ' hfuel'
        refine ⟨r1, ?_, r3⟩
        intro y hy
        rcases List.mem_cons.mp hy with e | h2
        · subst e; exact r1 _ hxs
        · exact r2 y h2
      · simp only [hsx]
        have hxs : x ∉ seen := fun hm => hsx (List.contains_iff_mem.mpr hm)
        have hnd' : (seen ++ [x]).Nodup := by
          rw [List.nodup_append]
          refine ⟨hnd, by simp, ?_⟩
          intro a ha b hb
          simp only [List.mem_singleton] at hb
          subst hb
          intro hab; subst hab; exact hxs ha
        have hseen' : ∀ y ∈ seen ++ [x], y < s.n := by
          intro y hy
          simp only [List.mem_append, List.mem_singleton] at hy
          rcases hy with hy | hy
          · exact hseen y hy
          · subst hy; exact hx
        have hfr' : ∀ y ∈ fr ++ nb s tg x, y < s.n := by
          intro y hy
          rcases List.mem_append.mp hy with hy | hy
          · exact hfr y hy
          · exact nb_lt h htg hx y hy
        have hJ' : ∀ z ∈ seen ++ [x], ∀ y ∈ nb s tg z,
            y ∈ seen ++ [x] ∨ y ∈ fr ++ nb s tg x := by
          intro z hz y hy
          simp only [List.mem_append, List.mem_singleton] at hz ⊢
          rcases hz with hz | hz
          · rcases hJ z hz y hy with h1 | h1
            · exact Or.inl (Or.inl h1)
            · rcases List.mem_cons.mp h1 with e | h2
              · exact Or.inl (Or.inr e)
              · exact Or.inr (Or.inl h2)
          · subst hz; exact Or.inr (Or.inr hy)
        have hlen : seen.length + 1 ≤ s.n := by
          have := length_le_of_nodup_lt hnd' hseen'
          simpa using this
        have hfuel' : (fr ++ nb s tg x).length + (s.n - (seen ++ [x]).length) * (s.n + 2) ≤ fuel := by
          have hnbl := nb_length (tg := tg) h x
          simp only [List.length_cons, List.length_append, List.length_nil] at hfuel ⊢
          obtain ⟨d, hd⟩ : ∃ d, s.n - seen.length = d + 1 := ⟨s.n - seen.length - 1, by omega⟩
          have hd' : s.n - (seen.length + (0 + 1)) = d := by omega
          rw [hd, Nat.succ_mul] at hfuel
          rw [hd']
          omega
        obtain ⟨r1, r2, r3⟩ := ih _ _ hnd' hseen' hfr' hJ' hfuel'
        refine ⟨fun y hy => r1 y (List.mem_append_left _ hy), ?_, r3⟩
        intro y hy
        rcases List.mem_cons.mp hy with e | h2
        · subst e; exact r1 _ (List.mem_append_right _ (List.mem_singleton.mpr rfl))
        · exact r2 y (List.mem_append_left _ h2)

/-- the traversal from `n` contains `n` and is closed under parent / children / target references -/
theorem reach_closed {s : Forest} {tg : Nat → Option Nat} (h : Inv s)
    (htg : ∀ x, x < s.n → ∀ t, tg x = some t → t < s.n) {n : Nat} (hn : n < s.n) :
    n ∈ reach s tg n ∧ ∀ z ∈ reach s tg n, ∀ y ∈ nb s tg z, y ∈ reach s tg n := by
  have hfuel : [n].length + (s.n - ([] : List Nat).length) * (s.n + 2) ≤ (s.n + 1) * (s.n + 3) := by
    simp only [List.length_cons, List.length_nil, Nat.sub_zero]
    have h1 : s.n * (s.n + 2) ≤ s.n * (s.n + 3) := Nat.mul_le_mul_left _ (by omega)
    rw [Nat.succ_mul]
    omega
  obtain ⟨_, r2, r3⟩ := reachF_closed h htg _ [n] [] List.nodup_nil (fun x hx => by cases hx)
    (fun x hx => by simp only [List.mem_singleton] at hx; subst hx; exact hn)
    (fun z hz => by cases hz) hfuel
  exact ⟨r2 n (List.mem_singleton.mpr rfl), r3⟩

end Attr
end Anytree
