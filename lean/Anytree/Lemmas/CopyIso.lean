import Anytree.Spec.Attr
import Anytree.Model.Bridge
import Anytree.Lemmas.Chain
import Anytree.Lemmas.Copy
/-!
# The deep copy as a model function (helper lemmas for C19b)

`copy.deepcopy(n)` / `pickle.loads(pickle.dumps(n))` rebuild exactly the objects reachable from `n`
with fresh identities.  In the model: given the list `R` of reached objects (duplicate free), the
copied object number `i` is the copy of `R[i]`, and every reference `x ↦ y` between reached objects
becomes the reference `pos R x ↦ pos R y`.

This file defines the renaming `pos`, the copied structure `copyForest` / `copyTargets`, and proves
the graph-theoretic facts: the copy is a consistent forest, `i ↦ R[i]` is an isomorphism onto the
reached part of the original, and the unfolded trees agree.
-/
namespace Anytree
open Forest

namespace Attr

/-- the fresh identity of the copy of `x`: its position in the list of reached objects -/
def pos (R : List Nat) (x : Nat) : Option Nat :=
  if x ∈ R then some (R.idxOf x) else none

/-- the copied link maps over the fresh identities `0 … R.length-1` -/
def copyForest (s : Forest) (R : List Nat) : Forest :=
  { n := R.length,
    parent := fun i => (R[i]?).bind (fun x => (s.parent x).bind (pos R)),
    children := fun i =>
      match R[i]? with
      | none => []
      | some x => (s.children x).filterMap (pos R) }

/-- the copied symlink targets -/
def copyTargets (tg : Nat → Option Nat) (R : List Nat) : Nat → Option Nat :=
  fun i => (R[i]?).bind (fun x => (tg x).bind (pos R))

/-! ## the renaming -/

theorem pos_eq_none_iff {R : List Nat} {x : Nat} : pos R x = none ↔ x ∉ R := by
  unfold pos
  by_cases h : x ∈ R <;> simp [h]

theorem pos_isSome_iff {R : List Nat} {x : Nat} : (pos R x).isSome ↔ x ∈ R := by
  unfold pos
  by_cases h : x ∈ R <;> simp [h]

/-- the position found holds the object looked for -/
theorem getElem?_of_pos {R : List Nat} {x i : Nat} (h : pos R x = some i) : R[i]? = some x := by
  unfold pos at h
  by_cases hx : x ∈ R
  · simp only [hx, if_true, Option.some.injEq] at h
    subst h
    have hlt : R.idxOf x < R.length := List.idxOf_lt_length_of_mem hx
    rw [List.getElem?_eq_getElem hlt, List.getElem_idxOf hlt]
  · simp [hx] at h

theorem lt_of_pos {R : List Nat} {x i : Nat} (h : pos R x = some i) : i < R.length := by
  have := getElem?_of_pos h
  exact (List.getElem?_eq_some_iff.mp this).1

theorem mem_of_pos {R : List Nat} {x i : Nat} (h : pos R x = some i) : x ∈ R :=
  pos_isSome_iff.mp (by rw [h]; rfl)

theorem pos_of_mem {R : List Nat} {x : Nat} (h : x ∈ R) : ∃ i, pos R x = some i ∧ R[i]? = some x := by
  have : pos R x = some (R.idxOf x) := by simp [pos, h]
  exact ⟨_, this, getElem?_of_pos this⟩

/-- in a duplicate-free list the position is determined by the entry -/
theorem pos_of_getElem? {R : List Nat} (hnd : R.Nodup) {x i : Nat} (h : R[i]? = some x) :
    pos R x = some i := by
  have hx : x ∈ R := List.mem_of_getElem? h
  obtain ⟨j, hj, hjx⟩ := pos_of_mem hx
  have hi : i < R.length := (List.getElem?_eq_some_iff.mp h).1
  have : i = j := (List.getElem?_inj hi hnd).mp (by rw [h, hjx])
  rw [this]; exact hj

theorem pos_eq_some_iff {R : List Nat} (hnd : R.Nodup) {x i : Nat} :
    pos R x = some i ↔ R[i]? = some x :=
  ⟨getElem?_of_pos, pos_of_getElem? hnd⟩

/-- `pos R` is injective where it is defined -/
theorem pos_inj {R : List Nat} {x y i : Nat} (hx : pos R x = some i) (hy : pos R y = some i) :
    x = y := by
  have h1 := getElem?_of_pos hx
  have h2 := getElem?_of_pos hy
  rw [h1] at h2
  exact Option.some.inj h2

/-- `i ↦ R[i]` and `pos R` are mutually inverse between `0 … R.length-1` and the members of `R` -/
theorem pos_getElem {R : List Nat} (hnd : R.Nodup) {i : Nat} (hi : i < R.length) :
    pos R R[i] = some i :=
  pos_of_getElem? hnd (List.getElem?_eq_getElem hi)

theorem getElem!_of_pos {R : List Nat} {x i : Nat} (h : pos R x = some i) : R[i]! = x := by
  have := getElem?_of_pos h
  simp [getElem!_def, this]

theorem pos_head {R : List Nat} {e : Nat} (h : R.head? = some e) : pos R e = some 0 := by
  cases R with
  | nil => simp at h
  | cons a l =>
    simp only [List.head?_cons, Option.some.injEq] at h
    subst h
    simp [pos]

/-! ## renaming a list of references -/

theorem filterMap_pos_nodup {R : List Nat} : ∀ {l : List Nat}, l.Nodup → (l.filterMap (pos R)).Nodup := by
  intro l
  induction l with
  | nil => intro _; simp
  | cons a l ih =>
    intro h
    rw [List.nodup_cons] at h
    cases ha : pos R a with
    | none => rw [List.filterMap_cons_none ha]; exact ih h.2
    | some i =>
      rw [List.filterMap_cons_some ha, List.nodup_cons]
      refine ⟨?_, ih h.2⟩
      intro hi
      obtain ⟨b, hb, hbi⟩ := List.mem_filterMap.mp hi
      have := pos_inj ha hbi
      subst this
      exact h.1 hb

theorem mem_filterMap_pos {R l : List Nat} {j : Nat} :
    j ∈ l.filterMap (pos R) ↔ ∃ c ∈ l, pos R c = some j := List.mem_filterMap

/-- renaming the members of a list that lies inside `R`, then reading the result back through any
`g` that agrees with `h` along the renaming, gives `l.map h` -/
theorem map_filterMap_pos {β : Type} {R : List Nat} (g h : Nat → β) :
    ∀ (l : List Nat), (∀ c ∈ l, c ∈ R) → (∀ c ∈ l, ∀ j, pos R c = some j → g j = h c) →
      (l.filterMap (pos R)).map g = l.map h := by
  intro l
  induction l with
  | nil => intro _ _; rfl
  | cons a l ih =>
    intro hR hg
    obtain ⟨i, hi, _⟩ := pos_of_mem (hR a (List.mem_cons_self ..))
    rw [List.filterMap_cons_some hi, List.map_cons, List.map_cons,
      hg a (List.mem_cons_self ..) i hi,
      ih (fun c hc => hR c (List.mem_cons_of_mem _ hc))
        (fun c hc => hg c (List.mem_cons_of_mem _ hc))]

theorem filterMap_pos_length {R : List Nat} (l : List Nat) (hR : ∀ c ∈ l, c ∈ R) :
    (l.filterMap (pos R)).length = l.length := by
  have := congrArg List.length
    (map_filterMap_pos (R := R) (fun _ => ()) (fun _ => ()) l hR (fun _ _ _ _ => rfl))
  simpa using this

/-! ## the copied links, pointwise -/

section
variable {s : Forest} {tg : Nat → Option Nat} {R : List Nat}

@[simp] theorem copyForest_n : (copyForest s R).n = R.length := rfl

theorem copy_parent {i x : Nat} (hi : R[i]? = some x) :
    (copyForest s R).parent i = (s.parent x).bind (pos R) := by
  simp [copyForest, hi]

theorem copy_children {i x : Nat} (hi : R[i]? = some x) :
    (copyForest s R).children i = (s.children x).filterMap (pos R) := by
  simp [copyForest, hi]

theorem copy_target {i x : Nat} (hi : R[i]? = some x) :
    copyTargets tg R i = (tg x).bind (pos R) := by
  simp [copyTargets, hi]

theorem copy_parent_out {i : Nat} (hi : R.length ≤ i) : (copyForest s R).parent i = none := by
  simp [copyForest, List.getElem?_eq_none hi]

theorem copy_children_out {i : Nat} (hi : R.length ≤ i) : (copyForest s R).children i = [] := by
  simp [copyForest, List.getElem?_eq_none hi]

theorem copy_target_out {i : Nat} (hi : R.length ≤ i) : copyTargets tg R i = none := by
  simp [copyTargets, List.getElem?_eq_none hi]

/-- a parent link of the copy comes from a parent link of the original -/
theorem copy_parent_some {i j : Nat} (h : (copyForest s R).parent i = some j) :
    ∃ x p, R[i]? = some x ∧ s.parent x = some p ∧ pos R p = some j := by
  cases hi : R[i]? with
  | none => simp [copyForest, hi] at h
  | some x =>
    rw [copy_parent hi] at h
    cases hp : s.parent x with
    | none => simp [hp] at h
    | some p => rw [hp] at h; exact ⟨x, p, rfl, hp, h⟩

theorem copy_child_mem {i j : Nat} (h : j ∈ (copyForest s R).children i) :
    ∃ x c, R[i]? = some x ∧ c ∈ s.children x ∧ pos R c = some j := by
  cases hi : R[i]? with
  | none => simp [copyForest, hi] at h
  | some x =>
    rw [copy_children hi] at h
    obtain ⟨c, hc, hcj⟩ := mem_filterMap_pos.mp h
    exact ⟨x, c, rfl, hc, hcj⟩

/-- the copy of `x` has the copy of `p` as parent exactly when `x` has parent `p` -/
theorem copy_parent_eq_some_iff (hnd : R.Nodup) {i x j : Nat} (hi : R[i]? = some x) :
    (copyForest s R).parent i = some j ↔ ∃ p, s.parent x = some p ∧ R[j]? = some p := by
  constructor
  · intro h
    obtain ⟨x', p, hx', hp, hj⟩ := copy_parent_some h
    rw [hi] at hx'; cases hx'
    exact ⟨p, hp, getElem?_of_pos hj⟩
  · rintro ⟨p, hp, hj⟩
    rw [copy_parent hi, hp]
    exact pos_of_getElem? hnd hj

theorem copy_target_eq_some_iff (hnd : R.Nodup) {i x j : Nat} (hi : R[i]? = some x) :
    copyTargets tg R i = some j ↔ ∃ t, tg x = some t ∧ R[j]? = some t := by
  rw [copy_target hi]
  constructor
  · intro h
    cases ht : tg x with
    | none => simp [ht] at h
    | some t => rw [ht] at h; exact ⟨t, rfl, getElem?_of_pos h⟩
  · rintro ⟨t, ht, hj⟩
    rw [ht]; exact pos_of_getElem? hnd hj

/-- a parentless copy is the copy of a parentless node (needs closure under `parent`) -/
theorem copy_parent_eq_none_iff (hclp : ∀ x p, x ∈ R → s.parent x = some p → p ∈ R)
    {i x : Nat} (hi : R[i]? = some x) :
    (copyForest s R).parent i = none ↔ s.parent x = none := by
  rw [copy_parent hi]
  cases hp : s.parent x with
  | none => simp
  | some p =>
    obtain ⟨j, hj, _⟩ := pos_of_mem (hclp x p (List.mem_of_getElem? hi) hp)
    simp [hj]

theorem copy_target_eq_none_iff (hclt : ∀ x t, x ∈ R → tg x = some t → t ∈ R)
    {i x : Nat} (hi : R[i]? = some x) :
    copyTargets tg R i = none ↔ tg x = none := by
  rw [copy_target hi]
  cases ht : tg x with
  | none => simp
  | some t =>
    obtain ⟨j, hj, _⟩ := pos_of_mem (hclt x t (List.mem_of_getElem? hi) ht)
    simp [hj]

/-- the children tuple of the copy of `x`, read back through `i ↦ R[i]`, is the children tuple of
`x`, in the same order (needs closure under `children`) -/
theorem copy_children_map (hclc : ∀ x c, x ∈ R → c ∈ s.children x → c ∈ R)
    {i x : Nat} (hi : R[i]? = some x) :
    ((copyForest s R).children i).map (fun j => R[j]!) = s.children x := by
  rw [copy_children hi]
  have := map_filterMap_pos (R := R) (fun j => R[j]!) id (s.children x)
    (fun c hc => hclc x c (List.mem_of_getElem? hi) hc)
    (fun c _ j hj => getElem!_of_pos hj)
  simpa using this

theorem copy_children_map? (hclc : ∀ x c, x ∈ R → c ∈ s.children x → c ∈ R)
    {i x : Nat} (hi : R[i]? = some x) :
    ((copyForest s R).children i).map (fun j => R[j]?) = (s.children x).map some := by
  rw [copy_children hi]
  exact map_filterMap_pos (R := R) (fun j => R[j]?) some (s.children x)
    (fun c hc => hclc x c (List.mem_of_getElem? hi) hc)
    (fun c _ j hj => getElem?_of_pos hj)

theorem copy_children_length (hclc : ∀ x c, x ∈ R → c ∈ s.children x → c ∈ R)
    {i x : Nat} (hi : R[i]? = some x) :
    ((copyForest s R).children i).length = (s.children x).length := by
  rw [copy_children hi]
  exact filterMap_pos_length _ (fun c hc => hclc x c (List.mem_of_getElem? hi) hc)

/-! ## parent chains of the copy -/

/-- a chain of the copy projects to a chain of the original -/
theorem copy_up_some : ∀ (k : Nat) {i j : Nat}, (copyForest s R).up k i = some j → i < R.length →
    ∃ x y, R[i]? = some x ∧ R[j]? = some y ∧ s.up k x = some y := by
  intro k
  induction k with
  | zero =>
    intro i j h hi
    simp only [up, Option.some.injEq] at h
    subst h
    exact ⟨R[i], R[i], List.getElem?_eq_getElem hi, List.getElem?_eq_getElem hi, rfl⟩
  | succ k ih =>
    intro i j h hi
    cases hp : (copyForest s R).parent i with
    | none => simp [up, hp] at h
    | some q =>
      rw [up_succ_of_parent hp] at h
      obtain ⟨x, p, hx, hxp, hq⟩ := copy_parent_some hp
      obtain ⟨x', y, hx', hy, hup⟩ := ih h (lt_of_pos hq)
      rw [getElem?_of_pos hq] at hx'; cases hx'
      exact ⟨x, y, hx, hy, by rw [up_succ_of_parent hxp]; exact hup⟩

/-- chains of the copy end where the original's do -/
theorem copy_up_none : ∀ (k : Nat) {i x : Nat}, R[i]? = some x → s.up k x = none →
    (copyForest s R).up k i = none := by
  intro k
  induction k with
  | zero => intro i x _ h; simp [up] at h
  | succ k ih =>
    intro i x hi h
    cases hp : (copyForest s R).parent i with
    | none => exact up_succ_root hp k
    | some q =>
      rw [up_succ_of_parent hp]
      obtain ⟨x', p, hx', hxp, hq⟩ := copy_parent_some hp
      rw [hi] at hx'; cases hx'
      rw [up_succ_of_parent hxp] at h
      exact ih (getElem?_of_pos hq) h

/-- with `R` closed under `parent`, the `k`-th ancestor of the copy is the copy of the `k`-th ancestor -/
theorem copy_up (hnd : R.Nodup) (hclp : ∀ x p, x ∈ R → s.parent x = some p → p ∈ R) :
    ∀ (k : Nat) {i x : Nat}, R[i]? = some x →
      (copyForest s R).up k i = (s.up k x).bind (pos R) := by
  intro k
  induction k with
  | zero =>
    intro i x hi
    simp only [up, Option.bind_some]
    exact (pos_of_getElem? hnd hi).symm
  | succ k ih =>
    intro i x hi
    cases hp : s.parent x with
    | none =>
      have : (copyForest s R).parent i = none := (copy_parent_eq_none_iff hclp hi).mpr hp
      rw [up_succ_root this, up_succ_root hp]; rfl
    | some p =>
      obtain ⟨j, hj, hjp⟩ := pos_of_mem (hclp x p (List.mem_of_getElem? hi) hp)
      have : (copyForest s R).parent i = some j := by rw [copy_parent hi, hp]; exact hj
      rw [up_succ_of_parent this, up_succ_of_parent hp]
      exact ih hjp

end

/-! ## the copy is a consistent forest -/

section
variable {s : Forest} {tg : Nat → Option Nat} {R : List Nat}

/-- C01 for the copy: renaming the links among a duplicate-free list of objects of a consistent
forest gives a consistent forest.  (Closure of `R` is not needed for consistency: a reference leaving
`R` is dropped on both sides.) -/
theorem copyForest_inv (h : Inv s) (hnd : R.Nodup) : Inv (copyForest s R) where
  bidir := by
    intro c p
    constructor
    · intro hcp
      obtain ⟨x, y, hx, hxy, hy⟩ := copy_parent_some hcp
      rw [copy_children (getElem?_of_pos hy)]
      exact mem_filterMap_pos.mpr ⟨x, (h.bidir x y).mp hxy, pos_of_getElem? hnd hx⟩
    · intro hc
      obtain ⟨y, x, hy, hxy, hx⟩ := copy_child_mem hc
      rw [copy_parent (getElem?_of_pos hx), (h.bidir x y).mpr hxy]
      exact pos_of_getElem? hnd hy
  nodup := by
    intro p
    cases hp : R[p]? with
    | none => simp [copyForest, hp]
    | some y => rw [copy_children hp]; exact filterMap_pos_nodup (h.nodup y)
  term := by
    intro i
    cases hi : R[i]? with
    | none =>
      refine ⟨1, up_succ_root ?_ 0⟩
      simp [copyForest, hi]
    | some x =>
      obtain ⟨k, hk⟩ := h.term x
      exact ⟨k, copy_up_none k hi hk⟩
  supp := by
    intro i hi
    exact ⟨copy_parent_out hi, copy_children_out hi⟩

/-- all references of the copy stay inside the copy -/
theorem copy_parent_lt {i j : Nat} (h : (copyForest s R).parent i = some j) :
    i < R.length ∧ j < R.length := by
  obtain ⟨x, p, hx, _, hj⟩ := copy_parent_some h
  exact ⟨(List.getElem?_eq_some_iff.mp hx).1, lt_of_pos hj⟩

theorem copy_child_lt {i j : Nat} (h : j ∈ (copyForest s R).children i) :
    i < R.length ∧ j < R.length := by
  obtain ⟨x, c, hx, _, hj⟩ := copy_child_mem h
  exact ⟨(List.getElem?_eq_some_iff.mp hx).1, lt_of_pos hj⟩

theorem copy_target_lt {i j : Nat} (h : copyTargets tg R i = some j) :
    i < R.length ∧ j < R.length := by
  cases hi : R[i]? with
  | none => simp [copyTargets, hi] at h
  | some x =>
    rw [copy_target hi] at h
    cases ht : tg x with
    | none => simp [ht] at h
    | some t => rw [ht] at h; exact ⟨(List.getElem?_eq_some_iff.mp hi).1, lt_of_pos h⟩

end

/-! ## the unfolded trees agree -/

theorem Tree_mapL_eq_map {α β : Type} (f : α → β) (cs : List (Tree α)) :
    Tree.mapL f cs = cs.map (Tree.map f) := by
  induction cs with
  | nil => rfl
  | cons c cs ih => simp [Tree.mapL, ih]

/-- reading the unfolded tree of the copy of `x` back through `i ↦ R[i]` gives the unfolded tree of
`x` (same fuel): same shape, same child order, corresponding nodes -/
theorem copy_toTree {s : Forest} {R : List Nat}
    (hclc : ∀ x c, x ∈ R → c ∈ s.children x → c ∈ R) :
    ∀ (fuel : Nat) {i x : Nat}, R[i]? = some x →
      ((copyForest s R).toTree fuel i).map (fun j => R[j]!) = s.toTree fuel x := by
  intro fuel
  induction fuel with
  | zero =>
    intro i x hi
    simp [toTree, Tree.map, Tree.mapL, getElem!_def, hi]
  | succ fuel ih =>
    intro i x hi
    simp only [toTree, Tree.map, Tree_mapL_eq_map, List.map_map]
    have hroot : R[i]! = x := by simp [getElem!_def, hi]
    rw [hroot, copy_children hi]
    congr 1
    exact map_filterMap_pos (R := R) _ _ (s.children x)
      (fun c hc => hclc x c (List.mem_of_getElem? hi) hc)
      (fun c _ j hj => ih (getElem?_of_pos hj))

/-- the same without `Tree.map`: the pre-order listing of the copy's tree, read back, is the pre-order
listing of the original's tree -/
theorem Tree_pre_map {α β : Type} (f : α → β) :
    ∀ t : Tree α, (t.map f).pre = t.pre.map f := by
  intro t
  refine Tree.rec (motive_1 := fun t => (t.map f).pre = t.pre.map f)
    (motive_2 := fun cs => Tree.preL (Tree.mapL f cs) = (Tree.preL cs).map f) ?_ ?_ ?_ t
  · intro a cs ih; simp [Tree.map, Tree.pre, ih]
  · simp [Tree.mapL, Tree.preL]
  · intro c cs ih1 ih2; simp [Tree.mapL, Tree.preL, ih1, ih2]

theorem copy_toTree_pre {s : Forest} {R : List Nat}
    (hclc : ∀ x c, x ∈ R → c ∈ s.children x → c ∈ R) (fuel : Nat) {i x : Nat}
    (hi : R[i]? = some x) :
    ((copyForest s R).toTree fuel i).pre.map (fun j => R[j]!) = (s.toTree fuel x).pre := by
  rw [← Tree_pre_map, copy_toTree hclc fuel hi]

/-! ## the traversal lists the entry node first -/

theorem reachF_prefix {s : Forest} {tg : Nat → Option Nat} :
    ∀ fuel fr seen, ∃ t, reachF s tg fuel fr seen = seen ++ t := by
  intro fuel
  induction fuel with
  | zero => intro fr seen; exact ⟨[], by simp [reachF]⟩
  | succ fuel ih =>
    intro fr seen
    cases fr with
    | nil => exact ⟨[], by simp [reachF]⟩
    | cons x fr =>
      rw [reachF_cons]
      by_cases hx : seen.contains x = true
      · simp only [hx, if_true]; exact ih fr seen
      · simp only [hx]
        obtain ⟨t, ht⟩ := ih (fr ++ nb s tg x) (seen ++ [x])
        exact ⟨x :: t, by rw [ht]; simp⟩

/-- the traversal starts with the entry node (no hypothesis on `s` or `n` needed: the fuel is positive) -/
theorem reach_head (s : Forest) (tg : Nat → Option Nat) (n : Nat) :
    (reach s tg n).head? = some n := by
  unfold reach
  obtain ⟨f, hf⟩ : ∃ f, (s.n + 1) * (s.n + 3) = f + 1 :=
    ⟨(s.n + 1) * (s.n + 3) - 1, by
      have : 0 < (s.n + 1) * (s.n + 3) := Nat.mul_pos (by omega) (by omega)
      omega⟩
  rw [hf, reachF_cons]
  simp only [List.contains_nil, Bool.false_eq_true, if_false, List.nil_append]
  obtain ⟨t, ht⟩ := reachF_prefix (s := s) (tg := tg) f (nb s tg n) [n]
  rw [ht]; rfl

/-- the copy of the entry node is object `0` of the copy -/
theorem pos_reach_entry (s : Forest) (tg : Nat → Option Nat) (n : Nat) :
    pos (reach s tg n) n = some 0 := pos_head (reach_head s tg n)

theorem reach_getElem?_zero (s : Forest) (tg : Nat → Option Nat) (n : Nat) :
    (reach s tg n)[0]? = some n := getElem?_of_pos (pos_reach_entry s tg n)

end Attr
end Anytree
