import Anytree.Lemmas.ForestFault
/-!
The `children` deleter and the delete phase / restore of the `children` setter under an
**arbitrary** fault schedule.

* Part 1 — `detachLoop_errors`: the detach loop can only raise a `_pre_detach` / `_post_detach`
  exception of one of the listed nodes; `Inv` and the object count survive in every case.
* Part 2 — `delChildren_veto_unchanged`: `del n.children` vetoed by `_pre_detach_children`, or by the
  **first** child's `_pre_detach`, leaves the forest exactly as it was; the same for the delete
  phase of `n.children = xs` (`setChildren_delete_phase_veto_unchanged`).
* Part 3 — finding K4, `persistent_preAttachChildren_diverges`: when `_pre_attach_children` raises
  persistently, the recursive restore of the children setter never terminates: for **every** amount
  of fuel the result is `diverged`.

Remark on fuel.  A parent assignment `x.parent = None` never runs the loop check, so none of the
statements below needs a relation between the fuel and the number of objects (the hypotheses
`w.f.n < fuel` requested by the callers are accepted and ignored where they appear).
-/
namespace Anytree
open Forest

/-! ## one hook invocation -/

theorem hook_ok {c : Cfg} {k : HookKind} {node : Nat} {w : World} (arg : List Nat)
    (h : c.φ w.cnt k node = false) :
    hook c k node arg w =
      (.ok (), ⟨w.f, w.log ++ [⟨k, node, arg, w.f.snap⟩], w.cnt + 1⟩) := by
  simp [hook, h]

theorem hook_err {c : Cfg} {k : HookKind} {node : Nat} {w : World} (arg : List Nat)
    (h : c.φ w.cnt k node = true) :
    hook c k node arg w =
      (.error (.hook w.cnt k node), ⟨w.f, w.log ++ [⟨k, node, arg, w.f.snap⟩], w.cnt + 1⟩) := by
  simp [hook, h]

/-! ## `ch.parent = None` under every fault schedule -/

/-- the three ways `ch.parent = None` can end from a consistent forest (no fuel needed: the loop
check is not run for `None`) -/
theorem setParent_none_cases (c : Cfg) (fuel ch : Nat) (w : World) (h : Inv w.f) :
    ((setParent c fuel ch none w).1 = .ok () ∧
      ((setParent c fuel ch none w).2.f = w.f ∨
       (setParent c fuel ch none w).2.f = Spec.detached w.f ch)) ∨
    (∃ i, (setParent c fuel ch none w).1 = .error (.hook i .preDetach ch) ∧
      (setParent c fuel ch none w).2.f = w.f) ∨
    (∃ i, (setParent c fuel ch none w).1 = .error (.hook i .postDetach ch) ∧
      (setParent c fuel ch none w).2.f = Spec.detached w.f ch) := by
  simp only [setParent]
  cases hp : w.f.parent ch with
  | none => simp only [if_true]; exact Or.inl ⟨trivial, Or.inl trivial⟩
  | some q =>
    have hm : ch ∈ w.f.children q := (h.bidir ch q).1 hp
    simp only [reduceCtorEq, if_false, detach_cases c ch q w hm]
    by_cases h1 : c.φ w.cnt .preDetach ch = true
    · simp only [h1, if_true]
      exact Or.inr (Or.inl ⟨_, rfl, rfl⟩)
    · simp only [h1, Bool.false_eq_true, if_false]
      by_cases h2 : c.φ (w.cnt + 1) .postDetach ch = true
      · simp only [h2, if_true]
        exact Or.inr (Or.inr ⟨_, rfl, by rw [World.adv, ← Spec.detached_eq hp]⟩)
      · simp only [h2, Bool.false_eq_true, if_false]
        exact Or.inl ⟨trivial, Or.inr (by rw [World.adv, ← Spec.detached_eq hp])⟩

/-! ## Part 1 — errors of the detach loop -/

/-- **Part 1.**  Under every fault schedule the detach loop over `cs` can only raise the exception
of a `_pre_detach` / `_post_detach` hook of a node of `cs`; whether it returns or raises, the forest
is consistent and no object was created. -/
theorem detachLoop_errors (c : Cfg) (fuel : Nat) :
    ∀ (cs : List Nat) (w : World), Inv w.f →
      (∀ e, (forM' cs (fun ch => setParent c fuel ch none) w).1 = .error e →
        ∃ i k m, e = .hook i k m ∧ m ∈ cs ∧ (k = .preDetach ∨ k = .postDetach)) ∧
      Inv (forM' cs (fun ch => setParent c fuel ch none) w).2.f ∧
      (forM' cs (fun ch => setParent c fuel ch none) w).2.f.n = w.f.n := by
  intro cs
  induction cs with
  | nil =>
    intro w h
    refine ⟨?_, h, rfl⟩
    intro e he
    simp [forM', M.ok] at he
  | cons ch cs ih =>
    intro w h
    have hc := setParent_none_cases c fuel ch w h
    simp only [forM', M.seq]
    cases hr : setParent c fuel ch none w with
    | mk r w1 =>
      rw [hr] at hc
      simp only at hc
      cases r with
      | ok u =>
        cases u
        simp only
        have hw1 : Inv w1.f ∧ w1.f.n = w.f.n := by
          rcases hc with ⟨_, hf | hf⟩ | ⟨i, he, _⟩ | ⟨i, he, _⟩
          · rw [hf]; exact ⟨h, rfl⟩
          · rw [hf]; exact ⟨Spec.inv_detached h ch, Spec.detached_n _ _⟩
          · cases he
          · cases he
        obtain ⟨h1, h2, h3⟩ := ih w1 hw1.1
        refine ⟨?_, h2, h3.trans hw1.2⟩
        intro e he
        obtain ⟨i, k, m, e1, e2, e3⟩ := h1 e he
        exact ⟨i, k, m, e1, List.mem_cons_of_mem _ e2, e3⟩
      | error e0 =>
        simp only
        rcases hc with ⟨he, _⟩ | ⟨i, he, hf⟩ | ⟨i, he, hf⟩
        · cases he
        · refine ⟨?_, by rw [hf]; exact h, by rw [hf]⟩
          intro e he'
          cases he; cases he'
          exact ⟨i, .preDetach, ch, rfl, List.mem_cons_self, Or.inl rfl⟩
        · refine ⟨?_, by rw [hf]; exact Spec.inv_detached h ch, by rw [hf]; exact Spec.detached_n _ _⟩
          intro e he'
          cases he; cases he'
          exact ⟨i, .postDetach, ch, rfl, List.mem_cons_self, Or.inr rfl⟩

/-- Part 1 with the signature requested by the callers (the fuel bound is not needed) -/
theorem detachLoop_errors' (c : Cfg) (fuel : Nat) (cs : List Nat) (w : World) (h : Inv w.f)
    (_hfuel : w.f.n < fuel) :
    (∀ e, (forM' cs (fun ch => setParent c fuel ch none) w).1 = .error e →
      ∃ i k m, e = .hook i k m ∧ m ∈ cs ∧ (k = .preDetach ∨ k = .postDetach)) ∧
    Inv (forM' cs (fun ch => setParent c fuel ch none) w).2.f ∧
    (forM' cs (fun ch => setParent c fuel ch none) w).2.f.n = w.f.n :=
  detachLoop_errors c fuel cs w h

/-! ## Part 2 — the true part of C03 for `del n.children` -/

/-- if the detach loop over a duplicate-free list raises the `_pre_detach` exception of the
**first** element, nothing was changed -/
theorem detachLoop_head_veto (c : Cfg) (fuel : Nat) (cs : List Nat) (w : World) (h : Inv w.f)
    (hnd : cs.Nodup) (i m : Nat) (hhead : cs.head? = some m)
    (he : (forM' cs (fun ch => setParent c fuel ch none) w).1 = .error (.hook i .preDetach m)) :
    (forM' cs (fun ch => setParent c fuel ch none) w).2.f = w.f := by
  cases cs with
  | nil => simp at hhead
  | cons ch rest =>
    simp only [List.head?_cons, Option.some.injEq] at hhead
    subst hhead
    have hnot : ch ∉ rest := (List.nodup_cons.mp hnd).1
    have hc := setParent_none_cases c fuel ch w h
    simp only [forM', M.seq] at he ⊢
    cases hr : setParent c fuel ch none w with
    | mk r w1 =>
      rw [hr] at hc he
      simp only at hc he ⊢
      cases r with
      | ok u =>
        cases u
        simp only at he ⊢
        have hw1 : Inv w1.f := by
          rcases hc with ⟨_, hf | hf⟩ | ⟨j, he', _⟩ | ⟨j, he', _⟩
          · rw [hf]; exact h
          · rw [hf]; exact Spec.inv_detached h ch
          · cases he'
          · cases he'
        obtain ⟨j, k, m, e1, e2, _⟩ := (detachLoop_errors c fuel rest w1 hw1).1 _ he
        cases e1
        exact absurd e2 hnot
      | error e0 =>
        simp only at he ⊢
        rcases hc with ⟨he', _⟩ | ⟨j, _, hf⟩ | ⟨j, he', _⟩
        · cases he'
        · exact hf
        · rw [he'] at he; cases he

/-- world-level form of `delChildren_veto_unchanged` -/
theorem delChildren_veto_world (c : Cfg) (fuel n : Nat) (w : World) (h : Inv w.f) (i : Nat)
    (k : HookKind) (m : Nat)
    (he : (delChildren c fuel n w).1 = .error (.hook i k m))
    (hk : k = .preDetachChildren ∨ (k = .preDetach ∧ (w.f.children n).head? = some m)) :
    (delChildren c fuel n w).2.f = w.f := by
  simp only [delChildren, M.seq] at he ⊢
  by_cases h0 : c.φ w.cnt .preDetachChildren n = true
  · simp only [hook_err _ h0]
  · have h0' : c.φ w.cnt .preDetachChildren n = false := by simpa using h0
    simp only [hook_ok _ h0'] at he ⊢
    generalize hw0 : (⟨w.f, w.log ++ [⟨.preDetachChildren, n, w.f.children n, w.f.snap⟩],
      w.cnt + 1⟩ : World) = w0 at he ⊢
    have hw0f : w0.f = w.f := by rw [← hw0]
    have hi0 : Inv w0.f := by rw [hw0f]; exact h
    have hl := detachLoop_errors c fuel (w.f.children n) w0 hi0
    have hhd := detachLoop_head_veto c fuel (w.f.children n) w0 hi0 (h.nodup n)
    cases hr : forM' (w.f.children n) (fun ch => setParent c fuel ch none) w0 with
    | mk r w1 =>
      rw [hr] at hl hhd he
      simp only at hl hhd he ⊢
      cases r with
      | error e0 =>
        simp only at he ⊢
        cases he
        rcases hk with hk | ⟨hk, hhead⟩
        · obtain ⟨j, k', m', e1, _, e3⟩ := hl.1 _ rfl
          cases e1; subst hk
          rcases e3 with e3 | e3 <;> cases e3
        · subst hk
          rw [hhd i m hhead rfl, hw0f]
      | ok u =>
        cases u
        simp only at he ⊢
        simp only [assertM] at he ⊢
        by_cases ha : (c.asrt && !((w1.f.children n).length == 0)) = true
        · simp only [ha, if_true] at he; cases he
        · simp only [ha, Bool.false_eq_true, if_false] at he ⊢
          by_cases hp : c.φ w1.cnt .postDetachChildren n = true
          · simp only [hook_err _ hp] at he
            cases he
            rcases hk with hk | ⟨hk, _⟩ <;> cases hk
          · have hp' : c.φ w1.cnt .postDetachChildren n = false := by simpa using hp
            simp only [hook_ok _ hp'] at he
            cases he

/-- **Part 2.**  `del n.children` vetoed by `_pre_detach_children`, or by the `_pre_detach` hook of
the **first** child, leaves every link as it was — under every fault schedule.  (A veto by a later
child's `_pre_detach` is finding K2.) -/
theorem delChildren_veto_unchanged (c : Cfg) (fuel n : Nat) (s : Forest) (h : Inv s)
    (_hfuel : s.n < fuel) (i : Nat) (k : HookKind) (m : Nat)
    (he : (exec c fuel (.delChildren n) s).res = .error (.hook i k m))
    (hk : k = .preDetachChildren ∨ (k = .preDetach ∧ (s.children n).head? = some m)) :
    (exec c fuel (.delChildren n) s).f = s :=
  delChildren_veto_world c fuel n ⟨s, [], 0⟩ h i k m he hk

/-- an exception of the delete phase is the exception of the children setter, in the same state
(the `try` block has not been entered) -/
theorem setChildrenNodes_delete_error (c : Cfg) (fuel n : Nat) (xs : List Nat) (w w' : World)
    (e : Err) (hd : delChildren c fuel n w = (.error e, w')) :
    setChildrenNodes c (fuel + 1) n xs w = (.error e, w') := by
  simp only [setChildrenNodes, M.seq, hd]

/-- world-level: a veto in the delete phase of `n.children = xs` -/
theorem setChildrenNodes_delete_phase_veto_unchanged (c : Cfg) (fuel n : Nat) (xs : List Nat)
    (w : World) (h : Inv w.f) (i : Nat) (k : HookKind) (m : Nat)
    (he : (delChildren c fuel n w).1 = .error (.hook i k m))
    (hk : k = .preDetachChildren ∨ (k = .preDetach ∧ (w.f.children n).head? = some m)) :
    (setChildrenNodes c (fuel + 1) n xs w).1 = .error (.hook i k m) ∧
    (setChildrenNodes c (fuel + 1) n xs w).2.f = w.f := by
  have hf := delChildren_veto_world c fuel n w h i k m he hk
  cases hr : delChildren c fuel n w with
  | mk r w' =>
    rw [hr] at he hf
    simp only at he hf
    subst he
    rw [setChildrenNodes_delete_error c fuel n xs w w' _ hr]
    exact ⟨rfl, hf⟩

/-- **Part 2, children setter.**  If the delete phase of `n.children = xs` (arguments accepted by
`__check_children`) is vetoed by `_pre_detach_children` or by the first old child's `_pre_detach`,
the assignment raises that exception and leaves every link as it was. -/
theorem setChildren_delete_phase_veto_unchanged (c : Cfg) (fuel n : Nat) (as : List Arg)
    (s : Forest) (h : Inv s) (_hfuel : s.n < fuel) (hchk : checkChildren c.fl [] as = .ok ())
    (i : Nat) (k : HookKind) (m : Nat)
    (he : (exec c fuel (.delChildren n) s).res = .error (.hook i k m))
    (hk : k = .preDetachChildren ∨ (k = .preDetach ∧ (s.children n).head? = some m)) :
    (exec c (fuel + 1) (.setChildren n (some as)) s).res = .error (.hook i k m) ∧
    (exec c (fuel + 1) (.setChildren n (some as)) s).f = s := by
  simp only [exec, Op.run, setChildren, hchk]
  exact setChildrenNodes_delete_phase_veto_unchanged c fuel n (argsToNodes as) ⟨s, [], 0⟩ h i k m he hk

/-! ## Part 3 — finding K4: a persistently vetoed restore never terminates -/

/-- the fault schedule never raises in the hooks used by `del n.children` -/
structure QuietDetach (φ : Faults) : Prop where
  preDetach : ∀ i m, φ i .preDetach m = false
  postDetach : ∀ i m, φ i .postDetach m = false
  preDetachChildren : ∀ i m, φ i .preDetachChildren m = false
  postDetachChildren : ∀ i m, φ i .postDetachChildren m = false

/-- `ch.parent = None` with quiet detach hooks returns, in the detached state -/
theorem setParent_none_quiet {c : Cfg} (hq : QuietDetach c.φ) (fuel ch : Nat) (w : World)
    (h : Inv w.f) :
    ∃ w', setParent c fuel ch none w = (.ok (), w') ∧ w'.f = Spec.detached w.f ch := by
  simp only [setParent]
  cases hp : w.f.parent ch with
  | none => exact ⟨w, by simp, (Spec.detached_root hp).symm⟩
  | some q =>
    have hm : ch ∈ w.f.children q := (h.bidir ch q).1 hp
    simp only [reduceCtorEq, if_false, detach_cases c ch q w hm, hq.preDetach, hq.postDetach,
      Bool.false_eq_true]
    exact ⟨_, rfl, by rw [World.adv, ← Spec.detached_eq hp]⟩

/-- the detach loop with quiet detach hooks returns, in the state of the specification -/
theorem detachLoop_quiet {c : Cfg} (hq : QuietDetach c.φ) (fuel : Nat) :
    ∀ (cs : List Nat) (w : World), Inv w.f →
      ∃ w', forM' cs (fun ch => setParent c fuel ch none) w = (.ok (), w') ∧
        w'.f = (Spec.detachAll w.f cs).1 := by
  intro cs
  induction cs with
  | nil => intro w _; exact ⟨w, rfl, rfl⟩
  | cons ch cs ih =>
    intro w h
    obtain ⟨w1, h1, hf1⟩ := setParent_none_quiet hq fuel ch w h
    obtain ⟨w2, h2, hf2⟩ := ih w1 (by rw [hf1]; exact Spec.inv_detached h ch)
    refine ⟨w2, ?_, ?_⟩
    · simp only [forM', M.seq, h1, h2]
    · rw [hf2, hf1]; rfl

/-- `del n.children` with quiet detach hooks returns, no internal assertion fires, and the forest is
the one of the specification (in particular consistent, with the same objects) -/
theorem delChildren_quiet {c : Cfg} (hq : QuietDetach c.φ) (fuel n : Nat) (w : World)
    (h : Inv w.f) :
    ∃ w', delChildren c fuel n w = (.ok (), w') ∧ w'.f = (Spec.delChildren w.f n).f ∧
      Inv w'.f ∧ w'.f.n = w.f.n ∧ w'.f.children n = [] := by
  simp only [delChildren, M.seq, hook_ok _ (hq.preDetachChildren _ _)]
  generalize hw0 : (⟨w.f, w.log ++ [⟨.preDetachChildren, n, w.f.children n, w.f.snap⟩],
    w.cnt + 1⟩ : World) = w0
  have hw0f : w0.f = w.f := by rw [← hw0]
  obtain ⟨w1, h1, hf1⟩ := detachLoop_quiet hq fuel (w.f.children n) w0 (by rw [hw0f]; exact h)
  rw [hw0f] at hf1
  have hempty : w1.f.children n = [] := by
    rw [hf1, Spec.detachAll_children h]
    apply List.filter_eq_nil_iff.mpr
    intro a ha; simp [ha]
  simp only [h1, assertM, hempty, List.length_nil, beq_self_eq_true, Bool.not_true, Bool.and_false,
    Bool.false_eq_true, if_false, hook_ok _ (hq.postDetachChildren _ _)]
  refine ⟨_, rfl, ?_, ?_, ?_, ?_⟩
  · simp only [Spec.delChildren]; exact hf1
  · simp only; rw [hf1]; exact Spec.inv_detachAll h _
  · simp only; rw [hf1]; exact Spec.detachAll_n _ _
  · exact hempty

/-- `__check_children` accepts a duplicate-free tuple of nodes -/
theorem checkChildren_nodup (fl : Flavor) :
    ∀ (l seen : List Nat), l.Nodup → (∀ x ∈ l, x ∉ seen) →
      checkChildren fl seen (l.map Arg.node) = .ok () := by
  intro l
  induction l with
  | nil => intro seen _ _; rfl
  | cons a l ih =>
    intro seen hnd hs
    have hnd' := List.nodup_cons.mp hnd
    have ha : seen.contains a = false := by
      simpa using hs a List.mem_cons_self
    simp only [List.map_cons, checkChildren, ha, Bool.false_eq_true, if_false]
    apply ih _ hnd'.2
    intro x hx hmem
    rcases List.mem_cons.mp hmem with e | hmem
    · subst e; exact hnd'.1 hx
    · exact hs x (List.mem_cons_of_mem _ hx) hmem

/-- the old children of a node in a consistent forest always pass `__check_children` -/
theorem checkChildren_old (fl : Flavor) {s : Forest} (h : Inv s) (n : Nat) :
    checkChildren fl [] ((s.children n).map Arg.node) = .ok () :=
  checkChildren_nodup fl _ [] (h.nodup n) (fun _ _ hm => by simp at hm)

/-- **K4, general form.**  If `_pre_attach_children` raises at every invocation and the detach hooks
never raise, then `n.children = xs` (after its argument checks) exhausts **every** amount of fuel:
the delete phase succeeds, the `try` block is vetoed, the restore `self.children = old_children`
is the same call again, vetoed again, … .  No relation between fuel and forest size is needed:
the loop check is never reached. -/
theorem setChildrenNodes_diverges {c : Cfg} (hq : QuietDetach c.φ)
    (hpa : ∀ i m, c.φ i .preAttachChildren m = true) :
    ∀ (fuel n : Nat) (xs : List Nat) (w : World), Inv w.f →
      (setChildrenNodes c fuel n xs w).1 = .error .diverged := by
  intro fuel
  induction fuel with
  | zero => intro n xs w _; rfl
  | succ fuel ih =>
    intro n xs w h
    obtain ⟨w1, h1, _, hi1, _, _⟩ := delChildren_quiet hq fuel n w h
    simp only [setChildrenNodes, M.seq, M.tryCatch, h1, hook_err _ (hpa _ _),
      checkChildren_old c.fl h n]
    generalize hw2 : (⟨w1.f, w1.log ++ [⟨.preAttachChildren, n, xs, w1.f.snap⟩], w1.cnt + 1⟩ :
      World) = w2
    have hi2 : Inv w2.f := by rw [← hw2]; exact hi1
    have hrec := ih n (w.f.children n) w2 hi2
    cases hr : setChildrenNodes c fuel n (w.f.children n) w2 with
    | mk r w3 =>
      rw [hr] at hrec
      simp only at hrec
      subst hrec
      rfl

/-- deleting the children of a childless node is the identity on links -/
theorem Spec.delChildren_of_nil {s : Forest} {n : Nat} (h : s.children n = []) :
    (Spec.delChildren s n).f = s := by
  simp [Spec.delChildren, h, Spec.detachAll]

/-- **K4, the state left behind.**  When the fuel runs out the old children are gone: the forest is
the one after `del n.children` — the restore never got to re-attach anything. -/
theorem setChildrenNodes_diverges_state {c : Cfg} (hq : QuietDetach c.φ)
    (hpa : ∀ i m, c.φ i .preAttachChildren m = true) :
    ∀ (fuel n : Nat) (xs : List Nat) (w : World), Inv w.f →
      (setChildrenNodes c (fuel + 1) n xs w).2.f = (Spec.delChildren w.f n).f := by
  intro fuel
  induction fuel with
  | zero =>
    intro n xs w h
    obtain ⟨w1, h1, hf1, _, _, _⟩ := delChildren_quiet hq 0 n w h
    simp only [setChildrenNodes, M.seq, M.tryCatch, h1, hook_err _ (hpa _ _),
      checkChildren_old c.fl h n, M.throw]
    exact hf1
  | succ fuel ih =>
    intro n xs w h
    obtain ⟨w1, h1, hf1, hi1, _, he1⟩ := delChildren_quiet hq (fuel + 1) n w h
    rw [setChildrenNodes]
    simp only [M.seq, M.tryCatch, h1, hook_err _ (hpa _ _), checkChildren_old c.fl h n]
    generalize hw2 : (⟨w1.f, w1.log ++ [⟨.preAttachChildren, n, xs, w1.f.snap⟩], w1.cnt + 1⟩ :
      World) = w2
    have hf2 : w2.f = w1.f := by rw [← hw2]
    have hi2 : Inv w2.f := by rw [hf2]; exact hi1
    have hdiv := setChildrenNodes_diverges hq hpa (fuel + 1) n (w.f.children n) w2 hi2
    have hst := ih n (w.f.children n) w2 hi2
    rw [Spec.delChildren_of_nil (by rw [hf2]; exact he1), hf2, hf1] at hst
    cases hr : setChildrenNodes c (fuel + 1) n (w.f.children n) w2 with
    | mk r w3 =>
      rw [hr] at hdiv hst
      simp only at hdiv hst
      subst hdiv
      exact hst

/-! ### the schedule of finding K4: only `_pre_attach_children` raises, always -/

theorem quietDetach_of_K4 {c : Cfg} (hφ : c.φ = fun _ k _ => k == .preAttachChildren) :
    QuietDetach c.φ := by
  rw [hφ]; constructor <;> intros <;> rfl

/-- **Finding K4.**  With a `_pre_attach_children` hook that always raises (and no other fault), the
children setter (after its argument checks) never returns and never raises an ordinary exception:
for **every** fuel, every node, every new children tuple and every consistent forest the mirror
reports `diverged`.  (In Python: `RecursionError` out of `self.children = old_children`.)
The statement needs no lower bound on the fuel: the loop check is never reached. -/
theorem persistent_preAttachChildren_diverges (c : Cfg)
    (hφ : c.φ = fun _ k _ => k == .preAttachChildren) :
    ∀ (fuel n : Nat) (xs : List Nat) (w : World), Inv w.f →
      (setChildrenNodes c fuel n xs w).1 = .error .diverged :=
  setChildrenNodes_diverges (quietDetach_of_K4 hφ) (by intro i m; rw [hφ]; rfl)

/-- the same with the hypotheses the callers have at hand (none of the bounds is used) -/
theorem persistent_preAttachChildren_diverges' (c : Cfg)
    (hφ : c.φ = fun _ k _ => k == .preAttachChildren) (fuel' : Nat) :
    ∀ (fuel n : Nat) (xs : List Nat) (w : World), Inv w.f → n < w.f.n → w.f.n < fuel' →
      (setChildrenNodes c fuel n xs w).1 = .error .diverged :=
  fun fuel n xs w h _ _ => persistent_preAttachChildren_diverges c hφ fuel n xs w h

/-- the intended reading: no amount of fuel lets the call return or raise an ordinary exception -/
theorem persistent_preAttachChildren_never_terminates (c : Cfg)
    (hφ : c.φ = fun _ k _ => k == .preAttachChildren) (fuel n : Nat) (xs : List Nat) (w : World)
    (h : Inv w.f) :
    (setChildrenNodes c fuel n xs w).1 ≠ .ok () ∧
    ∀ e, e ≠ .diverged → (setChildrenNodes c fuel n xs w).1 ≠ .error e := by
  rw [persistent_preAttachChildren_diverges c hφ fuel n xs w h]
  refine ⟨(by intro e; cases e), ?_⟩
  intro e he heq
  cases heq
  exact he rfl

/-- … and the links left behind when the fuel runs out: `n` has lost its children -/
theorem persistent_preAttachChildren_state (c : Cfg)
    (hφ : c.φ = fun _ k _ => k == .preAttachChildren) (fuel n : Nat) (xs : List Nat) (w : World)
    (h : Inv w.f) :
    (setChildrenNodes c (fuel + 1) n xs w).2.f = (Spec.delChildren w.f n).f :=
  setChildrenNodes_diverges_state (quietDetach_of_K4 hφ) (by intro i m; rw [hφ]; rfl) fuel n xs w h

/-- K4 at the level of a call `n.children = as` on a forest: arguments accepted by
`__check_children`, every fuel -/
theorem setChildren_persistent_preAttachChildren_diverges (c : Cfg)
    (hφ : c.φ = fun _ k _ => k == .preAttachChildren) (fuel n : Nat) (as : List Arg) (s : Forest)
    (h : Inv s) (hchk : checkChildren c.fl [] as = .ok ()) :
    (exec c fuel (.setChildren n (some as)) s).res = .error .diverged := by
  simp only [exec, Op.run, setChildren, hchk]
  exact persistent_preAttachChildren_diverges c hφ fuel n (argsToNodes as) ⟨s, [], 0⟩ h

/-! ### a concrete run (kernel-checked): `0 → [1]`, then `0.children = []` -/

def sK4 : Forest := ⟨2, fun x => if x = 1 then some 0 else none, fun x => if x = 0 then [1] else []⟩
def cK4 : Cfg := ⟨.nm, false, fun _ k _ => k == .preAttachChildren⟩

/-- the raised exception, if any (`Except` has no `DecidableEq`) -/
def raised : Except Err Unit → Option Err
  | .ok _ => none
  | .error e => some e

theorem K4_witness :
    raised (exec cK4 16 (.setChildren 0 (some [])) sK4).res = some .diverged ∧
    (exec cK4 16 (.setChildren 0 (some [])) sK4).f.snap = [(none, []), (none, [])] ∧
    sK4.snap = [(none, [1]), (some 0, [])] := by decide +kernel

end Anytree
