import Anytree.Spec.Dict
/-! # Helper lemmas for C10 / C11 (dictionary export / import) -/
namespace Anytree.Lemmas.Dict
open Anytree Tree Dict Spec
variable {V : Type}

/-! ## `dict(...)` of key-unique pairs -/

theorem dictSet_fresh (d : Attrs V) (k : String) (v : V) (h : k ∉ d.map Prod.fst) :
    dictSet d k v = d ++ [(k, v)] := by
  unfold dictSet
  have : d.any (fun e => e.1 == k) = false := by
    rw [Bool.eq_false_iff]
    intro hany
    rcases List.any_eq_true.mp hany with ⟨e, he, hek⟩
    apply h
    have : e.1 = k := by simpa using hek
    exact this ▸ List.mem_map_of_mem he
  simp [this]

theorem foldl_dictSet_unique (l acc : Attrs V) (h : ((acc ++ l).map Prod.fst).Nodup) :
    l.foldl (fun d e => dictSet d e.1 e.2) acc = acc ++ l := by
  induction l generalizing acc with
  | nil => simp
  | cons e l ih =>
    have hfresh : e.1 ∉ acc.map Prod.fst := by
      intro hmem
      rw [List.map_append, List.nodup_append] at h
      exact h.2.2 _ hmem _ (by simp) rfl
    rw [List.foldl_cons, dictSet_fresh _ _ _ hfresh, ih]
    · simp
    · simpa using h

theorem dictOf_unique (l : Attrs V) (h : (l.map Prod.fst).Nodup) : dictOf l = l := by
  unfold dictOf
  rw [foldl_dictSet_unique l [] (by simpa using h)]
  simp

theorem iterAttrValues_clean (a : Attrs V) (h : CleanAttrs a) : iterAttrValues a = a := by
  unfold iterAttrValues
  rw [List.filter_eq_self]
  intro e he
  have := (h.2 e he).2.2
  simpa using this

theorem clean_attrs_fixed (a : Attrs V) (h : CleanAttrs a) : dictOf (iterAttrValues a) = a := by
  rw [iterAttrValues_clean a h, dictOf_unique a h.1]

/-! ## `plainL` is a map -/

theorem plainL_eq_map (cs : List (Tree (Attrs V))) : plainL cs = cs.map plainT := by
  induction cs with
  | nil => simp [plainL]
  | cons c cs ih => simp [plainL, ih]

theorem plainT_node (a : Attrs V) (cs : List (Tree (Attrs V))) :
    plainT (node a cs) = .mk a (if cs.isEmpty then none else some (cs.map plainT)) := by
  cases cs with
  | nil => simp [plainT, plainL]
  | cons c cs => simp [plainT, plainL, plainL_eq_map]

theorem dictSetChildren_id (d : Attrs V) (h : ∀ e ∈ d, e.1 ≠ "children") :
    exportF.dictSetChildren d = d := by
  unfold exportF.dictSetChildren
  rw [List.filter_eq_self]
  intro e he
  simpa using h e he

/-- export = plain view, with the "no `children` attribute" hypothesis localised to the nodes
that are actually visited (closed under `childiter`) -/
theorem exportF_eq_plain_view_of (attriter : Attrs V → Attrs V)
    (childiter : List (Tree (Attrs V)) → List (Tree (Attrs V))) (m : Option Int)
    (Q : Tree (Attrs V) → Prop)
    (hQa : ∀ a cs, Q (node a cs) → ∀ e ∈ dictOf (attriter (iterAttrValues a)), e.1 ≠ "children")
    (hQc : ∀ a cs, Q (node a cs) → ∀ c ∈ childiter cs, Q c) :
    ∀ (fuel : Nat) (level : Int) (t : Tree (Attrs V)), Q t →
      exportF attriter childiter m fuel level t = plainT (viewF attriter childiter m fuel level t) := by
  intro fuel
  induction fuel with
  | zero =>
    intro level t _
    cases t with
    | node a cs => simp [exportF, viewF, plainT, plainL]
  | succ fuel ih =>
    intro level t hQ
    cases t with
    | node a cs =>
      simp only [exportF, viewF, plainT_node]
      have hmap : (childiter cs).map (exportF attriter childiter m fuel (level + 1)) =
          ((childiter cs).map (viewF attriter childiter m fuel (level + 1))).map plainT := by
        rw [List.map_map]
        apply List.map_congr_left
        intro c hc
        exact ih (level + 1) c (hQc a cs hQ c hc)
      rw [hmap, dictSetChildren_id _ (hQa a cs hQ)]
      have key : ∀ b : Bool,
          (if b = true then
            if (((childiter cs).map (viewF attriter childiter m fuel (level + 1))).map plainT).isEmpty = true
            then DData.mk (dictOf (attriter (iterAttrValues a))) none
            else DData.mk (dictOf (attriter (iterAttrValues a)))
              (some (((childiter cs).map (viewF attriter childiter m fuel (level + 1))).map plainT))
          else DData.mk (dictOf (attriter (iterAttrValues a))) none) =
          DData.mk (dictOf (attriter (iterAttrValues a)))
            (if (if b = true then (childiter cs).map (viewF attriter childiter m fuel (level + 1))
                 else []).isEmpty = true then none
             else some ((if b = true then (childiter cs).map (viewF attriter childiter m fuel (level + 1))
                 else []).map plainT)) := by
        intro b
        cases b
        · simp
        · cases hl : (childiter cs).map (viewF attriter childiter m fuel (level + 1)) with
          | nil => simp
          | cons x xs => simp
      exact key _

/-! ## default view -/

theorem cleanL_mem {cs : List (Tree (Attrs V))} (h : CleanL cs) : ∀ c ∈ cs, CleanT c := by
  induction cs with
  | nil => intro c hc; cases hc
  | cons x xs ih =>
    intro c hc
    rw [CleanL] at h
    rcases List.mem_cons.mp hc with rfl | hc
    · exact h.1
    · exact ih h.2 c hc

theorem height_lt_heightL {α : Type} {cs : List (Tree α)} : ∀ c ∈ cs, height c + 1 ≤ heightL cs := by
  induction cs with
  | nil => intro c hc; cases hc
  | cons x xs ih =>
    intro c hc
    rw [heightL]
    rcases List.mem_cons.mp hc with rfl | hc
    · exact Nat.le_max_left _ _
    · exact Nat.le_trans (ih c hc) (Nat.le_max_right _ _)

theorem view_default (t : Tree (Attrs V)) (h : CleanT t) :
    ∀ fuel level, t.height < fuel → viewF id id none fuel level t = t := by
  induction t using Tree.rec
    (motive_2 := fun cs => CleanL cs → ∀ fuel level, heightL cs ≤ fuel →
      cs.map (viewF id id none fuel level) = cs) with
  | node a cs ih =>
    intro fuel level hf
    rw [CleanT] at h
    cases fuel with
    | zero => cases hf
    | succ fuel =>
      rw [height] at hf
      simp only [viewF, id, if_true]
      rw [clean_attrs_fixed a h.1, ih h.2 fuel (level + 1) (Nat.le_of_lt_succ hf)]
  | nil => intros; rfl
  | cons c cs ihc ihcs =>
    rename_i hcl fuel level hf
    rw [CleanL] at hcl
    rw [heightL] at hf
    rw [List.map_cons, ihc hcl.1 fuel level (Nat.lt_of_lt_of_le (Nat.lt_succ_self _)
      (Nat.le_trans (Nat.le_max_left _ _) hf)),
      ihcs hcl.2 fuel level (Nat.le_trans (Nat.le_max_right _ _) hf)]

/-! ## import of a plain dictionary -/

theorem ctorAttrs_anyNode (a : Attrs V) : ctorAttrs .anyNode a = some a := rfl

theorem importL_eq_some (cls : NodeCls) (ds : List (DData V)) (ts : List (Tree (Attrs V)))
    (h : ∀ p ∈ ds.zip ts, importT cls p.1 = some p.2) (hlen : ds.length = ts.length) :
    importL cls ds = some ts := by
  induction ds generalizing ts with
  | nil => cases ts with
    | nil => rfl
    | cons => cases hlen
  | cons d ds ih =>
    cases ts with
    | nil => cases hlen
    | cons t ts =>
      rw [importL, h (d, t) (by simp), ih ts (fun p hp => h p (by simp [hp])) (by simpa using hlen)]

/-- import of the plain dictionary of a tree, for any class whose constructor keeps every node's
attributes -/
theorem import_plain (cls : NodeCls) (t : Tree (Attrs V)) :
    (∀ a ∈ pre t, ctorAttrs cls a = some a) → importT cls (plainT t) = some t := by
  induction t using Tree.rec
    (motive_2 := fun cs => (∀ a ∈ preL cs, ctorAttrs cls a = some a) →
      importL cls (plainL cs) = some cs) with
  | node a cs ih =>
    intro h
    have ha : ctorAttrs cls a = some a := h a (by simp [pre])
    have hcs := ih (fun b hb => h b (by simp [pre, hb]))
    cases cs with
    | nil => simp [plainT, plainL, importT, ha]
    | cons c cs =>
      rw [plainL] at hcs
      simp [plainT, plainL, importT, ha, hcs]
  | nil => simp [plainL, importL]
  | cons c cs ihc ihcs =>
    rename_i h
    rw [plainL, importL, ihc (fun b hb => h b (by simp [preL, hb])),
      ihcs (fun b hb => h b (by simp [preL, hb]))]

theorem import_plain_anyNode (t : Tree (Attrs V)) : importT .anyNode (plainT t) = some t :=
  import_plain .anyNode t (fun _ _ => rfl)

/-- default export of a clean tree is its plain dictionary -/
theorem exportF_default (t : Tree (Attrs V)) (h : CleanT t) (fuel : Nat) (level : Int)
    (hf : t.height < fuel) : exportF id id none fuel level t = plainT t := by
  rw [exportF_eq_plain_view_of id id none CleanT _ _ fuel level t h, view_default t h fuel level hf]
  · intro a cs hc e he
    rw [CleanT] at hc
    simp only [id] at he
    rw [clean_attrs_fixed a hc.1] at he
    exact (hc.1.2 e he).1
  · intro a cs hc c hcmem
    rw [CleanT] at hc
    exact cleanL_mem hc.2 c hcmem

theorem exportD_default (t : Tree (Attrs V)) (h : CleanT t) : exportD id id none t = plainT t :=
  exportF_default t h _ _ (Nat.lt_succ_self _)

/-! ## the tree of a dictionary -/

mutual
def toTree : DData V → Tree (Attrs V)
  | .mk a none => node a []
  | .mk a (some cs) => node a (toTreeL cs)
def toTreeL : List (DData V) → List (Tree (Attrs V))
  | [] => []
  | d :: ds => toTree d :: toTreeL ds
end

mutual
theorem import_anyNode_eq : ∀ d : DData V, importT .anyNode d = some (toTree d)
  | .mk a none => by simp [importT, ctorAttrs, toTree]
  | .mk a (some cs) => by simp [importT, ctorAttrs, toTree, importL_anyNode_eq cs]
theorem importL_anyNode_eq : ∀ ds : List (DData V), importL .anyNode ds = some (toTreeL ds)
  | [] => by simp [importL, toTreeL]
  | d :: ds => by simp [importL, toTreeL, import_anyNode_eq d, importL_anyNode_eq ds]
end

mutual
theorem clean_toTree : ∀ d : DData V, CleanD d → CleanT (toTree d)
  | .mk a none => by intro h; rw [CleanD] at h; simp [toTree, CleanT, CleanL, h]
  | .mk a (some cs) => by
    intro h; rw [CleanD] at h; rw [toTree, CleanT]; exact ⟨h.1, clean_toTreeL cs h.2⟩
theorem clean_toTreeL : ∀ ds : List (DData V), CleanDL ds → CleanL (toTreeL ds)
  | [] => by intro _; simp [toTreeL, CleanL]
  | d :: ds => by
    intro h; rw [CleanDL] at h; rw [toTreeL, CleanL]; exact ⟨clean_toTree d h.1, clean_toTreeL ds h.2⟩
end

mutual
theorem plain_toTree : ∀ d : DData V, plainT (toTree d) = stripEmptyT d
  | .mk a none => by simp [toTree, plainT, plainL, stripEmptyT]
  | .mk a (some cs) => by rw [toTree, plainT, stripEmptyT, plainL_toTreeL cs]
theorem plainL_toTreeL : ∀ ds : List (DData V), plainL (toTreeL ds) = stripEmptyL ds
  | [] => by simp [toTreeL, plainL, stripEmptyL]
  | d :: ds => by rw [toTreeL, plainL, stripEmptyL, plain_toTree d, plainL_toTreeL ds]
end

/-! ## `Node`: `name` stored last -/

theorem ctorAttrs_node_nameLast (a : Attrs V)
    (h : ∃ v init, a = init ++ [("name", v)] ∧ ∀ e ∈ init, e.1 ≠ "name") :
    ctorAttrs .node a = some a := by
  rcases h with ⟨v, init, rfl, hinit⟩
  have hfind : (init ++ [("name", v)]).find? (fun e => e.1 == "name") = some ("name", v) := by
    rw [List.find?_append]
    have : init.find? (fun e => e.1 == "name") = none := by
      rw [List.find?_eq_none]
      intro e he
      simpa using hinit e he
    simp [this]
  have hfilter : (init ++ [("name", v)]).filter (fun e => e.1 != "name") = init := by
    rw [List.filter_append]
    have : init.filter (fun e => e.1 != "name") = init := by
      rw [List.filter_eq_self]
      intro e he
      simpa using hinit e he
    simp [this]
  simp only [ctorAttrs, hfind, hfilter]

end Anytree.Lemmas.Dict
