import Anytree.Spec.Export
import Anytree.Props.C06
/-! Helper lemmas for the exporters (C12, C13). -/
namespace Anytree
open Tree Export Spec
variable {α κ : Type}

namespace Export

/-! ## unfolding equations in projection form -/

theorem dotNodes_cons (c : DotCfg α κ) (ind : String) (n : Tree α) (ns : List (Tree α))
    (st : IdMap κ) :
    dotNodes c ind (n :: ns) st =
      ((ind ++ "\"" ++ esc (c.nodename st n).1 ++ "\"" ++ optAttr (c.nodeattr n) ++ ";") ::
        (dotNodes c ind ns (c.nodename st n).2).1, (dotNodes c ind ns (c.nodename st n).2).2) := rfl

theorem dotEdgesOf_cons_skip (c : DotCfg α κ) (ind pn : String) (p : Tree α) (R : Tree α → Bool)
    (ch : Tree α) (chs : List (Tree α)) (st : IdMap κ) (h : R ch = false) :
    dotEdgesOf c ind pn p R (ch :: chs) st = dotEdgesOf c ind pn p R chs st := by
  simp [dotEdgesOf, h]

theorem dotEdgesOf_cons_keep (c : DotCfg α κ) (ind pn : String) (p : Tree α) (R : Tree α → Bool)
    (ch : Tree α) (chs : List (Tree α)) (st : IdMap κ) (h : R ch = true) :
    dotEdgesOf c ind pn p R (ch :: chs) st =
      ((ind ++ "\"" ++ esc pn ++ "\" " ++ c.edgetype p ch ++ " \"" ++ esc (c.nodename st ch).1 ++ "\"" ++
          optAttr (c.edgeattr p ch) ++ ";") ::
        (dotEdgesOf c ind pn p R chs (c.nodename st ch).2).1,
        (dotEdgesOf c ind pn p R chs (c.nodename st ch).2).2) := by
  rw [dotEdgesOf]
  simp only [h, Bool.not_true, Bool.false_eq_true, if_false]

theorem dotEdges_cons (c : DotCfg α κ) (ind : String) (p : Tree α) (ps : List (Tree α))
    (st : IdMap κ) :
    dotEdges c ind (p :: ps) st =
      ((dotEdgesOf c ind (c.nodename st p).1 p c.filter p.kids (c.nodename st p).2).1 ++
        (dotEdges c ind ps
          (dotEdgesOf c ind (c.nodename st p).1 p c.filter p.kids (c.nodename st p).2).2).1,
       (dotEdges c ind ps
          (dotEdgesOf c ind (c.nodename st p).1 p c.filter p.kids (c.nodename st p).2).2).2) := rfl

theorem merNodes_cons (c : MermaidCfg α κ) (ind : String) (n : Tree α) (ns : List (Tree α))
    (st : IdMap κ) :
    merNodes c ind (n :: ns) st =
      ((ind ++ (c.nodename st n).1 ++ c.nodefunc n) ::
        (merNodes c ind ns (c.nodename st n).2).1, (merNodes c ind ns (c.nodename st n).2).2) := rfl

theorem merEdgesOf_cons_skip (c : MermaidCfg α κ) (ind pn : String) (p : Tree α)
    (ch : Tree α) (chs : List (Tree α)) (st : IdMap κ) (h : (c.filter ch && !c.stop ch) = false) :
    merEdgesOf c ind pn p (ch :: chs) st = merEdgesOf c ind pn p chs st := by
  rw [merEdgesOf]
  simp only [h, Bool.not_false, if_true]

theorem merEdgesOf_cons_keep (c : MermaidCfg α κ) (ind pn : String) (p : Tree α)
    (ch : Tree α) (chs : List (Tree α)) (st : IdMap κ) (h : (c.filter ch && !c.stop ch) = true) :
    merEdgesOf c ind pn p (ch :: chs) st =
      ((ind ++ pn ++ c.edgefunc p ch ++ (c.nodename st ch).1) ::
        (merEdgesOf c ind pn p chs (c.nodename st ch).2).1,
        (merEdgesOf c ind pn p chs (c.nodename st ch).2).2) := by
  rw [merEdgesOf]
  simp only [h, Bool.not_true, Bool.false_eq_true, if_false]

theorem merEdges_cons (c : MermaidCfg α κ) (ind : String) (p : Tree α) (ps : List (Tree α))
    (st : IdMap κ) :
    merEdges c ind (p :: ps) st =
      ((merEdgesOf c ind (c.nodename st p).1 p p.kids (c.nodename st p).2).1 ++
        (merEdges c ind ps
          (merEdgesOf c ind (c.nodename st p).1 p p.kids (c.nodename st p).2).2).1,
       (merEdges c ind ps
          (merEdgesOf c ind (c.nodename st p).1 p p.kids (c.nodename st p).2).2).2) := rfl

/-! ## pure naming: the passes are plain maps -/

theorem dotNodes_pure (c : DotCfg α κ) (nm : Tree α → String) (ind : String)
    (ns : List (Tree α)) (st : IdMap κ) :
    dotNodes { c with nodename := NameFn.pure nm } ind ns st =
      (ns.map (dotNodeLine ind nm c.nodeattr), st) := by
  induction ns with
  | nil => rfl
  | cons n ns ih => rw [dotNodes_cons]; simp only [NameFn.pure, ih]; rfl

theorem dotEdgesOf_pure (c : DotCfg α κ) (nm : Tree α → String) (ind : String) (p : Tree α)
    (R : Tree α → Bool) (chs : List (Tree α)) (st : IdMap κ) :
    dotEdgesOf { c with nodename := NameFn.pure nm } ind (nm p) p R chs st =
      ((chs.filter R).map (fun ch => dotEdgeLine ind nm c.edgetype c.edgeattr (p, ch)), st) := by
  induction chs with
  | nil => rfl
  | cons ch chs ih =>
    cases h : R ch with
    | false => rw [dotEdgesOf_cons_skip _ _ _ _ _ _ _ _ h, ih]; simp [h]
    | true =>
      rw [dotEdgesOf_cons_keep _ _ _ _ _ _ _ _ h]
      simp only [NameFn.pure, ih, List.filter_cons, h, if_true, List.map_cons]
      rfl

theorem dotEdges_pure (c : DotCfg α κ) (nm : Tree α → String) (ind : String)
    (ps : List (Tree α)) (st : IdMap κ) :
    dotEdges { c with nodename := NameFn.pure nm } ind ps st =
      (ps.flatMap (fun p => (p.kids.filter c.filter).map
        (fun ch => dotEdgeLine ind nm c.edgetype c.edgeattr (p, ch))), st) := by
  induction ps with
  | nil => rfl
  | cons p ps ih =>
    rw [dotEdges_cons]
    simp only [NameFn.pure, dotEdgesOf_pure, ih, List.flatMap_cons]

theorem merNodes_pure (c : MermaidCfg α κ) (nm : Tree α → String) (ind : String)
    (ns : List (Tree α)) (st : IdMap κ) :
    merNodes { c with nodename := NameFn.pure nm } ind ns st =
      (ns.map (merNodeLine ind nm c.nodefunc), st) := by
  induction ns with
  | nil => rfl
  | cons n ns ih => rw [merNodes_cons]; simp only [NameFn.pure, ih]; rfl

theorem merEdgesOf_pure (c : MermaidCfg α κ) (nm : Tree α → String) (ind : String) (p : Tree α)
    (chs : List (Tree α)) (st : IdMap κ) :
    merEdgesOf { c with nodename := NameFn.pure nm } ind (nm p) p chs st =
      ((chs.filter (fun ch => c.filter ch && !c.stop ch)).map
        (fun ch => merEdgeLine ind nm c.edgefunc (p, ch)), st) := by
  induction chs with
  | nil => rfl
  | cons ch chs ih =>
    cases h : (c.filter ch && !c.stop ch) with
    | false =>
      rw [merEdgesOf_cons_skip { c with nodename := NameFn.pure nm } _ _ _ _ _ _ h, ih]; simp [h]
    | true =>
      rw [merEdgesOf_cons_keep { c with nodename := NameFn.pure nm } _ _ _ _ _ _ h]
      simp only [NameFn.pure, ih, List.filter_cons, h, if_true, List.map_cons]
      rfl

theorem merEdges_pure (c : MermaidCfg α κ) (nm : Tree α → String) (ind : String)
    (ps : List (Tree α)) (st : IdMap κ) :
    merEdges { c with nodename := NameFn.pure nm } ind ps st =
      (ps.flatMap (fun p => (p.kids.filter (fun ch => c.filter ch && !c.stop ch)).map
        (fun ch => merEdgeLine ind nm c.edgefunc (p, ch))), st) := by
  induction ps with
  | nil => rfl
  | cons p ps ih =>
    rw [merEdges_cons]
    simp only [NameFn.pure, merEdgesOf_pure, ih, List.flatMap_cons]

theorem edgeMax_false (m : Option Int) : edgeMax false m = lower m := rfl

end Export
/-! ## the structure of the edge set -/
namespace Spec

theorem cut_lower (m : Option Int) (h : cut m = true) : cut (lower m) = true := by
  cases m with
  | none => simp [cut] at h
  | some k => simp [cut, lower] at h ⊢; omega

theorem cut_of_lower (m : Option Int) (h : cut (lower m) = false) : cut m = false := by
  cases hc : cut m with
  | false => rfl
  | true => rw [cut_lower m hc] at h; cases h

theorem decorateL_append {β : Type} (xs ys : List (Tree β)) :
    decorateL (xs ++ ys) = decorateL xs ++ decorateL ys := by
  induction xs with
  | nil => simp [decorateL]
  | cons x xs ih => simp [decorateL, ih]

/-- the pre-order list of the admitted nodes below an optional admitted tree -/
def optNodes {β : Type} : Option (Tree β) → List (Tree β)
  | none => []
  | some A => pre (decorate A)

theorem admittedNodes_eq (S : Tree α → Bool) (m : Option Int) (t : Tree α) :
    admittedNodes S m t = optNodes (admitT S m t) := by
  unfold admittedNodes optNodes
  cases admitT S m t <;> rfl

/-- edges contributed by one admitted node (as in `edgePairs`) -/
def edgesOfAdm (F : Tree α → Bool) (P : Tree (Tree α)) : List (Tree α × Tree α) :=
  if F P.label then (P.kids.filter (fun C => F C.label)).map (fun C => (P.label, C.label)) else []

/-- edges contributed by one visited node of the edge pass (as in Mermaid) -/
def edgesOfNode (F S : Tree α → Bool) (p : Tree α) : List (Tree α × Tree α) :=
  (p.kids.filter (fun c => F c && !S c)).map (fun c => (p, c))

theorem edgesOfAdm_root (F S : Tree α → Bool) (m : Option Int) (hc : cut m = false) (t : Tree α) :
    edgesOfAdm F (node t (admitL S m t.kids)) = if F t then edgesOfNode F S t else [] := by
  unfold edgesOfAdm edgesOfNode
  simp only [label_node, kids_node]
  by_cases hF : F t = true
  · simp only [hF, if_true]
    have h := admitL_map_label S m hc t.kids
    have e1 : (List.filter (fun C => F C.label) (admitL S m t.kids)).map (fun C => (t, C.label)) =
        (((admitL S m t.kids).map label).filter F).map (fun c => (t, c)) := by
      rw [List.filter_map, List.map_map]; rfl
    rw [e1, h, Iter.getChildren, List.filter_filter]
  · simp [hF]

theorem edges_struct (F S : Tree α → Bool) (t : Tree α) :
    ∀ m : Option Int, (optNodes (admitT S m t)).flatMap (edgesOfAdm F) =
      ((optPre (admitT S (lower m) t)).filter F).flatMap (edgesOfNode F S) := by
  induction t using Tree.rec
    (motive_2 := fun cs => ∀ m : Option Int,
      (Tree.preL (decorateL (admitL S m cs))).flatMap (edgesOfAdm F) =
        ((Tree.preL (admitL S (lower m) cs)).filter F).flatMap (edgesOfNode F S)) with
  | node a cs ih =>
    intro m
    cases hs : S (node a cs) with
    | true => simp [admitT_of_stop S _ _ hs, optNodes, optPre]
    | false =>
      cases hc : cut m with
      | true =>
        simp [admitT_of_cut S _ _ hc, admitT_of_cut S _ _ (cut_lower m hc), optNodes, optPre]
      | false =>
        rw [admitT_of_ok S m _ hc hs]
        simp only [optNodes, decorate, Tree.pre, List.flatMap_cons, kids_node, ih (lower m)]
        cases hc' : cut (lower m) with
        | true =>
          rw [admitT_of_cut S _ _ hc', admitL_cut S _ hc', admitL_cut S _ (cut_lower _ hc')]
          simp [optPre, edgesOfAdm, Tree.preL]
        | false =>
          rw [admitT_of_ok S (lower m) _ hc' hs]
          have h := edgesOfAdm_root F S (lower m) hc' (node a cs)
          simp only [kids_node] at h
          rw [h]
          simp only [optPre, Tree.pre, kids_node, List.filter_cons]
          cases F (node a cs) <;> simp
  | nil => simp [admitL, decorateL, Tree.preL]
  | cons c cs ihc ihcs =>
    rename_i m
    simp only [admitL, decorateL_append, Tree.preL_append, List.flatMap_append, List.filter_append,
      ihcs m]
    congr 1
    have := ihc m
    cases h1 : admitT S m c with
    | none =>
      cases h2 : admitT S (lower m) c with
      | none => simp [decorateL, Tree.preL]
      | some B => rw [h1, h2] at this; simpa [optNodes, optPre, decorateL, Tree.preL] using this
    | some A =>
      cases h2 : admitT S (lower m) c with
      | none => rw [h1, h2] at this; simpa [optNodes, optPre, decorateL, Tree.preL] using this
      | some B => rw [h1, h2] at this; simpa [optNodes, optPre, decorateL, Tree.preL] using this

theorem edgePairs_struct (F S : Tree α → Bool) (m : Option Int) (t : Tree α) :
    edgePairs F S m t = (preSpec F S (lower m) t).flatMap
      (fun p => (p.kids.filter (fun c => F c && !S c)).map (fun c => (p, c))) := by
  have := edges_struct F S t m
  rw [← admittedNodes_eq] at this
  exact this

/-- lowering `maxlevel` only removes nodes -/
theorem optPre_lower_subset (S : Tree α → Bool) (t : Tree α) :
    ∀ (m : Option Int) (x : Tree α), x ∈ optPre (admitT S (lower m) t) → x ∈ optPre (admitT S m t) := by
  induction t using Tree.rec
    (motive_2 := fun cs => ∀ (m : Option Int) (x : Tree α),
      x ∈ Tree.preL (admitL S (lower m) cs) → x ∈ Tree.preL (admitL S m cs)) with
  | node a cs ih =>
    intro m x hx
    cases hs : S (node a cs) with
    | true => rw [admitT_of_stop S _ _ hs] at hx; simp [optPre] at hx
    | false =>
      cases hc' : cut (lower m) with
      | true => rw [admitT_of_cut S _ _ hc'] at hx; simp [optPre] at hx
      | false =>
        rw [admitT_of_ok S _ _ hc' hs] at hx
        rw [admitT_of_ok S _ _ (cut_of_lower m hc') hs]
        simp only [optPre, Tree.pre, kids_node, List.mem_cons] at hx ⊢
        rcases hx with hx | hx
        · exact Or.inl hx
        · exact Or.inr (ih (lower m) x hx)
  | nil => rename_i m x hx; simp [admitL, Tree.preL] at hx
  | cons c cs ihc ihcs =>
    rename_i m x hx
    simp only [admitL, Tree.preL_append, List.mem_append] at hx ⊢
    rcases hx with hx | hx
    · left
      have := ihc m x
      cases h2 : admitT S (lower m) c with
      | none => rw [h2] at hx; simp [Tree.preL] at hx
      | some B =>
        rw [h2] at hx this
        simp only [Tree.preL, List.append_nil] at hx
        have := this (by simpa [optPre] using hx)
        cases h1 : admitT S m c with
        | none => rw [h1] at this; simp [optPre] at this
        | some A => rw [h1] at this; simpa [optPre, Tree.preL] using this
    · exact Or.inr (ihcs m x hx)

theorem preSpec_lower_subset (F S : Tree α → Bool) (m : Option Int) (t : Tree α) (x : Tree α)
    (h : x ∈ preSpec F S (lower m) t) : x ∈ preSpec F S m t := by
  unfold preSpec at h ⊢
  rw [List.mem_filter] at h ⊢
  exact ⟨optPre_lower_subset S t m x h.1, h.2⟩

/-- a node of `decorate A` and its children carry labels that occur in `A` -/
theorem mem_pre_decorate {β : Type} (A : Tree β) :
    ∀ P ∈ pre (decorate A), P.label ∈ pre A ∧ ∀ C ∈ P.kids, C.label ∈ pre A := by
  induction A using Tree.rec
    (motive_2 := fun cs => (∀ P ∈ Tree.preL (decorateL cs),
        P.label ∈ Tree.preL cs ∧ ∀ C ∈ P.kids, C.label ∈ Tree.preL cs) ∧
      ∀ C ∈ cs, C.label ∈ Tree.preL cs) with
  | node a cs ih =>
    intro P hP
    simp only [decorate, Tree.pre, List.mem_cons] at hP ⊢
    rcases hP with rfl | hP
    · refine ⟨Or.inl rfl, fun C hC => Or.inr (ih.2 C hC)⟩
    · exact ⟨Or.inr (ih.1 P hP).1, fun C hC => Or.inr ((ih.1 P hP).2 C hC)⟩
  | nil => simp [decorateL, Tree.preL]
  | cons c cs ihc ihcs =>
    constructor
    · intro P hP
      simp only [decorateL, Tree.preL, List.mem_append] at hP ⊢
      rcases hP with hP | hP
      · exact ⟨Or.inl (ihc P hP).1, fun C hC => Or.inl ((ihc P hP).2 C hC)⟩
      · exact ⟨Or.inr (ihcs.1 P hP).1, fun C hC => Or.inr ((ihcs.1 P hP).2 C hC)⟩
    · intro C hC
      simp only [Tree.preL, List.mem_append, List.mem_cons] at hC ⊢
      rcases hC with rfl | hC
      · left; cases C; simp [Tree.pre]
      · exact Or.inr (ihcs.2 C hC)

end Spec
end Anytree
