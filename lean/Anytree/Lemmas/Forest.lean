import Anytree.Spec.Forest
/-!
Helper lemmas for model A: the raw link updates preserve `Inv`, and a small Hoare logic for the
exception-carrying state monad `M` (the state survives an exception, so every rule has a normal
and an exceptional postcondition).
-/
namespace Anytree
open Forest

namespace Forest

theorem up_succ_none_of_none {s : Forest} : ∀ {k x}, s.up k x = none → s.up (k+1) x = none := by
  intro k
  induction k with
  | zero => intro x h; simp [up] at h
  | succ k ih =>
    intro x h
    simp only [up] at h ⊢
    cases hp : s.parent x with
    | none => rfl
    | some p => simp [hp] at h; exact ih h

theorem up_add_none {s : Forest} {k x} (h : s.up k x = none) : ∀ j, s.up (k + j) x = none := by
  intro j
  induction j with
  | zero => exact h
  | succ j ih => exact up_succ_none_of_none ih

@[simp] theorem detachRaw_n (s : Forest) (n p : Nat) : (s.detachRaw n p).n = s.n := rfl
@[simp] theorem attachRaw_n (s : Forest) (n p : Nat) : (s.attachRaw n p).n = s.n := rfl

@[simp] theorem detachRaw_parent (s : Forest) (n p x : Nat) :
    (s.detachRaw n p).parent x = if x = n then none else s.parent x := rfl
@[simp] theorem detachRaw_children (s : Forest) (n p x : Nat) :
    (s.detachRaw n p).children x = if x = p then (s.children p).filter (· != n) else s.children x := rfl
@[simp] theorem attachRaw_parent (s : Forest) (n p x : Nat) :
    (s.attachRaw n p).parent x = if x = n then some p else s.parent x := rfl
@[simp] theorem attachRaw_children (s : Forest) (n p x : Nat) :
    (s.attachRaw n p).children x = if x = p then s.children p ++ [n] else s.children x := rfl

/-- cutting a link only shortens chains -/
theorem up_detachRaw_some {s : Forest} {n p : Nat} :
    ∀ k x y, (s.detachRaw n p).up k x = some y → s.up k x = some y := by
  intro k
  induction k with
  | zero => intro x y h; simpa [up] using h
  | succ k ih =>
    intro x y h
    simp only [up, detachRaw_parent] at h ⊢
    by_cases hx : x = n
    · simp [hx] at h
    · simp only [hx, if_false] at h
      cases hp : s.parent x with
      | none => simp [hp] at h
      | some q => simp only [hp] at h ⊢; exact ih q y h

theorem term_detachRaw {s : Forest} (h : ∀ x, ∃ k, s.up k x = none) (n p : Nat) :
    ∀ x, ∃ k, (s.detachRaw n p).up k x = none := by
  intro x
  obtain ⟨k, hk⟩ := h x
  induction k generalizing x with
  | zero => simp [up] at hk
  | succ k ih =>
    by_cases hx : x = n
    · exact ⟨1, by simp [up, hx]⟩
    · simp only [up] at hk
      cases hp : s.parent x with
      | none => exact ⟨1, by simp [up, hx, hp]⟩
      | some q =>
        simp [hp] at hk
        obtain ⟨k', hk'⟩ := ih q hk
        exact ⟨k'+1, by simp [up, hx, hp]; exact hk'⟩

theorem up_attachRaw_avoid {s : Forest} {n p : Nat} :
    ∀ k y, (∀ j, s.up j y ≠ some n) → (s.attachRaw n p).up k y = s.up k y := by
  intro k
  induction k with
  | zero => intro y _; rfl
  | succ k ih =>
    intro y hy
    have hyn : y ≠ n := by intro e; exact hy 0 (by simp [up, e])
    simp only [up, attachRaw_parent, hyn, if_false]
    cases hp : s.parent y with
    | none => rfl
    | some q =>
      simp only []
      apply ih
      intro j hj
      apply hy (j+1)
      simp [up, hp, hj]

theorem term_attachRaw {s : Forest} (h : ∀ x, ∃ k, s.up k x = none) (n p : Nat)
    (hloop : ∀ j, s.up j p ≠ some n) :
    ∀ x, ∃ k, (s.attachRaw n p).up k x = none := by
  intro x
  obtain ⟨kp, hkp⟩ := h p
  obtain ⟨k, hk⟩ := h x
  induction k generalizing x with
  | zero => simp [up] at hk
  | succ k ih =>
    by_cases hx : x = n
    · refine ⟨kp+1, ?_⟩
      subst hx
      simp only [up, attachRaw_parent, if_true]
      rw [up_attachRaw_avoid kp p hloop]; exact hkp
    · simp only [up] at hk
      cases hp : s.parent x with
      | none => exact ⟨1, by simp [up, hx, hp]⟩
      | some q =>
        simp [hp] at hk
        obtain ⟨k', hk'⟩ := ih q hk
        exact ⟨k'+1, by simp [up, hx, hp]; exact hk'⟩

end Forest

/-! ## the raw updates preserve the invariant -/

theorem Inv.lt_of_parent {s : Forest} (h : Inv s) {c p : Nat} (hp : s.parent c = some p) :
    c < s.n ∧ p < s.n := by
  constructor
  · apply Decidable.byContradiction
    intro hc
    have := (h.supp c (by omega)).1
    simp [hp] at this
  · apply Decidable.byContradiction
    intro hc
    have := (h.supp p (by omega)).2
    have hm := (h.bidir c p).1 hp
    simp [this] at hm

theorem inv_detachRaw {s : Forest} (h : Inv s) {n p : Nat} (hp : s.parent n = some p) :
    Inv (s.detachRaw n p) := by
  refine ⟨?_, ?_, term_detachRaw h.term n p, ?_⟩
  · intro c q
    simp only [detachRaw_parent, detachRaw_children]
    by_cases hc : c = n
    · subst hc
      by_cases hq : q = p
      · subst hq; simp
      · have : c ∉ s.children q := by
          intro hm; have := (h.bidir c q).2 hm; rw [hp] at this; simp at this; exact hq this.symm
        simp [hq, this]
    · by_cases hq : q = p
      · subst hq; simp [hc, h.bidir c q]
      · simp [hc, hq, h.bidir c q]
  · intro q
    simp only [detachRaw_children]
    split
    · exact List.Nodup.sublist List.filter_sublist (h.nodup p)
    · exact h.nodup q
  · intro x hx
    have ⟨hn, hpn⟩ := h.lt_of_parent hp
    simp only [detachRaw_n] at hx
    have h1 : x ≠ n := by omega
    have h2 : x ≠ p := by omega
    simpa [h1, h2] using h.supp x hx

theorem inv_attachRaw {s : Forest} (h : Inv s) {n p : Nat} (hroot : s.parent n = none)
    (hloop : ∀ j, s.up j p ≠ some n) (hn : n < s.n) (hpn : p < s.n) :
    Inv (s.attachRaw n p) := by
  have hnp : n ≠ p := by intro e; exact hloop 0 (by simp [up, e])
  refine ⟨?_, ?_, term_attachRaw h.term n p hloop, ?_⟩
  · intro c q
    simp only [attachRaw_parent, attachRaw_children]
    by_cases hc : c = n
    · subst hc
      by_cases hq : q = p
      · subst hq; simp
      · have : c ∉ s.children q := by
          intro hm; have := (h.bidir c q).2 hm; rw [hroot] at this; simp at this
        simp [hq, this]; exact fun e => hq e.symm
    · by_cases hq : q = p
      · subst hq; simp [hc, h.bidir c q]
      · simp [hc, hq, h.bidir c q]
  · intro q
    simp only [attachRaw_children]
    split
    · have : n ∉ s.children p := by
        intro hm; have := (h.bidir n p).2 hm; rw [hroot] at this; simp at this
      rw [List.nodup_append]
      refine ⟨h.nodup p, by simp, ?_⟩
      intro a ha b hb
      simp at hb; subst hb
      intro e; subst e; exact this ha
    · exact h.nodup q
  · intro x hx
    simp only [attachRaw_n] at hx
    have h1 : x ≠ n := by omega
    have h2 : x ≠ p := by omega
    simpa [h1, h2] using h.supp x hx

/-- a node argument that exists -/
def ArgOk (k : Nat) : Option Arg → Prop
  | some (.node p) => p < k
  | _ => True

instance (k : Nat) (v : Option Arg) : Decidable (ArgOk k v) := by
  match v with
  | some (.node p) => exact inferInstanceAs (Decidable (p < k))
  | some .nonNode => exact isTrue trivial
  | none => exact isTrue trivial

/-! ## Hoare logic for `M` -/

/-- `{P} a {Q | E}`: from a `P`-state, `a` ends in a `Q`-state if it returns, and in an `E e`-state
if it raises `e` -/
def Triple (P : World → Prop) (a : M) (Q : World → Prop) (E : Err → World → Prop) : Prop :=
  ∀ w, P w → match a w with
    | (.ok (), w') => Q w'
    | (.error e, w') => E e w'

namespace Triple
variable {P P' Q Q' R : World → Prop} {E E' R' : Err → World → Prop} {a b : M}

theorem ok : Triple P M.ok P E := by intro w h; exact h
theorem throw (e : Err) (h : ∀ w, P w → E e w) : Triple P (M.throw e) Q E := by
  intro w hw; exact h w hw

theorem seq (ha : Triple P a R E) (hb : Triple R b Q E) : Triple P (a ⨾ b) Q E := by
  intro w h
  have := ha w h
  unfold M.seq
  cases hr : a w with
  | mk r w' =>
    cases r with
    | ok u => cases u; rw [hr] at this; exact hb w' this
    | error e => rw [hr] at this; exact this

theorem tryCatch {h : Err → M} (ha : Triple P a Q R') (hh : ∀ e, Triple (R' e) (h e) Q E) :
    Triple P (M.tryCatch a h) Q E := by
  intro w hw
  have := ha w hw
  unfold M.tryCatch
  cases hr : a w with
  | mk r w' =>
    cases r with
    | ok u => cases u; rw [hr] at this; exact this
    | error e => rw [hr] at this; exact hh e w' this

theorem weaken (ha : Triple P a Q E) (hP : ∀ w, P' w → P w) (hQ : ∀ w, Q w → Q' w)
    (hE : ∀ e w, E e w → E' e w) : Triple P' a Q' E' := by
  intro w hw
  have := ha w (hP w hw)
  cases hr : a w with
  | mk r w' =>
    cases r with
    | ok u => cases u; rw [hr] at this; exact hQ _ this
    | error e => rw [hr] at this; exact hE _ _ this

theorem forM' {I : World → Prop} {body : Nat → M} (xs : List Nat)
    (hb : ∀ x ∈ xs, Triple I (body x) I E) : Triple I (forM' xs body) I E := by
  induction xs with
  | nil => exact ok
  | cons x xs ih =>
    exact seq (hb x (by simp)) (ih (fun y hy => hb y (by simp [hy])))

/-- a triple at one state -/
theorem run (ha : Triple P a Q E) {w : World} (hw : P w) :
    match a w with
    | (.ok (), w') => Q w'
    | (.error e, w') => E e w' := ha w hw

end Triple

/-- predicates that only look at the forest -/
def onF (G : Forest → Prop) : World → Prop := fun w => G w.f

/-- a step that does not touch the forest (a hook, an assertion) keeps every forest predicate;
`hE` says which errors it can raise -/
theorem Triple.frame {G : Forest → Prop} {g : M} {E : Err → World → Prop}
    (hg : ∀ w, (g w).2.f = w.f) (hE : ∀ w e, (g w).1 = .error e → G w.f → E e (g w).2) :
    Triple (onF G) g (onF G) E := by
  intro w hw
  have h1 := hg w
  have h2 := hE w
  cases hr : g w with
  | mk r w' =>
    rw [hr] at h1 h2
    cases r with
    | ok u => cases u; simp only [onF] at hw ⊢; simp only at h1; rw [h1]; exact hw
    | error e => exact h2 e rfl hw

theorem Triple.modify {G G' : Forest → Prop} {u : Forest → Forest} {E : Err → World → Prop}
    (h : ∀ f, G f → G' (u f)) : Triple (onF G) (M.modify u) (onF G') E := by
  intro w hw; exact h _ hw

theorem hook_f (c : Cfg) (k : HookKind) (n : Nat) (a : List Nat) (w : World) :
    (hook c k n a w).2.f = w.f := by
  unfold hook; simp only; split <;> rfl

theorem assertM_f (c : Cfg) (cond : Forest → Bool) (w : World) : (assertM c cond w).2.f = w.f := by
  unfold assertM; split <;> rfl

end Anytree
