import Anytree.Lemmas.ForestRun
/-!
The parent setter under an **arbitrary** fault schedule: a decision list over the (at most four)
hook invocations.
-/
namespace Anytree
open Forest

theorem detach_cases (c : Cfg) (n q : Nat) (w : World) (hm : n ∈ w.f.children q) :
    detach c n (some q) w =
      if c.φ w.cnt .preDetach n then
        (.error (.hook w.cnt .preDetach n), w.adv w.f [Spec.ev .preDetach n [q] w.f])
      else if c.φ (w.cnt + 1) .postDetach n then
        (.error (.hook (w.cnt + 1) .postDetach n), w.adv (w.f.detachRaw n q)
          [Spec.ev .preDetach n [q] w.f, Spec.ev .postDetach n [q] (w.f.detachRaw n q)])
      else
        (.ok (), w.adv (w.f.detachRaw n q)
          [Spec.ev .preDetach n [q] w.f, Spec.ev .postDetach n [q] (w.f.detachRaw n q)]) := by
  simp only [detach, M.seq, hook, assertM, M.modify, World.adv, Spec.ev]
  by_cases h1 : c.φ w.cnt .preDetach n = true
  · simp [h1]
  · simp only [h1, Bool.false_eq_true, if_false]
    simp only [List.contains_eq_mem, hm, decide_true, Bool.not_true, Bool.and_false,
      Bool.false_eq_true, if_false]
    by_cases h2 : c.φ (w.cnt + 1) .postDetach n = true
    · simp [h2]
    · simp [h2]

theorem attach_cases (c : Cfg) (n p : Nat) (w : World) (hm : n ∉ w.f.children p) :
    attach c n (some p) w =
      if c.φ w.cnt .preAttach n then
        (.error (.hook w.cnt .preAttach n), w.adv w.f [Spec.ev .preAttach n [p] w.f])
      else if c.φ (w.cnt + 1) .postAttach n then
        (.error (.hook (w.cnt + 1) .postAttach n), w.adv (w.f.attachRaw n p)
          [Spec.ev .preAttach n [p] w.f, Spec.ev .postAttach n [p] (w.f.attachRaw n p)])
      else
        (.ok (), w.adv (w.f.attachRaw n p)
          [Spec.ev .preAttach n [p] w.f, Spec.ev .postAttach n [p] (w.f.attachRaw n p)]) := by
  simp only [attach, M.seq, hook, assertM, M.modify, World.adv, Spec.ev]
  by_cases h1 : c.φ w.cnt .preAttach n = true
  · simp [h1]
  · simp only [h1, Bool.false_eq_true, if_false]
    simp only [List.contains_eq_mem, hm, decide_false, Bool.not_false, Bool.not_true,
      Bool.and_false, Bool.false_eq_true, if_false]
    by_cases h2 : c.φ (w.cnt + 1) .postAttach n = true
    · simp [h2]
    · simp [h2]

/-- the result of a parent assignment that passed its checks: which hook (if any) raised decides
the outcome and the final links -/
inductive SPOutcome (c : Cfg) (n : Nat) (w : World) (v : Option Nat) : Except Err Unit → Forest → Prop
  | refused (e : Err) (he : e = .treeError ∨ e = .loopError ∨ e = .unmodelled) :
      SPOutcome c n w v (.error e) w.f
  | noop : SPOutcome c n w v (.ok ()) w.f
  | preDetach (i : Nat) : SPOutcome c n w v (.error (.hook i .preDetach n)) w.f
  | postDetach (i : Nat) : SPOutcome c n w v (.error (.hook i .postDetach n)) (Spec.detached w.f n)
  | preAttach (i : Nat) : SPOutcome c n w v (.error (.hook i .preAttach n)) (Spec.detached w.f n)
  | postAttach (i : Nat) (p : Nat) (hv : v = some p) :
      SPOutcome c n w v (.error (.hook i .postAttach n)) (Spec.attached (Spec.detached w.f n) n p)
  | detached (hv : v = none) : SPOutcome c n w v (.ok ()) (Spec.detached w.f n)
  | moved (p : Nat) (hv : v = some p) :
      SPOutcome c n w v (.ok ()) (Spec.attached (Spec.detached w.f n) n p)

def argNode : Option Arg → Option Nat
  | some (.node p) => some p
  | _ => none

/-- **every** run of the parent setter from a consistent forest, under every fault schedule,
ends in one of the listed outcomes; in particular no internal assertion fires and the state is the
pre-state, the detached state or the final state, according to the hook that raised -/
theorem setParent_outcome (c : Cfg) (fuel n : Nat) (v : Option Arg) (w : World) (h : Inv w.f)
    (hv : ArgOk w.f.n v) (hfuel : w.f.n < fuel) :
    SPOutcome c n w (argNode v) (setParent c fuel n v w).1 (setParent c fuel n v w).2.f := by
  match v, hv with
  | some .nonNode, _ =>
    simp only [setParent]
    cases c.fl
    · exact .refused _ (Or.inl rfl)
    · exact .refused _ (Or.inr (Or.inr rfl))
  | none, _ =>
    simp only [setParent]
    cases hp : w.f.parent n with
    | none => simp only [if_true]; exact .noop
    | some q =>
      have hm : n ∈ w.f.children q := (h.bidir n q).1 hp
      simp only [reduceCtorEq, if_false, detach_cases c n q w hm]
      split
      · exact .preDetach _
      · split
        · rw [World.adv, ← Spec.detached_eq hp]; exact .postDetach _
        · rw [World.adv, ← Spec.detached_eq hp]; exact .detached rfl
  | some (.node p), hp' =>
    have hp' : p < w.f.n := hp'
    simp only [setParent]
    by_cases hsame : w.f.parent n = some p
    · simp only [hsame, if_true]; exact .noop
    · simp only [hsame, if_false]
      by_cases hpn : p = n
      · simp only [M.seq, checkLoop, hpn, if_true]; exact .refused _ (Or.inr (Or.inl rfl))
      · have hne := h.onChain_some n fuel p hp' (fun k y hy => by
          have := h.chain_lt hp' hy; omega)
        cases hoc : onChain w.f n fuel p with
        | none => exact absurd hoc hne
        | some b =>
          cases b with
          | true =>
            simp only [M.seq, checkLoop, hpn, if_false, hoc]
            exact .refused _ (Or.inr (Or.inl rfl))
          | false =>
            simp only [M.seq, checkLoop, hpn, if_false, hoc]
            cases hold : w.f.parent n with
            | none =>
              have hm : n ∉ w.f.children p := by
                intro hm; have := (h.bidir n p).2 hm; rw [hold] at this; simp at this
              simp only [detach, M.ok, attach_cases c n p w hm]
              have hd : Spec.detached w.f n = w.f := Spec.detached_root hold
              split
              · have := SPOutcome.preAttach (c := c) (n := n) (w := w) (v := argNode (some (.node p))) w.cnt
                rw [hd] at this; exact this
              · split
                · have := SPOutcome.postAttach (c := c) (n := n) (w := w)
                    (v := argNode (some (.node p))) (w.cnt + 1) p rfl
                  rw [hd, Spec.attached_eq] at this; exact this
                · have := SPOutcome.moved (c := c) (n := n) (w := w)
                    (v := argNode (some (.node p))) p rfl
                  rw [hd, Spec.attached_eq] at this; exact this
            | some q =>
              have hq : n ∈ w.f.children q := (h.bidir n q).1 hold
              have hqp : q ≠ p := by intro e; apply hsame; rw [hold, e]
              have hm : n ∉ (w.f.detachRaw n q).children p := by
                simp only [detachRaw_children, hqp.symm, if_false]
                intro hm; have := (h.bidir n p).2 hm; rw [hold] at this
                exact hqp (Option.some.inj this)
              have hd : Spec.detached w.f n = w.f.detachRaw n q := Spec.detached_eq hold
              simp only [detach_cases c n q w hq]
              by_cases h1 : c.φ w.cnt .preDetach n = true
              · simp only [h1, if_true]; exact .preDetach _
              · simp only [h1, Bool.false_eq_true, if_false]
                by_cases h2 : c.φ (w.cnt + 1) .postDetach n = true
                · simp only [h2, if_true]; rw [World.adv, ← hd]; exact .postDetach _
                · simp only [h2, Bool.false_eq_true, if_false]
                  rw [attach_cases c n p _ (by simpa [World.adv] using hm)]
                  by_cases h3 : c.φ (w.cnt + 2) .preAttach n = true
                  · simp only [World.adv, List.length_cons, List.length_nil, Nat.zero_add, h3, if_true]
                    rw [← hd]; exact .preAttach _
                  · simp only [World.adv, List.length_cons, List.length_nil, Nat.zero_add, h3,
                      Bool.false_eq_true, if_false]
                    by_cases h4 : c.φ (w.cnt + 2 + 1) .postAttach n = true
                    · simp only [h4, if_true]; rw [← hd, ← Spec.attached_eq]
                      exact .postAttach _ p rfl
                    · simp only [h4, Bool.false_eq_true, if_false]; rw [← hd, ← Spec.attached_eq]
                      exact .moved p rfl

end Anytree
