import Anytree.Lemmas.Chain
/-!
Equational characterisation of the mirror's calls when no hook raises (`φ = noFaults`):
each call is a pure function of the forest that appends a determined list of events.
-/
namespace Anytree
open Forest

/-- appending events to a world -/
def World.adv (w : World) (f : Forest) (evs : List Event) : World :=
  ⟨f, w.log ++ evs, w.cnt + evs.length⟩

theorem World.adv_nil (w : World) : w.adv w.f [] = w := by
  cases w; simp [World.adv]

theorem World.adv_adv (w : World) (f g : Forest) (a b : List Event) :
    (w.adv f a).adv g b = w.adv g (a ++ b) := by
  simp [World.adv, Nat.add_assoc]

section NoFaults
variable {c : Cfg} (hφ : c.φ = noFaults)
include hφ

theorem hook_nf (k : HookKind) (n : Nat) (a : List Nat) (w : World) :
    hook c k n a w = (.ok (), w.adv w.f [Spec.ev k n a w.f]) := by
  simp [hook, hφ, noFaults, World.adv, Spec.ev]

theorem detach_nf (n q : Nat) (w : World) (hm : n ∈ w.f.children q) :
    detach c n (some q) w =
      (.ok (), w.adv (w.f.detachRaw n q)
        [Spec.ev .preDetach n [q] w.f, Spec.ev .postDetach n [q] (w.f.detachRaw n q)]) := by
  simp [detach, M.seq, hook_nf hφ, assertM, M.modify, World.adv, hm]

theorem attach_nf (n p : Nat) (w : World) (hm : n ∉ w.f.children p) :
    attach c n (some p) w =
      (.ok (), w.adv (w.f.attachRaw n p)
        [Spec.ev .preAttach n [p] w.f, Spec.ev .postAttach n [p] (w.f.attachRaw n p)]) := by
  simp [attach, M.seq, hook_nf hφ, assertM, M.modify, World.adv, hm]

end NoFaults

/-! ## the spec's closed forms are the raw updates -/

theorem Spec.detached_eq {s : Forest} {n q : Nat} (h : s.parent n = some q) :
    Spec.detached s n = s.detachRaw n q := by
  simp [Spec.detached, h, detachRaw, setC, setP]

theorem Spec.detached_root {s : Forest} {n : Nat} (h : s.parent n = none) :
    Spec.detached s n = s := by
  simp [Spec.detached, h]

theorem Spec.attached_eq (s : Forest) (n p : Nat) : Spec.attached s n p = s.attachRaw n p := by
  simp [Spec.attached, attachRaw, setC, setP]

theorem Spec.detachLog_some {s : Forest} {n q : Nat} (h : s.parent n = some q) :
    Spec.detachLog s n =
      [Spec.ev .preDetach n [q] s, Spec.ev .postDetach n [q] (s.detachRaw n q)] := by
  simp [Spec.detachLog, h, Spec.detached_eq h]

theorem Spec.detachLog_root {s : Forest} {n : Nat} (h : s.parent n = none) :
    Spec.detachLog s n = [] := by
  simp [Spec.detachLog, h]

/-- **the parent setter without hook faults is its closed-form specification** (result class, links
and the complete hook log with snapshots), from every consistent forest with enough fuel -/
theorem setParent_nf {c : Cfg} (hφ : c.φ = noFaults) (fuel n : Nat) (v : Option Arg) (w : World)
    (h : Inv w.f) (hv : ArgOk w.f.n v) (hfuel : w.f.n < fuel) :
    setParent c fuel n v w =
      ((Spec.setParent c.fl w.f n v).res,
        w.adv (Spec.setParent c.fl w.f n v).f (Spec.setParent c.fl w.f n v).log) := by
  match v, hv with
  | some .nonNode, _ =>
    simp only [setParent, Spec.setParent]
    cases c.fl <;> simp [World.adv_nil]
  | none, _ =>
    simp only [setParent, Spec.setParent]
    cases hp : w.f.parent n with
    | none => simp [Spec.detached_root hp, Spec.detachLog_root hp, World.adv_nil]
    | some q =>
      have hm : n ∈ w.f.children q := (h.bidir n q).1 hp
      simp [detach_nf hφ n q w hm, Spec.detached_eq hp, Spec.detachLog_some hp]
  | some (.node p), hp' =>
    have hp' : p < w.f.n := hp'
    simp only [setParent, Spec.setParent]
    by_cases hsame : w.f.parent n = some p
    · simp [hsame, World.adv_nil]
    · simp only [hsame, if_false]
      by_cases hpn : p = n
      · simp [M.seq, checkLoop, hpn, World.adv_nil]
      · have hne := h.onChain_some n fuel p hp' (fun k y hy => by
          have := h.chain_lt hp' hy; omega)
        cases hoc : onChain w.f n fuel p with
        | none => exact absurd hoc hne
        | some b =>
          cases b with
          | true =>
            obtain ⟨j, hj⟩ := onChain_true fuel p hoc
            have hj0 : 0 < j := by
              cases j with
              | zero => simp [up] at hj; exact absurd hj hpn
              | succ j => omega
            have hanc : Spec.isAnc w.f n p = true := (h.isAnc_iff hp').2 ⟨j, hj0, hj⟩
            simp [M.seq, checkLoop, hpn, hoc, hanc, World.adv_nil]
          | false =>
            have hno := onChain_false fuel p hoc
            have hanc : Spec.isAnc w.f n p = false := by
              cases ha : Spec.isAnc w.f n p with
              | false => rfl
              | true =>
                obtain ⟨k, _, hk⟩ := (h.isAnc_iff hp').1 ha
                exact absurd hk (hno k)
            simp only [M.seq, checkLoop, hpn, if_false, hoc, Bool.false_or, hanc, Bool.false_eq_true]
            cases hold : w.f.parent n with
            | none =>
              have hm : n ∉ w.f.children p := by
                intro hm; have := (h.bidir n p).2 hm; rw [hold] at this; simp at this
              simp [detach, M.ok, attach_nf hφ n p w hm, Spec.detached_root hold,
                Spec.detachLog_root hold, Spec.attached_eq, Spec.attachLog]
            | some q =>
              have hq : n ∈ w.f.children q := (h.bidir n q).1 hold
              have hqp : q ≠ p := by intro e; apply hsame; rw [hold, e]
              have hm : n ∉ (w.f.detachRaw n q).children p := by
                simp only [detachRaw_children, hqp.symm, if_false]
                intro hm; have := (h.bidir n p).2 hm; rw [hold] at this
                exact hqp (Option.some.inj this)
              simp only [detach_nf hφ n q w hq]
              have := attach_nf hφ n p (w.adv (w.f.detachRaw n q)
                [Spec.ev .preDetach n [q] w.f, Spec.ev .postDetach n [q] (w.f.detachRaw n q)])
                (by simpa [World.adv] using hm)
              simp only [World.adv] at this ⊢
              simp only [List.length_cons, List.length_nil, Nat.zero_add, Nat.reduceAdd] at this
              simp [this, Spec.detached_eq hold, Spec.detachLog_some hold, Spec.attached_eq,
                Spec.attachLog, Nat.add_assoc]

/-! ## the deleter -/

theorem Spec.detached_n (s : Forest) (n : Nat) : (Spec.detached s n).n = s.n := by
  unfold Spec.detached; split <;> rfl

theorem Spec.inv_detached {s : Forest} (h : Inv s) (n : Nat) : Inv (Spec.detached s n) := by
  cases hp : s.parent n with
  | none => rw [Spec.detached_root hp]; exact h
  | some q => rw [Spec.detached_eq hp]; exact inv_detachRaw h hp

theorem Spec.detached_children {s : Forest} (h : Inv s) (c n : Nat) :
    (Spec.detached s c).children n = (s.children n).filter (· != c) := by
  have hnot : ∀ q, s.parent c ≠ some q → (s.children q).filter (· != c) = s.children q := by
    intro q hq
    apply List.filter_eq_self.mpr
    intro a ha
    simp only [bne_iff_ne, ne_eq]
    intro e; subst e; exact hq ((h.bidir a q).2 ha)
  cases hp : s.parent c with
  | none => rw [Spec.detached_root hp, hnot n (by simp [hp])]
  | some q =>
    rw [Spec.detached_eq hp, detachRaw_children]
    by_cases hq : n = q
    · subst hq; simp
    · simp only [hq, if_false]
      rw [hnot n (by rw [hp]; intro e; exact hq (Option.some.inj e).symm)]

theorem Spec.detachAll_n (s : Forest) (cs : List Nat) : (Spec.detachAll s cs).1.n = s.n := by
  induction cs generalizing s with
  | nil => rfl
  | cons c cs ih => simp [Spec.detachAll, ih, Spec.detached_n]

theorem Spec.inv_detachAll {s : Forest} (h : Inv s) (cs : List Nat) : Inv (Spec.detachAll s cs).1 := by
  induction cs generalizing s with
  | nil => exact h
  | cons c cs ih => exact ih (Spec.inv_detached h c)

theorem Spec.detachAll_children {s : Forest} (h : Inv s) (cs : List Nat) (n : Nat) :
    (Spec.detachAll s cs).1.children n = (s.children n).filter (fun x => !cs.contains x) := by
  induction cs generalizing s with
  | nil =>
    simp only [Spec.detachAll, List.contains_nil, Bool.not_false]
    exact (List.filter_eq_self.mpr (fun _ _ => rfl)).symm
  | cons c cs ih =>
    simp only [Spec.detachAll]
    rw [ih (Spec.inv_detached h c), Spec.detached_children h, List.filter_filter]
    apply List.filter_congr
    intro x _
    simp only [List.contains_cons, Bool.not_or, bne_iff_ne, ne_eq, Bool.and_comm]
    cases hx : (x == c) <;> simp [hx, bne]

theorem detachLoop_nf {c : Cfg} (hφ : c.φ = noFaults) (fuel : Nat) :
    ∀ (cs : List Nat) (w : World), Inv w.f → w.f.n < fuel →
      forM' cs (fun ch => setParent c fuel ch none) w =
        (.ok (), w.adv (Spec.detachAll w.f cs).1 (Spec.detachAll w.f cs).2) := by
  intro cs
  induction cs with
  | nil => intro w _ _; simp [forM', M.ok, Spec.detachAll, World.adv_nil]
  | cons ch cs ih =>
    intro w h hf
    simp only [forM', M.seq, setParent_nf hφ fuel ch none w h trivial hf, Spec.setParent]
    have h' : Inv (Spec.detached w.f ch) := Spec.inv_detached h ch
    have := ih (w.adv (Spec.detached w.f ch) (Spec.detachLog w.f ch)) (by simpa [World.adv] using h')
      (by simpa [World.adv, Spec.detached_n] using hf)
    simp only [this, Spec.detachAll, World.adv_adv]
    simp [World.adv]

theorem delChildren_nf {c : Cfg} (hφ : c.φ = noFaults) (fuel n : Nat) (w : World)
    (h : Inv w.f) (hfuel : w.f.n < fuel) :
    delChildren c fuel n w =
      (.ok (), w.adv (Spec.delChildren w.f n).f (Spec.delChildren w.f n).log) := by
  simp only [delChildren, M.seq, hook_nf hφ]
  have hloop := detachLoop_nf hφ fuel (w.f.children n)
    (w.adv w.f [Spec.ev .preDetachChildren n (w.f.children n) w.f]) (by simpa [World.adv] using h)
    (by simpa [World.adv] using hfuel)
  simp only [World.adv] at hloop
  simp only [World.adv, hloop]
  have hempty : (Spec.detachAll w.f (w.f.children n)).1.children n = [] := by
    rw [Spec.detachAll_children h]
    apply List.filter_eq_nil_iff.mpr
    intro a ha; simp [ha]
  simp [assertM, hempty, hook_nf hφ, World.adv, Spec.delChildren]
  omega

end Anytree
