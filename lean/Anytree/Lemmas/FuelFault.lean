import Anytree.Lemmas.Restore
import Anytree.Lemmas.NoAssert
/-!
Fuel and hook faults: when the fault schedule can only strike at invocation counters below `B`,
the restore recursion of the children setter is at most `B + 2` deep, so `diverged` is never the
answer of a call whose fuel exceeds `n + B + const`.

The work is a Hoare logic over *worlds* (forest and invocation counter): the invariant says that the
forest is consistent, that the ancestor chain of `n` is a fixed chain `ch`, and that the counter is at
least `lo`; the exceptional postcondition says which exceptions can come out of the attach phase
(an assertion — excluded afterwards with `Lemmas/NoAssert` —, a `LoopError` if the new children
contain `n` or an ancestor of `n`, or a hook fault numbered `lo ≤ i < B`).
-/
namespace Anytree
open Forest
open Anytree.Props.C01 (Gd)

/-! ## conjunction of two triples -/

theorem Triple.and {P P' Q Q' : World → Prop} {E E' : Err → World → Prop} {a : M}
    (h1 : Triple P a Q E) (h2 : Triple P' a Q' E') :
    Triple (fun w => P w ∧ P' w) a (fun w => Q w ∧ Q' w) (fun e w => E e w ∧ E' e w) := by
  intro w hw
  have a1 := h1 w hw.1
  have a2 := h2 w hw.2
  cases hr : a w with
  | mk r w' =>
    rw [hr] at a1 a2
    cases r with
    | ok u => cases u; exact ⟨a1, a2⟩
    | error e => exact ⟨a1, a2⟩

theorem M.seq_seq_ok {a b d : M} {w w' : World} (h : a w = (.ok (), w')) :
    ((a ⨾ b) ⨾ d) w = (b ⨾ d) w' := by
  simp [M.seq, h]

theorem M.seq_throw_ne_diverged {a : M} {e : Err} {w : World} (he : e ≠ .diverged)
    (ha : (a w).1 ≠ .error .diverged) : ((a ⨾ M.throw e) w).1 ≠ .error .diverged := by
  simp only [M.seq]
  cases hr : a w with
  | mk r w' =>
    rw [hr] at ha
    cases r with
    | ok u => cases u; simp only [M.throw]; intro h; cases h; exact he rfl
    | error e' => exact ha

/-! ## the world invariant and the exceptional postcondition -/

/-- forest part: consistent, `k` objects, and the ancestor chain of `n` is `ch` -/
def CG (k n : Nat) (ch : Nat → Option Nat) : Forest → Prop :=
  fun f => Gd k f ∧ ∀ j, f.up j n = ch j

/-- a forest predicate together with a lower bound of the invocation counter -/
def WP (F : Forest → Prop) (lo : Nat) : World → Prop := fun w => F w.f ∧ lo ≤ w.cnt

/-- `e` is the exception of a hook invocation numbered `lo ≤ i < B`, and the counter is past it -/
def Hookish (B lo : Nat) (e : Err) (w : World) : Prop :=
  ∃ i kd m, e = .hook i kd m ∧ lo ≤ i ∧ i < B ∧ i < w.cnt

/-- exceptional postcondition: `F0` holds, and the exception is an assertion, a `LoopError` (only if
`L`), or a hook fault in the window -/
def EW (F0 : Forest → Prop) (B lo : Nat) (L : Prop) : Err → World → Prop :=
  fun e w => F0 w.f ∧ (e = .assertion ∨ (e = .loopError ∧ L) ∨ Hookish B lo e w)

theorem EW.mono {F0 : Forest → Prop} {B lo : Nat} {L L' : Prop} (hL : L → L') {e : Err} {w : World}
    (h : EW F0 B lo L e w) : EW F0 B lo L' e w := by
  obtain ⟨h0, h1 | h1 | h1⟩ := h
  · exact ⟨h0, Or.inl h1⟩
  · exact ⟨h0, Or.inr (Or.inl ⟨h1.1, hL h1.2⟩)⟩
  · exact ⟨h0, Or.inr (Or.inr h1)⟩

theorem assert_W {F F0 : Forest → Prop} (hF : ∀ f, F f → F0 f) (B lo : Nat) (L : Prop) (c : Cfg)
    (cond : Forest → Bool) :
    Triple (WP F lo) (assertM c cond) (WP F lo) (EW F0 B lo L) := by
  intro w hw
  unfold assertM
  by_cases h : (c.asrt && !(cond w.f)) = true
  · simp only [h, if_true]; exact ⟨hF _ hw.1, Or.inl rfl⟩
  · simp only [h, Bool.false_eq_true, if_false]; exact hw

theorem modify_W {F F' : Forest → Prop} {u : Forest → Forest} (h : ∀ f, F f → F' (u f)) (lo : Nat)
    (E : Err → World → Prop) : Triple (WP F lo) (M.modify u) (WP F' lo) E := by
  intro w hw; exact ⟨h _ hw.1, hw.2⟩

section Steps
variable {c : Cfg} {B : Nat} (hφ : ∀ i k m, B ≤ i → c.φ i k m = false)
include hφ

theorem hook_W {F F0 : Forest → Prop} (hF : ∀ f, F f → F0 f) (lo : Nat) (L : Prop)
    (kd : HookKind) (m : Nat) (a : List Nat) :
    Triple (WP F lo) (hook c kd m a) (WP F lo) (EW F0 B lo L) := by
  intro w hw
  unfold hook
  by_cases h : c.φ w.cnt kd m = true
  · simp only [h, if_true]
    refine ⟨hF _ hw.1, Or.inr (Or.inr ⟨w.cnt, kd, m, rfl, hw.2, ?_, Nat.lt_succ_self _⟩)⟩
    apply Decidable.byContradiction
    intro hB
    rw [hφ w.cnt kd m (by omega)] at h
    cases h
  · simp only [h, Bool.false_eq_true, if_false]
    exact ⟨hw.1, Nat.le_succ_of_le hw.2⟩

theorem detach_W (k n : Nat) (ch : Nat → Option Nat) (lo : Nat) (L : Prop) (x : Nat)
    (hx : ∀ j, ch j ≠ some x) (old : Option Nat) :
    Triple (WP (fun f => CG k n ch f ∧ f.parent x = old) lo) (detach c x old)
      (WP (fun f => CG k n ch f ∧ f.parent x = none) lo) (EW (CG k n ch) B lo L) := by
  cases old with
  | none => exact Triple.ok
  | some q =>
    unfold detach
    refine Triple.seq (Triple.seq (Triple.seq (hook_W hφ (fun _ h => h.1) lo L _ _ _)
      (assert_W (fun _ h => h.1) B lo L c _)) ?_) (hook_W hφ (fun _ h => h.1) lo L _ _ _)
    apply modify_W
    intro f ⟨⟨⟨hi, hk⟩, hc⟩, hp⟩
    refine ⟨⟨⟨Anytree.inv_detachRaw hi hp, by simpa using hk⟩, ?_⟩, by simp⟩
    intro j
    rw [up_detachRaw_avoid j n (fun j' => by rw [hc]; exact hx j')]
    exact hc j

theorem attach_W (k n : Nat) (ch : Nat → Option Nat) (lo : Nat) (L : Prop) (x : Nat)
    (hx : ∀ j, ch j ≠ some x) (hxk : x < k) (hn : n < k) :
    Triple (WP (fun f => CG k n ch f ∧ f.parent x = none) lo) (attach c x (some n))
      (WP (CG k n ch) lo) (EW (CG k n ch) B lo L) := by
  unfold attach
  refine Triple.seq (Triple.seq (Triple.seq (hook_W hφ (fun _ h => h.1) lo L _ _ _)
    (assert_W (fun _ h => h.1) B lo L c _)) ?_) (hook_W hφ (fun _ h => h) lo L _ _ _)
  apply modify_W
  intro f ⟨⟨⟨hi, hk⟩, hc⟩, hp⟩
  have hloop : ∀ j, f.up j n ≠ some x := fun j => by rw [hc]; exact hx j
  refine ⟨⟨Anytree.inv_attachRaw hi hp hloop (by omega) (by omega), by simpa using hk⟩, ?_⟩
  intro j
  rw [up_attachRaw_avoid j n hloop]; exact hc j

theorem setParent_none_W (k n : Nat) (ch : Nat → Option Nat) (lo : Nat) (L : Prop) (fuel x : Nat)
    (hx : ∀ j, ch j ≠ some x) :
    Triple (WP (CG k n ch) lo) (setParent c fuel x none) (WP (CG k n ch) lo)
      (EW (CG k n ch) B lo L) := by
  intro w hw
  simp only [setParent]
  by_cases hold : w.f.parent x = none
  · simp only [hold, if_true]; exact hw
  · simp only [hold, if_false]
    have h := (detach_W hφ k n ch lo L x hx (w.f.parent x)).weaken
      (P' := WP (fun f => CG k n ch f ∧ f.parent x = w.f.parent x) lo)
      (Q' := WP (CG k n ch) lo) (E' := EW (CG k n ch) B lo L)
      (fun _ h => h) (fun _ h => ⟨h.1.1, h.2⟩) (fun _ _ h => h)
    exact h.run ⟨⟨hw.1, rfl⟩, hw.2⟩

theorem setParent_node_W (k n : Nat) (ch : Nat → Option Nat) (lo fuel x : Nat) (hxk : x < k)
    (hn : n < k) (hfuel : k < fuel) :
    Triple (WP (CG k n ch) lo) (setParent c fuel x (some (.node n))) (WP (CG k n ch) lo)
      (EW (CG k n ch) B lo (∃ j, ch j = some x)) := by
  intro w hw
  obtain ⟨⟨⟨hi, hk⟩, hc⟩, hlo⟩ := hw
  simp only [setParent]
  by_cases hsame : w.f.parent x = some n
  · simp only [hsame, if_true]; exact ⟨⟨⟨hi, hk⟩, hc⟩, hlo⟩
  · simp only [hsame, if_false]
    by_cases hbad : ∃ j, ch j = some x
    · have hcl := checkLoop_refuse (w := w) hi fuel x n (by omega) (by omega)
        (by obtain ⟨j, hj⟩ := hbad; exact ⟨j, by rw [hc]; exact hj⟩)
      rw [M.seq_err (M.seq_err hcl)]
      exact ⟨⟨⟨hi, hk⟩, hc⟩, Or.inr (Or.inl ⟨rfl, hbad⟩)⟩
    · have hx : ∀ j, ch j ≠ some x := fun j hj => hbad ⟨j, hj⟩
      have hcl := checkLoop_pass (w := w) hi fuel x n (by omega) (by omega)
        (fun e => hx 0 (by rw [← hc]; simp [up, e])) (fun j => by rw [hc]; exact hx j)
      rw [M.seq_seq_ok hcl]
      have h := Triple.seq (detach_W hφ k n ch lo (∃ j, ch j = some x) x hx (w.f.parent x))
        (attach_W hφ k n ch lo (∃ j, ch j = some x) x hx hxk hn)
      exact h.run ⟨⟨⟨⟨hi, hk⟩, hc⟩, rfl⟩, hlo⟩

theorem detachLoop_W (k n : Nat) (ch : Nat → Option Nat) (lo : Nat) (L : Prop) (fuel : Nat)
    (cs : List Nat) (hcs : ∀ x ∈ cs, ∀ j, ch j ≠ some x) :
    Triple (WP (CG k n ch) lo) (forM' cs (fun x => setParent c fuel x none)) (WP (CG k n ch) lo)
      (EW (CG k n ch) B lo L) :=
  Triple.forM' cs (fun x hx => setParent_none_W hφ k n ch lo L fuel x (hcs x hx))

theorem attachLoop_W (k n : Nat) (ch : Nat → Option Nat) (lo fuel : Nat) (xs : List Nat)
    (hlt : ∀ x ∈ xs, x < k) (hn : n < k) (hfuel : k < fuel) :
    Triple (WP (CG k n ch) lo) (forM' xs (fun x => setParent c fuel x (some (.node n))))
      (WP (CG k n ch) lo) (EW (CG k n ch) B lo (∃ x ∈ xs, ∃ j, ch j = some x)) :=
  Triple.forM' xs (fun x hx => (setParent_node_W hφ k n ch lo fuel x (hlt x hx) hn hfuel).weaken
    (fun _ h => h) (fun _ h => h) (fun _ _ h => h.mono (fun ⟨j, hj⟩ => ⟨x, hx, j, hj⟩)))

theorem delChildren_W (k n : Nat) (ch : Nat → Option Nat) (lo : Nat) (L : Prop) (fuel : Nat) :
    Triple (WP (CG k n ch) lo) (delChildren c fuel n) (WP (CG k n ch) lo)
      (EW (CG k n ch) B lo L) := by
  intro w hw
  unfold delChildren
  have hcs : ∀ x ∈ w.f.children n, ∀ j, ch j ≠ some x := fun x hx j => by
    rw [← hw.1.2 j]; exact hw.1.1.1.child_not_on_chain hx j
  exact (Triple.seq (Triple.seq (Triple.seq (hook_W hφ (fun _ h => h) lo L _ _ _)
    (detachLoop_W hφ k n ch lo L fuel _ hcs)) (assert_W (fun _ h => h) B lo L c _))
    (hook_W hφ (fun _ h => h) lo L _ _ _)).run hw

theorem attachPhase_W (k n : Nat) (ch : Nat → Option Nat) (lo fuel : Nat) (xs : List Nat)
    (hlt : ∀ x ∈ xs, x < k) (hn : n < k) (hfuel : k < fuel) :
    Triple (WP (CG k n ch) lo)
      (hook c .preAttachChildren n xs ⨾
        forM' xs (fun x => setParent c fuel x (some (.node n))) ⨾
        hook c .postAttachChildren n xs ⨾
        assertM c (fun f => (f.children n).length == xs.length))
      (WP (CG k n ch) lo) (EW (CG k n ch) B lo (∃ x ∈ xs, ∃ j, ch j = some x)) :=
  Triple.seq (Triple.seq (Triple.seq (hook_W hφ (fun _ h => h) lo _ _ _ _)
    (attachLoop_W hφ k n ch lo fuel xs hlt hn hfuel)) (hook_W hφ (fun _ h => h) lo _ _ _ _))
    (assert_W (fun _ h => h) B lo _ c _)

end Steps

/-! ## the attach phase never trips an assertion (as in `setChildrenNodes_na`) -/

theorem attachPhase_na (k : Nat) (c : Cfg) (fuel n : Nat) (xs : List Nat) (hn : n < k)
    (hxs : ∀ x ∈ xs, x < k) (hnd : xs.Nodup) :
    Triple (onF fun f => Gd k f ∧ f.children n = [])
      (hook c .preAttachChildren n xs ⨾
        forM' xs (fun x => setParent c fuel x (some (.node n))) ⨾
        hook c .postAttachChildren n xs ⨾
        assertM c (fun f => (f.children n).length == xs.length))
      (onF (Gd k)) (EN k) := by
  have t1 := hook_na k c .preAttachChildren n xs (fun f => Gd k f ∧ f.children n = [])
    (fun _ h => h.1)
  have t2 := attachLoop_na k c fuel n hn xs [] hnd hxs (fun _ _ hm => by simp at hm)
  have t3 := hook_na k c .postAttachChildren n xs (fun f => Gd k f ∧ f.children n = [] ++ xs)
    (fun _ h => h.1)
  have t4 := assert_na c (fun f => (f.children n).length == xs.length)
    (fun f => Gd k f ∧ f.children n = [] ++ xs) (EN k) (fun f hf => by simp [hf.2])
  exact (Triple.seq (Triple.seq (Triple.seq t1 t2) t3) t4).weaken
    (P' := onF fun f => Gd k f ∧ f.children n = []) (Q' := onF (Gd k)) (E' := EN k)
    (fun _ h => h) (fun _ h => h.1) (fun _ _ h => h)

/-- an exception that is neither an assertion, and is a `LoopError` or a hook fault, is not `diverged` -/
theorem EW_EN_ne_diverged {F0 : Forest → Prop} {B lo k : Nat} {L : Prop} {e : Err} {w : World}
    (h1 : EW F0 B lo L e w) (h2 : EN k e w) :
    e ≠ .diverged ∧ F0 w.f ∧ (L ∨ (lo < B ∧ lo < w.cnt)) := by
  obtain ⟨h0, h | h | ⟨i, kd, m, he, hlo, hB, hc⟩⟩ := h1
  · exact absurd h h2.1
  · exact ⟨(by rw [h.1]; intro e'; cases e'), h0, Or.inl h.2⟩
  · exact ⟨(by rw [he]; intro e'; cases e'), h0, Or.inr ⟨by omega, by omega⟩⟩

/-- the `except` branch, unfolded -/
theorem setChildrenNodes_fail (c : Cfg) (fuel n : Nat) (xs : List Nat) (w w1 w3 : World)
    (e : Err) (he : e ≠ .diverged)
    (hd : delChildren c fuel n w = (.ok (), w1))
    (ht : (hook c .preAttachChildren n xs ⨾
        forM' xs (fun x => setParent c fuel x (some (.node n))) ⨾
        hook c .postAttachChildren n xs ⨾
        assertM c (fun f => (f.children n).length == xs.length)) w1 = (.error e, w3))
    (hchk : checkChildren c.fl [] ((w.f.children n).map Arg.node) = .ok ()) :
    setChildrenNodes c (fuel + 1) n xs w =
      (setChildrenNodes c fuel n (w.f.children n) ⨾ M.throw e) w3 := by
  simp only [setChildrenNodes]
  rw [M.seq_ok hd]
  simp only [M.tryCatch, ht]
  cases e with
  | diverged => exact absurd rfl he
  | treeError | loopError | typeError | hook _ _ _ | assertion | unmodelled =>
    simp only [hchk]

section Levels
variable {c : Cfg} {B : Nat} (hφ : ∀ i k m, B ≤ i → c.φ i k m = false)
include hφ

/-- **one level of the children setter**: either the level does not answer `diverged`, or its attach
phase raised a non-`diverged` exception in a consistent world with the same ancestor chain of `n`, and
the level continues as the restore; the exception was a `LoopError` only if the new children contain
`n` or an ancestor of `n`, otherwise a hook fault, which moved the counter on below `B` -/
theorem setChildrenNodes_level (k fuel n : Nat) (xs : List Nat) (w : World) (hG : Gd k w.f)
    (hn : n < k) (hnd : xs.Nodup) (hlt : ∀ x ∈ xs, x < k) (hfuel : k < fuel) :
    (setChildrenNodes c (fuel + 1) n xs w).1 ≠ .error .diverged ∨
    ∃ e w3, e ≠ .diverged ∧ Gd k w3.f ∧ (∀ j, w3.f.up j n = w.f.up j n) ∧
      ((∃ x ∈ xs, ∃ j, w.f.up j n = some x) ∨ (w.cnt < B ∧ w.cnt < w3.cnt)) ∧
      setChildrenNodes c (fuel + 1) n xs w =
        (setChildrenNodes c fuel n (w.f.children n) ⨾ M.throw e) w3 := by
  have hdel := (Triple.and (delChildren_W hφ k n (fun j => w.f.up j n) w.cnt False fuel)
    (delChildren_na k c fuel n)).run (w := w) ⟨⟨⟨hG, fun _ => rfl⟩, Nat.le_refl _⟩, hG⟩
  cases hd : delChildren c fuel n w with
  | mk r w1 =>
    rw [hd] at hdel
    cases r with
    | error e =>
      left
      have := (EW_EN_ne_diverged hdel.1 hdel.2).1
      simp only [setChildrenNodes]
      rw [M.seq_err hd]
      intro h; cases h; exact this rfl
    | ok u =>
      cases u
      have htry := (Triple.and (attachPhase_W hφ k n (fun j => w.f.up j n) w.cnt fuel xs hlt hn hfuel)
        (attachPhase_na k c fuel n xs hn hlt hnd)).run (w := w1) ⟨hdel.1, hdel.2⟩
      cases ht : (hook c .preAttachChildren n xs ⨾
          forM' xs (fun x => setParent c fuel x (some (.node n))) ⨾
          hook c .postAttachChildren n xs ⨾
          assertM c (fun f => (f.children n).length == xs.length)) w1 with
      | mk r w3 =>
        rw [ht] at htry
        cases r with
        | ok u =>
          left
          simp only [setChildrenNodes]
          rw [M.seq_ok hd]
          simp only [M.tryCatch, ht]
          intro h; cases h
        | error e =>
          right
          obtain ⟨he, h0, hp⟩ := EW_EN_ne_diverged htry.1 htry.2
          exact ⟨e, w3, he, h0.1, h0.2, hp,
            setChildrenNodes_fail c fuel n xs w w1 w3 e he hd ht (checkChildren_old c.fl hG.1 n)⟩

/-- **the restore levels**: new children that are neither `n` nor ancestors of `n` — the attach phase
can only fail by a hook fault, every failure moves the counter on, so `B - cnt` levels suffice -/
theorem setChildrenNodes_safe (k n : Nat) (hn : n < k) :
    ∀ (fuel : Nat) (xs : List Nat) (w : World), Gd k w.f → xs.Nodup → (∀ x ∈ xs, x < k) →
      (∀ x ∈ xs, ∀ j, w.f.up j n ≠ some x) → k + (B - w.cnt) + 2 ≤ fuel →
      (setChildrenNodes c fuel n xs w).1 ≠ .error .diverged := by
  intro fuel
  induction fuel with
  | zero => intro xs w _ _ _ _ hf; omega
  | succ fuel ih =>
    intro xs w hG hnd hlt hsafe hf
    rcases setChildrenNodes_level hφ k fuel n xs w hG hn hnd hlt (by omega) with
      h | ⟨e, w3, he, hG3, hch, hp, heq⟩
    · exact h
    · rw [heq]
      apply M.seq_throw_ne_diverged he
      rcases hp with ⟨x, hx, j, hj⟩ | ⟨h1, h2⟩
      · exact absurd hj (hsafe x hx j)
      · apply ih _ w3 hG3 (hG.1.nodup n) (fun x hx => Props.C01.children_lt hG hx)
        · intro x hx j
          rw [hch]
          exact hG.1.child_not_on_chain hx j
        · omega

/-- **the first level**: any duplicate-free in-range children tuple -/
theorem setChildrenNodes_ne_diverged (k fuel n : Nat) (xs : List Nat) (w : World) (hG : Gd k w.f)
    (hn : n < k) (hnd : xs.Nodup) (hlt : ∀ x ∈ xs, x < k) (hfuel : k + B + 3 ≤ fuel) :
    (setChildrenNodes c fuel n xs w).1 ≠ .error .diverged := by
  cases fuel with
  | zero => omega
  | succ fuel =>
    rcases setChildrenNodes_level hφ k fuel n xs w hG hn hnd hlt (by omega) with
      h | ⟨e, w3, he, hG3, hch, _, heq⟩
    · exact h
    · rw [heq]
      apply M.seq_throw_ne_diverged he
      apply setChildrenNodes_safe hφ k n hn fuel _ w3 hG3 (hG.1.nodup n)
        (fun x hx => Props.C01.children_lt hG hx)
      · intro x hx j
        rw [hch]
        exact hG.1.child_not_on_chain hx j
      · omega

end Levels

/-! ## the other calls -/

/-- the parent setter: only the loop check consumes fuel -/
theorem setParent_ne_diverged (c : Cfg) (fuel n : Nat) (v : Option Arg) (w : World) (h : Inv w.f)
    (hv : ArgOk w.f.n v) (hfuel : w.f.n < fuel) :
    (setParent c fuel n v w).1 ≠ .error .diverged := by
  have := setParent_outcome c fuel n v w h hv hfuel
  generalize (setParent c fuel n v w).1 = r at this
  generalize (setParent c fuel n v w).2.f = f at this
  cases this with
  | refused e he =>
    intro h'; cases h'
    rcases he with he | he | he <;> cases he
  | noop | preDetach _ | postDetach _ | preAttach _ | postAttach _ _ _ | detached _ | moved _ _ =>
    intro h'; cases h'

theorem checkChildren_err_ne_diverged {fl : Flavor} : ∀ (as : List Arg) (seen : List Nat) (e : Err),
    checkChildren fl seen as = .error e → e ≠ .diverged := by
  intro as
  induction as with
  | nil => intro seen e h; simp [checkChildren] at h
  | cons a as ih =>
    intro seen e h
    cases a with
    | nonNode => cases fl <;> (simp only [checkChildren] at h; cases h; intro e'; cases e')
    | node k =>
      simp only [checkChildren] at h
      by_cases hk : seen.contains k = true
      · simp only [hk, if_true] at h; cases h; intro e'; cases e'
      · simp only [hk, Bool.false_eq_true, if_false] at h
        exact ih _ e h

section Calls
variable {c : Cfg} {B : Nat} (hφ : ∀ i k m, B ≤ i → c.φ i k m = false)
include hφ

/-- the children deleter never reaches the loop check -/
theorem delChildren_ne_diverged (k fuel n : Nat) (w : World) (hG : Gd k w.f) :
    (delChildren c fuel n w).1 ≠ .error .diverged := by
  have hdel := (Triple.and (delChildren_W hφ k n (fun j => w.f.up j n) w.cnt False fuel)
    (delChildren_na k c fuel n)).run (w := w) ⟨⟨⟨hG, fun _ => rfl⟩, Nat.le_refl _⟩, hG⟩
  cases hd : delChildren c fuel n w with
  | mk r w1 =>
    rw [hd] at hdel
    cases r with
    | error e =>
      have := (EW_EN_ne_diverged hdel.1 hdel.2).1
      intro h'; cases h'; exact this rfl
    | ok u => intro h'; cases h'

theorem setChildren_ne_diverged (k fuel n : Nat) (xs : Option (List Arg)) (w : World)
    (hG : Gd k w.f) (hn : n < k) (hxs : Props.C01.ArgsOk k xs) (hfuel : k + B + 3 ≤ fuel) :
    (setChildren c fuel n xs w).1 ≠ .error .diverged := by
  unfold setChildren
  cases xs with
  | none => intro h'; cases h'
  | some as =>
    simp only
    cases hc : checkChildren c.fl [] as with
    | error e =>
      have := checkChildren_err_ne_diverged as [] e hc
      intro h'; cases h'; exact this rfl
    | ok u =>
      cases u
      exact setChildrenNodes_ne_diverged hφ k fuel n _ w hG hn (checkChildren_ok as [] hc).1
        (Props.C01.argsToNodes_lt as hxs) hfuel

theorem ctor_ne_diverged (k fuel : Nat) (p : Option Arg) (cs : CtorKids) (w : World)
    (hG : Gd k w.f) (hp : ArgOk k p) (hcs : Props.C01.KidsOk k cs) (hfuel : k + B + 4 ≤ fuel) :
    (ctor c fuel p cs w).1 ≠ .error .diverged := by
  unfold ctor
  have hk : w.f.n = k := hG.2
  have e0 : M.modify Forest.newNode w = (.ok (), { w with f := w.f.newNode }) := rfl
  have hG0 : Gd (k + 1) w.f.newNode := ⟨Props.C01.inv_newNode hG.1, by simp [newNode, hk]⟩
  simp only [M.seq_seq_ok e0]
  have hsp := setParent_ne_diverged c fuel w.f.n p { w with f := w.f.newNode } hG0.1
    (by rw [hG0.2]; exact Props.C01.argOk_mono hp) (by rw [hG0.2]; omega)
  have hT := (Props.C01.setParent_triple (k + 1) c fuel w.f.n p (by omega)
    (Props.C01.argOk_mono hp)).run (w := { w with f := w.f.newNode }) hG0
  cases hs : setParent c fuel w.f.n p { w with f := w.f.newNode } with
  | mk r w1 =>
    rw [hs] at hsp hT
    cases r with
    | error e => rw [M.seq_err hs]; exact hsp
    | ok u =>
      cases u
      rw [M.seq_ok hs]
      cases cs with
      | none => intro h'; cases h'
      | nonIterable => intro h'; cases h'
      | list xs =>
        cases xs with
        | nil => intro h'; cases h'
        | cons x xs =>
          exact setChildren_ne_diverged hφ (k + 1) fuel w.f.n _ w1 hT (by omega)
            (fun y hy => Props.C01.argOk_mono (hcs y hy)) (by omega)

end Calls

end Anytree
