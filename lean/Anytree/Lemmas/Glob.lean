import Anytree.Spec.Resolver
import Anytree.Lemmas.Nav
/-! Helper lemmas for C08 (`Resolver.glob`). -/
namespace Anytree
namespace GlobL
open Tree Str Resolver Spec
variable {α : Type}

/-! ## the matcher -/

theorem matchStar_iff (k : List Char → Bool) (n : List Char) :
    matchStar k n = true ↔ ∃ pre post, n = pre ++ post ∧ k post = true := by
  induction n with
  | nil =>
    simp only [matchStar]
    constructor
    · intro h; exact ⟨[], [], rfl, h⟩
    · rintro ⟨pre, post, h, hk⟩
      have : post = [] := (List.append_eq_nil_iff.mp h.symm).2
      subst this; exact hk
  | cons c cs ih =>
    simp only [matchStar, Bool.or_eq_true, ih]
    constructor
    · rintro (h | ⟨pre, post, h, hk⟩)
      · exact ⟨[], c :: cs, rfl, h⟩
      · exact ⟨c :: pre, post, by simp [h], hk⟩
    · rintro ⟨pre, post, h, hk⟩
      cases pre with
      | nil => left; simp at h; rw [h]; exact hk
      | cons x pre =>
        right
        simp at h
        exact ⟨pre, post, h.2, hk⟩

theorem wmatch_nil_iff (ic : Bool) (n : List Char) : WMatch ic [] n ↔ n = [] := by
  constructor
  · intro h; cases h; rfl
  · intro h; subst h; exact .nil

theorem wmatch_star_iff (ic : Bool) (p n : List Char) :
    WMatch ic ('*' :: p) n ↔ ∃ pre post, n = pre ++ post ∧ WMatch ic p post := by
  constructor
  · intro h
    generalize hq : ('*' :: p) = q at h
    induction h with
    | nil => cases hq
    | star_skip h _ =>
      cases hq
      exact ⟨[], _, rfl, h⟩
    | star_take h ih =>
      obtain ⟨pre, post, h1, h2⟩ := ih hq
      rename_i c _
      exact ⟨c :: pre, post, by simp [h1], h2⟩
    | any h _ => cases hq
    | lit h1 h2 h3 h4 _ => cases hq; exact absurd rfl h1
  · rintro ⟨pre, post, h, hw⟩
    subst h
    induction pre with
    | nil => exact .star_skip hw
    | cons x pre ih => exact .star_take ih

theorem wmatch_any_iff (ic : Bool) (p n : List Char) :
    WMatch ic ('?' :: p) n ↔ ∃ c n', n = c :: n' ∧ WMatch ic p n' := by
  constructor
  · intro h
    cases h with
    | any h => exact ⟨_, _, rfl, h⟩
    | lit h1 h2 _ _ => exact absurd rfl h2
  · rintro ⟨c, n', h, hw⟩
    subst h; exact .any hw

theorem wmatch_lit_iff (ic : Bool) (x : Char) (hx1 : x ≠ '*') (hx2 : x ≠ '?') (p n : List Char) :
    WMatch ic (x :: p) n ↔ ∃ c n', n = c :: n' ∧ eqChar ic x c = true ∧ WMatch ic p n' := by
  constructor
  · intro h
    cases h with
    | star_skip h => exact absurd rfl hx1
    | star_take h => exact absurd rfl hx1
    | any h => exact absurd rfl hx2
    | lit h1 h2 h3 h4 => exact ⟨_, _, rfl, h3, h4⟩
  · rintro ⟨c, n', h, he, hw⟩
    subst h; exact .lit hx1 hx2 he hw

theorem match_iff_WMatch (ic : Bool) (pat name : List Char) :
    matchToks ic (translate pat) name = true ↔ WMatch ic pat name := by
  induction pat generalizing name with
  | nil => simp [translate, matchToks, wmatch_nil_iff]
  | cons x p ih =>
    have ih' : ∀ name, matchToks ic (translate p) name = true ↔ WMatch ic p name := ih
    by_cases h1 : x = '*'
    · subst h1
      have : translate ('*' :: p) = .star :: translate p := by simp [translate]
      rw [this, matchToks, matchStar_iff, wmatch_star_iff]
      simp only [ih']
    · by_cases h2 : x = '?'
      · subst h2
        have : translate ('?' :: p) = .any :: translate p := by simp [translate]
        rw [this, wmatch_any_iff]
        cases name with
        | nil => simp [matchToks]
        | cons c cs => simp [matchToks, ih']
      · have : translate (x :: p) = .lit x :: translate p := by simp [translate, h1, h2]
        rw [this, wmatch_lit_iff ic x h1 h2]
        cases name with
        | nil => simp [matchToks]
        | cons c cs => simp [matchToks, ih']

/-! ## the cache -/

/-- every cached entry is what compiling its key gives -/
def CacheInv (k : Cache) : Prop := ∀ e ∈ k, e.2 = (translate e.1.1.toList, e.1.2)

theorem cacheInv_nil : CacheInv [] := by intro e he; cases he

theorem matchC_transparent (ic : Bool) (k : Cache) (name pat : String) (h : CacheInv k) :
    (matchC ic k name pat).1 = matchPure ic name pat ∧ CacheInv (matchC ic k name pat).2 := by
  unfold matchC
  cases hf : k.find? (fun e => e.1 == (pat, ic)) with
  | some e =>
    have hm := List.mem_of_find?_eq_some hf
    have hk := List.find?_some hf
    simp only [beq_iff_eq] at hk
    have he := h e hm
    simp only [hk] at he
    simp only [matchPure]
    rw [he]
    exact ⟨rfl, h⟩
  | none =>
    refine ⟨rfl, ?_⟩
    intro e he
    simp only [List.mem_append, List.mem_singleton] at he
    rcases he with he | he
    · apply h e
      split at he
      · cases he
      · exact he
    · subst he; rfl

theorem matchC_bounded (ic : Bool) (k : Cache) (name pat : String)
    (h : k.length ≤ max Generated.maxCache 1) :
    (matchC ic k name pat).2.length ≤ max Generated.maxCache 1 := by
  unfold matchC
  cases hf : k.find? (fun e => e.1 == (pat, ic)) with
  | some e => exact h
  | none =>
    simp only [List.length_append, List.length_singleton]
    split
    · simp only [List.length_nil]; omega
    · rename_i hlt
      simp only [ge_iff_le, Nat.not_le] at hlt
      omega

/-! ## cache-free versions of the glob functions -/

def starP (legacy : Bool) (g : Addr → Except RErr (List Addr)) :
    List Addr → List Addr → Except RErr (List Addr)
  | [], acc => .ok acc
  | s :: ss, acc =>
    match g s with
    | .ok ms => starP legacy g ss (appendNew acc ms)
    | .error (.child _ _) => starP legacy g ss acc
    | .error e => if legacy then .error e else starP legacy g ss acc

def findP (hit : Addr → Bool) (wild : Bool) (g : Addr → Except RErr (List Addr)) :
    List Addr → List Addr → Except RErr (List Addr)
  | [], acc => .ok acc
  | ch :: chs, acc =>
    if hit ch then
      match g ch with
      | .ok ms => findP hit wild g chs (acc ++ ms)
      | .error e => if wild then findP hit wild g chs acc else .error e
    else findP hit wild g chs acc

def globP (legacy : Bool) (c : Ctx α) : List String → Addr → Except RErr (List Addr)
  | [], a => .ok [a]
  | name :: rem, a =>
    if name == ".." then
      if a = [] then (if c.relax then .ok [] else .error (.root a))
      else globP legacy c rem a.dropLast
    else if name == "" || name == "." then globP legacy c rem a
    else if name == "**" then
      starP legacy (globP legacy c rem) ((Tree.addrs ((sub c.r a).getD c.r)).map (a ++ ·)) []
    else
      match findP (fun ch => matchPure c.ignorecase (c.name ch) name) (isWildcard name)
          (globP legacy c rem) (c.children a) [] with
      | .error e => .error e
      | .ok ms =>
        if ms.isEmpty && !isWildcard name && !c.relax then
          if legacy then .error (.child a name)
          else if (c.children a).any (fun ch => matchPure c.ignorecase (c.name ch) name) then .ok ms
          else .error (.child a name)
        else .ok ms

theorem anyMatch_spec (ic : Bool) (pat : String) (names : List String) :
    ∀ k, CacheInv k → (anyMatch ic pat names k).1 = names.any (fun n => matchPure ic n pat) ∧
      CacheInv (anyMatch ic pat names k).2 := by
  induction names with
  | nil => intro k hk; exact ⟨rfl, hk⟩
  | cons n ns ih =>
    intro k hk
    obtain ⟨h1, h2⟩ := matchC_transparent ic k n pat hk
    simp only [anyMatch, List.any_cons]
    rcases hm : matchC ic k n pat with ⟨hit, k1⟩
    rw [hm] at h1 h2
    simp only at h1 h2
    rw [← h1]
    cases hit with
    | true => simp [h2]
    | false => simpa using ih k1 h2

/-- what the cached functions are claimed to do, for a fixed remainder -/
def GlobOK (legacy : Bool) (c : Ctx α) (rem : List String) : Prop :=
  ∀ s k, CacheInv k → (globM legacy c rem s k).1 = globP legacy c rem s ∧
    CacheInv (globM legacy c rem s k).2

theorem starLoop_spec (legacy : Bool) (c : Ctx α) (rem : List String) (H : GlobOK legacy c rem)
    (l : List Addr) : ∀ acc k, CacheInv k →
      (starLoop legacy c rem l acc k).1 = starP legacy (globP legacy c rem) l acc ∧
      CacheInv (starLoop legacy c rem l acc k).2 := by
  induction l with
  | nil => intro acc k hk; rw [starLoop]; exact ⟨rfl, hk⟩
  | cons s ss ih =>
    intro acc k hk
    obtain ⟨h1, h2⟩ := H s k hk
    rw [starLoop, starP, ← h1]
    rcases hg : globM legacy c rem s k with ⟨res, k'⟩
    rw [hg] at h2
    simp only at h2
    rcases res with e | ms
    · cases e with
      | child n x => exact ih acc k' h2
      | root n =>
        cases legacy with
        | true => exact ⟨rfl, h2⟩
        | false => exact ih acc k' h2
      | plain n =>
        cases legacy with
        | true => exact ⟨rfl, h2⟩
        | false => exact ih acc k' h2
    · exact ih _ k' h2

theorem findLoop_spec (legacy : Bool) (c : Ctx α) (pat : String) (rem : List String)
    (H : GlobOK legacy c rem) (l : List Addr) : ∀ acc k, CacheInv k →
      (findLoop legacy c pat rem l acc k).1 =
        findP (fun ch => matchPure c.ignorecase (c.name ch) pat) (isWildcard pat)
          (globP legacy c rem) l acc ∧
      CacheInv (findLoop legacy c pat rem l acc k).2 := by
  induction l with
  | nil => intro acc k hk; rw [findLoop]; exact ⟨rfl, hk⟩
  | cons ch chs ih =>
    intro acc k hk
    obtain ⟨h1, h2⟩ := matchC_transparent c.ignorecase k (c.name ch) pat hk
    rw [findLoop, findP]
    rcases hm : matchC c.ignorecase k (c.name ch) pat with ⟨hit, k1⟩
    rw [hm] at h1 h2
    simp only at h1 h2
    rw [← h1]
    cases hit with
    | false => simpa using ih acc k1 h2
    | true =>
      simp only [if_true]
      cases rem with
      | nil =>
        simp only [List.isEmpty_nil, if_true, globP]
        exact ih _ k1 h2
      | cons r rs =>
        simp only [List.isEmpty_cons, Bool.false_eq_true, if_false]
        obtain ⟨h3, h4⟩ := H ch k1 h2
        rw [← h3]
        rcases hg : globM legacy c (r :: rs) ch k1 with ⟨res, k2⟩
        rw [hg] at h4
        simp only at h4
        rcases res with e | ms
        · simp only
          generalize isWildcard pat = w at ih ⊢
          cases w with
          | true => simpa using ih acc k2 h4
          | false => exact ⟨rfl, h4⟩
        · exact ih _ k2 h4

theorem globM_spec (legacy : Bool) (c : Ctx α) (parts : List String) : GlobOK legacy c parts := by
  induction parts with
  | nil => intro a k hk; rw [globM]; exact ⟨rfl, hk⟩
  | cons name rem ih =>
    intro a k hk
    rw [globM, globP]
    by_cases h1 : (name == "..") = true
    · simp only [h1, if_true]
      by_cases ha : a = []
      · simp only [ha, if_true]
        cases c.relax <;> exact ⟨rfl, hk⟩
      · simp only [ha, if_false]
        exact ih _ k hk
    · simp only [h1, Bool.false_eq_true, ↓reduceIte]
      by_cases h2 : (name == "" || name == ".") = true
      · simp only [h2, if_true]
        exact ih _ k hk
      · simp only [h2, Bool.false_eq_true, ↓reduceIte]
        by_cases h3 : (name == "**") = true
        · simp only [h3, if_true]
          exact starLoop_spec legacy c rem ih _ [] k hk
        · simp only [h3, Bool.false_eq_true, ↓reduceIte]
          obtain ⟨h4, h5⟩ := findLoop_spec legacy c name rem ih (c.children a) [] k hk
          rw [← h4]
          rcases hf : findLoop legacy c name rem (c.children a) [] k with ⟨res, k'⟩
          rw [hf] at h5
          simp only at h5
          rcases res with e | ms
          · exact ⟨rfl, h5⟩
          · simp only
            by_cases h6 : (ms.isEmpty && !isWildcard name && !c.relax) = true
            · simp only [h6, if_true]
              cases legacy with
              | true => exact ⟨rfl, h5⟩
              | false =>
                simp only [Bool.false_eq_true, if_false]
                obtain ⟨h7, h8⟩ := anyMatch_spec c.ignorecase name ((c.children a).map c.name) k' h5
                rcases ham : anyMatch c.ignorecase name ((c.children a).map c.name) k' with ⟨hit, k''⟩
                rw [ham] at h7 h8
                simp only at h7 h8
                rw [List.any_map] at h7
                have h7' : hit = (c.children a).any (fun ch => matchPure c.ignorecase (c.name ch) name) := by
                  rw [h7]; rfl
                rw [← h7']
                cases hit <;> exact ⟨rfl, h8⟩
            · simp only [h6, Bool.false_eq_true, ↓reduceIte]
              exact ⟨trivial, h5⟩

/-- `Resolver.glob` without a cache -/
def globTopP (legacy : Bool) (c : Ctx α) (a : Addr) (path : String) : Except RErr (List Addr) :=
  let parts := split c.sep path
  if startsWith path c.sep then
    match parts.drop 1 with
    | [] => .error (.plain [])
    | p0 :: rest =>
      if p0 == "" then (if c.relax then .ok [] else .error (.plain []))
      else if !matchPure c.ignorecase (c.name []) p0 then
        (if c.relax then .ok [] else .error (.plain []))
      else globP legacy c rest []
  else globP legacy c parts a

theorem glob_spec (legacy : Bool) (c : Ctx α) (a : Addr) (path : String) (k : Cache)
    (hk : CacheInv k) :
    (Resolver.glob legacy c a path k).1 = globTopP legacy c a path ∧
    CacheInv (Resolver.glob legacy c a path k).2 := by
  unfold Resolver.glob globTopP
  simp only
  by_cases h1 : startsWith path c.sep = true
  · simp only [h1, if_true]
    rcases hd : (split c.sep path).drop 1 with _ | ⟨p0, rest⟩
    · exact ⟨rfl, hk⟩
    · simp only
      by_cases h2 : (p0 == "") = true
      · simp only [h2, if_true]
        cases c.relax <;> exact ⟨rfl, hk⟩
      · simp only [h2, Bool.false_eq_true, ↓reduceIte]
        obtain ⟨h3, h4⟩ := matchC_transparent c.ignorecase k (c.name []) p0 hk
        rcases hm : matchC c.ignorecase k (c.name []) p0 with ⟨hit, k1⟩
        rw [hm] at h3 h4
        simp only at h3 h4
        rw [← h3]
        cases hit with
        | false =>
          simp only [Bool.not_false, if_true]
          cases c.relax <;> exact ⟨rfl, h4⟩
        | true =>
          simp only [Bool.not_true, Bool.false_eq_true, if_false]
          exact globM_spec legacy c rest [] k1 h4
  · simp only [h1, Bool.false_eq_true, ↓reduceIte]
    exact globM_spec legacy c _ a k hk

/-! ## the loops as list functions -/

theorem appendNew_nil (acc : List Addr) : appendNew acc [] = acc := rfl

theorem appendNew_append (acc x y : List Addr) :
    appendNew acc (x ++ y) = appendNew (appendNew acc x) y := by
  simp [appendNew, List.foldl_append]

/-- the list carried by a result, `[]` for an error -/
def okList : Except RErr (List Addr) → List Addr
  | .ok l => l
  | .error _ => []

theorem starP_false (g : Addr → Except RErr (List Addr)) (l : List Addr) : ∀ acc,
    starP false g l acc = .ok (appendNew acc (l.flatMap (fun s => okList (g s)))) := by
  induction l with
  | nil => intro acc; rfl
  | cons s ss ih =>
    intro acc
    rw [starP, List.flatMap_cons, appendNew_append]
    rcases hg : g s with e | ms
    · cases e <;> simp [okList, appendNew_nil, ih]
    · simp [okList, ih]

theorem findP_wild (hit : Addr → Bool) (g : Addr → Except RErr (List Addr)) (l : List Addr) :
    ∀ acc, findP hit true g l acc = .ok (acc ++ (l.filter hit).flatMap (fun s => okList (g s))) := by
  induction l with
  | nil => intro acc; simp [findP]
  | cons s ss ih =>
    intro acc
    rw [findP]
    by_cases h : hit s = true
    · simp only [h, if_true, List.filter_cons_of_pos, List.flatMap_cons]
      rcases hg : g s with e | ms
      · simp [okList, ih]
      · simp [okList, ih]
    · rw [List.filter_cons_of_neg h]
      simp only [h, Bool.false_eq_true, ↓reduceIte]
      exact ih acc

theorem findP_lit_ok (hit : Addr → Bool) (g : Addr → Except RErr (List Addr)) (l : List Addr) :
    ∀ acc r, findP hit false g l acc = .ok r →
      (∀ s ∈ l.filter hit, ∃ ms, g s = .ok ms) ∧
      r = acc ++ (l.filter hit).flatMap (fun s => okList (g s)) := by
  induction l with
  | nil => intro acc r h; simp [findP] at h; simp [h]
  | cons s ss ih =>
    intro acc r h
    rw [findP] at h
    by_cases hs : hit s = true
    · simp only [hs, if_true] at h
      rcases hg : g s with e | ms
      · rw [hg] at h; simp at h
      · rw [hg] at h
        obtain ⟨h1, h2⟩ := ih _ _ h
        simp only [hs, List.filter_cons_of_pos, List.flatMap_cons, List.mem_cons]
        refine ⟨?_, ?_⟩
        · rintro x (rfl | hx)
          · exact ⟨ms, hg⟩
          · exact h1 x hx
        · simp [h2, hg, okList]
    · rw [List.filter_cons_of_neg hs]
      simp only [hs, Bool.false_eq_true, ↓reduceIte] at h
      exact ih _ _ h

theorem findP_lit_err (hit : Addr → Bool) (g : Addr → Except RErr (List Addr)) (l : List Addr) :
    ∀ acc e, findP hit false g l acc = .error e → ∃ s ∈ l.filter hit, g s = .error e := by
  induction l with
  | nil => intro acc e h; simp [findP] at h
  | cons s ss ih =>
    intro acc e h
    rw [findP] at h
    by_cases hs : hit s = true
    · simp only [hs, if_true] at h
      simp only [hs, List.filter_cons_of_pos, List.mem_cons]
      rcases hg : g s with e' | ms
      · rw [hg] at h
        simp at h
        exact ⟨s, Or.inl rfl, by rw [hg, h]⟩
      · rw [hg] at h
        obtain ⟨x, hx, hgx⟩ := ih _ _ h
        exact ⟨x, Or.inr hx, hgx⟩
    · rw [List.filter_cons_of_neg hs]
      simp only [hs, Bool.false_eq_true, ↓reduceIte] at h
      exact ih _ _ h

/-! ## relaxed mode -/

theorem globP_relaxed (c : Ctx α) (hr : c.relax = true) (parts : List String) :
    ∀ a, globP false c parts a = .ok (denote c parts a) := by
  induction parts with
  | nil => intro a; rfl
  | cons name rem ih =>
    intro a
    rw [globP, denote]
    by_cases h1 : (name == "..") = true
    · simp only [h1, if_true]
      by_cases ha : a = []
      · simp [ha, hr]
      · simp only [ha, if_false]; exact ih _
    · simp only [h1, Bool.false_eq_true, ↓reduceIte]
      by_cases h2 : (name == "" || name == ".") = true
      · simp only [h2, if_true]; exact ih _
      · simp only [h2, Bool.false_eq_true, ↓reduceIte]
        by_cases h3 : (name == "**") = true
        · simp only [h3, if_true]
          rw [starP_false]
          simp only [ih, okList, dedup]
        · simp only [h3, Bool.false_eq_true, ↓reduceIte]
          by_cases hw : isWildcard name = true
          · rw [hw, findP_wild]
            simp [ih, okList, hr, matching]
          · simp only [Bool.not_eq_true] at hw
            rw [hw]
            rcases hf : findP (fun ch => matchPure c.ignorecase (c.name ch) name) false
              (globP false c rem) (c.children a) [] with e | ms
            · obtain ⟨s, _, hs⟩ := findP_lit_err _ _ _ _ _ hf
              rw [ih] at hs; cases hs
            · obtain ⟨_, h5⟩ := findP_lit_ok _ _ _ _ _ hf
              simp [h5, ih, okList, hr, matching]

/-! ## strict mode -/

theorem matching_eq_nil_of_any_false (c : Ctx α) (a : Addr) (name : String)
    (h : (c.children a).any (fun ch => matchPure c.ignorecase (c.name ch) name) = false) :
    matching c a name = [] := by
  unfold matching
  rw [List.filter_eq_nil_iff]
  intro x hx hm
  have : (c.children a).any (fun ch => matchPure c.ignorecase (c.name ch) name) = true :=
    List.any_eq_true.mpr ⟨x, hx, hm⟩
  rw [h] at this; cases this

theorem globP_strict_dead (c : Ctx α) (parts : List String) :
    ∀ a e, globP false c parts a = .error e → hasDeadEnd c parts a = true := by
  induction parts with
  | nil => intro a e h; cases h
  | cons name rem ih =>
    intro a e h
    rw [globP] at h
    rw [hasDeadEnd]
    by_cases h1 : (name == "..") = true
    · simp only [h1, if_true] at h ⊢
      by_cases ha : a = []
      · simp [ha]
      · simp only [ha, if_false] at h ⊢; exact ih _ _ h
    · simp only [h1, Bool.false_eq_true, ↓reduceIte] at h ⊢
      by_cases h2 : (name == "" || name == ".") = true
      · simp only [h2, if_true] at h ⊢; exact ih _ _ h
      · simp only [h2, Bool.false_eq_true, ↓reduceIte] at h ⊢
        by_cases h3 : (name == "**") = true
        · simp only [h3, if_true] at h
          rw [starP_false] at h; cases h
        · simp only [h3, Bool.false_eq_true, ↓reduceIte] at h ⊢
          by_cases hw : isWildcard name = true
          · rw [hw, findP_wild] at h
            simp at h
          · simp only [Bool.not_eq_true] at hw
            rw [hw] at h
            simp only [hw, Bool.false_eq_true, ↓reduceIte]
            rcases hf : findP (fun ch => matchPure c.ignorecase (c.name ch) name) false
              (globP false c rem) (c.children a) [] with e' | ms
            · rw [hf] at h
              obtain ⟨s, hs, hgs⟩ := findP_lit_err _ _ _ _ _ hf
              have := ih _ _ hgs
              rw [Bool.or_eq_true]
              right
              exact List.any_eq_true.mpr ⟨s, hs, this⟩
            · rw [hf] at h
              simp only at h
              by_cases h6 : (ms.isEmpty && !false && !c.relax) = true
              · simp only [h6, if_true] at h
                cases hany : (c.children a).any (fun ch => matchPure c.ignorecase (c.name ch) name) with
                | true => rw [hany] at h; simp at h
                | false =>
                  rw [matching_eq_nil_of_any_false c a name hany]; rfl
              · simp only [h6, Bool.false_eq_true, ↓reduceIte] at h
                cases h

theorem globP_strict_denote (c : Ctx α) (hr : c.relax = false) (parts : List String)
    (hu : ∀ name ∈ parts, isWildcard name = false → ∀ b, (matching c b name).length ≤ 1) :
    ∀ a, okList (globP false c parts a) = denote c parts a := by
  induction parts with
  | nil => intro a; rfl
  | cons name rem ih =>
    have ih := ih (fun n hn => hu n (List.mem_cons_of_mem _ hn))
    have hu := hu name (List.mem_cons_self ..)
    intro a
    rw [globP, denote]
    by_cases h1 : (name == "..") = true
    · simp only [h1, if_true]
      by_cases ha : a = []
      · simp [ha, hr, okList]
      · simp only [ha, if_false]; exact ih _
    · simp only [h1, Bool.false_eq_true, ↓reduceIte]
      by_cases h2 : (name == "" || name == ".") = true
      · simp only [h2, if_true]; exact ih _
      · simp only [h2, Bool.false_eq_true, ↓reduceIte]
        by_cases h3 : (name == "**") = true
        · simp only [h3, if_true]
          rw [starP_false]
          simp only [ih, dedup]
          rfl
        · simp only [h3, Bool.false_eq_true, ↓reduceIte]
          by_cases hw : isWildcard name = true
          · rw [hw, findP_wild]
            simp [ih, matching]
            rfl
          · simp only [Bool.not_eq_true] at hw
            rw [hw]
            rcases hf : findP (fun ch => matchPure c.ignorecase (c.name ch) name) false
              (globP false c rem) (c.children a) [] with e | ms
            · obtain ⟨s, hs, hgs⟩ := findP_lit_err _ _ _ _ _ hf
              have hlen := hu hw a
              have hs' : s ∈ matching c a name := hs
              have hm : matching c a name = [s] := by
                rcases hmm : matching c a name with _ | ⟨x, _ | ⟨y, t⟩⟩
                · rw [hmm] at hs'; cases hs'
                · rw [hmm] at hs'; simp at hs'; rw [hs']
                · rw [hmm] at hlen; simp at hlen
              have hd : denote c rem s = [] := by rw [← ih s, hgs]; rfl
              simp [okList, hm, hd]
            · obtain ⟨_, h5⟩ := findP_lit_ok _ _ _ _ _ hf
              have h5' : ms = (matching c a name).flatMap (denote c rem) := by
                rw [h5]; simp [ih, matching]
              simp only
              by_cases h6 : (ms.isEmpty && !false && !c.relax) = true
              · simp only [h6, if_true]
                cases hany : (c.children a).any (fun ch => matchPure c.ignorecase (c.name ch) name) with
                | true => simp [okList, h5']
                | false =>
                  rw [matching_eq_nil_of_any_false c a name hany]; simp [okList]
              · simp only [h6, Bool.false_eq_true, ↓reduceIte]
                simp [okList, h5']

/-! ## `appendNew` / `dedup` -/

theorem appendNew_cons (acc : List Addr) (m : Addr) (ms : List Addr) :
    appendNew acc (m :: ms) = appendNew (if acc.contains m then acc else acc ++ [m]) ms := rfl

theorem mem_appendNew (ms : List Addr) : ∀ (acc : List Addr) (x : Addr),
    x ∈ appendNew acc ms ↔ x ∈ acc ∨ x ∈ ms := by
  induction ms with
  | nil => intro acc x; simp [appendNew_nil]
  | cons m ms ih =>
    intro acc x
    rw [appendNew_cons, ih]
    by_cases h : acc.contains m = true
    · simp only [h, if_true, List.mem_cons]
      have hm : m ∈ acc := by simpa using h
      constructor
      · rintro (h1 | h1)
        · exact Or.inl h1
        · exact Or.inr (Or.inr h1)
      · rintro (h1 | h1 | h1)
        · exact Or.inl h1
        · subst h1; exact Or.inl hm
        · exact Or.inr h1
    · simp only [h, Bool.false_eq_true, ↓reduceIte, List.mem_append, List.mem_cons,
        List.not_mem_nil, or_false]
      constructor
      · rintro ((h1 | h1) | h1)
        · exact Or.inl h1
        · exact Or.inr (Or.inl h1)
        · exact Or.inr (Or.inr h1)
      · rintro (h1 | h1 | h1)
        · exact Or.inl (Or.inl h1)
        · exact Or.inl (Or.inr h1)
        · exact Or.inr h1

theorem nodup_appendNew (ms : List Addr) : ∀ (acc : List Addr), acc.Nodup → (appendNew acc ms).Nodup := by
  induction ms with
  | nil => intro acc h; exact h
  | cons m ms ih =>
    intro acc h
    rw [appendNew_cons]
    apply ih
    by_cases hc : acc.contains m = true
    · simp only [hc, if_true]; exact h
    · simp only [hc, Bool.false_eq_true, ↓reduceIte]
      have hm : m ∉ acc := by simpa using hc
      rw [List.nodup_append]
      refine ⟨h, by simp, ?_⟩
      intro x hx y hy
      simp only [List.mem_singleton] at hy
      subst hy
      intro hxy; subst hxy; exact hm hx

theorem mem_dedup (l : List Addr) (x : Addr) : x ∈ dedup l ↔ x ∈ l := by
  simp [dedup, mem_appendNew]

theorem nodup_dedup (l : List Addr) : (dedup l).Nodup := nodup_appendNew l [] List.nodup_nil

/-! ## generic list facts -/

theorem nodup_flatMap_of {β γ : Type} (f : β → List γ) (l : List β) (hl : l.Nodup)
    (hf : ∀ x ∈ l, (f x).Nodup)
    (hd : ∀ x ∈ l, ∀ y ∈ l, x ≠ y → ∀ z, z ∈ f x → z ∈ f y → False) : (l.flatMap f).Nodup := by
  induction l with
  | nil => simp
  | cons b bs ih =>
    rw [List.nodup_cons] at hl
    rw [List.flatMap_cons, List.nodup_append]
    refine ⟨hf b (List.mem_cons_self ..), ?_, ?_⟩
    · apply ih hl.2
      · intro x hx; exact hf x (List.mem_cons_of_mem _ hx)
      · intro x hx y hy; exact hd x (List.mem_cons_of_mem _ hx) y (List.mem_cons_of_mem _ hy)
    · intro z hz w hw hzw
      subst hzw
      rw [List.mem_flatMap] at hw
      obtain ⟨y, hy, hzy⟩ := hw
      have hne : b ≠ y := by
        intro h; subst h; exact hl.1 hy
      exact hd b (List.mem_cons_self ..) y (List.mem_cons_of_mem _ hy) hne z hz hzy

theorem sublist_flatMap {β γ : Type} (f g : β → List γ) {l₁ l₂ : List β} (hs : l₁.Sublist l₂)
    (hfg : ∀ x ∈ l₁, (f x).Sublist (g x)) : (l₁.flatMap f).Sublist (l₂.flatMap g) := by
  induction hs with
  | slnil => simp
  | cons y _ ih =>
    rw [List.flatMap_cons]
    exact (ih hfg).trans (List.sublist_append_right _ _)
  | cons_cons y _ ih =>
    rw [List.flatMap_cons, List.flatMap_cons]
    apply List.Sublist.append
    · exact hfg y (List.mem_cons_self ..)
    · exact ih (fun x hx => hfg x (List.mem_cons_of_mem _ hx))

/-! ## children and addresses -/

theorem children_eq (c : Ctx α) (a : Addr) (t : Tree α) (h : sub c.r a = some t) :
    c.children a = (List.range t.kids.length).map (fun i => a ++ [i]) := by
  simp [Ctx.children, Nav.childAddrs, h]

theorem children_nodup (c : Ctx α) (a : Addr) : (c.children a).Nodup := by
  unfold Ctx.children Nav.childAddrs
  cases sub c.r a with
  | none => simp
  | some t =>
    simp only
    apply List.Pairwise.map _ _ List.nodup_range
    intro i j hij h
    apply hij
    simpa using h

theorem children_length (c : Ctx α) (a : Addr) : ∀ ch ∈ c.children a, ch.length = a.length + 1 := by
  intro ch hch
  unfold Ctx.children Nav.childAddrs at hch
  cases h : sub c.r a with
  | none => simp [h] at hch
  | some t =>
    simp only [h, List.mem_map, List.mem_range] at hch
    obtain ⟨i, _, rfl⟩ := hch
    simp

theorem children_prefix (c : Ctx α) (a : Addr) : ∀ ch ∈ c.children a, a <+: ch := by
  intro ch hch
  unfold Ctx.children Nav.childAddrs at hch
  cases h : sub c.r a with
  | none => simp [h] at hch
  | some t =>
    simp only [h, List.mem_map, List.mem_range] at hch
    obtain ⟨i, _, rfl⟩ := hch
    exact List.prefix_append _ _

theorem matching_sublist (c : Ctx α) (a : Addr) (name : String) :
    (matching c a name).Sublist (c.children a) := List.filter_sublist

/-! ## `denote` -/

theorem denote_leading (c : Ctx α) (p : String) (rest : List String) (a : Addr)
    (hp : p = ".." ∨ p = "." ∨ p = "") :
    denote c (p :: rest) a =
      (if p = ".." then (if a = [] then [] else denote c rest a.dropLast) else denote c rest a) := by
  rw [denote]
  rcases hp with rfl | rfl | rfl
  · simp
  · simp
  · simp

theorem denote_prefix (c : Ctx α) (parts : List String) (hp : ∀ p ∈ parts, p ≠ "..") :
    ∀ a, ∀ x ∈ denote c parts a, a <+: x := by
  induction parts with
  | nil => intro a x hx; simp [denote] at hx; subst hx; exact List.prefix_refl _
  | cons name rem ih =>
    have ih := ih (fun p h => hp p (List.mem_cons_of_mem _ h))
    have hn : name ≠ ".." := hp name (List.mem_cons_self ..)
    intro a x hx
    rw [denote] at hx
    have h1 : (name == "..") = false := by simpa using hn
    simp only [h1, Bool.false_eq_true, ↓reduceIte] at hx
    by_cases h2 : (name == "" || name == ".") = true
    · simp only [h2, if_true] at hx; exact ih a x hx
    · simp only [h2, Bool.false_eq_true, ↓reduceIte] at hx
      by_cases h3 : (name == "**") = true
      · simp only [h3, if_true, mem_dedup, List.mem_flatMap, List.mem_map] at hx
        obtain ⟨s, ⟨t, _, rfl⟩, hxs⟩ := hx
        exact (List.prefix_append a t).trans (ih _ x hxs)
      · simp only [h3, Bool.false_eq_true, ↓reduceIte, List.mem_flatMap] at hx
        obtain ⟨ch, hch, hxc⟩ := hx
        exact (children_prefix c a ch ((matching_sublist c a name).subset hch)).trans (ih _ x hxc)

theorem denote_nodup (c : Ctx α) (parts : List String) (hp : ∀ p ∈ parts, p ≠ "..") :
    ∀ a, (denote c parts a).Nodup := by
  induction parts with
  | nil => intro a; simp [denote]
  | cons name rem ih =>
    have hrem : ∀ p ∈ rem, p ≠ ".." := fun p h => hp p (List.mem_cons_of_mem _ h)
    have ih := ih hrem
    have hn : name ≠ ".." := hp name (List.mem_cons_self ..)
    intro a
    rw [denote]
    have h1 : (name == "..") = false := by simpa using hn
    simp only [h1, Bool.false_eq_true, ↓reduceIte]
    by_cases h2 : (name == "" || name == ".") = true
    · simp only [h2, if_true]; exact ih a
    · simp only [h2, Bool.false_eq_true, ↓reduceIte]
      by_cases h3 : (name == "**") = true
      · simp only [h3, if_true]; exact nodup_dedup _
      · simp only [h3, Bool.false_eq_true, ↓reduceIte]
        apply nodup_flatMap_of
        · exact (matching_sublist c a name).nodup (children_nodup c a)
        · intro x _; exact ih x
        · intro x hx y hy hxy z hzx hzy
          have hx' := (matching_sublist c a name).subset hx
          have hy' := (matching_sublist c a name).subset hy
          have px := denote_prefix c rem hrem x z hzx
          have py := denote_prefix c rem hrem y z hzy
          have hl : x.length = y.length := by
            rw [children_length c a x hx', children_length c a y hy']
          exact hxy ((List.prefix_of_prefix_length_le px py (Nat.le_of_eq hl)).eq_of_length hl)

/-! ## pre-order of the addresses -/

theorem flatMap_congr' {β γ : Type} (f g : β → List γ) (l : List β) (h : ∀ x ∈ l, f x = g x) :
    l.flatMap f = l.flatMap g := by
  induction l with
  | nil => rfl
  | cons b bs ih =>
    rw [List.flatMap_cons, List.flatMap_cons, h b (List.mem_cons_self ..),
      ih (fun x hx => h x (List.mem_cons_of_mem _ hx))]

theorem addrsL_eq (cs : List (Tree α)) : ∀ i, addrsL i cs =
    (List.range cs.length).flatMap (fun j =>
      match cs[j]? with
      | some t => (addrs t).map ((i + j) :: ·)
      | none => []) := by
  induction cs with
  | nil => intro i; simp [addrsL]
  | cons t cs ih =>
    intro i
    rw [addrsL, ih, List.length_cons, List.range_succ_eq_map, List.flatMap_cons, List.flatMap_map]
    simp only [List.getElem?_cons_zero, Nat.add_zero, Nat.succ_eq_add_one, List.getElem?_cons_succ]
    congr 1
    apply flatMap_congr'
    intro j _
    have : i + 1 + j = i + (j + 1) := by omega
    rw [this]

theorem addrs_sub (r : Tree α) (a : Addr) (t : Tree α) (h : sub r a = some t) :
    (addrs t).map (a ++ ·) = a :: (List.range t.kids.length).flatMap (fun i =>
      (addrs ((sub r (a ++ [i])).getD r)).map ((a ++ [i]) ++ ·)) := by
  cases t with
  | node x cs =>
    rw [addrs, List.map_cons, List.append_nil, addrsL_eq, List.map_flatMap, kids_node]
    congr 1
    apply flatMap_congr'
    intro j hj
    rw [List.mem_range] at hj
    have h1 : cs[j]? = some cs[j] := List.getElem?_eq_getElem hj
    have h2 : sub r (a ++ [j]) = some cs[j] := by
      rw [Tree.sub_append, h, Option.bind_some, Tree.sub_singleton, kids_node, h1]
    rw [h1, h2]
    simp [List.map_map, Function.comp_def]

theorem sub_child (r : Tree α) (a : Addr) (t : Tree α) (h : sub r a = some t) (i : Nat)
    (hi : i < t.kids.length) : sub r (a ++ [i]) = some t.kids[i] := by
  rw [Tree.sub_append, h, Option.bind_some, Tree.sub_singleton, List.getElem?_eq_getElem hi]

theorem denote_preorder (c : Ctx α) (parts : List String)
    (hp : ∀ p ∈ parts, p ≠ "**" ∧ p ≠ "..") :
    ∀ a t, sub c.r a = some t → (denote c parts a).Sublist ((addrs t).map (a ++ ·)) := by
  induction parts with
  | nil =>
    intro a t h
    rw [addrs_sub c.r a t h, denote]
    exact List.Sublist.cons_cons _ (List.nil_sublist _)
  | cons name rem ih =>
    have ih := ih (fun p h => hp p (List.mem_cons_of_mem _ h))
    obtain ⟨hn1, hn2⟩ := hp name (List.mem_cons_self ..)
    intro a t h
    rw [denote]
    have h1 : (name == "..") = false := by simpa using hn2
    have h3 : (name == "**") = false := by simpa using hn1
    simp only [h1, h3, Bool.false_eq_true, ↓reduceIte]
    by_cases h2 : (name == "" || name == ".") = true
    · simp only [h2, if_true]; exact ih a t h
    · simp only [h2, Bool.false_eq_true, ↓reduceIte]
      rw [addrs_sub c.r a t h]
      apply List.Sublist.cons
      have hch := children_eq c a t h
      have : (List.range t.kids.length).flatMap (fun i =>
          (addrs ((sub c.r (a ++ [i])).getD c.r)).map ((a ++ [i]) ++ ·)) =
          (c.children a).flatMap (fun ch => (addrs ((sub c.r ch).getD c.r)).map (ch ++ ·)) := by
        rw [hch, List.flatMap_map]
      rw [this]
      apply sublist_flatMap _ _ (matching_sublist c a name)
      intro ch hm
      have hmem := (matching_sublist c a name).subset hm
      rw [hch, List.mem_map] at hmem
      obtain ⟨i, hi, rfl⟩ := hmem
      rw [List.mem_range] at hi
      have hs := sub_child c.r a t h i hi
      rw [hs, Option.getD_some]
      exact ih _ _ hs

/-! ## strict mode, sharper and unconditional variants -/

/-- the components that follow the first wildcard (`*`, `?`, `**`) component -/
def afterWild : List String → List String
  | [] => []
  | p :: ps => if isWildcard p then ps else afterWild ps

theorem afterWild_subset (parts : List String) : ∀ x ∈ afterWild parts, x ∈ parts := by
  induction parts with
  | nil => intro x hx; cases hx
  | cons p ps ih =>
    intro x hx
    unfold afterWild at hx
    by_cases hw : isWildcard p = true
    · simp only [hw, if_true] at hx; exact List.mem_cons_of_mem _ hx
    · simp only [hw, Bool.false_eq_true, ↓reduceIte] at hx; exact List.mem_cons_of_mem _ (ih x hx)

/-- sharper form of `globP_strict_denote`: only literal components *behind a wildcard* must be
unambiguous (before the first wildcard an error is never swallowed) -/
theorem globP_strict_ok (c : Ctx α) (hr : c.relax = false) (parts : List String)
    (hu : ∀ name ∈ afterWild parts, isWildcard name = false → ∀ b, (matching c b name).length ≤ 1) :
    ∀ a l, globP false c parts a = .ok l → l = denote c parts a := by
  induction parts with
  | nil => intro a l h; cases h; rfl
  | cons name rem ih =>
    intro a l h
    by_cases hw : isWildcard name = true
    · simp only [afterWild, hw, if_true] at hu
      have := globP_strict_denote c hr (name :: rem) (by
        intro n hn hnw
        rcases List.mem_cons.mp hn with rfl | hn
        · rw [hw] at hnw; cases hnw
        · exact hu n hn hnw) a
      rw [h] at this; exact this
    · simp only [afterWild, hw, Bool.false_eq_true, if_false] at hu
      have ih := ih hu
      simp only [Bool.not_eq_true] at hw
      rw [globP] at h
      rw [denote]
      by_cases h1 : (name == "..") = true
      · simp only [h1, if_true] at h ⊢
        by_cases ha : a = []
        · simp [ha, hr] at h
        · simp only [ha, if_false] at h ⊢; exact ih _ _ h
      · simp only [h1, Bool.false_eq_true, ↓reduceIte] at h ⊢
        by_cases h2 : (name == "" || name == ".") = true
        · simp only [h2, if_true] at h ⊢; exact ih _ _ h
        · simp only [h2, Bool.false_eq_true, ↓reduceIte] at h ⊢
          by_cases h3 : (name == "**") = true
          · rw [eq_of_beq h3] at hw; simp [isWildcard] at hw
          · simp only [h3, Bool.false_eq_true, ↓reduceIte] at h ⊢
            rw [hw] at h
            rcases hf : findP (fun ch => matchPure c.ignorecase (c.name ch) name) false
              (globP false c rem) (c.children a) [] with e | ms
            · rw [hf] at h; cases h
            · rw [hf] at h
              obtain ⟨h4, h5⟩ := findP_lit_ok _ _ _ _ _ hf
              have h5' : ms = (matching c a name).flatMap (denote c rem) := by
                rw [h5, List.nil_append]
                apply flatMap_congr'
                intro s hs
                obtain ⟨m, hm⟩ := h4 s hs
                rw [hm, ← ih s m hm]; rfl
              simp only at h
              by_cases h6 : (ms.isEmpty && !false && !c.relax) = true
              · simp only [h6, if_true] at h
                cases hany : (c.children a).any (fun ch => matchPure c.ignorecase (c.name ch) name) with
                | true =>
                  rw [hany] at h
                  simp only [if_true] at h
                  cases h; exact h5'
                | false => rw [hany] at h; simp at h
              · simp only [h6, Bool.false_eq_true, ↓reduceIte] at h
                cases h; exact h5'

/-- without any assumption on sibling names: whatever strict `glob` returns is denoted -/
theorem globP_subset (c : Ctx α) (parts : List String) :
    ∀ a, ∀ x ∈ okList (globP false c parts a), x ∈ denote c parts a := by
  induction parts with
  | nil => intro a x hx; exact hx
  | cons name rem ih =>
    intro a x hx
    rw [globP] at hx
    rw [denote]
    by_cases h1 : (name == "..") = true
    · simp only [h1, if_true] at hx ⊢
      by_cases ha : a = []
      · simp only [ha, if_true] at hx
        cases hrel : c.relax <;> simp [hrel, okList] at hx
      · simp only [ha, if_false] at hx ⊢; exact ih _ _ hx
    · simp only [h1, Bool.false_eq_true, ↓reduceIte] at hx ⊢
      by_cases h2 : (name == "" || name == ".") = true
      · simp only [h2, if_true] at hx ⊢; exact ih _ _ hx
      · simp only [h2, Bool.false_eq_true, ↓reduceIte] at hx ⊢
        by_cases h3 : (name == "**") = true
        · simp only [h3, if_true] at hx ⊢
          rw [starP_false] at hx
          simp only [okList] at hx
          rw [mem_appendNew] at hx
          rcases hx with hx | hx
          · cases hx
          · rw [mem_dedup]
            rw [List.mem_flatMap] at hx ⊢
            obtain ⟨s, hs, hxs⟩ := hx
            exact ⟨s, hs, ih s x hxs⟩
        · simp only [h3, Bool.false_eq_true, ↓reduceIte] at hx ⊢
          have key : ∀ ms, ms = (matching c a name).flatMap (fun s => okList (globP false c rem s)) →
              x ∈ ms → x ∈ (matching c a name).flatMap (denote c rem) := by
            intro ms hms hxm
            rw [hms, List.mem_flatMap] at hxm
            obtain ⟨s, hs, hxs⟩ := hxm
            exact List.mem_flatMap.mpr ⟨s, hs, ih s x hxs⟩
          by_cases hw : isWildcard name = true
          · rw [hw, findP_wild] at hx
            simp only [List.nil_append, Bool.not_true, Bool.and_false, Bool.false_and,
              Bool.false_eq_true, if_false] at hx
            exact key _ rfl hx
          · simp only [Bool.not_eq_true] at hw
            rw [hw] at hx
            rcases hf : findP (fun ch => matchPure c.ignorecase (c.name ch) name) false
              (globP false c rem) (c.children a) [] with e | ms
            · rw [hf] at hx; cases hx
            · rw [hf] at hx
              obtain ⟨_, h5⟩ := findP_lit_ok _ _ _ _ _ hf
              rw [List.nil_append] at h5
              apply key ms h5
              simp only at hx
              by_cases h6 : (ms.isEmpty && !false && !c.relax) = true
              · simp only [h6, if_true] at hx
                cases hany : (c.children a).any (fun ch => matchPure c.ignorecase (c.name ch) name) with
                | true => rw [hany] at hx; exact hx
                | false => rw [hany] at hx; cases hx
              · simp only [h6, Bool.false_eq_true, ↓reduceIte] at hx
                exact hx

/-! ## the start of `glob` -/

theorem splitAux_ne_nil (sep : List Char) : ∀ fuel s acc, splitAux sep fuel s acc ≠ [] := by
  intro fuel
  induction fuel with
  | zero => intro s acc; simp [splitAux]
  | succ n ih =>
    intro s acc
    cases s with
    | nil => simp [splitAux]
    | cons x xs =>
      rw [splitAux]
      cases stripPrefix sep (x :: xs) with
      | none => exact ih _ _
      | some rest =>
        simp only
        by_cases he : sep.isEmpty = true
        · simp only [he, if_true]; exact ih _ _
        · simp [he]

/-- a path that starts with a non-empty separator splits into at least two components -/
theorem split_drop_one (sep path : String) (hsep : sep ≠ "") (h : startsWith path sep = true) :
    ∃ p0 rest, (split sep path).drop 1 = p0 :: rest := by
  have hs : sep.toList ≠ [] := fun h' => hsep (String.toList_eq_nil_iff.mp h')
  unfold startsWith at h
  unfold split
  cases hp : path.toList with
  | nil =>
    rw [hp] at h
    cases hsl : sep.toList with
    | nil => exact absurd hsl hs
    | cons y ys => rw [hsl] at h; simp [stripPrefix] at h
  | cons x xs =>
    rw [hp] at h
    rw [splitAux]
    cases hst : stripPrefix sep.toList (x :: xs) with
    | none => rw [hst] at h; simp at h
    | some rest =>
      simp only
      have he : sep.toList.isEmpty = false := by
        cases hsl : sep.toList with
        | nil => exact absurd hsl hs
        | cons y ys => rfl
      simp only [he, Bool.false_eq_true, ↓reduceIte, List.map_cons, List.drop_one, List.tail_cons]
      have := splitAux_ne_nil sep.toList path.length rest []
      cases hsp : splitAux sep.toList path.length rest [] with
      | nil => exact absurd hsp this
      | cons p ps => exact ⟨_, _, rfl⟩

theorem globTopP_relaxed (c : Ctx α) (hr : c.relax = true) (hsep : c.sep ≠ "") (a : Addr)
    (path : String) : globTopP false c a path = .ok (globS c a path) := by
  unfold globTopP globS
  simp only
  by_cases h1 : startsWith path c.sep = true
  · simp only [h1, if_true]
    obtain ⟨p0, rest, hd⟩ := split_drop_one c.sep path hsep h1
    rw [hd]
    simp only
    by_cases h2 : (p0 == "") = true
    · simp [h2, hr]
    · simp only [h2, Bool.false_eq_true, ↓reduceIte]
      cases matchPure c.ignorecase (c.name []) p0 with
      | false => simp [hr]
      | true => simpa using globP_relaxed c hr rest []
  · simp only [h1, Bool.false_eq_true, ↓reduceIte]
    exact globP_relaxed c hr _ a

/-! ## literal components and sibling uniqueness -/

theorem translate_literal (p : List Char) (h : p.any (fun c => c == '?' || c == '*') = false) :
    translate p = p.map .lit := by
  induction p with
  | nil => rfl
  | cons x xs ih =>
    simp only [List.any_cons, Bool.or_eq_false_iff, beq_eq_false_iff_ne] at h
    have := ih h.2
    simp only [translate, List.map_cons] at this ⊢
    rw [this]
    simp [h.1.1, h.1.2]

/-- the normal form `__cmp` compares (`str.upper()`) -/
def norm (ic : Bool) (l : List Char) : List Char := if ic then l.flatMap upperStr else l

/-- the normal form `__match` compares on a literal pattern (`re.IGNORECASE`) -/
def normRe (ic : Bool) (l : List Char) : List Char := if ic then l.map reKey else l

theorem matchToks_literal (ic : Bool) (p : List Char) : ∀ n : List Char,
    matchToks ic (p.map .lit) n = true → normRe ic n = normRe ic p := by
  induction p with
  | nil => intro n h; simp [matchToks] at h; subst h; rfl
  | cons x xs ih =>
    intro n h
    cases n with
    | nil => simp [matchToks] at h
    | cons y ys =>
      simp only [List.map_cons, matchToks, Bool.and_eq_true] at h
      have h2 := ih ys h.2
      have h1 := h.1
      unfold normRe at h2 ⊢
      unfold eqChar at h1
      cases ic with
      | true =>
        simp only [if_true, List.map_cons] at h1 h2 ⊢
        rw [h2, eq_of_beq h1]
      | false =>
        simp only [Bool.false_eq_true, if_false] at h1 h2 ⊢
        rw [h2, eq_of_beq h1]

/-- over case-regular characters the two normal forms identify the same strings -/
theorem normRe_eq_iff_norm {P : Char → Prop} (ic : Bool) (hP : ic = true → CaseFold.CaseRegular P)
    (l1 l2 : List Char) (h1 : ∀ x ∈ l1, P x) (h2 : ∀ x ∈ l2, P x) :
    normRe ic l1 = normRe ic l2 ↔ norm ic l1 = norm ic l2 := by
  unfold normRe norm
  cases ic with
  | true => simp only [if_true]; exact CaseFold.map_agree (hP rfl) l1 l2 h1 h2
  | false => simp

theorem cmp_of_norm (ic : Bool) (s t : String) (h : norm ic s.toList = norm ic t.toList) :
    cmp ic s t = true := by
  unfold cmp
  unfold norm at h
  cases ic with
  | true =>
    simp only [if_true] at h ⊢
    simp [upper, h]
  | false =>
    simp only [Bool.false_eq_true, if_false] at h ⊢
    simp [String.toList_inj.mp h]

/-- with pairwise different sibling names a literal component matches at most one child — provided
`str.upper()` (under which the names are different) and `re.IGNORECASE` (under which the component
matches) agree on the characters of the names -/
theorem literal_unique_of_siblingUnique (c : Ctx α) (hsu : SiblingUnique c)
    (hca : CaseAgree c (fun _ => False)) (name : String)
    (hw : isWildcard name = false) (b : Addr) : (matching c b name).length ≤ 1 := by
  have hnd : (matching c b name).Nodup := (matching_sublist c b name).nodup (children_nodup c b)
  have heq : ∀ x ∈ matching c b name, ∀ y ∈ matching c b name, x = y := by
    intro x hx y hy
    unfold matching at hx hy
    rw [List.mem_filter] at hx hy
    apply hsu b x y hx.1 hy.1
    apply cmp_of_norm
    have hx2 := hx.2
    have hy2 := hy.2
    unfold matchPure at hx2 hy2
    rw [translate_literal _ hw] at hx2 hy2
    rw [← normRe_eq_iff_norm c.ignorecase hca _ _
      (fun z hz => Or.inr ⟨x, hz⟩) (fun z hz => Or.inr ⟨y, hz⟩)]
    rw [matchToks_literal _ _ _ hx2, matchToks_literal _ _ _ hy2]
  rcases hm : matching c b name with _ | ⟨x, _ | ⟨y, t⟩⟩
  · simp
  · simp
  · rw [hm] at hnd heq
    have : x = y := heq x (by simp) y (by simp)
    subst this
    simp at hnd

/-- sibling names pairwise different under `re.IGNORECASE` — the comparison `glob` itself makes -/
def SiblingUniqueRe (c : Ctx α) : Prop :=
  ∀ a x y, x ∈ c.children a → y ∈ c.children a →
    normRe c.ignorecase (c.name x).toList = normRe c.ignorecase (c.name y).toList → x = y

/-- … under which a literal component matches at most one child, whatever the characters -/
theorem literal_unique_of_siblingUniqueRe (c : Ctx α) (hsu : SiblingUniqueRe c) (name : String)
    (hw : isWildcard name = false) (b : Addr) : (matching c b name).length ≤ 1 := by
  have hnd : (matching c b name).Nodup := (matching_sublist c b name).nodup (children_nodup c b)
  have heq : ∀ x ∈ matching c b name, ∀ y ∈ matching c b name, x = y := by
    intro x hx y hy
    unfold matching at hx hy
    rw [List.mem_filter] at hx hy
    apply hsu b x y hx.1 hy.1
    have hx2 := hx.2
    have hy2 := hy.2
    unfold matchPure at hx2 hy2
    rw [translate_literal _ hw] at hx2 hy2
    rw [matchToks_literal _ _ _ hx2, matchToks_literal _ _ _ hy2]
  rcases hm : matching c b name with _ | ⟨x, _ | ⟨y, t⟩⟩
  · simp
  · simp
  · rw [hm] at hnd heq
    have : x = y := heq x (by simp) y (by simp)
    subst this
    simp at hnd

/-- the two notions of sibling-uniqueness coincide over case-regular names -/
theorem siblingUniqueRe_iff (c : Ctx α) (hca : CaseAgree c (fun _ => False)) :
    SiblingUniqueRe c ↔ SiblingUnique c := by
  have key : ∀ x y : Addr, normRe c.ignorecase (c.name x).toList = normRe c.ignorecase (c.name y).toList ↔
      cmp c.ignorecase (c.name x) (c.name y) = true := by
    intro x y
    rw [normRe_eq_iff_norm c.ignorecase hca _ _ (fun z hz => Or.inr ⟨x, hz⟩) (fun z hz => Or.inr ⟨y, hz⟩)]
    constructor
    · exact cmp_of_norm _ _ _
    · intro h
      unfold cmp at h
      unfold norm
      cases hic : c.ignorecase with
      | true =>
        rw [hic] at h
        simp only [if_true, beq_iff_eq] at h ⊢
        unfold upper at h
        exact String.ofList_inj.mp h
      | false =>
        rw [hic] at h
        simp only [Bool.false_eq_true, if_false, beq_iff_eq] at h ⊢
        rw [h]
  constructor
  · intro h a x y hx hy hc; exact h a x y hx hy ((key x y).mpr hc)
  · intro h a x y hx hy hc; exact h a x y hx hy ((key x y).mp hc)

end GlobL
end Anytree
