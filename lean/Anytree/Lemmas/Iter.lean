import Anytree.Model.Iter
import Anytree.Spec.Iter
import Anytree.Lemmas.Tree
/-! Helper lemmas relating the iterator mirrors to the admitted tree. -/
namespace Anytree
open Tree Iter Spec
variable {α β : Type}

namespace Spec

/-- `maxlevel` remaining at loop level `level` (1-based) -/
def rem (m : Option Int) (level : Int) : Option Int := m.map (· - (level - 1))

theorem rem_one (m : Option Int) : rem m 1 = m := by
  cases m <;> simp [rem]

theorem rem_succ (m : Option Int) (level : Int) : rem m (level + 1) = lower (rem m level) := by
  cases m with
  | none => rfl
  | some k => simp [rem, lower]; omega

theorem abortAt_eq_cut (m : Option Int) (level : Int) : abortAt level m = cut (rem m level) := by
  cases m with
  | none => rfl
  | some k => simp [abortAt, cut, rem]; omega

theorem admitL_append (S : Tree α → Bool) (m : Option Int) (xs ys : List (Tree α)) :
    admitL S m (xs ++ ys) = admitL S m xs ++ admitL S m ys := by
  induction xs with
  | nil => simp [admitL]
  | cons x xs ih => simp [admitL, ih]

theorem admitL_cut (S : Tree α → Bool) (m : Option Int) (h : cut m = true) (cs : List (Tree α)) :
    admitL S m cs = [] := by
  induction cs with
  | nil => simp [admitL]
  | cons c cs ih => cases c; simp [admitL, admitT, h, ih]

theorem admitT_of_ok (S : Tree α → Bool) (m : Option Int) (t : Tree α) (hc : cut m = false)
    (hs : S t = false) : admitT S m t = some (node t (admitL S (lower m) t.kids)) := by
  cases t with
  | node a cs => simp [admitT, hc, hs]

theorem admitT_of_stop (S : Tree α → Bool) (m : Option Int) (t : Tree α) (hs : S t = true) :
    admitT S m t = none := by
  cases t with
  | node a cs => simp [admitT, hs]

theorem admitT_of_cut (S : Tree α → Bool) (m : Option Int) (t : Tree α) (hc : cut m = true) :
    admitT S m t = none := by
  cases t with
  | node a cs => simp [admitT, hc]

/-- labels of the admitted forest = the nodes that do not satisfy `stop` -/
theorem admitL_map_label (S : Tree α → Bool) (m : Option Int) (hc : cut m = false)
    (cs : List (Tree α)) : (admitL S m cs).map label = getChildren S cs := by
  induction cs with
  | nil => simp [admitL, getChildren]
  | cons c cs ih =>
    simp only [getChildren] at ih
    cases hs : S c with
    | true => simp [admitL, admitT_of_stop S m c hs, getChildren, hs, ih]
    | false => simp [admitL, admitT_of_ok S m c hc hs, getChildren, hs, ih]

theorem admitL_getChildren (S : Tree α → Bool) (m : Option Int) (cs : List (Tree α)) :
    admitL S m (getChildren S cs) = admitL S m cs := by
  induction cs with
  | nil => simp [admitL, getChildren]
  | cons c cs ih =>
    simp only [getChildren] at ih
    cases hs : S c with
    | true => simp [admitL, admitT_of_stop S m c hs, getChildren, hs, ih]
    | false =>
      simp only [getChildren, List.filter_cons, hs, Bool.not_false, if_true]
      simp only [admitL, ih]

/-- children of the admitted forest = admitted forest of the children, one level down -/
theorem admitL_flatMap_kids (S : Tree α → Bool) (m : Option Int) (hc : cut m = false)
    (cs : List (Tree α)) :
    (admitL S m cs).flatMap kids = admitL S (lower m) (grandchildren S (getChildren S cs)) := by
  induction cs with
  | nil => simp [admitL, getChildren, grandchildren]
  | cons c cs ih =>
    simp only [getChildren, grandchildren] at ih ⊢
    cases hs : S c with
    | true => simp [admitL, admitT_of_stop S m c hs, hs, ih]
    | false =>
      simp only [admitL, admitT_of_ok S m c hc hs, List.cons_append, List.nil_append,
        List.flatMap_cons, kids_node, ih, List.filter_cons, hs, Bool.not_false, if_true,
        admitL_append]
      congr 1
      exact (admitL_getChildren S (lower m) c.kids).symm

theorem getChildren_idem (S : Tree α → Bool) (cs : List (Tree α)) :
    getChildren S (getChildren S cs) = getChildren S cs := by
  simp [getChildren]

theorem getChildren_grandchildren (S : Tree α → Bool) (cs : List (Tree α)) :
    getChildren S (grandchildren S cs) = grandchildren S cs := by
  induction cs with
  | nil => simp [grandchildren, getChildren]
  | cons c cs ih =>
    simp only [grandchildren, getChildren, List.flatMap_cons, List.filter_append] at ih ⊢
    rw [ih]; simp

end Spec

/-! ## pre-order -/
namespace Iter

theorem pre_mirror (F S : Tree α → Bool) (t : Tree α) :
    ∀ (m : Option Int), cut m = false →
      preT F S m t = (optPre (admitT S m t)).filter F := by
  induction t using Tree.rec
    (motive_2 := fun cs => ∀ (m : Option Int), cut m = false →
      preL F S m cs = (Tree.preL (admitL S m cs)).filter F) with
  | node a cs ih =>
    intro m hm
    cases hs : S (node a cs) with
    | true => simp [preT, hs, admitT, optPre]
    | false =>
      simp only [preT, hs, admitT, hm, Bool.or_false, Bool.false_eq_true, if_false, optPre,
        Tree.pre, List.filter_cons]
      have key : (if (!abortAt 2 m) = true then preL F S (decMax m) cs else []) =
          List.filter F (Tree.preL (admitL S (lower m) cs)) := by
        cases m with
        | none => simpa [abortAt, decMax, lower] using ih none rfl
        | some k =>
          have hk : 0 < k := by simpa [cut] using hm
          by_cases h2 : 2 ≤ k
          · have : abortAt 2 (some k) = false := by simp [abortAt]; omega
            have hne : k ≠ 0 := by omega
            simp only [this, Bool.not_false, if_true, decMax, hne, if_false, lower, Option.map]
            exact ih (some (k - 1)) (by simp [cut]; omega)
          · have : abortAt 2 (some k) = true := by simp [abortAt]; omega
            simp only [this, Bool.not_true, Bool.false_eq_true, if_false]
            rw [admitL_cut S (lower (some k)) (by simp [cut, lower]; omega)]
            simp [Tree.preL]
      rw [key]
      cases F (node a cs) <;> simp
  | nil => simp [preL, admitL, Tree.preL]
  | cons c cs ihc ihcs =>
    rename_i m hm
    simp only [preL, admitL, ihc m hm, ihcs m hm]
    cases admitT S m c with
    | none => simp [optPre]
    | some c' => simp [optPre, Tree.preL]

theorem start_eq (S : Tree α → Bool) (m : Option Int) (t : Tree α) :
    start S m t = if cut m || S t then [] else [t] := by
  have : abortAt 1 m = cut m := by rw [abortAt_eq_cut, rem_one]
  simp only [start, this, getChildren]
  cases cut m <;> cases hs : S t <;> simp [hs]

/-! ## post-order -/

theorem post_mirror (F S : Tree α → Bool) (m : Option Int) (t : Tree α) :
    ∀ (level : Int), cut (rem m level) = false → S t = false →
      postT F S m level t = (optPost (admitT S (rem m level) t)).filter F := by
  induction t using Tree.rec
    (motive_2 := fun cs => ∀ (level : Int), cut (rem m level) = false →
      postL F S m level cs = (Tree.postL (admitL S (rem m level) cs)).filter F) with
  | node a cs ih =>
    intro level hm hs
    simp only [postT, admitT, hm, hs, Bool.or_false, Bool.false_eq_true, if_false, optPost,
      Tree.post, List.filter_append]
    congr 1
    · rw [abortAt_eq_cut, rem_succ]
      cases hc : cut (lower (rem m level)) with
      | true => simp [admitL_cut S _ hc, Tree.postL]
      | false =>
        simp only [Bool.false_eq_true, if_false]
        rw [ih (level + 1) (by rw [rem_succ]; exact hc), rem_succ]
    · cases hF : F (node a cs) <;> simp [hF]
  | nil => simp [postL, admitL, Tree.postL]
  | cons c cs ihc ihcs =>
    rename_i level hm
    simp only [postL, admitL, ihcs level hm, Tree.postL_append, List.filter_append]
    congr 1
    cases hs : S c with
    | true => simp [admitT_of_stop S _ c hs, Tree.postL]
    | false =>
      simp only [Bool.false_eq_true, if_false]
      rw [ihc level hm hs]
      cases admitT S (rem m level) c <;> simp [optPost, Tree.postL]

/-! ## the level loops -/

theorem groupLoop_spec (F S : Tree α → Bool) (m : Option Int) (level : Int) (cs : List (Tree α))
    (hm : cut (rem m level) = false) (hcs : getChildren S cs = cs) :
    groupLoop F S m level cs =
      (levelsL (admitL S (rem m level) cs)).map (List.filter F) := by
  fun_induction groupLoop F S m level cs with
  | case1 level => simp [admitL, levelsL_nil]
  | case2 level c cs ih =>
    have hlab := admitL_map_label S (rem m level) hm (c :: cs)
    rw [hcs] at hlab
    obtain ⟨a, as, ha⟩ : ∃ a as, admitL S (rem m level) (c :: cs) = a :: as := by
      cases h : admitL S (rem m level) (c :: cs) with
      | nil => rw [h] at hlab; simp at hlab
      | cons a as => exact ⟨a, as, rfl⟩
    have hkids := admitL_flatMap_kids S (rem m level) hm (c :: cs)
    rw [hcs] at hkids
    rw [ha] at hlab hkids
    rw [ha, levelsL_cons, List.map_cons, hlab, hkids]
    congr 1
    rw [abortAt_eq_cut, rem_succ]
    cases hc : cut (lower (rem m level)) with
    | true => simp [admitL_cut S _ hc, levelsL_nil]
    | false =>
      simp only [Bool.false_eq_true, if_false]
      rw [ih (by rw [rem_succ]; exact hc) (getChildren_grandchildren S _), rem_succ]

theorem levelLoop_eq_group (F S : Tree α → Bool) (m : Option Int) (level : Int)
    (cs : List (Tree α)) :
    levelLoop F S m level cs = (groupLoop F S m level cs).flatten := by
  fun_induction levelLoop F S m level cs with
  | case1 level => simp [groupLoop]
  | case2 level c cs ih =>
    simp only [dite_eq_ite] at ih
    rw [groupLoop, List.flatten_cons, ih]
    split <;> simp [groupLoop]

theorem zzPairs_eq (ls : List (List β)) : zzPairs ls = zigzagSpec ls := by
  unfold zigzagSpec
  induction ls using zzPairs.induct with
  | case1 => simp [zzPairs]
  | case2 a => simp [zzPairs]
  | case3 a b rest ih =>
    simp only [zzPairs, List.mapIdx_cons, ih]
    simp
    apply List.ext_getElem <;> simp
    intro i _ _
    have : (i + 1 + 1) % 2 = i % 2 := by omega
    simp [this]

end Iter
end Anytree
