import Anytree.Model.Nav
import Anytree.Spec.Nav
import Anytree.Props.C05
/-! Helper lemmas for C04 (navigation attributes). -/
namespace Anytree
open Tree

/-! ## induction from the right -/

theorem snoc_cases {β : Type} (a : List β) : a = [] ∨ ∃ b i, a = b ++ [i] := by
  cases h : a with
  | nil => exact Or.inl rfl
  | cons x xs =>
    right
    exact ⟨(x :: xs).dropLast, (x :: xs).getLast (by simp), (List.dropLast_concat_getLast _).symm⟩

theorem snoc_induction {β : Type} {P : List β → Prop} (h0 : P [])
    (h1 : ∀ b i, P b → P (b ++ [i])) : ∀ a, P a := by
  have key : ∀ n (a : List β), a.length = n → P a := by
    intro n
    induction n with
    | zero => intro a ha; have : a = [] := List.length_eq_zero_iff.mp ha; subst this; exact h0
    | succ n ih =>
      intro a ha
      rcases snoc_cases a with rfl | ⟨b, i, rfl⟩
      · exact h0
      · exact h1 b i (ih b (by simpa using ha))
  intro a; exact key _ a rfl

namespace Nav

theorem climb_nil : climb [] = [[]] := by rw [climb]; simp
theorem climb_concat (b : Addr) (i : Nat) : climb (b ++ [i]) = (b ++ [i]) :: climb b := by
  rw [climb]; simp

theorem root_nil : root [] = [] := by rw [root]; simp
theorem root_concat (b : Addr) (i : Nat) : root (b ++ [i]) = root b := by
  rw [root]; simp

theorem length_climb (a : Addr) : (climb a).length = a.length + 1 := by
  induction a using snoc_induction with
  | h0 => simp [climb_nil]
  | h1 b i ih => simp [climb_concat, ih]

end Nav

namespace Spec

theorem prefixes_concat (b : Addr) (i : Nat) : prefixes (b ++ [i]) = prefixes b ++ [b ++ [i]] := by
  induction b with
  | nil => simp [prefixes]
  | cons x xs ih => simp [prefixes, ih]

theorem length_prefixes (a : Addr) : (prefixes a).length = a.length + 1 := by
  induction a with
  | nil => simp [prefixes]
  | cons x xs ih => simp [prefixes, ih]

theorem prefixes_getElem (a : Addr) : ∀ (k : Nat) (h : k < (prefixes a).length),
    (prefixes a)[k] = a.take k := by
  induction a with
  | nil => intro k h; simp [prefixes] at h ⊢;
  | cons x xs ih =>
    intro k h
    cases k with
    | zero => simp [prefixes]
    | succ k => simp [prefixes, ih]

theorem prefixes_ne_nil (a : Addr) : prefixes a ≠ [] := by
  cases a <;> simp [prefixes]

theorem dropLast_prefixes_concat (b : Addr) (i : Nat) :
    (prefixes (b ++ [i])).dropLast = prefixes b := by
  rw [prefixes_concat, List.dropLast_concat]

end Spec

theorem Nav.path_eq_prefixes (a : Addr) : Nav.path a = Spec.prefixes a := by
  induction a using snoc_induction with
  | h0 => simp [Nav.path, Nav.climb_nil, Spec.prefixes]
  | h1 b i ih =>
    simp only [Nav.path] at ih
    simp [Nav.path, Nav.climb_concat, Spec.prefixes_concat, ih]

/-! ## address trees -/
namespace Tree
variable {α : Type}

theorem length_addrTreeAuxL (cs : List (Tree α)) : ∀ (p : Addr) (i : Nat),
    (addrTreeAuxL p i cs).length = cs.length := by
  induction cs with
  | nil => intro p i; simp [addrTreeAuxL]
  | cons c cs ih => intro p i; simp [addrTreeAuxL, ih]

theorem pre_addrTreeAux (t : Tree α) : ∀ a : Addr, pre (addrTreeAux a t) = (addrs t).map (a ++ ·) := by
  induction t using Tree.rec
    (motive_2 := fun cs => ∀ (a : Addr) (i : Nat),
      preL (addrTreeAuxL a i cs) = (addrsL i cs).map (a ++ ·)) with
  | node x cs ih => intro a; simp [addrTreeAux, pre, addrs, ih]
  | nil => simp [addrTreeAuxL, preL, addrsL]
  | cons c cs ihc ihcs =>
    rename_i a i
    simp [addrTreeAuxL, preL, addrsL, ihc, ihcs, List.map_map, Function.comp_def]

theorem length_addrs (t : Tree α) : (addrs t).length = t.size := by
  induction t using Tree.rec
    (motive_2 := fun cs => ∀ i : Nat, (addrsL i cs).length = sizeL cs) with
  | node x cs ih => simp [addrs, size, ih]; omega
  | nil => simp [addrsL, sizeL]
  | cons c cs ihc ihcs => rename_i i; simp [addrsL, sizeL, ihc, ihcs]

theorem addrs_ne_nil (t : Tree α) : addrs t ≠ [] := by
  cases t; simp [addrs]

theorem sub_append (t : Tree α) (b c : Addr) : sub t (b ++ c) = (sub t b).bind (fun u => sub u c) := by
  induction b generalizing t with
  | nil => simp [sub]
  | cons i is ih =>
    cases t with
    | node x cs =>
      simp only [List.cons_append, sub]
      cases cs[i]? with
      | none => simp
      | some c' => simp [ih]

theorem sub_singleton (t : Tree α) (i : Nat) : sub t [i] = t.kids[i]? := by
  cases t with
  | node x cs =>
    simp only [sub, kids_node]
    cases cs[i]? with
    | none => rfl
    | some c => rfl

theorem nkids_cons_mid (x : α) (pre : List (Tree α)) (c : Tree α) (cs : List (Tree α)) (b : Addr) :
    Spec.nkids (node x (pre ++ c :: cs)) (pre.length :: b) = Spec.nkids c b := by
  simp [Spec.nkids, sub]

/-- the leaf filter on the address tree, in terms of addresses -/
theorem leaves_addrTreeAux (t : Tree α) : ∀ a : Addr,
    ((pre (decorate (addrTreeAux a t))).filter (fun n => n.kids.length == 0)).map label =
      ((addrs t).filter (fun b => Spec.nkids t b == 0)).map (a ++ ·) := by
  induction t using Tree.rec
    (motive_2 := fun cs => ∀ (a : Addr) (i : Nat) (pr : List (Tree α)) (x : α), pr.length = i →
      ((preL (decorateL (addrTreeAuxL a i cs))).filter (fun n => n.kids.length == 0)).map label =
        ((addrsL i cs).filter (fun b => Spec.nkids (node x (pr ++ cs)) b == 0)).map (a ++ ·)) with
  | node x cs ih =>
    intro a
    have h := ih a 0 [] x rfl
    simp only [List.nil_append] at h
    simp only [addrTreeAux, decorate, pre, addrs, List.filter_cons, kids_node,
      length_addrTreeAuxL]
    have h0 : Spec.nkids (node x cs) [] = cs.length := by simp [Spec.nkids, sub]
    rw [h0]
    by_cases hc : (cs.length == 0) = true
    · simp only [hc, if_true, List.map_cons, label_node, List.append_nil, h]
    · simp only [hc]; exact h
  | nil => simp [addrTreeAuxL, decorateL, preL, addrsL]
  | cons c cs ihc ihcs =>
    rename_i a i pr x hi
    subst hi
    have h2 := ihcs a (pr.length + 1) (pr ++ [c]) x (by simp)
    simp only [List.append_assoc, List.singleton_append] at h2
    simp only [addrTreeAuxL, decorateL, preL, addrsL, List.filter_append, List.map_append, ihc, h2,
      List.filter_map, List.map_map, Function.comp_def, nkids_cons_mid]
    simp

theorem heightT_eq (t : Tree α) : Nav.heightT t = t.height := by
  induction t using Tree.rec
    (motive_2 := fun cs => heightL cs = if cs.isEmpty then 0 else Nav.maxHeight cs + 1) with
  | node x cs ih => simp only [Nav.heightT, height, ih]
  | nil => simp [heightL]
  | cons c cs ihc ihcs =>
    simp only [heightL, Nav.maxHeight, ihc, ihcs, List.isEmpty_cons, Bool.false_eq_true, if_false]
    cases cs with
    | nil => simp [Nav.maxHeight]
    | cons d ds => simp only [List.isEmpty_cons, Bool.false_eq_true, if_false]; omega

theorem height_spec_aux (t : Tree α) :
    (∃ b ∈ addrs t, b.length = t.height) ∧ ∀ b ∈ addrs t, b.length ≤ t.height := by
  induction t using Tree.rec
    (motive_2 := fun cs => ∀ i : Nat,
      (cs ≠ [] → ∃ b ∈ addrsL i cs, b.length = heightL cs) ∧
        ∀ b ∈ addrsL i cs, b.length ≤ heightL cs) with
  | node x cs ih =>
    obtain ⟨h1, h2⟩ := ih 0
    constructor
    · by_cases hc : cs = []
      · subst hc; exact ⟨[], by simp [addrs], by simp [height, heightL]⟩
      · obtain ⟨b, hb, hl⟩ := h1 hc
        exact ⟨b, by simp [addrs, hb], by simpa [height] using hl⟩
    · intro b hb
      simp only [addrs, List.mem_cons] at hb
      rcases hb with rfl | hb
      · simp
      · simpa [height] using h2 b hb
  | nil => rename_i i; simp [addrsL]
  | cons c cs ihc ihcs =>
    rename_i i
    obtain ⟨⟨b0, hb0, hl0⟩, hc2⟩ := ihc
    obtain ⟨h1, h2⟩ := ihcs (i + 1)
    constructor
    · intro _
      by_cases hm : heightL cs ≤ height c + 1
      · refine ⟨i :: b0, ?_, ?_⟩
        · simp only [addrsL, List.mem_append, List.mem_map]; exact Or.inl ⟨b0, hb0, rfl⟩
        · simp only [List.length_cons, heightL, hl0]; omega
      · have hne : cs ≠ [] := by
          intro h; subst h; simp [heightL] at hm
        obtain ⟨b, hb, hl⟩ := h1 hne
        refine ⟨b, ?_, ?_⟩
        · simp only [addrsL, List.mem_append]; exact Or.inr hb
        · simp only [heightL, hl]; omega
    · intro b hb
      simp only [addrsL, List.mem_append, List.mem_map] at hb
      rcases hb with ⟨b', hb', rfl⟩ | hb
      · have := hc2 b' hb'
        simp only [List.length_cons, heightL]; omega
      · have := h2 b hb
        simp only [heightL]; omega

end Tree

/-! ## longest common prefix -/
section lcp
variable {β : Type} [DecidableEq β]

theorem Spec.lcp2_nil_right (l : List β) : Spec.lcp2 l [] = [] := by
  cases l <;> simp [Spec.lcp2]

theorem Spec.lcp2_nil_left (l : List β) : Spec.lcp2 [] l = [] := by
  simp [Spec.lcp2]

theorem Spec.lcp2_prefix_left (a b : List β) : Spec.lcp2 a b <+: a := by
  induction a generalizing b with
  | nil => simp [Spec.lcp2]
  | cons x xs ih =>
    cases b with
    | nil => simp [Spec.lcp2]
    | cons y ys =>
      simp only [Spec.lcp2]
      by_cases h : x = y
      · simp only [h, if_true]; exact (List.prefix_cons_inj y).mpr (ih ys)
      · simp [h]

theorem Spec.lcp2_prefix_right (a b : List β) : Spec.lcp2 a b <+: b := by
  induction a generalizing b with
  | nil => simp [Spec.lcp2]
  | cons x xs ih =>
    cases b with
    | nil => simp [Spec.lcp2]
    | cons y ys =>
      simp only [Spec.lcp2]
      by_cases h : x = y
      · simp only [h, if_true]; exact (List.prefix_cons_inj y).mpr (ih ys)
      · simp [h]

theorem Spec.prefix_lcp2 (p a b : List β) (ha : p <+: a) (hb : p <+: b) : p <+: Spec.lcp2 a b := by
  induction p generalizing a b with
  | nil => simp
  | cons z zs ih =>
    cases a with
    | nil => simp at ha
    | cons x xs =>
      cases b with
      | nil => simp at hb
      | cons y ys =>
        rw [List.cons_prefix_cons] at ha hb
        obtain ⟨rfl, ha⟩ := ha
        obtain ⟨rfl, hb⟩ := hb
        simp only [Spec.lcp2, if_true]
        exact (List.prefix_cons_inj z).mpr (ih xs ys ha hb)

theorem Spec.lcpAll_cons_cons (l l' : List β) (ls : List (List β)) :
    Spec.lcpAll (l :: l' :: ls) = Spec.lcp2 l (Spec.lcpAll (l' :: ls)) := by
  simp [Spec.lcpAll]

theorem Nav.commonAncestors_nil : Nav.commonAncestors ([] : List (List β)) = [] := by
  simp [Nav.commonAncestors, Nav.zipStar]

theorem Nav.commonAncestors_nil_cons (rest : List (List β)) :
    Nav.commonAncestors ([] :: rest) = [] := by
  simp [Nav.commonAncestors, Nav.zipStar, Nav.zipStar.go]

theorem Nav.commonAncestors_cons_cons (x : β) (xs : List β) (rest : List (List β)) :
    Nav.commonAncestors ((x :: xs) :: rest) =
      if rest.all (fun l => !l.isEmpty) then
        (if (rest.filterMap List.head?).all (fun q => decide (x = q)) then
          x :: Nav.commonAncestors (xs :: rest.map List.tail) else [])
      else [] := by
  simp only [Nav.commonAncestors, Nav.zipStar, Nav.zipStar.go]
  by_cases h1 : (rest.all (fun l => !l.isEmpty)) = true
  · simp only [h1, if_true, List.takeWhile_cons]
    by_cases h2 : ((rest.filterMap List.head?).all (fun q => decide (x = q))) = true
    · simp only [h2, if_true, List.filterMap_cons, List.head?_cons]
    · simp only [h2]; simp
  · simp only [h1]; simp

theorem Nav.commonAncestors_singleton (l : List β) : Nav.commonAncestors [l] = l := by
  induction l with
  | nil => exact Nav.commonAncestors_nil_cons []
  | cons x xs ih => rw [Nav.commonAncestors_cons_cons]; simpa using ih

theorem Nav.commonAncestors_step (l l' : List β) (ls : List (List β)) :
    Nav.commonAncestors (l :: l' :: ls) = Spec.lcp2 l (Nav.commonAncestors (l' :: ls)) := by
  induction l generalizing l' ls with
  | nil => rw [Nav.commonAncestors_nil_cons, Spec.lcp2_nil_left]
  | cons x xs ih =>
    cases l' with
    | nil =>
      rw [Nav.commonAncestors_nil_cons, Spec.lcp2_nil_right, Nav.commonAncestors_cons_cons]
      simp
    | cons y ys =>
      rw [Nav.commonAncestors_cons_cons x, Nav.commonAncestors_cons_cons y]
      by_cases h1 : (ls.all (fun l => !l.isEmpty)) = true
      · have h1' : ((y :: ys) :: ls).all (fun l => !l.isEmpty) = true := by
          simpa using h1
        rw [if_pos h1, if_pos h1']
        by_cases h2 : ((ls.filterMap List.head?).all (fun q => decide (y = q))) = true
        · rw [if_pos h2]
          by_cases hxy : x = y
          · subst hxy
            have h2' : ((((x :: ys) :: ls).filterMap List.head?).all (fun q => decide (x = q))) = true := by
              simpa using h2
            rw [if_pos h2']
            simp only [Spec.lcp2, if_true, List.map_cons, List.tail_cons]
            rw [ih]
          · have h2' : ¬ ((((y :: ys) :: ls).filterMap List.head?).all (fun q => decide (x = q))) = true := by
              simp [hxy]
            rw [if_neg h2']
            simp [Spec.lcp2, hxy]
        · rw [if_neg h2, Spec.lcp2_nil_right]
          have h2' : ¬ ((((y :: ys) :: ls).filterMap List.head?).all (fun q => decide (x = q))) = true := by
            intro h
            apply h2
            simp only [List.filterMap_cons, List.head?_cons, List.all_cons, Bool.and_eq_true,
              decide_eq_true_eq] at h
            obtain ⟨rfl, h⟩ := h
            exact h
          rw [if_neg h2']
      · have h1' : ¬ ((y :: ys) :: ls).all (fun l => !l.isEmpty) = true := by
          simpa using h1
        rw [if_neg h1, if_neg h1', Spec.lcp2_nil_right]

theorem Nav.commonAncestors_eq_lcpAll (ancs : List (List β)) :
    Nav.commonAncestors ancs = Spec.lcpAll ancs := by
  induction ancs with
  | nil => simp [Nav.commonAncestors_nil, Spec.lcpAll]
  | cons l ls ih =>
    cases ls with
    | nil => simp [Nav.commonAncestors_singleton, Spec.lcpAll]
    | cons l' ls => rw [Nav.commonAncestors_step, Spec.lcpAll_cons_cons, ih]

theorem Spec.lcpAll_prefix' (ls : List (List β)) : ∀ l ∈ ls, Spec.lcpAll ls <+: l := by
  induction ls with
  | nil => simp
  | cons l ls ih =>
    cases ls with
    | nil => simp [Spec.lcpAll]
    | cons l' ls =>
      intro m hm
      rw [Spec.lcpAll_cons_cons]
      rcases List.mem_cons.mp hm with rfl | hm
      · exact Spec.lcp2_prefix_left _ _
      · exact (Spec.lcp2_prefix_right _ _).trans (ih m hm)

theorem Spec.lcpAll_maximal' (ls : List (List β)) (hne : ls ≠ [])
    (p : List β) (hp : ∀ l ∈ ls, p <+: l) : p <+: Spec.lcpAll ls := by
  induction ls with
  | nil => exact absurd rfl hne
  | cons l ls ih =>
    cases ls with
    | nil => simpa [Spec.lcpAll] using hp
    | cons l' ls =>
      rw [Spec.lcpAll_cons_cons]
      exact Spec.prefix_lcp2 p _ _ (hp l (by simp))
        (ih (by simp) (fun m hm => hp m (List.mem_cons_of_mem _ hm)))

end lcp

/-! ## siblings -/
section sib
variable {α : Type}

theorem idxOf_eq_of_first {β : Type} [BEq β] [LawfulBEq β] (l : List β) (a : β) :
    ∀ (i : Nat) (h : i < l.length), l[i] = a → (∀ j (hj : j < i), l[j]'(by omega) ≠ a) →
      l.idxOf a = i := by
  induction l with
  | nil => intro i h; simp at h
  | cons x xs ih =>
    intro i h hi hlt
    cases i with
    | zero => simp at hi; simp [hi]
    | succ i =>
      have hx : x ≠ a := by simpa using hlt 0 (by omega)
      rw [List.idxOf_cons_ne _ hx]
      congr 1
      apply ih i (by simpa using h) (by simpa using hi)
      intro j hj
      simpa using hlt (j + 1) (by omega)

theorem Nav.childAddrs_eq (r : Tree α) (b : Addr) :
    Nav.childAddrs r b = (List.range (Spec.nkids r b)).map (fun i => b ++ [i]) := by
  unfold Nav.childAddrs Spec.nkids
  cases sub r b <;> simp

theorem Nav.idxOf_childAddrs (r : Tree α) (b : Addr) (i : Nat) (h : i < Spec.nkids r b) :
    (Nav.childAddrs r b).idxOf (b ++ [i]) = i := by
  rw [Nav.childAddrs_eq]
  apply idxOf_eq_of_first _ _ i (by simpa using h) (by simp)
  intro j hj
  simp; omega

/-- a valid non-root address: its last index is below the parent's number of children -/
theorem Spec.lt_nkids_of_valid (r : Tree α) (b : Addr) (i : Nat)
    (h : (sub r (b ++ [i])).isSome = true) : i < Spec.nkids r b := by
  rw [Tree.sub_append] at h
  unfold Spec.nkids
  cases hb : sub r b with
  | none => simp [hb] at h
  | some t =>
    simp only [hb, Option.bind_some, Tree.sub_singleton] at h
    simp only
    cases hi : t.kids[i]? with
    | none => simp [hi] at h
    | some c => exact (List.getElem?_eq_some_iff.mp hi).1

end sib

end Anytree
