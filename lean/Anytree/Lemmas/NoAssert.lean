import Anytree.Lemmas.Restore
import Anytree.Props.C01
/-!
No internal assertion (`ANYTREE_ASSERTIONS`) ever fires in `del n.children` / `n.children = xs`,
under **every** fault schedule and for **every** amount of fuel: an assertion is only reached when
everything before it in the same statement sequence returned, and a parent assignment that returns
has done exactly its specified step.
-/
namespace Anytree
open Forest

/-! ## one parent assignment, every schedule, every fuel -/

/-- `ch.parent = None` that returns has detached `ch` -/
theorem setParent_none_ok (c : Cfg) (fuel ch : Nat) (w : World) (h : Inv w.f)
    (hr : (setParent c fuel ch none w).1 = .ok ()) :
    (setParent c fuel ch none w).2.f = Spec.detached w.f ch := by
  simp only [setParent] at hr ⊢
  cases hp : w.f.parent ch with
  | none => simp only [if_true]; exact (Spec.detached_root hp).symm
  | some q =>
    have hm : ch ∈ w.f.children q := (h.bidir ch q).1 hp
    simp only [hp, reduceCtorEq, if_false, detach_cases c ch q w hm] at hr ⊢
    by_cases h1 : c.φ w.cnt .preDetach ch = true
    · simp only [h1, if_true] at hr; cases hr
    · simp only [h1, Bool.false_eq_true, if_false] at hr ⊢
      by_cases h2 : c.φ (w.cnt + 1) .postDetach ch = true
      · simp only [h2, if_true] at hr; cases hr
      · simp only [h2, Bool.false_eq_true, if_false]
        rw [World.adv_f, ← Spec.detached_eq hp]

theorem setParent_none_no_assert (c : Cfg) (fuel ch : Nat) (w : World) (h : Inv w.f) :
    (setParent c fuel ch none w).1 ≠ .error .assertion := by
  rcases setParent_none_cases c fuel ch w h with ⟨he, _⟩ | ⟨i, he, _⟩ | ⟨i, he, _⟩ <;>
    (rw [he]; intro e; cases e)

/-- `x.parent = p` never trips an assertion, and when it returns after a genuine change it has done
exactly the specified move — no assumption on the fuel (too little fuel gives `diverged`) -/
theorem setParent_node_fact (c : Cfg) (fuel x p : Nat) (w : World) (h : Inv w.f) :
    (setParent c fuel x (some (.node p)) w).1 ≠ .error .assertion ∧
    ((setParent c fuel x (some (.node p)) w).1 = .ok () → w.f.parent x ≠ some p →
      (setParent c fuel x (some (.node p)) w).2.f = Spec.attached (Spec.detached w.f x) x p) := by
  simp only [setParent]
  by_cases hsame : w.f.parent x = some p
  · simp only [hsame, if_true]
    exact ⟨(by intro e; cases e), fun _ hne => absurd rfl hne⟩
  · simp only [hsame, if_false]
    by_cases hpx : p = x
    · simp only [M.seq, checkLoop, hpx, if_true]
      exact ⟨(by intro e; cases e), (by intro e; cases e)⟩
    · cases hoc : onChain w.f x fuel p with
      | none =>
        simp only [M.seq, checkLoop, hpx, if_false, hoc]
        exact ⟨(by intro e; cases e), (by intro e; cases e)⟩
      | some b =>
        cases b with
        | true =>
          simp only [M.seq, checkLoop, hpx, if_false, hoc]
          exact ⟨(by intro e; cases e), (by intro e; cases e)⟩
        | false =>
          simp only [M.seq, checkLoop, hpx, if_false, hoc]
          cases hold : w.f.parent x with
          | none =>
            have hm : x ∉ w.f.children p := by
              intro hm; have := (h.bidir x p).2 hm; rw [hold] at this; simp at this
            simp only [detach, M.ok, attach_cases c x p w hm]
            have hd : Spec.detached w.f x = w.f := Spec.detached_root hold
            by_cases h1 : c.φ w.cnt .preAttach x = true
            · simp only [h1, if_true]
              exact ⟨(by intro e; cases e), (by intro e; cases e)⟩
            · simp only [h1, Bool.false_eq_true, if_false]
              by_cases h2 : c.φ (w.cnt + 1) .postAttach x = true
              · simp only [h2, if_true]
                exact ⟨(by intro e; cases e), (by intro e; cases e)⟩
              · simp only [h2, Bool.false_eq_true, if_false]
                refine ⟨(by intro e; cases e), fun _ _ => ?_⟩
                rw [World.adv_f, hd, Spec.attached_eq]
          | some q =>
            have hq : x ∈ w.f.children q := (h.bidir x q).1 hold
            have hqp : q ≠ p := by intro e; apply hsame; rw [hold, e]
            have hm : x ∉ (w.f.detachRaw x q).children p := by
              simp only [detachRaw_children, hqp.symm, if_false]
              intro hm; have := (h.bidir x p).2 hm; rw [hold] at this
              exact hqp (Option.some.inj this)
            have hd : Spec.detached w.f x = w.f.detachRaw x q := Spec.detached_eq hold
            simp only [detach_cases c x q w hq]
            by_cases h1 : c.φ w.cnt .preDetach x = true
            · simp only [h1, if_true]
              exact ⟨(by intro e; cases e), (by intro e; cases e)⟩
            · simp only [h1, Bool.false_eq_true, if_false]
              by_cases h2 : c.φ (w.cnt + 1) .postDetach x = true
              · simp only [h2, if_true]
                exact ⟨(by intro e; cases e), (by intro e; cases e)⟩
              · simp only [h2, Bool.false_eq_true, if_false]
                rw [attach_cases c x p _ (by simpa [World.adv] using hm)]
                by_cases h3 : c.φ (w.cnt + 2) .preAttach x = true
                · simp only [World.adv, List.length_cons, List.length_nil, Nat.zero_add, h3, if_true]
                  exact ⟨(by intro e; cases e), (by intro e; cases e)⟩
                · simp only [World.adv, List.length_cons, List.length_nil, Nat.zero_add, h3,
                    Bool.false_eq_true, if_false]
                  by_cases h4 : c.φ (w.cnt + 2 + 1) .postAttach x = true
                  · simp only [h4, if_true]
                    exact ⟨(by intro e; cases e), (by intro e; cases e)⟩
                  · simp only [h4, Bool.false_eq_true, if_false]
                    refine ⟨(by intro e; cases e), fun _ _ => ?_⟩
                    rw [hd, Spec.attached_eq]


/-! ## Hoare triples whose exceptional postcondition says "not an assertion" -/

open Anytree.Props.C01 (Gd)

/-- exceptional postcondition: the exception is not an `AssertionError`, and the forest is consistent -/
def EN (k : Nat) : Err → World → Prop := fun e w => e ≠ .assertion ∧ Gd k w.f

theorem hook_err_ne {c : Cfg} {kind : HookKind} {n : Nat} {a : List Nat} {w : World} {e : Err}
    (h : (hook c kind n a w).1 = .error e) : e ≠ .assertion := by
  by_cases hφ : c.φ w.cnt kind n = true
  · rw [hook_err a hφ] at h
    cases h
    intro e'; cases e'
  · have hφ' : c.φ w.cnt kind n = false := by simpa using hφ
    rw [hook_ok a hφ'] at h
    cases h

theorem hook_na (k : Nat) (c : Cfg) (kind : HookKind) (n : Nat) (a : List Nat) (G : Forest → Prop)
    (hG : ∀ f, G f → Gd k f) : Triple (onF G) (hook c kind n a) (onF G) (EN k) :=
  Triple.frame (hook_f c kind n a) (fun w _ he hGw =>
    ⟨hook_err_ne he, hG _ (by rw [hook_f]; exact hGw)⟩)

/-- an assertion whose condition holds is a no-op -/
theorem assert_na (c : Cfg) (cond : Forest → Bool) (G : Forest → Prop) (E : Err → World → Prop)
    (hc : ∀ f, G f → cond f = true) : Triple (onF G) (assertM c cond) (onF G) E := by
  intro w hw
  simp only [assertM, hc _ hw, Bool.not_true, Bool.and_false, Bool.false_eq_true, if_false]
  exact hw

/-! ## the deleter -/

theorem detachLoop_ok_state (c : Cfg) (fuel : Nat) :
    ∀ (cs : List Nat) (w : World), Inv w.f →
      (forM' cs (fun ch => setParent c fuel ch none) w).1 = .ok () →
      (forM' cs (fun ch => setParent c fuel ch none) w).2.f = (Spec.detachAll w.f cs).1 := by
  intro cs
  induction cs with
  | nil => intro w _ _; rfl
  | cons ch cs ih =>
    intro w h hr
    have h1 := setParent_none_ok c fuel ch w h
    simp only [forM', M.seq] at hr ⊢
    cases hs : setParent c fuel ch none w with
    | mk r w1 =>
      rw [hs] at hr h1
      cases r with
      | error e => simp only at hr; cases hr
      | ok u =>
        cases u
        simp only at hr h1 ⊢
        have hf := h1 trivial
        rw [ih w1 (by rw [hf]; exact Spec.inv_detached h ch) hr, hf]
        rfl

/-- `del n.children`: never an assertion; when it returns, `n` has no children -/
theorem delChildren_na (k : Nat) (c : Cfg) (fuel n : Nat) :
    Triple (onF (Gd k)) (delChildren c fuel n) (onF fun f => Gd k f ∧ f.children n = []) (EN k) := by
  intro w hw
  unfold delChildren
  have hD : Gd k (Spec.detachAll w.f (w.f.children n)).1 :=
    ⟨Spec.inv_detachAll hw.1 _, by rw [Spec.detachAll_n]; exact hw.2⟩
  have hempty : (Spec.detachAll w.f (w.f.children n)).1.children n = [] := by
    rw [Spec.detachAll_children hw.1]
    apply List.filter_eq_nil_iff.mpr
    intro a ha; simp [ha]
  have t1 := hook_na k c .preDetachChildren n (w.f.children n) (fun f => f = w.f)
    (fun f hf => by rw [hf]; exact hw)
  have t2 : Triple (onF fun f => f = w.f)
      (forM' (w.f.children n) (fun ch => setParent c fuel ch none))
      (onF fun f => f = (Spec.detachAll w.f (w.f.children n)).1) (EN k) := by
    intro w' hw'
    have hw'' : w'.f = w.f := hw'
    have hi : Inv w'.f := by rw [hw'']; exact hw.1
    have he := detachLoop_errors c fuel (w.f.children n) w' hi
    have ho := detachLoop_ok_state c fuel (w.f.children n) w' hi
    cases hr : forM' (w.f.children n) (fun ch => setParent c fuel ch none) w' with
    | mk r w1 =>
      rw [hr] at he ho
      cases r with
      | ok u =>
        cases u
        have := ho rfl
        simp only at this
        show w1.f = _
        rw [this, hw'']
      | error e =>
        obtain ⟨i, kd, m, e1, _, _⟩ := he.1 e rfl
        refine ⟨(by rw [e1]; intro e'; cases e'), he.2.1, ?_⟩
        rw [he.2.2, hw'']; exact hw.2
  have t3 := assert_na c (fun f => (f.children n).length == 0)
    (fun f => f = (Spec.detachAll w.f (w.f.children n)).1) (EN k)
    (fun f hf => by rw [hf, hempty]; rfl)
  have t4 := hook_na k c .postDetachChildren n (w.f.children n)
    (fun f => f = (Spec.detachAll w.f (w.f.children n)).1) (fun f hf => by rw [hf]; exact hD)
  have := (Triple.seq (Triple.seq (Triple.seq t1 t2) t3) t4).weaken
    (P' := onF fun f => f = w.f) (Q' := onF fun f => Gd k f ∧ f.children n = []) (E' := EN k)
    (fun _ h => h) (fun w' (h : w'.f = _) => by
      show Gd k w'.f ∧ w'.f.children n = []
      rw [h]; exact ⟨hD, hempty⟩) (fun _ _ h => h)
  exact this.run (w := w) rfl

/-! ## the attach loop -/

theorem attachStep_na (k : Nat) (c : Cfg) (fuel n x : Nat) (pre : List Nat) (hn : n < k)
    (hx : x < k) (hnot : x ∉ pre) :
    Triple (onF fun f => Gd k f ∧ f.children n = pre) (setParent c fuel x (some (.node n)))
      (onF fun f => Gd k f ∧ f.children n = pre ++ [x]) (EN k) := by
  intro w hw
  obtain ⟨hG, hpre⟩ := hw
  have hT := (Props.C01.setParent_triple k c fuel x (some (.node n)) hx hn).run (w := w) hG
  have hF := setParent_node_fact c fuel x n w hG.1
  have hne : w.f.parent x ≠ some n := by
    intro e
    have := (hG.1.bidir x n).1 e
    rw [hpre] at this
    exact hnot this
  cases hr : setParent c fuel x (some (.node n)) w with
  | mk r w' =>
    rw [hr] at hT hF
    cases r with
    | ok u =>
      cases u
      refine ⟨hT, ?_⟩
      have hf : w'.f = Spec.attached (Spec.detached w.f x) x n := hF.2 rfl hne
      rw [hf]
      show (if n = n then (Spec.detached w.f x).children n ++ [x] else _) = _
      rw [if_pos rfl, Spec.detached_children hG.1, hpre]
      congr 1
      apply List.filter_eq_self.mpr
      intro a ha
      simp only [bne_iff_ne, ne_eq]
      intro e; subst e; exact hnot ha
    | error e =>
      exact ⟨fun he => hF.1 (by rw [he]), hT⟩

theorem attachLoop_na (k : Nat) (c : Cfg) (fuel n : Nat) (hn : n < k) :
    ∀ (xs pre : List Nat), xs.Nodup → (∀ x ∈ xs, x < k) → (∀ x ∈ xs, x ∉ pre) →
      Triple (onF fun f => Gd k f ∧ f.children n = pre)
        (forM' xs (fun x => setParent c fuel x (some (.node n))))
        (onF fun f => Gd k f ∧ f.children n = pre ++ xs) (EN k) := by
  intro xs
  induction xs with
  | nil =>
    intro pre _ _ _
    simp only [forM', List.append_nil]
    exact Triple.ok
  | cons x xs ih =>
    intro pre hnd hlt hdisj
    rw [List.nodup_cons] at hnd
    have hstep := attachStep_na k c fuel n x pre hn (hlt x (by simp)) (hdisj x (by simp))
    have hrest := ih (pre ++ [x]) hnd.2 (fun y hy => hlt y (by simp [hy])) (fun y hy hm => by
      simp only [List.mem_append, List.mem_singleton] at hm
      rcases hm with hm | e
      · exact hdisj y (by simp [hy]) hm
      · subst e; exact hnd.1 hy)
    have := Triple.seq hstep hrest
    simp only [List.append_assoc, List.singleton_append] at this
    exact this


/-! ## the children setter, including the recursive restore -/

theorem setChildrenNodes_na (k : Nat) (c : Cfg) :
    ∀ (fuel n : Nat) (xs : List Nat), n < k → (∀ x ∈ xs, x < k) → xs.Nodup →
      Triple (onF (Gd k)) (setChildrenNodes c fuel n xs) (onF (Gd k)) (EN k) := by
  intro fuel
  induction fuel with
  | zero =>
    intro n xs _ _ _
    unfold setChildrenNodes
    exact Triple.throw _ (fun _ h => ⟨(by intro e; cases e), h⟩)
  | succ fuel ih =>
    intro n xs hn hxs hnd w hw
    unfold setChildrenNodes
    have hold : ∀ x ∈ w.f.children n, x < k := fun x hx => Props.C01.children_lt hw hx
    have t1 := hook_na k c .preAttachChildren n xs (fun f => Gd k f ∧ f.children n = [])
      (fun _ h => h.1)
    have t2 := attachLoop_na k c fuel n hn xs [] hnd hxs (fun _ _ hm => by simp at hm)
    have t3 := hook_na k c .postAttachChildren n xs (fun f => Gd k f ∧ f.children n = [] ++ xs)
      (fun _ h => h.1)
    have t4 := assert_na c (fun f => (f.children n).length == xs.length)
      (fun f => Gd k f ∧ f.children n = [] ++ xs) (EN k) (fun f hf => by simp [hf.2])
    have htry := (Triple.seq (Triple.seq (Triple.seq t1 t2) t3) t4).weaken
      (P' := onF fun f => Gd k f ∧ f.children n = []) (Q' := onF (Gd k)) (E' := EN k)
      (fun _ h => h) (fun _ h => h.1) (fun _ _ h => h)
    refine (Triple.seq (delChildren_na k c fuel n) (Triple.tryCatch htry ?_)).run hw
    intro e
    by_cases he : e = .assertion
    · intro w' hw'
      exact absurd he hw'.1
    · cases e with
      | diverged => exact Triple.throw _ (fun _ h => h)
      | assertion => exact absurd rfl he
      | treeError | loopError | typeError | hook _ _ _ | unmodelled =>
        simp only [checkChildren_old c.fl hw.1 n]
        exact Triple.seq ((ih n (w.f.children n) hn hold (hw.1.nodup n)).weaken
          (fun _ h => h.2) (fun _ h => h) (fun _ _ h => h))
          (Triple.throw _ (fun _ h => ⟨he, h⟩))

theorem checkChildren_err_ne {fl : Flavor} : ∀ (as : List Arg) (seen : List Nat) (e : Err),
    checkChildren fl seen as = .error e → e ≠ .assertion := by
  intro as
  induction as with
  | nil => intro seen e h; simp [checkChildren] at h
  | cons a as ih =>
    intro seen e h
    cases a with
    | nonNode => cases fl <;> (simp only [checkChildren] at h; cases h; intro e'; cases e')
    | node k =>
      simp only [checkChildren] at h
      by_cases hk : seen.contains k = true
      · simp only [hk, if_true] at h; cases h; intro e'; cases e'
      · simp only [hk, Bool.false_eq_true, if_false] at h
        exact ih _ e h

theorem setChildren_na (k : Nat) (c : Cfg) (fuel n : Nat) (xs : Option (List Arg)) (hn : n < k)
    (hxs : Props.C01.ArgsOk k xs) :
    Triple (onF (Gd k)) (setChildren c fuel n xs) (onF (Gd k)) (EN k) := by
  unfold setChildren
  cases xs with
  | none => exact Triple.throw _ (fun _ h => ⟨(by intro e; cases e), h⟩)
  | some as =>
    simp only
    cases hc : checkChildren c.fl [] as with
    | error e =>
      exact Triple.throw _ (fun _ h => ⟨checkChildren_err_ne as [] e hc, h⟩)
    | ok u =>
      cases u
      exact setChildrenNodes_na k c fuel n _ hn (Props.C01.argsToNodes_lt as hxs)
        (checkChildren_ok as [] hc).1

/-! ## the parent setter and the constructor -/

theorem setParent_no_assert (c : Cfg) (fuel n : Nat) (v : Option Arg) (w : World) (h : Inv w.f) :
    (setParent c fuel n v w).1 ≠ .error .assertion := by
  match v with
  | some .nonNode =>
    simp only [setParent]
    cases c.fl <;> (intro e; cases e)
  | none => exact setParent_none_no_assert c fuel n w h
  | some (.node p) => exact (setParent_node_fact c fuel n p w h).1

theorem setParent_na (k : Nat) (c : Cfg) (fuel n : Nat) (v : Option Arg) (hn : n < k)
    (hv : ArgOk k v) : Triple (onF (Gd k)) (setParent c fuel n v) (onF (Gd k)) (EN k) := by
  intro w hw
  have hT := (Props.C01.setParent_triple k c fuel n v hn hv).run (w := w) hw
  have hF := setParent_no_assert c fuel n v w hw.1
  cases hr : setParent c fuel n v w with
  | mk r w' =>
    rw [hr] at hT hF
    cases r with
    | ok u => cases u; exact hT
    | error e => exact ⟨fun he => hF (by rw [he]), hT⟩

theorem ctor_na (k : Nat) (c : Cfg) (fuel : Nat) (p : Option Arg) (cs : CtorKids)
    (hp : ArgOk k p) (hcs : Props.C01.KidsOk k cs) :
    Triple (onF (Gd k)) (ctor c fuel p cs) (onF (Gd (k+1))) (EN (k+1)) := by
  intro w hw
  unfold ctor
  have hk : w.f.n = k := hw.2
  have hnew : Triple (onF (Gd k)) (M.modify Forest.newNode) (onF (Gd (k+1))) (EN (k+1)) :=
    Triple.modify (fun f hf => ⟨Props.C01.inv_newNode hf.1, by simp [newNode, hf.2]⟩)
  have hsp := setParent_na (k+1) c fuel w.f.n p (by omega) (Props.C01.argOk_mono hp)
  have hkids : Triple (onF (Gd (k+1)))
      (match (generalizing := false) cs with
        | .none => M.ok
        | .list [] => M.ok
        | .list xs => setChildren c fuel w.f.n (some xs)
        | .nonIterable => setChildren c fuel w.f.n none) (onF (Gd (k+1))) (EN (k+1)) := by
    cases cs with
    | none => exact Triple.ok
    | nonIterable => exact setChildren_na (k+1) c fuel _ none (by omega) trivial
    | list xs =>
      cases xs with
      | nil => exact Triple.ok
      | cons x xs =>
        exact setChildren_na (k+1) c fuel _ _ (by omega)
          (fun y hy => Props.C01.argOk_mono (hcs y hy))
  exact (Triple.seq (Triple.seq hnew hsp) hkids).run hw

/-- a triple with `EN` as exceptional postcondition, read at one world -/
theorem EN_run {k : Nat} {P Q : World → Prop} {a : M} (ht : Triple P a Q (EN k)) {w : World}
    (hw : P w) : (a w).1 ≠ .error .assertion := by
  have := ht.run hw
  cases hr : a w with
  | mk r w' =>
    rw [hr] at this
    cases r with
    | ok u => intro e; cases e
    | error e => intro he; cases he; exact this.1 rfl

end Anytree
