import Anytree.Model.ForestR
import Anytree.Lemmas.Restore
/-!
Lemmas for `Props/C02r.lean`: a parent assignment during which one hook detaches another node.

* `Steps a G F` — from every world whose forest is `G` the computation `a` returns normally and leaves the
  forest `F` (log and hook counter are ignored), with the obvious composition rules.
* algebra of `Spec.detached` / `Spec.attached` on consistent forests (`detached_comm`, `detached_attached`).
* the re-entrant `detachR` / `attachR` at each of the four hook positions.
-/
namespace Anytree
open Forest

/-! ## forest-level steps -/

/-- from every world whose forest is `G`, `a` returns and leaves the forest `F` -/
def Steps (a : M) (G F : Forest) : Prop :=
  ∀ w : World, w.f = G → ∃ w', a w = (.ok (), w') ∧ w'.f = F

theorem steps_ok (G : Forest) : Steps M.ok G G := fun w hw => ⟨w, rfl, hw⟩

theorem Steps.seq {a b : M} {G F H : Forest} (ha : Steps a G F) (hb : Steps b F H) :
    Steps (a ⨾ b) G H := by
  intro w hw
  obtain ⟨w1, e1, f1⟩ := ha w hw
  obtain ⟨w2, e2, f2⟩ := hb w1 f1
  exact ⟨w2, by rw [M.seq_ok e1, e2], f2⟩

theorem steps_modify (g : Forest → Forest) (G : Forest) : Steps (M.modify g) G (g G) := by
  intro w hw
  subst hw
  exact ⟨_, rfl, rfl⟩

theorem steps_ite_pos {P : Prop} [Decidable P] (hP : P) {a b : M} {G F : Forest}
    (ha : Steps a G F) : Steps (if P then a else b) G F := by
  rw [if_pos hP]; exact ha

theorem steps_ite_neg {P : Prop} [Decidable P] (hP : ¬ P) {a b : M} {G F : Forest}
    (hb : Steps b G F) : Steps (if P then a else b) G F := by
  rw [if_neg hP]; exact hb

theorem steps_hook {c : Cfg} (hφ : c.φ = noFaults) (k : HookKind) (n : Nat) (a : List Nat)
    (G : Forest) : Steps (hook c k n a) G G := by
  intro w hw
  exact ⟨_, hook_nf hφ k n a w, hw⟩

theorem steps_assert (c : Cfg) (cond : Forest → Bool) (G : Forest) (h : cond G = true) :
    Steps (assertM c cond) G G := by
  intro w hw
  refine ⟨w, ?_, hw⟩
  simp [assertM, hw, h]

theorem steps_checkLoop {G : Forest} (h : Inv G) (fuel n p : Nat) (hp : p < G.n)
    (hfuel : G.n < fuel) (hpn : p ≠ n) (hno : ∀ j, G.up j p ≠ some n) :
    Steps (checkLoop fuel n (some p)) G G := by
  intro w hw
  subst hw
  exact ⟨w, checkLoop_pass h fuel n p hp hfuel hpn hno, rfl⟩

/-- `y.parent = None` without faults -/
theorem steps_detach {c : Cfg} (hφ : c.φ = noFaults) (fuel y : Nat) {G : Forest} (h : Inv G)
    (hfuel : G.n < fuel) : Steps (setParent c fuel y none) G (Spec.detached G y) := by
  intro w hw
  subst hw
  exact ⟨_, setParent_nf hφ fuel y none w h trivial hfuel, rfl⟩

/-- `n.parent = p` without faults, when it is a genuine loop-free move -/
theorem steps_move {c : Cfg} (hφ : c.φ = noFaults) (fuel n p : Nat) {G : Forest} (h : Inv G)
    (hp : p < G.n) (hfuel : G.n < fuel) (hne : G.parent n ≠ some p) (hpn : p ≠ n)
    (hanc : Spec.isAnc G n p = false) :
    Steps (setParent c fuel n (some (.node p))) G (Spec.attached (Spec.detached G n) n p) := by
  intro w hw
  subst hw
  have e := setParent_nf hφ fuel n (some (.node p)) w h hp hfuel
  have hs : Spec.setParent c.fl w.f n (some (.node p)) =
      ⟨.ok (), Spec.attached (Spec.detached w.f n) n p,
        Spec.detachLog w.f n ++ Spec.attachLog (Spec.detached w.f n) n p⟩ := by
    simp [Spec.setParent, hne, hpn, hanc]
  rw [hs] at e
  exact ⟨_, e, rfl⟩

/-! ## algebra of the specification's link updates -/

@[simp] theorem Spec.attached_n (s : Forest) (n p : Nat) : (Spec.attached s n p).n = s.n := rfl

theorem Spec.attached_parent (s : Forest) (n p x : Nat) :
    (Spec.attached s n p).parent x = if x = n then some p else s.parent x := rfl

theorem Spec.attached_children (s : Forest) (n p x : Nat) :
    (Spec.attached s n p).children x = if x = p then s.children p ++ [n] else s.children x := rfl

/-- detaching two nodes in either order gives the same forest -/
theorem Spec.detached_comm {s : Forest} (h : Inv s) (a b : Nat) :
    Spec.detached (Spec.detached s a) b = Spec.detached (Spec.detached s b) a := by
  apply Forest.ext
  · simp only [Spec.detached_n]
  · funext x
    simp only [Spec.detached_parent]
    by_cases hb : x = b <;> by_cases ha : x = a <;> simp [hb, ha]
  · funext x
    rw [Spec.detached_children (Spec.inv_detached h a), Spec.detached_children h,
      Spec.detached_children (Spec.inv_detached h b), Spec.detached_children h,
      List.filter_filter, List.filter_filter]
    apply List.filter_congr
    intro z _
    exact Bool.and_comm _ _

/-- detaching another node commutes with attaching `n` -/
theorem Spec.detached_attached {u : Forest} (hu : Inv u) {n p y : Nat}
    (hA : Inv (Spec.attached u n p)) (hyn : y ≠ n) :
    Spec.detached (Spec.attached u n p) y = Spec.attached (Spec.detached u y) n p := by
  apply Forest.ext
  · simp only [Spec.detached_n, Spec.attached_n]
  · funext x
    simp only [Spec.detached_parent, Spec.attached_parent]
    by_cases hx : x = y
    · have : x ≠ n := by rw [hx]; exact hyn
      simp [hx, hyn]
    · simp [hx]
  · funext x
    rw [Spec.detached_children hA, Spec.attached_children, Spec.attached_children,
      Spec.detached_children hu, Spec.detached_children hu]
    by_cases hx : x = p
    · have hny : (n != y) = true := by simpa [bne_iff_ne] using Ne.symm hyn
      simp [hx, List.filter_append, hny]
    · simp [hx]

/-- cutting a link only shortens chains -/
theorem Spec.up_detached_some {s : Forest} {x : Nat} (k a b : Nat)
    (hk : (Spec.detached s x).up k a = some b) : s.up k a = some b := by
  cases hp : s.parent x with
  | none => rw [Spec.detached_root hp] at hk; exact hk
  | some q => rw [Spec.detached_eq hp] at hk; exact up_detachRaw_some k a b hk

theorem Spec.isAnc_detached_false {s : Forest} (h : Inv s) {n p : Nat} (x : Nat) (hp : p < s.n)
    (hanc : Spec.isAnc s n p = false) : Spec.isAnc (Spec.detached s x) n p = false := by
  cases ha : Spec.isAnc (Spec.detached s x) n p with
  | false => rfl
  | true =>
    obtain ⟨k, hk0, hk⟩ :=
      ((Spec.inv_detached h x).isAnc_iff (by rw [Spec.detached_n]; exact hp)).1 ha
    have := (h.isAnc_iff hp).2 ⟨k, hk0, Spec.up_detached_some k p n hk⟩
    rw [hanc] at this; cases this

theorem Inv.not_mem_of_root {s : Forest} (h : Inv s) {n : Nat} (hr : s.parent n = none) (p : Nat) :
    n ∉ s.children p := by
  intro hm
  have := (h.bidir n p).2 hm
  rw [hr] at this; cases this

/-! ## states in which `n` can be attached under `p` -/

/-- consistent, `n` parentless, `n` not on the chain of `p`, `k` nodes -/
structure Ready (u : Forest) (n p k : Nat) : Prop where
  inv : Inv u
  root : u.parent n = none
  chain : ∀ j, u.up j p ≠ some n
  size : u.n = k

theorem Ready.detached {u : Forest} {n p k : Nat} (r : Ready u n p k) (x : Nat) :
    Ready (Spec.detached u x) n p k := by
  refine ⟨Spec.inv_detached r.inv x, ?_, ?_, ?_⟩
  · rw [Spec.detached_parent, r.root]; simp
  · intro j hj; exact r.chain j (Spec.up_detached_some j p n hj)
  · rw [Spec.detached_n, r.size]

theorem Ready.self {s : Forest} (h : Inv s) {n p : Nat} (hno : ∀ j, s.up j p ≠ some n) :
    Ready (Spec.detached s n) n p s.n := by
  refine ⟨Spec.inv_detached h n, ?_, ?_, Spec.detached_n s n⟩
  · rw [Spec.detached_parent]; simp
  · intro j hj; exact hno j (Spec.up_detached_some j p n hj)

theorem Ready.inv_attached {u : Forest} {n p k : Nat} (r : Ready u n p k) (hn : n < k)
    (hp : p < k) : Inv (Spec.attached u n p) := by
  rw [Spec.attached_eq]
  exact inv_attachRaw r.inv r.root r.chain (by rw [r.size]; exact hn) (by rw [r.size]; exact hp)

/-! ## the bodies of `__detach` / `__attach` with arbitrary steps spliced in after the hooks -/

theorem steps_detachBody {c : Cfg} (hφ : c.φ = noFaults) (n o : Nat) {a b : M} {G G1 F : Forest}
    (ha : Steps a G G1) (hm : n ∈ G1.children o) (hb : Steps b (G1.detachRaw n o) F) :
    Steps (hook c .preDetach n [o] ⨾ a ⨾
      assertM c (fun f => (f.children o).contains n) ⨾
      M.modify (fun f => f.detachRaw n o) ⨾
      hook c .postDetach n [o] ⨾ b) G F := by
  have h1 := steps_hook hφ .preDetach n [o] G
  have h3 := steps_assert c (fun f => (f.children o).contains n) G1 (by simp [hm])
  have h4 := steps_modify (fun f => f.detachRaw n o) G1
  have h5 := steps_hook hφ .postDetach n [o] (G1.detachRaw n o)
  exact ((((h1.seq ha).seq h3).seq h4).seq h5).seq hb

theorem steps_attachBody {c : Cfg} (hφ : c.φ = noFaults) (n p : Nat) {a b : M} {G G1 F : Forest}
    (ha : Steps a G G1) (hm : n ∉ G1.children p) (hb : Steps b (G1.attachRaw n p) F) :
    Steps (hook c .preAttach n [p] ⨾ a ⨾
      assertM c (fun f => !(f.children p).contains n) ⨾
      M.modify (fun f => f.attachRaw n p) ⨾
      hook c .postAttach n [p] ⨾ b) G F := by
  have h1 := steps_hook hφ .preAttach n [p] G
  have h3 := steps_assert c (fun f => !(f.children p).contains n) G1 (by simp [hm])
  have h4 := steps_modify (fun f => f.attachRaw n p) G1
  have h5 := steps_hook hφ .postAttach n [p] (G1.attachRaw n p)
  exact ((((h1.seq ha).seq h3).seq h4).seq h5).seq hb

/-! ## `detachR` at the four positions -/

section
variable {c : Cfg} (hφ : c.φ = noFaults)
include hφ

/-- the `_pre_detach` hook detaches `y`: first `y`, then `n` -/
theorem steps_detachR_0 (fuel n o y : Nat) {s : Forest} (h : Inv s) (hfuel : s.n < fuel)
    (ho : s.parent n = some o) (hyn : y ≠ n) :
    Steps (detachR c fuel n (some o) 0 y) s (Spec.detached (Spec.detached s y) n) := by
  have h1 : Inv (Spec.detached s y) := Spec.inv_detached h y
  have hpar : (Spec.detached s y).parent n = some o := by
    rw [Spec.detached_parent, if_neg (Ne.symm hyn), ho]
  have hm : n ∈ (Spec.detached s y).children o := (h1.bidir n o).1 hpar
  rw [Spec.detached_eq hpar]
  exact steps_detachBody hφ n o (steps_ite_pos rfl (steps_detach hφ fuel y h hfuel)) hm
    (steps_ite_neg (by decide) (steps_ok _))

/-- the `_post_detach` hook detaches `y`: first `n`, then `y` -/
theorem steps_detachR_1 (fuel n o y : Nat) {s : Forest} (h : Inv s) (hfuel : s.n < fuel)
    (ho : s.parent n = some o) :
    Steps (detachR c fuel n (some o) 1 y) s (Spec.detached (Spec.detached s n) y) := by
  have hm : n ∈ s.children o := (h.bidir n o).1 ho
  have h1 : Inv (s.detachRaw n o) := inv_detachRaw h ho
  rw [Spec.detached_eq ho]
  exact steps_detachBody hφ n o (steps_ite_neg (by decide) (steps_ok _)) hm
    (steps_ite_pos rfl (steps_detach hφ fuel y h1 (by simpa using hfuel)))

/-- the hook re-enters elsewhere: plain `__detach` -/
theorem steps_detachR_plain (fuel n pos y : Nat) {s : Forest} (h : Inv s) (h0 : pos ≠ 0)
    (h1 : pos ≠ 1) :
    Steps (detachR c fuel n (s.parent n) pos y) s (Spec.detached s n) := by
  cases ho : s.parent n with
  | none => rw [Spec.detached_root ho]; exact steps_ok s
  | some o =>
    have hm : n ∈ s.children o := (h.bidir n o).1 ho
    rw [Spec.detached_eq ho]
    exact steps_detachBody hφ n o (steps_ite_neg h0 (steps_ok _)) hm
      (steps_ite_neg h1 (steps_ok _))

/-! ## `attachR` at the four positions -/

theorem steps_attachR_plain (fuel n p pos y : Nat) {u : Forest} {k : Nat} (r : Ready u n p k)
    (h2 : pos ≠ 2) (h3 : pos ≠ 3) :
    Steps (attachR c fuel n p pos y) u (Spec.attached u n p) := by
  rw [Spec.attached_eq]
  exact steps_attachBody hφ n p (steps_ite_neg h2 (steps_ok _)) (r.inv.not_mem_of_root r.root p)
    (steps_ite_neg h3 (steps_ok _))

/-- the `_pre_attach` hook detaches `y` -/
theorem steps_attachR_2 (fuel n p y : Nat) {u : Forest} {k : Nat} (r : Ready u n p k)
    (hfuel : k < fuel) :
    Steps (attachR c fuel n p 2 y) u (Spec.attached (Spec.detached u y) n p) := by
  have r' := r.detached y
  rw [Spec.attached_eq]
  exact steps_attachBody hφ n p
    (steps_ite_pos rfl (steps_detach hφ fuel y r.inv (by rw [r.size]; exact hfuel)))
    (r'.inv.not_mem_of_root r'.root p) (steps_ite_neg (by decide) (steps_ok _))

/-- the `_post_attach` hook detaches `y` -/
theorem steps_attachR_3 (fuel n p y : Nat) {u : Forest} {k : Nat} (r : Ready u n p k)
    (hn : n < k) (hp : p < k) (hfuel : k < fuel) :
    Steps (attachR c fuel n p 3 y) u (Spec.detached (Spec.attached u n p) y) := by
  have hA : Inv (u.attachRaw n p) := by rw [← Spec.attached_eq]; exact r.inv_attached hn hp
  rw [Spec.attached_eq]
  exact steps_attachBody hφ n p (steps_ite_neg (by decide) (steps_ok _))
    (r.inv.not_mem_of_root r.root p)
    (steps_ite_pos rfl (steps_detach hφ fuel y hA (by simpa [r.size] using hfuel)))

/-! ## the whole re-entrant assignment, and the two calls one after the other -/

/-- `y.parent = None` and then `n.parent = p` -/
theorem steps_seq (fuel n p y : Nat) {s : Forest} (h : Inv s) (hp : p < s.n) (hyn : y ≠ n)
    (hfuel : s.n < fuel) (hne : s.parent n ≠ some p) (hpn : p ≠ n)
    (hanc : Spec.isAnc s n p = false) :
    Steps (setParent c fuel y none ⨾ setParent c fuel n (some (.node p))) s
      (Spec.attached (Spec.detached (Spec.detached s y) n) n p) := by
  have h1 : Inv (Spec.detached s y) := Spec.inv_detached h y
  have hsz : (Spec.detached s y).n = s.n := Spec.detached_n s y
  refine (steps_detach hφ fuel y h hfuel).seq
    (steps_move hφ fuel n p h1 (by rw [hsz]; exact hp) (by rw [hsz]; exact hfuel) ?_ hpn
      (Spec.isAnc_detached_false h y hp hanc))
  rw [Spec.detached_parent, if_neg (Ne.symm hyn)]
  exact hne

/-- the body of `setParentR` after the no-op test -/
theorem steps_setParentR (fuel n p pos y : Nat) {s : Forest} (h : Inv s) (hn : n < s.n)
    (hp : p < s.n) (hyn : y ≠ n) (hfuel : s.n < fuel) (hpn : p ≠ n)
    (hanc : Spec.isAnc s n p = false) (hpos : pos < 4) (hpar : pos < 2 → s.parent n ≠ none) :
    Steps (checkLoop fuel n (some p) ⨾ detachR c fuel n (s.parent n) pos y ⨾
        attachR c fuel n p pos y) s
      (Spec.attached (Spec.detached (Spec.detached s y) n) n p) := by
  have hno : ∀ j, s.up j p ≠ some n := h.chain_avoid_of_not_anc hp (Ne.symm hpn) hanc
  have hcl := steps_checkLoop h fuel n p hp hfuel hpn hno
  have rn : Ready (Spec.detached s n) n p s.n := Ready.self h hno
  have hcases : pos = 0 ∨ pos = 1 ∨ pos = 2 ∨ pos = 3 := by omega
  rcases hcases with rfl | rfl | rfl | rfl
  · -- `_pre_detach`
    cases ho : s.parent n with
    | none => exact absurd ho (hpar (by omega))
    | some o =>
      have hno' : ∀ j, (Spec.detached s y).up j p ≠ some n :=
        fun j hj => hno j (Spec.up_detached_some j p n hj)
      have r : Ready (Spec.detached (Spec.detached s y) n) n p s.n := by
        have := Ready.self (Spec.inv_detached h y) hno'
        rwa [Spec.detached_n] at this
      exact (hcl.seq (steps_detachR_0 hφ fuel n o y h hfuel ho hyn)).seq
        (steps_attachR_plain hφ fuel n p 0 y r (by decide) (by decide))
  · -- `_post_detach`
    cases ho : s.parent n with
    | none => exact absurd ho (hpar (by omega))
    | some o =>
      rw [Spec.detached_comm h y n]
      exact (hcl.seq (steps_detachR_1 hφ fuel n o y h hfuel ho)).seq
        (steps_attachR_plain hφ fuel n p 1 y (rn.detached y) (by decide) (by decide))
  · -- `_pre_attach`
    rw [Spec.detached_comm h y n]
    exact (hcl.seq (steps_detachR_plain hφ fuel n 2 y h (by decide) (by decide))).seq
      (steps_attachR_2 hφ fuel n p y rn hfuel)
  · -- `_post_attach`
    rw [Spec.detached_comm h y n, ← Spec.detached_attached rn.inv (rn.inv_attached hn hp) hyn]
    exact (hcl.seq (steps_detachR_plain hφ fuel n 3 y h (by decide) (by decide))).seq
      (steps_attachR_3 hφ fuel n p y rn hn hp hfuel)

end

end Anytree
