import Anytree.Lemmas.Reentrant
/-!
Lemmas for `Props/C02s.lean`: the children deleter during which the detach hook of one child detaches another node.

* algebra of `Spec.detachAll`: it commutes with `Spec.detached` (`detachAll_detached`), parentless nodes may be
  dropped from the list (`detachAll_filter_root`).
* the deleter's loop with the re-entrant body (`steps_loopR`), the whole re-entrant deleter (`steps_delChildrenR`), and the
  two calls made one after the other (`steps_delSeq`).
-/
namespace Anytree
open Forest

/-! ## algebra of `Spec.detachAll` -/

/-- detaching a node first, or after the whole list, is the same -/
theorem Spec.detachAll_detached {s : Forest} (h : Inv s) (y : Nat) (cs : List Nat) :
    (Spec.detachAll (Spec.detached s y) cs).1 = Spec.detached (Spec.detachAll s cs).1 y := by
  induction cs generalizing s with
  | nil => rfl
  | cons c cs ih =>
    simp only [Spec.detachAll]
    rw [Spec.detached_comm h y c]
    exact ih (Spec.inv_detached h c)

/-- a parentless node in the list is skipped -/
theorem Spec.detachAll_filter_root (y : Nat) (cs : List Nat) :
    ∀ (s : Forest), s.parent y = none →
      (Spec.detachAll s (cs.filter (· != y))).1 = (Spec.detachAll s cs).1 := by
  induction cs with
  | nil => intro s _; rfl
  | cons c cs ih =>
    intro s hy
    by_cases hc : c = y
    · subst hc
      simp only [List.filter_cons, bne_self_eq_false, Bool.false_eq_true, if_false, Spec.detachAll]
      rw [Spec.detached_root hy]
      exact ih s hy
    · have hb : (c != y) = true := by simpa [bne_iff_ne] using hc
      simp only [List.filter_cons, hb, if_true, Spec.detachAll]
      apply ih
      rw [Spec.detached_parent, hy]
      simp

/-- every node of the list is parentless afterwards -/
theorem Spec.detachAll_parent_mem (s : Forest) {cs : List Nat} {y : Nat} (hy : y ∈ cs) :
    (Spec.detachAll s cs).1.parent y = none := by
  rw [Spec.detachAll_parent]
  simp [hy]

/-- after detaching all children of `n` (and any other node) `n` has no children -/
theorem Spec.detachAll_detached_children_nil {s : Forest} (h : Inv s) (n y : Nat) :
    (Spec.detached (Spec.detachAll s (s.children n)).1 y).children n = [] := by
  rw [Spec.detached_children (Spec.inv_detachAll h _), Spec.detachAll_children h]
  apply List.filter_eq_nil_iff.mpr
  intro a ha
  rw [List.mem_filter] at ha
  have := ha.2
  simp [ha.1] at this

/-! ## the re-entrant loop body -/

section
variable {c : Cfg} (hφ : c.φ = noFaults)
include hφ

/-- `x.parent = None` whose detach hook (position 0 or 1) detaches `y`, from a state in which `x` has a parent -/
theorem steps_setParentNoneR (fuel x pos y : Nat) {G : Forest} (h : Inv G) (hfuel : G.n < fuel)
    (hpx : G.parent x ≠ none) (hyx : y ≠ x) (hpos : pos < 2) :
    Steps (setParentNoneR c fuel x pos y) G (Spec.detached (Spec.detached G x) y) := by
  cases ho : G.parent x with
  | none => exact absurd ho hpx
  | some o =>
    have hcases : pos = 0 ∨ pos = 1 := by omega
    have hbody : Steps (detachR c fuel x (some o) pos y) G (Spec.detached (Spec.detached G x) y) := by
      rcases hcases with rfl | rfl
      · rw [Spec.detached_comm h x y]
        exact steps_detachR_0 hφ fuel x o y h hfuel ho hyx
      · exact steps_detachR_1 hφ fuel x o y h hfuel ho
    intro w hw
    obtain ⟨w', e, f⟩ := hbody w hw
    refine ⟨w', ?_, f⟩
    simp only [setParentNoneR, hw, ho, if_false, reduceCtorEq]
    exact e

/-- the deleter's loop when the special child is not (or no longer) in the list: all of `cs` detached in order -/
theorem steps_loopR_plain (fuel x pos y : Nat) :
    ∀ (cs : List Nat) (G : Forest), Inv G → G.n < fuel → x ∉ cs →
      Steps (forM' cs (fun ch => if ch = x then setParentNoneR c fuel ch pos y else setParent c fuel ch none))
        G (Spec.detachAll G cs).1 := by
  intro cs
  induction cs with
  | nil => intro G _ _ _; exact steps_ok G
  | cons ch cs ih =>
    intro G h hfuel hx
    have hne : ch ≠ x := fun e => hx (by simp [e])
    have hx' : x ∉ cs := fun hm => hx (by simp [hm])
    simp only [forM', Spec.detachAll]
    refine Steps.seq (steps_ite_neg hne (steps_detach hφ fuel ch h hfuel)) ?_
    exact ih _ (Spec.inv_detached h ch) (by rw [Spec.detached_n]; exact hfuel) hx'

/-- the deleter's loop with the special child `x` in the list: all of `cs` detached, and `y` -/
theorem steps_loopR (fuel x pos y : Nat) (hyx : y ≠ x) (hpos : pos < 2) :
    ∀ (cs : List Nat) (G : Forest), Inv G → G.n < fuel → x ∈ cs → cs.Nodup → G.parent x ≠ none →
      Steps (forM' cs (fun ch => if ch = x then setParentNoneR c fuel ch pos y else setParent c fuel ch none))
        G (Spec.detached (Spec.detachAll G cs).1 y) := by
  intro cs
  induction cs with
  | nil => intro G _ _ hx; simp at hx
  | cons ch cs ih =>
    intro G h hfuel hx hnd hpx
    rw [List.nodup_cons] at hnd
    simp only [forM', Spec.detachAll]
    by_cases hc : ch = x
    · subst hc
      have h1 : Inv (Spec.detached G ch) := Spec.inv_detached h ch
      have h2 : Inv (Spec.detached (Spec.detached G ch) y) := Spec.inv_detached h1 y
      refine Steps.seq (steps_ite_pos rfl (steps_setParentNoneR hφ fuel ch pos y h hfuel hpx hyx hpos)) ?_
      rw [← Spec.detachAll_detached h1 y cs]
      exact steps_loopR_plain hφ fuel ch pos y cs _ h2
        (by rw [Spec.detached_n, Spec.detached_n]; exact hfuel) hnd.1
    · have hx' : x ∈ cs := by
        rcases List.mem_cons.1 hx with e | e
        · exact absurd e.symm hc
        · exact e
      refine Steps.seq (steps_ite_neg hc (steps_detach hφ fuel ch h hfuel)) ?_
      apply ih _ (Spec.inv_detached h ch) (by rw [Spec.detached_n]; exact hfuel) hx' hnd.2
      rw [Spec.detached_parent, if_neg (Ne.symm hc)]
      exact hpx

/-- the whole re-entrant deleter -/
theorem steps_delChildrenR (fuel n x pos y : Nat) {s : Forest} (h : Inv s) (hfuel : s.n < fuel)
    (hx : x ∈ s.children n) (hyx : y ≠ x) (hpos : pos < 2) :
    Steps (delChildrenR c fuel n x pos y) s (Spec.detached (Spec.detachAll s (s.children n)).1 y) := by
  have hpx : s.parent x ≠ none := by
    rw [(h.bidir x n).2 hx]; exact fun e => by cases e
  have h1 := steps_hook hφ .preDetachChildren n (s.children n) s
  have h2 := steps_loopR hφ fuel x pos y hyx hpos (s.children n) s h hfuel hx (h.nodup n) hpx
  have h3 := steps_assert c (fun f => (f.children n).length == 0)
    (Spec.detached (Spec.detachAll s (s.children n)).1 y)
    (by simp [Spec.detachAll_detached_children_nil h n y])
  have h4 := steps_hook hφ .postDetachChildren n (s.children n)
    (Spec.detached (Spec.detachAll s (s.children n)).1 y)
  intro w hw
  obtain ⟨w', e, f⟩ := (((h1.seq h2).seq h3).seq h4) w hw
  refine ⟨w', ?_, f⟩
  simp only [delChildrenR, hw]
  exact e

/-- the plain deleter -/
theorem steps_delChildren (fuel n : Nat) {G : Forest} (h : Inv G) (hfuel : G.n < fuel) :
    Steps (delChildren c fuel n) G (Spec.detachAll G (G.children n)).1 := by
  intro w hw
  subst hw
  exact ⟨_, delChildren_nf hφ fuel n w h hfuel, rfl⟩

/-- `y.parent = None` and then `del n.children` -/
theorem steps_delSeq (fuel n y : Nat) {s : Forest} (h : Inv s) (hfuel : s.n < fuel) :
    Steps (setParent c fuel y none ⨾ delChildren c fuel n) s
      (Spec.detached (Spec.detachAll s (s.children n)).1 y) := by
  have h1 : Inv (Spec.detached s y) := Spec.inv_detached h y
  have hroot : (Spec.detached s y).parent y = none := by rw [Spec.detached_parent]; simp
  have e : (Spec.detachAll (Spec.detached s y) ((Spec.detached s y).children n)).1 =
      Spec.detached (Spec.detachAll s (s.children n)).1 y := by
    rw [Spec.detached_children h, Spec.detachAll_filter_root y _ _ hroot, Spec.detachAll_detached h]
  rw [← e]
  exact (steps_detach hφ fuel y h hfuel).seq
    (steps_delChildren hφ fuel n h1 (by rw [Spec.detached_n]; exact hfuel))

end

end Anytree
