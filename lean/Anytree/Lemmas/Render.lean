import Anytree.Spec.Render
import Anytree.Lemmas.Nav
/-! Helper lemmas for C09 (RenderTree). -/
namespace Anytree
open Tree Render Spec
variable {α : Type}

namespace Spec

/-- `(pre, fill)` as a function of the flag list only -/
def pf (style : Style) (flags : List Bool) : String × String :=
  match flags.getLast? with
  | none => ("", "")
  | some last =>
    (String.join (segs style flags.dropLast) ++ (if last then style.cont else style.end_),
     String.join (segs style flags))

theorem prefixesAt_eq_pf (style : Style) (v : Tree α) (a : Addr) :
    prefixesAt style v a = pf style (flagsAt v a) := rfl

theorem pf_nil (style : Style) : pf style [] = ("", "") := rfl

end Spec

namespace Render

/-- projection of a row used by the specification -/
def proj (r : Row α) : String × String × α := (r.pre, r.fill, r.node.label)

theorem proj_item (style : Style) (flags : List Bool) (n : Tree α) :
    proj (item style flags n) = ((pf style flags).1, (pf style flags).2, n.label) := by
  unfold item pf proj segs
  cases flags.getLast? with
  | none => rfl
  | some last => simp only [List.map_dropLast]

theorem isLast_cons {β : Type} (y : β) (ys : List β) :
    isLast (y :: ys) = (y, ys.isEmpty) :: isLast ys := by
  cases ys with
  | nil => rfl
  | cons z zs => rfl

end Render

namespace Spec

theorem renderView_label (childiter : List (Tree α) → List (Tree α)) (m : Option Int)
    (fuel : Nat) (level : Int) (t : Tree α) :
    (renderView childiter m fuel level t).label = t.label := by
  cases t with
  | node a cs => cases fuel <;> rfl

theorem flagsAt_nil (v : Tree α) : flagsAt v [] = [] := rfl

theorem length_flagsAt (v : Tree α) (a : Addr) : (flagsAt v a).length = a.length := by
  simp [flagsAt]

theorem nkids_cons (x : α) (kids : List (Tree α)) (i : Nat) (c : Tree α) (h : kids[i]? = some c)
    (p : Addr) : nkids (node x kids) (i :: p) = nkids c p := by
  simp [nkids, sub, h]

theorem sub_cons (x : α) (kids : List (Tree α)) (i : Nat) (c : Tree α) (h : kids[i]? = some c)
    (p : Addr) : sub (node x kids) (i :: p) = sub c p := by
  simp [sub, h]

theorem flagsAt_cons (x : α) (kids : List (Tree α)) (i : Nat) (c : Tree α)
    (h : kids[i]? = some c) (b : Addr) :
    flagsAt (node x kids) (i :: b) = decide (i + 1 < kids.length) :: flagsAt c b := by
  simp only [flagsAt, List.length_cons, List.range_succ_eq_map, List.map_cons, List.map_map]
  congr 1
  apply List.map_congr_left
  intro j _
  simp only [Function.comp, Nat.succ_eq_add_one, List.take_succ_cons, nkids_cons x kids i c h]
  simp

/-- the specification rows of a view placed under the flag context `ctx` -/
def specRows (style : Style) (ctx : List Bool) (v : Tree α) : List (String × String × α) :=
  (addrs v).filterMap (fun b =>
    match sub v b with
    | none => none
    | some u => some ((pf style (ctx ++ flagsAt v b)).1, (pf style (ctx ++ flagsAt v b)).2, u.label))

theorem specRows_leaf (style : Style) (ctx : List Bool) (a : α) :
    specRows style ctx (node a []) = [((pf style ctx).1, (pf style ctx).2, a)] := by
  simp [specRows, addrs, addrsL, sub, flagsAt_nil]

/-- "descend below a node at depth `level`" -/
def descend (m : Option Int) (level : Int) : Bool :=
  match m with
  | none => true
  | some k => decide (level + 1 < k)

theorem nextF_succ (style : Style) (childiter : List (Tree α) → List (Tree α))
    (m : Option Int) (fuel : Nat) (n : Tree α) (ctx : List Bool) (level : Int) :
    nextF style childiter m (fuel + 1) n ctx level =
      item style ctx n ::
        (if descend m level then
          match n.kids with
          | [] => []
          | c :: cs => (isLast (childiter (c :: cs))).flatMap (fun p =>
              nextF style childiter m fuel p.1 (ctx ++ [!p.2]) (level + 1))
         else []) := by
  cases m <;> rfl

theorem renderView_succ (childiter : List (Tree α) → List (Tree α))
    (m : Option Int) (fuel : Nat) (a : α) (cs : List (Tree α)) (level : Int) :
    renderView childiter m (fuel + 1) level (node a cs) =
      node a (if descend m level then
        (match cs with
         | [] => []
         | c :: cs' => (childiter (c :: cs')).map (renderView childiter m fuel (level + 1)))
        else []) := by
  cases m <;> rfl

theorem nextF_eq_specRows (style : Style) (childiter : List (Tree α) → List (Tree α))
    (m : Option Int) : ∀ (fuel : Nat) (n : Tree α) (ctx : List Bool) (level : Int),
    (nextF style childiter m fuel n ctx level).map proj =
      specRows style ctx (renderView childiter m fuel level n) := by
  intro fuel
  induction fuel with
  | zero =>
    intro n ctx level
    cases n with
    | node a cs => simp [nextF, renderView, specRows_leaf, proj_item]
  | succ fuel ih =>
    intro n ctx level
    cases n with
    | node a cs =>
      simp only [nextF_succ, renderView_succ, kids_node]
      generalize hb : descend m level = bb
      cases bb with
      | false => simp [specRows_leaf, proj_item]
      | true =>
        cases cs with
        | nil => simp [specRows_leaf, proj_item]
        | cons c cs' =>
          simp only [if_true, List.map_cons, proj_item, label_node]
          generalize childiter (c :: cs') = l
          -- the list lemma
          have key : ∀ (l : List (Tree α)) (pre kids : List (Tree α)),
              kids = pre ++ l.map (renderView childiter m fuel (level + 1)) →
              ((isLast l).flatMap (fun p =>
                  nextF style childiter m fuel p.1 (ctx ++ [!p.2]) (level + 1))).map proj =
                (addrsL pre.length (l.map (renderView childiter m fuel (level + 1)))).filterMap
                  (fun b => match sub (node a kids) b with
                    | none => none
                    | some u => some ((pf style (ctx ++ flagsAt (node a kids) b)).1,
                        (pf style (ctx ++ flagsAt (node a kids) b)).2, u.label)) := by
            intro l
            induction l with
            | nil => intro pre kids _; simp [isLast, addrsL]
            | cons y ys ihl =>
              intro pre kids hk
              have hget : kids[pre.length]? = some (renderView childiter m fuel (level + 1) y) := by
                subst hk; simp
              have hlen : kids.length = pre.length + 1 + ys.length := by
                subst hk; simp; omega
              rw [isLast_cons, List.flatMap_cons, List.map_append, List.map_cons, addrsL,
                List.filterMap_append, List.filterMap_map]
              congr 1
              · rw [ih, specRows]
                congr 1
                funext b
                simp only [Function.comp, sub_cons a kids _ _ hget, flagsAt_cons a kids _ _ hget,
                  hlen]
                have : (!ys.isEmpty) = decide (pre.length + 1 < pre.length + 1 + ys.length) := by
                  cases ys <;> simp
                rw [this]
                simp
              · have := ihl (pre ++ [renderView childiter m fuel (level + 1) y]) kids
                  (by subst hk; simp)
                simpa using this
          have := key l [] _ rfl
          simp only [List.length_nil, List.nil_append] at this
          rw [this]
          simp [specRows, addrs, sub, flagsAt_nil]


/-! ## widths -/

theorem length_empty (s : Style) : s.empty.length = s.end_.length := by
  simp [Style.empty]

theorem length_join_segs (style : Style) (w : Nat)
    (hv : style.vertical.length = w) (he : style.end_.length = w) (fl : List Bool) :
    (String.join (segs style fl)).length = fl.length * w := by
  induction fl with
  | nil => simp [segs]
  | cons f fs ih =>
    simp only [segs, List.map_cons, String.join_cons, String.length_append, List.length_cons] at ih ⊢
    rw [ih, Nat.succ_mul]
    cases f <;> simp [hv, he, length_empty] <;> omega

theorem pf_length (style : Style) (w : Nat) (hv : style.vertical.length = w)
    (hc : style.cont.length = w) (he : style.end_.length = w) (fl : List Bool) :
    (pf style fl).1.length = fl.length * w ∧ (pf style fl).2.length = fl.length * w := by
  rcases List.eq_nil_or_concat fl with rfl | ⟨fs, l, rfl⟩
  · simp [pf_nil]
  · simp only [pf, List.concat_eq_append, List.getLast?_concat, List.dropLast_concat,
      String.length_append, length_join_segs style w hv he, List.length_append,
      List.length_singleton]
    cases l <;> simp [hc, he, Nat.succ_mul]

/-! ## decoding the depth list -/

theorem mapL_eq_map {β : Type} (f : α → β) (cs : List (Tree α)) : mapL f cs = cs.map (Tree.map f) := by
  induction cs with
  | nil => rfl
  | cons c cs ih => simp [mapL, ih]

theorem length_addrsL (cs : List (Tree α)) : ∀ i : Nat, (addrsL i cs).length = sizeL cs := by
  induction cs with
  | nil => intro i; rfl
  | cons c cs ih =>
    intro i
    simp [addrsL, sizeL, ih, Tree.length_addrs]

/-- a sibling list at depth `k + 1` followed by something that does not continue it -/
theorem forestOfDepths_addrsL (ts : List (Tree α)) : ∀ (k fuel : Nat) (rest : List Nat) (i : Nat),
    sizeL ts ≤ fuel → (∀ x, rest.head? = some x → x < k + 1) →
    forestOfDepths fuel (k + 1) ((addrsL i ts).map (fun b => b.length + k) ++ rest) =
      (mapL (fun _ => ()) ts, rest) := by
  induction ts using Tree.rec_1
    (motive_1 := fun t => ∀ (k fuel : Nat) (rest : List Nat) (i : Nat),
      sizeL t.kids ≤ fuel → (∀ x, rest.head? = some x → x < k + 1) →
      forestOfDepths fuel (k + 1) ((addrsL i t.kids).map (fun b => b.length + k) ++ rest) =
        (mapL (fun _ => ()) t.kids, rest)) with
  | node a cs ih => exact ih _ _ _ _ (by assumption) (by assumption)
  | nil =>
    intro k fuel rest i _ hrest
    simp only [addrsL, List.map_nil, List.nil_append, mapL]
    cases fuel with
    | zero => rfl
    | succ f =>
      cases rest with
      | nil => rfl
      | cons x xs =>
        have := hrest x rfl
        simp only [forestOfDepths]
        rw [if_neg (by omega)]
  | cons c cs ihc ihcs =>
    intro k fuel rest i hfuel hrest
    cases c with
    | node a ks =>
      simp only [kids_node] at ihc
      simp only [sizeL, size] at hfuel
      cases fuel with
      | zero => omega
      | succ f =>
        simp only [addrsL, addrs, List.map_cons, List.map_append, List.map_map,
          List.cons_append, List.append_assoc, forestOfDepths, mapL,
          Tree.map]
        have h1 := ihc (k + 1) f ((addrsL (i + 1) cs).map (fun b => b.length + k) ++ rest) 0
          (by omega) (by
            intro x hx
            cases cs with
            | nil =>
              simp only [addrsL, List.map_nil, List.nil_append] at hx
              have := hrest x hx; omega
            | cons c' cs' =>
              cases c' with
              | node a' ks' =>
                simp [addrsL, addrs] at hx
                omega)
        have h2 := ihcs k f rest (i + 1) (by omega) hrest
        have e : (addrsL 0 ks).map ((fun b => b.length + k) ∘ fun x => i :: x) =
            (addrsL 0 ks).map (fun b => b.length + (k + 1)) := by
          apply List.map_congr_left
          intro b _
          simp [Function.comp]; omega
        rw [e, h1]
        simp only [h2]
        rw [if_pos (by simp; omega)]

end Spec
end Anytree
