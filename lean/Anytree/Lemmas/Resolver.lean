import Anytree.Spec.Resolver
import Anytree.Lemmas.Nav
import Anytree.Lemmas.Walker
/-!
# Helper lemmas for C07 (`Resolver.get`): `splitAux`, invariance under `relax`, `prefixes` of a
concatenation
-/
namespace Anytree
namespace ResolverLemmas
open Tree Str Resolver Spec
variable {α : Type}

/-! ## `splitAux` / `split` -/

theorem splitAux_ne_nil (sep : List Char) : ∀ (fuel : Nat) (s acc : List Char),
    splitAux sep fuel s acc ≠ [] := by
  intro fuel
  induction fuel with
  | zero => intro s acc; simp [splitAux]
  | succ n ih =>
    intro s acc
    cases s with
    | nil => simp [splitAux]
    | cons x xs =>
      simp only [splitAux]
      cases stripPrefix sep (x :: xs) with
      | none => exact ih _ _
      | some rest =>
        simp only []
        by_cases he : sep.isEmpty = true
        · simp only [he, if_true]; exact ih _ _
        · simp [he]

/-- a path that starts with a non-empty separator splits into at least two pieces
(Python: `parts.pop(0)` leaves a non-empty list) -/
theorem split_drop_one_ne_nil (sep path : String) (hsep : sep ≠ "")
    (hs : startsWith path sep = true) : (split sep path).drop 1 ≠ [] := by
  unfold split startsWith at *
  have hsep' : sep.toList ≠ [] := by
    intro h; apply hsep; exact String.toList_eq_nil_iff.mp h
  cases hp : path.toList with
  | nil =>
    rw [hp] at hs
    cases hq : sep.toList with
    | nil => exact absurd hq hsep'
    | cons y ys => rw [hq] at hs; simp [stripPrefix] at hs
  | cons x xs =>
    rw [hp] at hs
    simp only [splitAux]
    cases hr : stripPrefix sep.toList (x :: xs) with
    | none => rw [hr] at hs; simp at hs
    | some rest =>
      have he : sep.toList.isEmpty = false := by
        cases hq : sep.toList with
        | nil => exact absurd hq hsep'
        | cons y ys => rfl
      simp only [he]
      simp [splitAux_ne_nil]

theorem intercalate_cons_cons {β : Type} (sep p q : List β) (ps : List (List β)) :
    List.intercalate sep (p :: q :: ps) = p ++ sep ++ List.intercalate sep (q :: ps) := by
  simp [List.intercalate, List.intersperse]

theorem intercalate_singleton {β : Type} (sep p : List β) :
    List.intercalate sep [p] = p := by
  simp [List.intercalate, List.intersperse]

/-- scanning a separator-free piece only accumulates it -/
theorem splitAux_scan (sepc : Char) : ∀ (p : List Char), sepc ∉ p →
    ∀ (fuel : Nat) (acc rest : List Char), p.length ≤ fuel →
    splitAux [sepc] fuel (p ++ rest) acc =
      splitAux [sepc] (fuel - p.length) rest (p.reverse ++ acc) := by
  intro p
  induction p with
  | nil => intro _ fuel acc rest _; simp
  | cons x xs ih =>
    intro hx fuel acc rest hf
    have hx1 : sepc ≠ x := by intro h; apply hx; simp [h]
    have hx2 : sepc ∉ xs := by intro h; apply hx; simp [h]
    cases fuel with
    | zero => simp at hf
    | succ f =>
      simp only [List.cons_append, splitAux, stripPrefix, hx1, if_false]
      rw [ih hx2 f (x :: acc) rest (by simpa using hf)]
      simp

theorem splitAux_nil (sep : List Char) (fuel : Nat) (acc : List Char) :
    splitAux sep fuel [] acc = [acc.reverse] := by
  cases fuel <;> simp [splitAux]

/-- splitting the join of separator-free pieces gives the pieces back (any sufficient fuel) -/
theorem splitAux_join (sepc : Char) :
    ∀ (ps : List (List Char)) (p : List Char) (fuel : Nat) (acc : List Char),
    (∀ q ∈ p :: ps, sepc ∉ q) → (List.intercalate [sepc] (p :: ps)).length + 1 ≤ fuel →
    splitAux [sepc] fuel (List.intercalate [sepc] (p :: ps)) acc = (acc.reverse ++ p) :: ps := by
  intro ps
  induction ps with
  | nil =>
    intro p fuel acc hfree hf
    rw [intercalate_singleton] at hf ⊢
    have := splitAux_scan sepc p (hfree p (by simp)) fuel acc [] (by omega)
    rw [List.append_nil] at this
    rw [this, splitAux_nil]; simp
  | cons q ps ih =>
    intro p fuel acc hfree hf
    rw [intercalate_cons_cons] at hf ⊢
    rw [List.append_assoc,
      splitAux_scan sepc p (hfree p (by simp)) fuel acc _ (by simp at hf; omega)]
    simp only [List.length_append, List.length_cons, List.length_nil] at hf
    obtain ⟨f, hf'⟩ : ∃ f, fuel - p.length = f + 1 := ⟨fuel - p.length - 1, by omega⟩
    rw [hf']
    simp only [List.singleton_append, splitAux, stripPrefix, if_true, List.isEmpty_cons,
      Bool.false_eq_true, if_false]
    rw [ih q f [] (fun r hr => hfree r (List.mem_cons_of_mem _ hr)) (by omega)]
    simp

/-! ## the specification does not read `relax` below `getS` -/

theorem stepS_relax (c : Ctx α) (b : Bool) (a : Addr) (p : String) :
    stepS { c with relax := b } a p = stepS c a p := rfl

theorem walkPath_relax (c : Ctx α) (b : Bool) (ps : List String) (a : Addr) :
    walkPath { c with relax := b } ps a = walkPath c ps a := by
  induction ps generalizing a with
  | nil => rfl
  | cons p ps ih =>
    simp only [walkPath, stepS_relax]
    cases stepS c a p with
    | ok x => exact ih _
    | error e => rfl

theorem getStrictS_relax (c : Ctx α) (b : Bool) (a : Addr) (path : String) :
    getStrictS { c with relax := b } a path = getStrictS c a path := by
  unfold getStrictS
  simp only [walkPath_relax]
  rfl

/-! ## `prefixes` -/

theorem prefixes_eq_cons_drop (b : Addr) : prefixes b = [] :: (prefixes b).drop 1 := by
  cases b <;> simp [prefixes]

theorem prefixes_append (k rest : Addr) :
    prefixes (k ++ rest) = prefixes k ++ ((prefixes rest).drop 1).map (k ++ ·) := by
  induction k with
  | nil =>
    simp only [List.nil_append, prefixes]
    conv => lhs; rw [prefixes_eq_cons_drop rest]
    simp
  | cons x xs ih =>
    simp [prefixes, ih, List.map_map, Function.comp_def]

theorem prefixes_cons_drop (i : Nat) (b : Addr) :
    (prefixes (i :: b)).drop 1 = [i] :: ((prefixes b).drop 1).map (i :: ·) := by
  simp only [prefixes, List.drop_succ_cons, List.drop_zero]
  conv => lhs; rw [prefixes_eq_cons_drop b]
  simp

theorem below_append (k r : Addr) : below k (k ++ r) = ((prefixes r).drop 1).map (k ++ ·) := by
  unfold below
  rw [prefixes_append, List.drop_append_of_le_length (by simp)]
  simp

/-! ## children -/

theorem sub_isSome_prefix (r : Tree α) (a b : Addr) (h : (sub r (a ++ b)).isSome = true) :
    (sub r a).isSome = true := by
  rw [Tree.sub_append] at h
  cases hs : sub r a with
  | none => simp [hs] at h
  | some t => rfl

theorem mem_children (c : Ctx α) (a : Addr) (i : Nat) (hv : (sub c.r (a ++ [i])).isSome = true) :
    a ++ [i] ∈ c.children a := by
  unfold Ctx.children
  rw [Nav.childAddrs_eq]
  have := Spec.lt_nkids_of_valid c.r a i hv
  simp only [List.mem_map, List.mem_range]
  exact ⟨i, this, rfl⟩

end ResolverLemmas
end Anytree
