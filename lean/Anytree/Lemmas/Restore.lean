import Anytree.Lemmas.SetChildren
import Anytree.Lemmas.DelChildren
/-!
The attach phase of the children setter under a fault schedule that is quiet on a window of hook
invocation numbers: the mirror's calls only look at `φ i` for the invocation numbers `i` they
actually reach, so on a window on which two schedules agree the runs agree (`Agr`).  With the
fault-free equations (`*_nf`) this gives the run up to the single raising hook and the complete,
successful restore after it.
-/
namespace Anytree
open Forest

theorem Forest.ext {s t : Forest} (hn : s.n = t.n) (hp : s.parent = t.parent)
    (hc : s.children = t.children) : s = t := by
  cases s; cases t; simp only at hn hp hc; subst hn; subst hp; subst hc; rfl

/-! ## the invocation counter only grows -/

def Mono (a : M) : Prop := ∀ w, w.cnt ≤ (a w).2.cnt

namespace Mono
variable {a b : M}

theorem ok : Mono M.ok := fun _ => Nat.le_refl _
theorem throw (e : Err) : Mono (M.throw e) := fun _ => Nat.le_refl _
theorem modify (g : Forest → Forest) : Mono (M.modify g) := fun _ => Nat.le_refl _

theorem seq (ha : Mono a) (hb : Mono b) : Mono (a ⨾ b) := by
  intro w
  have h1 := ha w
  unfold M.seq
  cases hr : a w with
  | mk r w' =>
    rw [hr] at h1
    cases r with
    | ok u => cases u; exact Nat.le_trans h1 (hb w')
    | error e => exact h1

theorem tryCatch {h : Err → M} (ha : Mono a) (hh : ∀ e, Mono (h e)) : Mono (M.tryCatch a h) := by
  intro w
  have h1 := ha w
  unfold M.tryCatch
  cases hr : a w with
  | mk r w' =>
    rw [hr] at h1
    cases r with
    | ok u => cases u; exact h1
    | error e => exact Nat.le_trans h1 (hh e w')

theorem hook (c : Cfg) (k : HookKind) (n : Nat) (arg : List Nat) : Mono (hook c k n arg) := by
  intro w; unfold Anytree.hook; simp only; split <;> exact Nat.le_succ _

theorem assertM (c : Cfg) (cond : Forest → Bool) : Mono (assertM c cond) := by
  intro w; unfold Anytree.assertM; split <;> exact Nat.le_refl _

theorem checkLoop (fuel n : Nat) (v : Option Nat) : Mono (checkLoop fuel n v) := by
  intro w; unfold Anytree.checkLoop
  cases v with
  | none => exact Nat.le_refl _
  | some p =>
    simp only
    split
    · exact Nat.le_refl _
    · split <;> exact Nat.le_refl _

theorem detach (c : Cfg) (n : Nat) (old : Option Nat) : Mono (detach c n old) := by
  cases old with
  | none => exact ok
  | some p => exact seq (seq (seq (hook _ _ _ _) (assertM _ _)) (modify _)) (hook _ _ _ _)

theorem attach (c : Cfg) (n : Nat) (new : Option Nat) : Mono (attach c n new) := by
  cases new with
  | none => exact ok
  | some p => exact seq (seq (seq (hook _ _ _ _) (assertM _ _)) (modify _)) (hook _ _ _ _)

theorem setParent (c : Cfg) (fuel n : Nat) (v : Option Arg) : Mono (setParent c fuel n v) := by
  intro w
  unfold Anytree.setParent
  match v with
  | some .nonNode => simp only; cases c.fl <;> exact Nat.le_refl _
  | none =>
    simp only
    by_cases hold : w.f.parent n = none
    · simp only [hold, if_true]; exact Nat.le_refl _
    · simp only [hold, if_false]; exact detach c n _ w
  | some (.node p) =>
    simp only
    by_cases hold : w.f.parent n = some p
    · simp only [hold, if_true]; exact Nat.le_refl _
    · simp only [hold, if_false]
      exact seq (seq (checkLoop _ _ _) (detach _ _ _)) (attach _ _ _) w

theorem forM' (xs : List Nat) {body : Nat → M} (hb : ∀ x, Mono (body x)) : Mono (forM' xs body) := by
  induction xs with
  | nil => exact ok
  | cons x xs ih => exact seq (hb x) ih

theorem delChildren (c : Cfg) (fuel n : Nat) : Mono (delChildren c fuel n) := by
  intro w
  unfold Anytree.delChildren
  exact seq (seq (seq (hook _ _ _ _) (forM' _ (fun _ => setParent _ _ _ _))) (assertM _ _))
    (hook _ _ _ _) w

theorem setChildrenNodes (c : Cfg) : ∀ (fuel n : Nat) (xs : List Nat),
    Mono (setChildrenNodes c fuel n xs) := by
  intro fuel
  induction fuel with
  | zero => intro n xs; unfold Anytree.setChildrenNodes; exact throw _
  | succ fuel ih =>
    intro n xs w
    unfold Anytree.setChildrenNodes
    refine seq (delChildren c fuel n) (tryCatch
      (seq (seq (seq (hook _ _ _ _) (forM' _ (fun _ => setParent _ _ _ _))) (hook _ _ _ _))
        (assertM _ _)) ?_) w
    intro e
    cases e with
    | diverged => exact throw _
    | treeError | loopError | typeError | hook _ _ _ | assertion | unmodelled =>
      simp only
      split
      · exact throw _
      · exact seq (ih n _) (throw _)

end Mono

/-! ## two schedules that agree on a window give the same run inside the window -/

/-- `a` (under one schedule) and `a'` (under another) agree from every world whose counter is at
least `lo`, provided the run of `a'` does not take the counter beyond `hi` -/
def Agr (lo hi : Nat) (a a' : M) : Prop :=
  ∀ w, lo ≤ w.cnt → (a' w).2.cnt ≤ hi → a w = a' w

namespace Agr
variable {lo hi : Nat} {a a' b b' : M}

theorem refl (a : M) : Agr lo hi a a := fun _ _ _ => rfl

theorem seq (ha : Agr lo hi a a') (hb : Agr lo hi b b') (ma : Mono a') (mb : Mono b') :
    Agr lo hi (a ⨾ b) (a' ⨾ b') := by
  intro w hlo hhi
  have m1 := ma w
  have e1 := ha w hlo
  unfold M.seq at hhi ⊢
  cases hr : a' w with
  | mk r w' =>
    rw [hr] at hhi m1 e1
    cases r with
    | ok u =>
      cases u
      simp only at hhi m1 e1
      have : w'.cnt ≤ hi := Nat.le_trans (mb w') hhi
      rw [e1 this]
      exact hb w' (Nat.le_trans hlo m1) hhi
    | error e =>
      simp only at hhi e1
      rw [e1 hhi]

theorem tryCatch {h h' : Err → M} (ha : Agr lo hi a a') (hh : ∀ e, Agr lo hi (h e) (h' e))
    (ma : Mono a') (mh : ∀ e, Mono (h' e)) : Agr lo hi (M.tryCatch a h) (M.tryCatch a' h') := by
  intro w hlo hhi
  have m1 := ma w
  have e1 := ha w hlo
  unfold M.tryCatch at hhi ⊢
  cases hr : a' w with
  | mk r w' =>
    rw [hr] at hhi m1 e1
    cases r with
    | ok u =>
      cases u
      simp only at hhi e1
      rw [e1 hhi]
    | error e =>
      simp only at hhi m1 e1
      have : w'.cnt ≤ hi := Nat.le_trans (mh e w') hhi
      rw [e1 this]
      exact hh e w' (Nat.le_trans hlo m1) hhi

theorem forM' (xs : List Nat) {body body' : Nat → M} (hb : ∀ x, Agr lo hi (body x) (body' x))
    (mb : ∀ x, Mono (body' x)) : Agr lo hi (forM' xs body) (forM' xs body') := by
  induction xs with
  | nil => exact refl _
  | cons x xs ih => exact seq (hb x) ih (mb x) (Mono.forM' xs mb)

end Agr

section Agree
variable (fl : Flavor) (asrt : Bool) {φ φ' : Faults} {lo hi : Nat}
  (hφ : ∀ i k m, lo ≤ i → i < hi → φ i k m = φ' i k m)
include hφ

theorem Agr.hook (k : HookKind) (n : Nat) (arg : List Nat) :
    Agr lo hi (hook ⟨fl, asrt, φ⟩ k n arg) (hook ⟨fl, asrt, φ'⟩ k n arg) := by
  intro w hlo hhi
  have hlt : w.cnt < hi := by
    have : (Anytree.hook ⟨fl, asrt, φ'⟩ k n arg w).2.cnt = w.cnt + 1 := by
      unfold Anytree.hook; simp only; split <;> rfl
    omega
  unfold Anytree.hook
  simp only [hφ w.cnt k n hlo hlt]

set_option linter.unusedSectionVars false in
theorem Agr.assertM (cond : Forest → Bool) :
    Agr lo hi (assertM ⟨fl, asrt, φ⟩ cond) (assertM ⟨fl, asrt, φ'⟩ cond) := fun _ _ _ => rfl

theorem Agr.detach (n : Nat) (old : Option Nat) :
    Agr lo hi (detach ⟨fl, asrt, φ⟩ n old) (detach ⟨fl, asrt, φ'⟩ n old) := by
  cases old with
  | none => exact Agr.refl _
  | some p =>
    exact Agr.seq (Agr.seq (Agr.seq (Agr.hook fl asrt hφ _ _ _) (Agr.assertM fl asrt hφ _)
      (Mono.hook _ _ _ _) (Mono.assertM _ _)) (Agr.refl _)
      (Mono.seq (Mono.hook _ _ _ _) (Mono.assertM _ _)) (Mono.modify _))
      (Agr.hook fl asrt hφ _ _ _)
      (Mono.seq (Mono.seq (Mono.hook _ _ _ _) (Mono.assertM _ _)) (Mono.modify _))
      (Mono.hook _ _ _ _)

theorem Agr.attach (n : Nat) (new : Option Nat) :
    Agr lo hi (attach ⟨fl, asrt, φ⟩ n new) (attach ⟨fl, asrt, φ'⟩ n new) := by
  cases new with
  | none => exact Agr.refl _
  | some p =>
    exact Agr.seq (Agr.seq (Agr.seq (Agr.hook fl asrt hφ _ _ _) (Agr.assertM fl asrt hφ _)
      (Mono.hook _ _ _ _) (Mono.assertM _ _)) (Agr.refl _)
      (Mono.seq (Mono.hook _ _ _ _) (Mono.assertM _ _)) (Mono.modify _))
      (Agr.hook fl asrt hφ _ _ _)
      (Mono.seq (Mono.seq (Mono.hook _ _ _ _) (Mono.assertM _ _)) (Mono.modify _))
      (Mono.hook _ _ _ _)

theorem Agr.setParent (fuel n : Nat) (v : Option Arg) :
    Agr lo hi (setParent ⟨fl, asrt, φ⟩ fuel n v) (setParent ⟨fl, asrt, φ'⟩ fuel n v) := by
  intro w hlo hhi
  unfold Anytree.setParent at hhi ⊢
  match v with
  | some .nonNode => rfl
  | none =>
    simp only at hhi ⊢
    by_cases hold : w.f.parent n = none
    · simp only [hold, if_true]
    · simp only [hold, if_false] at hhi ⊢
      exact Agr.detach fl asrt hφ n _ w hlo hhi
  | some (.node p) =>
    simp only at hhi ⊢
    by_cases hold : w.f.parent n = some p
    · simp only [hold, if_true]
    · simp only [hold, if_false] at hhi ⊢
      exact Agr.seq (Agr.seq (Agr.refl _) (Agr.detach fl asrt hφ n _) (Mono.checkLoop _ _ _)
        (Mono.detach _ _ _)) (Agr.attach fl asrt hφ n _)
        (Mono.seq (Mono.checkLoop _ _ _) (Mono.detach _ _ _)) (Mono.attach _ _ _) w hlo hhi

theorem Agr.delChildren (fuel n : Nat) :
    Agr lo hi (delChildren ⟨fl, asrt, φ⟩ fuel n) (delChildren ⟨fl, asrt, φ'⟩ fuel n) := by
  intro w hlo hhi
  unfold Anytree.delChildren at hhi ⊢
  have mloop : Mono (Anytree.forM' (w.f.children n)
      (fun ch => Anytree.setParent ⟨fl, asrt, φ'⟩ fuel ch none)) :=
    Mono.forM' _ (fun _ => Mono.setParent _ _ _ _)
  exact Agr.seq (Agr.seq (Agr.seq (Agr.hook fl asrt hφ _ _ _)
    (Agr.forM' _ (fun x => Agr.setParent fl asrt hφ fuel x none) (fun _ => Mono.setParent _ _ _ _))
    (Mono.hook _ _ _ _) mloop) (Agr.assertM fl asrt hφ _)
    (Mono.seq (Mono.hook _ _ _ _) mloop) (Mono.assertM _ _)) (Agr.hook fl asrt hφ _ _ _)
    (Mono.seq (Mono.seq (Mono.hook _ _ _ _) mloop) (Mono.assertM _ _)) (Mono.hook _ _ _ _) w hlo hhi

theorem Agr.setChildrenNodes : ∀ (fuel n : Nat) (xs : List Nat),
    Agr lo hi (setChildrenNodes ⟨fl, asrt, φ⟩ fuel n xs) (setChildrenNodes ⟨fl, asrt, φ'⟩ fuel n xs) := by
  intro fuel
  induction fuel with
  | zero => intro n xs; unfold Anytree.setChildrenNodes; exact Agr.refl _
  | succ fuel ih =>
    intro n xs w hlo hhi
    unfold Anytree.setChildrenNodes at hhi ⊢
    have mloop : Mono (Anytree.forM' xs
        (fun x => Anytree.setParent ⟨fl, asrt, φ'⟩ fuel x (some (.node n)))) :=
      Mono.forM' _ (fun _ => Mono.setParent _ _ _ _)
    have mtry := Mono.seq (Mono.seq (Mono.seq (Mono.hook ⟨fl, asrt, φ'⟩ .preAttachChildren n xs)
      mloop) (Mono.hook ⟨fl, asrt, φ'⟩ .postAttachChildren n xs))
      (Mono.assertM ⟨fl, asrt, φ'⟩ (fun f => (f.children n).length == xs.length))
    have atry := Agr.seq (Agr.seq (Agr.seq (Agr.hook fl asrt hφ .preAttachChildren n xs)
      (Agr.forM' xs (fun x => Agr.setParent fl asrt hφ fuel x (some (.node n)))
        (fun _ => Mono.setParent _ _ _ _)) (Mono.hook _ _ _ _) mloop)
      (Agr.hook fl asrt hφ .postAttachChildren n xs)
      (Mono.seq (Mono.hook _ _ _ _) mloop) (Mono.hook _ _ _ _))
      (Agr.assertM fl asrt hφ (fun f => (f.children n).length == xs.length))
      (Mono.seq (Mono.seq (Mono.hook _ _ _ _) mloop) (Mono.hook _ _ _ _)) (Mono.assertM _ _)
    refine Agr.seq (Agr.delChildren fl asrt hφ fuel n) (Agr.tryCatch atry ?_ mtry ?_)
      (Mono.delChildren _ _ _) (Mono.tryCatch mtry ?_) w hlo hhi
    · intro e
      cases e with
      | diverged => exact Agr.refl _
      | treeError | loopError | typeError | hook _ _ _ | assertion | unmodelled =>
        simp only
        generalize checkChildren fl [] (List.map Arg.node (w.f.children n)) = r
        cases r with
        | error e' => exact Agr.refl _
        | ok u =>
          cases u
          exact Agr.seq (ih n _) (Agr.refl _) (Mono.setChildrenNodes _ _ _ _) (Mono.throw _)
    all_goals
      intro e
      cases e with
      | diverged => exact Mono.throw _
      | treeError | loopError | typeError | hook _ _ _ | assertion | unmodelled =>
        simp only
        split
        · exact Mono.throw _
        · exact Mono.seq (Mono.setChildrenNodes _ _ _ _) (Mono.throw _)

end Agree

/-! ## quiet windows -/

/-- no hook invocation numbered `lo ≤ i < hi` raises -/
def Quiet (c : Cfg) (lo hi : Nat) : Prop := ∀ i k m, lo ≤ i → i < hi → c.φ i k m = false

/-- the same configuration without faults -/
def Cfg.calm (c : Cfg) : Cfg := ⟨c.fl, c.asrt, noFaults⟩

theorem Quiet.mono {c : Cfg} {lo hi lo' hi' : Nat} (h : Quiet c lo hi) (h1 : lo ≤ lo')
    (h2 : hi' ≤ hi) : Quiet c lo' hi' :=
  fun i k m a b => h i k m (Nat.le_trans h1 a) (Nat.lt_of_lt_of_le b h2)

theorem setParent_quiet {c : Cfg} {lo hi : Nat} (hq : Quiet c lo hi) (fuel n : Nat) (v : Option Arg)
    (w : World) (hlo : lo ≤ w.cnt) (hhi : (setParent c.calm fuel n v w).2.cnt ≤ hi) :
    setParent c fuel n v w = setParent c.calm fuel n v w :=
  Agr.setParent c.fl c.asrt hq fuel n v w hlo hhi

theorem forM'_quiet {c : Cfg} {lo hi : Nat} (hq : Quiet c lo hi) (fuel : Nat) (v : Nat → Option Arg)
    (xs : List Nat) (w : World) (hlo : lo ≤ w.cnt)
    (hhi : (forM' xs (fun x => setParent c.calm fuel x (v x)) w).2.cnt ≤ hi) :
    forM' xs (fun x => setParent c fuel x (v x)) w =
      forM' xs (fun x => setParent c.calm fuel x (v x)) w :=
  Agr.forM' xs (fun x => Agr.setParent c.fl c.asrt hq fuel x (v x))
    (fun _ => Mono.setParent _ _ _ _) w hlo hhi

theorem delChildren_quiet' {c : Cfg} {lo hi : Nat} (hq : Quiet c lo hi) (fuel n : Nat)
    (w : World) (hlo : lo ≤ w.cnt) (hhi : (delChildren c.calm fuel n w).2.cnt ≤ hi) :
    delChildren c fuel n w = delChildren c.calm fuel n w :=
  Agr.delChildren c.fl c.asrt hq fuel n w hlo hhi

theorem setChildrenNodes_quiet {c : Cfg} {lo hi : Nat} (hq : Quiet c lo hi) (fuel n : Nat)
    (xs : List Nat) (w : World) (hlo : lo ≤ w.cnt)
    (hhi : (setChildrenNodes c.calm fuel n xs w).2.cnt ≤ hi) :
    setChildrenNodes c fuel n xs w = setChildrenNodes c.calm fuel n xs w :=
  Agr.setChildrenNodes c.fl c.asrt hq fuel n xs w hlo hhi

/-! ### the `*_nf` equations on a quiet window -/

/-- `del n.children` when the invocations it makes are quiet -/
theorem delChildren_window {c : Cfg} (fuel n : Nat) (w : World) (h : Inv w.f) (hfuel : w.f.n < fuel)
    (hq : Quiet c w.cnt (w.cnt + (Spec.delChildren w.f n).log.length)) :
    delChildren c fuel n w =
      (.ok (), w.adv (Spec.delChildren w.f n).f (Spec.delChildren w.f n).log) := by
  have e := delChildren_nf (c := c.calm) rfl fuel n w h hfuel
  rw [delChildren_quiet' hq fuel n w (Nat.le_refl _) (by rw [e]; exact Nat.le_refl _), e]

/-- the attach loop when the invocations it makes are quiet -/
theorem attachLoop_window {c : Cfg} (fuel n : Nat) (xs : List Nat) (w : World) (pre : List Nat)
    (h : Inv w.f) (hfuel : w.f.n < fuel) (hn : n < w.f.n) (hnd : xs.Nodup)
    (hlt : ∀ x ∈ xs, x < w.f.n) (hpre : w.f.children n = pre) (hdisj : ∀ x ∈ xs, x ∉ pre)
    (hch : ∀ x ∈ xs, ∀ j, w.f.up j n ≠ some x)
    (hq : Quiet c w.cnt (w.cnt + (Spec.attachAll w.f n xs).2.length)) :
    forM' xs (fun x => setParent c fuel x (some (.node n))) w =
      (.ok (), w.adv (Spec.attachAll w.f n xs).1 (Spec.attachAll w.f n xs).2) := by
  have e := attachLoop_nf_gen (c := c.calm) rfl fuel n xs w pre h hfuel hn hnd hlt hpre hdisj hch
  rw [forM'_quiet hq fuel (fun _ => some (.node n)) xs w (Nat.le_refl _)
    (by rw [e]; exact Nat.le_refl _), e]

/-- the whole children setter when the invocations it makes are quiet -/
theorem setChildrenNodes_window {c : Cfg} (fuel n : Nat) (xs : List Nat) (w : World) (h : Inv w.f)
    (hfuel : w.f.n + 2 < fuel) (hn : n < w.f.n) (hnd : xs.Nodup) (hlt : ∀ x ∈ xs, x < w.f.n)
    (hok : ∀ x ∈ xs, x ≠ n ∧ Spec.isAnc w.f x n = false)
    (hq : Quiet c w.cnt
      (w.cnt + (Spec.setChildren c.fl w.f n (some (xs.map Arg.node))).log.length)) :
    setChildrenNodes c fuel n xs w =
      (.ok (), w.adv (Spec.setChildren c.fl w.f n (some (xs.map Arg.node))).f
                     (Spec.setChildren c.fl w.f n (some (xs.map Arg.node))).log) := by
  have e := setChildrenNodes_nf (c := c.calm) rfl fuel n xs w h hfuel hn hnd hlt hok
  rw [setChildrenNodes_quiet hq fuel n xs w (Nat.le_refl _) (by rw [e]; exact Nat.le_refl _), e]
  rfl


/-! ## specification side: assigning the old children again undoes a partial attach phase -/

/-- `pre` = the part of the new children tuple that was attached before the failure; each of them was
parentless or a child of `n` before the call (¬K3) and could legally become a child of `n` -/
theorem Spec.restore_spec {s : Forest} (h : Inv s) {n : Nat} (hn : n < s.n) (pre : List Nat)
    (hnd : pre.Nodup) (hlt : ∀ y ∈ pre, y < s.n)
    (hpar : ∀ y ∈ pre, s.parent y = none ∨ s.parent y = some n)
    (hatt : ∀ y ∈ pre, y ≠ n ∧ Spec.isAnc s y n = false) (fl : Flavor) :
    Inv (Spec.attachAll (Spec.delChildren s n).f n pre).1 ∧
    (Spec.attachAll (Spec.delChildren s n).f n pre).1.n = s.n ∧
    (Spec.attachAll (Spec.delChildren s n).f n pre).1.children n = pre ∧
    (∀ y, (Spec.attachAll (Spec.delChildren s n).f n pre).1.parent y =
      if pre.contains y then some n else if s.parent y = some n then none else s.parent y) ∧
    (∀ j, (Spec.attachAll (Spec.delChildren s n).f n pre).1.up j n = s.up j n) ∧
    (∀ x ∈ s.children n,
      x ≠ n ∧ Spec.isAnc (Spec.attachAll (Spec.delChildren s n).f n pre).1 x n = false) ∧
    (Spec.setChildren fl (Spec.attachAll (Spec.delChildren s n).f n pre).1 n
      (some ((s.children n).map Arg.node))).f = s := by
  obtain ⟨di, dn, dc, du, dp, dq⟩ := Spec.delChildren_props h n
  have hchD : ∀ x ∈ pre, ∀ j, (Spec.delChildren s n).f.up j n ≠ some x := by
    intro x hx j
    rw [du]
    exact h.chain_avoid_of_not_anc hn (hatt x hx).1 (hatt x hx).2 j
  obtain ⟨ai, an, ac, au, ap, aq⟩ := Spec.attachAll_props n pre (Spec.delChildren s n).f [] di
    (by omega) hnd (fun x hx => by rw [dn]; exact hlt x hx) dc (fun _ _ hm => by simp at hm) hchD
  generalize hS1 : (Spec.attachAll (Spec.delChildren s n).f n pre).1 = S1 at ai an ac au ap aq ⊢
  have hS1n : S1.n = s.n := by rw [an, dn]
  have hup : ∀ j, S1.up j n = s.up j n := fun j => by rw [au, du]
  have hokS1 : ∀ x ∈ s.children n, x ≠ n ∧ Spec.isAnc S1 x n = false := by
    intro x hx
    constructor
    · intro e
      exact h.child_not_on_chain hx 0 (by simp [up, e])
    · cases ha : Spec.isAnc S1 x n with
      | false => rfl
      | true =>
        obtain ⟨k, _, hk⟩ := (ai.isAnc_iff (by omega)).1 ha
        rw [hup] at hk
        exact absurd hk (h.child_not_on_chain hx k)
  have holt : ∀ x ∈ s.children n, x < S1.n := by
    intro x hx
    rw [hS1n]
    exact (h.lt_of_parent ((h.bidir x n).2 hx)).1
  have hpS1 : ∀ y, S1.parent y =
      if pre.contains y then some n else if s.parent y = some n then none else s.parent y := by
    intro y; rw [ap, dp]
  refine ⟨ai, hS1n, by simpa using ac, hpS1, hup, hokS1, ?_⟩
  obtain ⟨_, ec, ep, eq⟩ := Spec.setChildren_effect fl S1 ai n (s.children n) (by omega) (h.nodup n)
    holt hokS1
  have en := (Spec.setChildren_eq_childrenAssigned fl S1 ai n (s.children n) (by omega) (h.nodup n)
    holt hokS1).1
  apply Forest.ext
  · rw [en]; exact hS1n
  · funext y
    rw [ep y]
    by_cases hy : y ∈ s.children n
    · simp [hy, (h.bidir y n).2 hy]
    · have hyn : s.parent y ≠ some n := fun e => hy ((h.bidir y n).1 e)
      simp only [List.contains_eq_mem, hy, decide_false, Bool.false_eq_true, if_false]
      rw [hpS1]
      by_cases hyp : y ∈ pre
      · have : s.parent y = none := by
          rcases hpar y hyp with e | e
          · exact e
          · exact absurd e hyn
        simp [hyp, this]
      · simp [hyp, hyn]
  · funext q
    by_cases hq : q = n
    · rw [hq, ec]
    · rw [eq q hq, aq q hq, dq q hq, List.filter_filter]
      apply List.filter_eq_self.mpr
      intro a ha
      have hpa : s.parent a = some q := (h.bidir a q).2 ha
      have h1 : a ∉ s.children n := by
        intro hm
        have := (h.bidir a n).2 hm
        rw [hpa] at this
        exact hq (Option.some.inj this)
      have h2 : a ∉ pre := by
        intro hm
        rcases hpar a hm with e | e
        · rw [hpa] at e; cases e
        · rw [hpa] at e; exact hq (Option.some.inj e)
      simp [h1, h2]


/-! ## mirror side: a failed `try` block followed by a quiet restore -/

theorem M.seq_err {a b : M} {w w' : World} {e : Err} (h : a w = (.error e, w')) :
    (a ⨾ b) w = (.error e, w') := by
  simp [M.seq, h]

/-- unfolding of the `except` branch: the delete phase returned, the `try` block raised `e`, the
restore `self.children = old_children` returned: the call raises `e` in the restored state -/
theorem setChildrenNodes_fail_restore (c : Cfg) (fuel n : Nat) (xs : List Nat) (w w1 w3 w4 : World)
    (e : Err) (he : e ≠ .diverged)
    (hd : delChildren c fuel n w = (.ok (), w1))
    (ht : (hook c .preAttachChildren n xs ⨾
        forM' xs (fun x => setParent c fuel x (some (.node n))) ⨾
        hook c .postAttachChildren n xs ⨾
        assertM c (fun f => (f.children n).length == xs.length)) w1 = (.error e, w3))
    (hchk : checkChildren c.fl [] ((w.f.children n).map Arg.node) = .ok ())
    (hr : setChildrenNodes c fuel n (w.f.children n) w3 = (.ok (), w4)) :
    setChildrenNodes c (fuel + 1) n xs w = (.error e, w4) := by
  simp only [setChildrenNodes]
  rw [M.seq_ok hd]
  simp only [M.tryCatch, ht]
  cases e with
  | diverged => exact absurd rfl he
  | treeError | loopError | typeError | hook _ _ _ | assertion | unmodelled =>
    simp only [hchk, M.seq, hr, M.throw]

/-- **the restore**: after a quiet delete phase, if the `try` block raises `e` in the state in which
the elements `pre` (each parentless or a child of `n` before the call) have been attached, and no
later hook invocation raises, the call raises `e` and every link is as before the call -/
theorem setChildrenNodes_restore {c : Cfg} (fuel n : Nat) (xs pre : List Nat) (w w3 : World)
    (e : Err) (he : e ≠ .diverged) (h : Inv w.f) (hfuel : w.f.n + 2 < fuel) (hn : n < w.f.n)
    (hnd : pre.Nodup) (hlt : ∀ y ∈ pre, y < w.f.n)
    (hpar : ∀ y ∈ pre, w.f.parent y = none ∨ w.f.parent y = some n)
    (hatt : ∀ y ∈ pre, y ≠ n ∧ Spec.isAnc w.f y n = false)
    (hqd : Quiet c w.cnt (w.cnt + (Spec.delChildren w.f n).log.length))
    (ht : (hook c .preAttachChildren n xs ⨾
        forM' xs (fun x => setParent c fuel x (some (.node n))) ⨾
        hook c .postAttachChildren n xs ⨾
        assertM c (fun f => (f.children n).length == xs.length))
        (w.adv (Spec.delChildren w.f n).f (Spec.delChildren w.f n).log) = (.error e, w3))
    (hw3 : w3.f = (Spec.attachAll (Spec.delChildren w.f n).f n pre).1)
    (hqr : ∀ i k m, w3.cnt ≤ i → c.φ i k m = false) :
    (setChildrenNodes c (fuel + 1) n xs w).1 = .error e ∧
    (setChildrenNodes c (fuel + 1) n xs w).2.f = w.f := by
  obtain ⟨ai, an, _, _, _, hok, hfin⟩ := Spec.restore_spec h hn pre hnd hlt hpar hatt c.fl
  obtain ⟨f3, l3, c3⟩ := w3
  simp only at hw3 hqr
  subst hw3
  have hd := delChildren_window (c := c) fuel n w h (by omega) hqd
  have holt : ∀ x ∈ w.f.children n,
      x < (Spec.attachAll (Spec.delChildren w.f n).f n pre).1.n := by
    intro x hx
    rw [an]
    exact (h.lt_of_parent ((h.bidir x n).2 hx)).1
  have hr := setChildrenNodes_window (c := c) fuel n (w.f.children n)
    ⟨(Spec.attachAll (Spec.delChildren w.f n).f n pre).1, l3, c3⟩ ai
    (by simp only [an]; omega) (by simp only [an]; exact hn) (h.nodup n) holt hok
    (fun i k m hlo _ => hqr i k m hlo)
  rw [setChildrenNodes_fail_restore c fuel n xs w _ _ _ e he hd ht (checkChildren_old c.fl h n) hr]
  exact ⟨rfl, hfin⟩


/-! ## the loop check, decided -/

theorem checkLoop_pass {w : World} (h : Inv w.f) (fuel n p : Nat) (hp : p < w.f.n)
    (hfuel : w.f.n < fuel) (hpn : p ≠ n) (hno : ∀ j, w.f.up j p ≠ some n) :
    checkLoop fuel n (some p) w = (.ok (), w) := by
  have hne := h.onChain_some n fuel p hp (fun k y hy => by
    have := h.chain_lt hp hy; omega)
  simp only [checkLoop, hpn, if_false]
  cases hoc : onChain w.f n fuel p with
  | none => exact absurd hoc hne
  | some b =>
    cases b with
    | true => obtain ⟨j, hj⟩ := onChain_true fuel p hoc; exact absurd hj (hno j)
    | false => rfl

theorem checkLoop_refuse {w : World} (h : Inv w.f) (fuel n p : Nat) (hp : p < w.f.n)
    (hfuel : w.f.n < fuel) (hbad : ∃ j, w.f.up j p = some n) :
    checkLoop fuel n (some p) w = (.error .loopError, w) := by
  have hne := h.onChain_some n fuel p hp (fun k y hy => by
    have := h.chain_lt hp hy; omega)
  simp only [checkLoop]
  by_cases hpn : p = n
  · simp only [hpn, if_true]
  · simp only [hpn, if_false]
    cases hoc : onChain w.f n fuel p with
    | none => exact absurd hoc hne
    | some b =>
      cases b with
      | true => rfl
      | false => obtain ⟨j, hj⟩ := hbad; exact absurd hj (onChain_false fuel p hoc j)

theorem hook_window {c : Cfg} (k : HookKind) (n : Nat) (a : List Nat) (w : World)
    (hq : c.φ w.cnt k n = false) :
    hook c k n a w = (.ok (), w.adv w.f [Spec.ev k n a w.f]) := by
  simp [hook, hq, World.adv, Spec.ev]

theorem hook_raise {c : Cfg} (k : HookKind) (n : Nat) (a : List Nat) (w : World)
    (hq : c.φ w.cnt k n = true) :
    hook c k n a w = (.error (.hook w.cnt k n), w.adv w.f [Spec.ev k n a w.f]) := by
  simp [hook, hq, World.adv, Spec.ev]

theorem forM'_prefix {body : Nat → M} : ∀ (pre rest : List Nat) (w w' : World),
    forM' pre body w = (.ok (), w') → forM' (pre ++ rest) body w = forM' rest body w' := by
  intro pre
  induction pre with
  | nil =>
    intro rest w w' hw
    simp only [forM', M.ok, Prod.mk.injEq, true_and] at hw
    subst hw; rfl
  | cons x pre ih =>
    intro rest w w' hw
    simp only [List.cons_append, forM', M.seq] at hw ⊢
    cases hr : body x w with
    | mk r w1 =>
      rw [hr] at hw
      cases r with
      | ok u => cases u; simp only at hw ⊢; exact ih rest w1 w' hw
      | error e => simp only at hw; cases hw

/-! ## A1: `_pre_attach_children` raises once -/

/-- world level: the delete phase is quiet, the setter's own `_pre_attach_children` invocation raises,
nothing raises afterwards: the call raises that exception and every link is as before -/
theorem setChildrenNodes_preAttachChildren_veto {c : Cfg} (fuel n : Nat) (xs : List Nat) (w : World)
    (h : Inv w.f) (hfuel : w.f.n + 2 < fuel) (hn : n < w.f.n) (i0 : Nat)
    (hi0 : i0 = w.cnt + (Spec.delChildren w.f n).log.length)
    (hbefore : Quiet c w.cnt i0) (hat : c.φ i0 .preAttachChildren n = true)
    (hafter : ∀ i k m, i0 < i → c.φ i k m = false) :
    (setChildrenNodes c (fuel + 1) n xs w).1 = .error (.hook i0 .preAttachChildren n) ∧
    (setChildrenNodes c (fuel + 1) n xs w).2.f = w.f := by
  subst hi0
  have e2 := hook_raise (c := c) .preAttachChildren n xs
    (w.adv (Spec.delChildren w.f n).f (Spec.delChildren w.f n).log) hat
  refine setChildrenNodes_restore fuel n xs [] w _ _ (by intro e; cases e) h hfuel hn
    List.nodup_nil (fun _ hm => by simp at hm) (fun _ hm => by simp at hm)
    (fun _ hm => by simp at hm) hbefore (M.seq_err (M.seq_err (M.seq_err e2))) rfl ?_
  intro i k m hi
  apply hafter
  simp only [World.adv_cnt, List.length_cons, List.length_nil] at hi
  omega


/-! ## A2: the attach loop fails at an element -/

/-- the world in which the attach loop reaches the element after `pre` -/
def loopWorld (w : World) (n : Nat) (xs pre : List Nat) : World :=
  w.adv (Spec.attachAll (Spec.delChildren w.f n).f n pre).1
    ((Spec.delChildren w.f n).log ++
      [Spec.ev .preAttachChildren n xs (Spec.delChildren w.f n).f] ++
      (Spec.attachAll (Spec.delChildren w.f n).f n pre).2)

/-- general form: everything up to the element `x` (after the prefix `pre`) is quiet, the parent
assignment `x.parent = n` raises `e` without changing a link, nothing raises afterwards -/
theorem setChildrenNodes_attach_step_fail {c : Cfg} (fuel n : Nat) (pre : List Nat) (x : Nat)
    (post : List Nat) (w w3 : World) (e : Err) (he : e ≠ .diverged) (h : Inv w.f)
    (hfuel : w.f.n + 2 < fuel) (hn : n < w.f.n) (hnd : pre.Nodup) (hlt : ∀ y ∈ pre, y < w.f.n)
    (hpar : ∀ y ∈ pre, w.f.parent y = none ∨ w.f.parent y = some n)
    (hatt : ∀ y ∈ pre, y ≠ n ∧ Spec.isAnc w.f y n = false)
    (hq : Quiet c w.cnt (loopWorld w n (pre ++ x :: post) pre).cnt)
    (hstep : setParent c fuel x (some (.node n)) (loopWorld w n (pre ++ x :: post) pre) =
      (.error e, w3))
    (hw3 : w3.f = (Spec.attachAll (Spec.delChildren w.f n).f n pre).1)
    (hqr : ∀ i k m, w3.cnt ≤ i → c.φ i k m = false) :
    (setChildrenNodes c (fuel + 1) n (pre ++ x :: post) w).1 = .error e ∧
    (setChildrenNodes c (fuel + 1) n (pre ++ x :: post) w).2.f = w.f := by
  obtain ⟨di, dn, dc, du, _, _⟩ := Spec.delChildren_props h n
  have hchD : ∀ y ∈ pre, ∀ j, (Spec.delChildren w.f n).f.up j n ≠ some y := by
    intro y hy j
    rw [du]
    exact h.chain_avoid_of_not_anc hn (hatt y hy).1 (hatt y hy).2 j
  simp only [loopWorld, World.adv_cnt, List.length_append, List.length_cons, List.length_nil] at hq
  -- the `_pre_attach_children` hook
  have e2 := hook_window (c := c) .preAttachChildren n (pre ++ x :: post)
    (w.adv (Spec.delChildren w.f n).f (Spec.delChildren w.f n).log)
    (hq _ _ _ (by simp only [World.adv_cnt]; omega) (by simp only [World.adv_cnt]; omega))
  rw [World.adv_f, World.adv_adv] at e2
  -- the loop over `pre`
  have e3 := attachLoop_window (c := c) fuel n pre
    (w.adv (Spec.delChildren w.f n).f ((Spec.delChildren w.f n).log ++
      [Spec.ev .preAttachChildren n (pre ++ x :: post) (Spec.delChildren w.f n).f])) []
    (by simpa using di) (by simp only [World.adv_f]; omega) (by simp only [World.adv_f]; omega)
    hnd (fun y hy => by simp only [World.adv_f]; rw [dn]; exact hlt y hy)
    (by simpa using dc) (fun _ _ hm => by simp at hm) (by simpa using hchD)
    (by
      apply hq.mono
      · simp only [World.adv_cnt]; omega
      · simp only [World.adv_cnt, World.adv_f, List.length_append, List.length_cons,
          List.length_nil]; omega)
  rw [World.adv_f, World.adv_adv] at e3
  have e4 := forM'_prefix pre (x :: post) _ _ e3
  have e5 : forM' (pre ++ x :: post) (fun x => setParent c fuel x (some (.node n)))
      (w.adv (Spec.delChildren w.f n).f ((Spec.delChildren w.f n).log ++
        [Spec.ev .preAttachChildren n (pre ++ x :: post) (Spec.delChildren w.f n).f])) =
      (.error e, w3) := by
    rw [e4]
    simp only [forM']
    exact M.seq_err hstep
  have ht := M.seq_err (b := assertM c (fun f => (f.children n).length == (pre ++ x :: post).length))
    (M.seq_err (b := hook c .postAttachChildren n (pre ++ x :: post)) ((M.seq_ok e2).trans e5))
  exact setChildrenNodes_restore fuel n (pre ++ x :: post) pre w w3 e he h hfuel hn hnd hlt hpar hatt
    (hq.mono (Nat.le_refl _) (by omega)) ht hw3 hqr


theorem loopWorld_f (w : World) (n : Nat) (xs pre : List Nat) :
    (loopWorld w n xs pre).f = (Spec.attachAll (Spec.delChildren w.f n).f n pre).1 := rfl

/-- **A2, hook case**: the `_pre_attach` hook of the element `x` of the new children tuple raises
(once); `x` and every element before it was parentless or a child of `n` before the call (¬K3).
The call raises that exception and every link is as before. -/
theorem setChildrenNodes_preAttach_veto {c : Cfg} (fuel n : Nat) (pre : List Nat) (x : Nat)
    (post : List Nat) (w : World) (h : Inv w.f) (hfuel : w.f.n + 2 < fuel) (hn : n < w.f.n)
    (hnd : (pre ++ [x]).Nodup) (hlt : ∀ y ∈ pre ++ [x], y < w.f.n)
    (hpar : ∀ y ∈ pre ++ [x], w.f.parent y = none ∨ w.f.parent y = some n)
    (hatt : ∀ y ∈ pre ++ [x], y ≠ n ∧ Spec.isAnc w.f y n = false) (i0 : Nat)
    (hi0 : i0 = (loopWorld w n (pre ++ x :: post) pre).cnt)
    (hbefore : Quiet c w.cnt i0) (hat : c.φ i0 .preAttach x = true)
    (hafter : ∀ i k m, i0 < i → c.φ i k m = false) :
    (setChildrenNodes c (fuel + 1) n (pre ++ x :: post) w).1 = .error (.hook i0 .preAttach x) ∧
    (setChildrenNodes c (fuel + 1) n (pre ++ x :: post) w).2.f = w.f := by
  subst hi0
  have hx : x ∈ pre ++ [x] := by simp
  have hsub : ∀ y ∈ pre, y ∈ pre ++ [x] := fun y hy => by simp [hy]
  have hnd' : pre.Nodup ∧ x ∉ pre := by
    rw [List.nodup_append] at hnd
    exact ⟨hnd.1, fun hm => hnd.2.2 x hm x (by simp) rfl⟩
  obtain ⟨ai, an, ac, ap, au, _, _⟩ := Spec.restore_spec h hn pre hnd'.1 (fun y hy => hlt y (hsub y hy))
    (fun y hy => hpar y (hsub y hy)) (fun y hy => hatt y (hsub y hy)) c.fl
  generalize hW : loopWorld w n (pre ++ x :: post) pre = W at hbefore hat hafter ⊢
  have hWf : W.f = (Spec.attachAll (Spec.delChildren w.f n).f n pre).1 := by rw [← hW]; rfl
  rw [← hWf] at ai an ac ap au
  have hpx : W.f.parent x = none := by
    rw [ap]
    rcases hpar x hx with e | e <;> simp [hnd'.2, e]
  have hcl := checkLoop_pass (w := W) ai fuel x n (by omega) (by omega)
    (fun e => (hatt x hx).1 e.symm)
    (fun j => by rw [au]; exact h.chain_avoid_of_not_anc hn (hatt x hx).1 (hatt x hx).2 j)
  have hm : x ∉ W.f.children n := by rw [ac]; exact hnd'.2
  have hstep : setParent c fuel x (some (.node n)) W =
      (.error (.hook W.cnt .preAttach x), W.adv W.f [Spec.ev .preAttach x [n] W.f]) := by
    unfold setParent
    simp only [hpx, reduceCtorEq, if_false]
    have a1 : (checkLoop fuel x (some n) ⨾ detach c x none) W = (.ok (), W) :=
      (M.seq_ok hcl).trans rfl
    rw [M.seq_ok a1, attach_cases c x n W hm, if_pos hat]
  refine setChildrenNodes_attach_step_fail fuel n pre x post w _ _ (by intro e; cases e) h hfuel hn
    hnd'.1 (fun y hy => hlt y (hsub y hy)) (fun y hy => hpar y (hsub y hy))
    (fun y hy => hatt y (hsub y hy)) (by rw [hW]; exact hbefore) (by rw [hW]; exact hstep)
    (by rw [World.adv_f, hWf]) ?_
  intro i k m hi
  apply hafter
  simp only [World.adv_cnt, List.length_cons, List.length_nil] at hi
  omega

/-- **A2, `LoopError` case**: no hook raises; the element `x` of the new children tuple is `n` itself
or an ancestor of `n`; every element before it was parentless or a child of `n` before the call
(¬K3).  The call raises `LoopError` and every link is as before. -/
theorem setChildrenNodes_loopError_restore {c : Cfg} (fuel n : Nat) (pre : List Nat) (x : Nat)
    (post : List Nat) (w : World) (h : Inv w.f) (hfuel : w.f.n + 2 < fuel) (hn : n < w.f.n)
    (hnd : pre.Nodup) (hlt : ∀ y ∈ pre, y < w.f.n)
    (hpar : ∀ y ∈ pre, w.f.parent y = none ∨ w.f.parent y = some n)
    (hatt : ∀ y ∈ pre, y ≠ n ∧ Spec.isAnc w.f y n = false)
    (hbad : x = n ∨ Spec.isAnc w.f x n = true)
    (hq : ∀ i k m, w.cnt ≤ i → c.φ i k m = false) :
    (setChildrenNodes c (fuel + 1) n (pre ++ x :: post) w).1 = .error .loopError ∧
    (setChildrenNodes c (fuel + 1) n (pre ++ x :: post) w).2.f = w.f := by
  obtain ⟨ai, an, ac, ap, au, _, _⟩ := Spec.restore_spec h hn pre hnd hlt hpar hatt c.fl
  generalize hW : loopWorld w n (pre ++ x :: post) pre = W
  have hWf : W.f = (Spec.attachAll (Spec.delChildren w.f n).f n pre).1 := by rw [← hW]; rfl
  have hWc : w.cnt ≤ W.cnt := by rw [← hW]; simp only [loopWorld, World.adv_cnt]; omega
  rw [← hWf] at ai an ac ap au
  have hup : ∃ j, W.f.up j n = some x := by
    rcases hbad with e | e
    · exact ⟨0, by simp [up, e]⟩
    · obtain ⟨k, _, hk⟩ := (h.isAnc_iff hn).1 e
      exact ⟨k, by rw [au]; exact hk⟩
  have hne : W.f.parent x ≠ some n := by
    intro hp
    obtain ⟨j, hj⟩ := hup
    have := up_add j 1 n x hj
    rw [show W.f.up 1 x = some n by simp [up, hp]] at this
    exact ai.no_self_ancestor n (j + 1) (by omega) this
  have hcl := checkLoop_refuse (w := W) ai fuel x n (by omega) (by omega) hup
  have hstep : setParent c fuel x (some (.node n)) W = (.error .loopError, W) := by
    unfold setParent
    simp only [hne, if_false]
    exact M.seq_err (M.seq_err hcl)
  exact setChildrenNodes_attach_step_fail fuel n pre x post w W _ (by intro e; cases e) h hfuel hn
    hnd hlt hpar hatt (fun i k m hi _ => hq i k m hi) (by rw [hW]; exact hstep) hWf
    (fun i k m hi => hq i k m (Nat.le_trans hWc hi))


/-- **A2, `_pre_detach` case**: the element `x` has another parent `q ≠ n`; its `_pre_detach` hook
raises (once) when the attach loop is about to take it away from `q`; every element before it was
parentless or a child of `n` before the call (¬K3).  The call raises that exception and every link
is as before. -/
theorem setChildrenNodes_preDetach_veto {c : Cfg} (fuel n : Nat) (pre : List Nat) (x q : Nat)
    (post : List Nat) (w : World) (h : Inv w.f) (hfuel : w.f.n + 2 < fuel) (hn : n < w.f.n)
    (hnd : pre.Nodup) (hlt : ∀ y ∈ pre, y < w.f.n)
    (hpar : ∀ y ∈ pre, w.f.parent y = none ∨ w.f.parent y = some n)
    (hatt : ∀ y ∈ pre, y ≠ n ∧ Spec.isAnc w.f y n = false)
    (hxq : w.f.parent x = some q) (hqn : q ≠ n) (hxatt : x ≠ n ∧ Spec.isAnc w.f x n = false)
    (i0 : Nat) (hi0 : i0 = (loopWorld w n (pre ++ x :: post) pre).cnt)
    (hbefore : Quiet c w.cnt i0) (hat : c.φ i0 .preDetach x = true)
    (hafter : ∀ i k m, i0 < i → c.φ i k m = false) :
    (setChildrenNodes c (fuel + 1) n (pre ++ x :: post) w).1 = .error (.hook i0 .preDetach x) ∧
    (setChildrenNodes c (fuel + 1) n (pre ++ x :: post) w).2.f = w.f := by
  subst hi0
  have hxpre : x ∉ pre := by
    intro hm
    rcases hpar x hm with e | e
    · rw [hxq] at e; cases e
    · rw [hxq] at e; exact hqn (Option.some.inj e)
  obtain ⟨ai, an, ac, ap, au, _, _⟩ := Spec.restore_spec h hn pre hnd hlt hpar hatt c.fl
  generalize hW : loopWorld w n (pre ++ x :: post) pre = W at hbefore hat hafter ⊢
  have hWf : W.f = (Spec.attachAll (Spec.delChildren w.f n).f n pre).1 := by rw [← hW]; rfl
  rw [← hWf] at ai an ac ap au
  have hqn' : (some q : Option Nat) ≠ some n := fun e => hqn (Option.some.inj e)
  have hpx : W.f.parent x = some q := by
    rw [ap]
    simp [hxpre, hxq, hqn]
  have hcl := checkLoop_pass (w := W) ai fuel x n (by omega) (by omega)
    (fun e => hxatt.1 e.symm)
    (fun j => by rw [au]; exact h.chain_avoid_of_not_anc hn hxatt.1 hxatt.2 j)
  have hm : x ∈ W.f.children q := (ai.bidir x q).1 hpx
  have hstep : setParent c fuel x (some (.node n)) W =
      (.error (.hook W.cnt .preDetach x), W.adv W.f [Spec.ev .preDetach x [q] W.f]) := by
    unfold setParent
    simp only [hpx, hqn', if_false]
    have a1 : (checkLoop fuel x (some n) ⨾ detach c x (some q)) W =
        (.error (.hook W.cnt .preDetach x), W.adv W.f [Spec.ev .preDetach x [q] W.f]) := by
      rw [M.seq_ok hcl, detach_cases c x q W hm, if_pos hat]
    exact M.seq_err a1
  refine setChildrenNodes_attach_step_fail fuel n pre x post w _ _ (by intro e; cases e) h hfuel hn
    hnd hlt hpar hatt (by rw [hW]; exact hbefore) (by rw [hW]; exact hstep)
    (by rw [World.adv_f, hWf]) ?_
  intro i k m hi
  apply hafter
  simp only [World.adv_cnt, List.length_cons, List.length_nil] at hi
  omega


/-! ## the invocation numbers in closed form -/

theorem Spec.detachAll_log_length : ∀ (cs : List Nat) (s : Forest), cs.Nodup →
    (∀ c ∈ cs, s.parent c ≠ none) → (Spec.detachAll s cs).2.length = 2 * cs.length := by
  intro cs
  induction cs with
  | nil => intro s _ _; rfl
  | cons c cs ih =>
    intro s hnd hp
    rw [List.nodup_cons] at hnd
    have h1 : (Spec.detachLog s c).length = 2 := by
      cases hq : s.parent c with
      | none => exact absurd hq (hp c (by simp))
      | some q => simp [Spec.detachLog, hq]
    have h2 := ih (Spec.detached s c) hnd.2 (fun c' hc' => by
      rw [Spec.detached_parent]
      have : c' ≠ c := fun e => hnd.1 (e ▸ hc')
      simp only [this, if_false]
      exact hp c' (by simp [hc']))
    simp only [Spec.detachAll, List.length_append, h1, h2, List.length_cons]
    omega

theorem Spec.delChildren_log_length {s : Forest} (h : Inv s) (n : Nat) :
    (Spec.delChildren s n).log.length = 2 * (s.children n).length + 2 := by
  have := Spec.detachAll_log_length (s.children n) s (h.nodup n) (fun c hc => by
    rw [(h.bidir c n).2 hc]; exact fun e => by cases e)
  simp only [Spec.delChildren_log, List.length_append, List.length_cons, List.length_nil, this]
  omega

theorem Spec.attachAll_log_length (n : Nat) : ∀ (pre : List Nat) (s : Forest), pre.Nodup →
    (∀ y ∈ pre, s.parent y = none) → (Spec.attachAll s n pre).2.length = 2 * pre.length := by
  intro pre
  induction pre with
  | nil => intro s _ _; rfl
  | cons x pre ih =>
    intro s hnd hp
    rw [List.nodup_cons] at hnd
    have h1 : Spec.detachLog s x = [] := Spec.detachLog_root (hp x (by simp))
    have h2 := ih (Spec.moved s x n) hnd.2 (fun y hy => by
      have hyx : y ≠ x := fun e => hnd.1 (e ▸ hy)
      show (if y = x then some n else (Spec.detached s x).parent y) = none
      rw [Spec.detached_parent]
      simp only [hyx, if_false]
      exact hp y (by simp [hy]))
    rw [Spec.attachAll_cons]
    simp only [h1, List.nil_append, List.length_append, Spec.attachLog, List.length_cons,
      List.length_nil, h2]
    omega

/-- the invocation number at which the attach loop reaches the element after `pre` -/
theorem loopWorld_cnt {w : World} (h : Inv w.f) (n : Nat) (xs pre : List Nat) (hnd : pre.Nodup)
    (hpar : ∀ y ∈ pre, w.f.parent y = none ∨ w.f.parent y = some n) :
    (loopWorld w n xs pre).cnt = w.cnt + 2 * (w.f.children n).length + 3 + 2 * pre.length := by
  obtain ⟨_, _, _, _, dp, _⟩ := Spec.delChildren_props h n
  have h1 := Spec.delChildren_log_length h n
  have h2 := Spec.attachAll_log_length n pre (Spec.delChildren w.f n).f hnd (fun y hy => by
    rw [dp]
    rcases hpar y hy with e | e <;> simp [e])
  simp only [loopWorld, World.adv_cnt, List.length_append, List.length_cons, List.length_nil, h1, h2]
  omega


/-! ## what an accepted children tuple looks like -/

theorem checkChildren_ok {fl : Flavor} : ∀ (as : List Arg) (seen : List Nat),
    checkChildren fl seen as = .ok () →
      (argsToNodes as).Nodup ∧ (∀ x ∈ argsToNodes as, x ∉ seen) ∧
      as = (argsToNodes as).map Arg.node := by
  intro as
  induction as with
  | nil => intro seen _; simp [argsToNodes]
  | cons a as ih =>
    intro seen hc
    cases a with
    | nonNode => cases fl <;> simp [checkChildren] at hc
    | node k =>
      simp only [checkChildren] at hc
      by_cases hk : seen.contains k = true
      · simp only [hk, if_true] at hc; cases hc
      · simp only [hk, Bool.false_eq_true, if_false] at hc
        obtain ⟨h1, h2, h3⟩ := ih (k :: seen) hc
        simp only [argsToNodes, List.nodup_cons, List.mem_cons, List.map_cons]
        refine ⟨⟨fun hm => h2 k hm (by simp), h1⟩, ?_, by rw [← h3]⟩
        intro x hx
        rcases hx with e | hx
        · subst e; simpa using hk
        · exact fun hm => h2 x hx (by simp [hm])

end Anytree
