import Anytree.Lemmas.ForestRun
/-!
The children setter without hook faults: the attach loop, the success path of
`setChildrenNodes` / `setChildren`, and the closed form `Spec.setChildren` spelled out as
`Spec.childrenAssigned`.
-/
namespace Anytree
open Forest

/-! ## small monad and world facts -/

@[simp] theorem World.adv_f (w : World) (f : Forest) (evs : List Event) : (w.adv f evs).f = f := rfl
@[simp] theorem World.adv_log (w : World) (f : Forest) (evs : List Event) :
    (w.adv f evs).log = w.log ++ evs := rfl
@[simp] theorem World.adv_cnt (w : World) (f : Forest) (evs : List Event) :
    (w.adv f evs).cnt = w.cnt + evs.length := rfl

theorem M.seq_ok {a b : M} {w w' : World} (h : a w = (.ok (), w')) : (a ⨾ b) w = b w' := by
  simp [M.seq, h]

theorem M.tryCatch_ok {a : M} {hd : Err → M} {w w' : World} (h : a w = (.ok (), w')) :
    M.tryCatch a hd w = (.ok (), w') := by
  simp [M.tryCatch, h]

/-! ## chains that avoid the moved node are unchanged -/

namespace Forest

theorem up_detachRaw_avoid {s : Forest} {n p : Nat} :
    ∀ k y, (∀ j, s.up j y ≠ some n) → (s.detachRaw n p).up k y = s.up k y := by
  intro k
  induction k with
  | zero => intro y _; rfl
  | succ k ih =>
    intro y hy
    have hyn : y ≠ n := by intro e; exact hy 0 (by simp [up, e])
    simp only [up, detachRaw_parent, hyn, if_false]
    cases hp : s.parent y with
    | none => rfl
    | some q =>
      simp only []
      apply ih
      intro j hj
      apply hy (j+1)
      simp [up, hp, hj]

end Forest

theorem Spec.up_detached_avoid {s : Forest} {x y : Nat} (hy : ∀ j, s.up j y ≠ some x) (k : Nat) :
    (Spec.detached s x).up k y = s.up k y := by
  cases hp : s.parent x with
  | none => rw [Spec.detached_root hp]
  | some q => rw [Spec.detached_eq hp]; exact up_detachRaw_avoid k y hy

theorem Spec.detached_parent (s : Forest) (x y : Nat) :
    (Spec.detached s x).parent y = if y = x then none else s.parent y := by
  cases hp : s.parent x with
  | none =>
    rw [Spec.detached_root hp]
    by_cases h : y = x
    · simp [h, hp]
    · simp [h]
  | some q => rw [Spec.detached_eq hp]; rfl

/-! ## one iteration of the attach loop -/

/-- the links after `x.parent = n` (from a state in which that is a genuine, loop-free move) -/
def Spec.moved (s : Forest) (x n : Nat) : Forest := Spec.attached (Spec.detached s x) x n

theorem Spec.moved_eq (s : Forest) (x n : Nat) :
    Spec.moved s x n = (Spec.detached s x).attachRaw x n := by
  simp [Spec.moved, Spec.attached_eq]

theorem Spec.attachAll_cons (s : Forest) (n x : Nat) (xs : List Nat) :
    Spec.attachAll s n (x :: xs) =
      ((Spec.attachAll (Spec.moved s x n) n xs).1,
        Spec.detachLog s x ++ Spec.attachLog (Spec.detached s x) x n ++
          (Spec.attachAll (Spec.moved s x n) n xs).2) := rfl

theorem Spec.moved_props {s : Forest} (h : Inv s) {x n : Nat} (hx : x < s.n) (hn : n < s.n)
    (hnot : x ∉ s.children n) (hch : ∀ j, s.up j n ≠ some x) :
    Inv (Spec.moved s x n) ∧ (Spec.moved s x n).n = s.n ∧
    (Spec.moved s x n).children n = s.children n ++ [x] ∧
    (∀ j, (Spec.moved s x n).up j n = s.up j n) ∧
    (∀ y, (Spec.moved s x n).parent y = if y = x then some n else s.parent y) ∧
    (∀ q, q ≠ n → (Spec.moved s x n).children q = (s.children q).filter (· != x)) := by
  have h1 : Inv (Spec.detached s x) := Spec.inv_detached h x
  have hup1 : ∀ j, (Spec.detached s x).up j n = s.up j n := Spec.up_detached_avoid hch
  have hroot : (Spec.detached s x).parent x = none := by rw [Spec.detached_parent]; simp
  have hn1 : (Spec.detached s x).n = s.n := Spec.detached_n s x
  have hloop : ∀ j, (Spec.detached s x).up j n ≠ some x := by intro j; rw [hup1]; exact hch j
  rw [Spec.moved_eq]
  refine ⟨?_, ?_, ?_, ?_, ?_, ?_⟩
  · exact inv_attachRaw h1 hroot hloop (by omega) (by omega)
  · rw [attachRaw_n, hn1]
  · rw [attachRaw_children, if_pos rfl, Spec.detached_children h]
    congr 1
    apply List.filter_eq_self.mpr
    intro a ha
    simp only [bne_iff_ne, ne_eq]
    intro e; subst e; exact hnot ha
  · intro j; rw [up_attachRaw_avoid j n hloop, hup1]
  · intro y
    rw [attachRaw_parent, Spec.detached_parent]
    by_cases hy : y = x
    · simp [hy]
    · simp [hy]
  · intro q hq
    rw [attachRaw_children, if_neg hq, Spec.detached_children h]

theorem Spec.setParent_step {s : Forest} (h : Inv s) (fl : Flavor) {x n : Nat} (hn : n < s.n)
    (hnot : x ∉ s.children n) (hch : ∀ j, s.up j n ≠ some x) :
    Spec.setParent fl s x (some (.node n)) =
      ⟨.ok (), Spec.moved s x n,
        Spec.detachLog s x ++ Spec.attachLog (Spec.detached s x) x n⟩ := by
  have hne : s.parent x ≠ some n := fun e => hnot ((h.bidir x n).1 e)
  have hnx : n ≠ x := fun e => hch 0 (by simp [up, e])
  have hanc : Spec.isAnc s x n = false := by
    cases ha : Spec.isAnc s x n with
    | false => rfl
    | true =>
      obtain ⟨k, _, hk⟩ := (h.isAnc_iff hn).1 ha
      exact absurd hk (hch k)
  simp [Spec.setParent, hne, hnx, hanc, Spec.moved]

/-! ## the whole attach loop, specification side -/

theorem Spec.attachAll_props (n : Nat) :
    ∀ (xs : List Nat) (s : Forest) (pre : List Nat), Inv s → n < s.n → xs.Nodup →
      (∀ x ∈ xs, x < s.n) → s.children n = pre → (∀ x ∈ xs, x ∉ pre) →
      (∀ x ∈ xs, ∀ j, s.up j n ≠ some x) →
      Inv (Spec.attachAll s n xs).1 ∧ (Spec.attachAll s n xs).1.n = s.n ∧
      (Spec.attachAll s n xs).1.children n = pre ++ xs ∧
      (∀ j, (Spec.attachAll s n xs).1.up j n = s.up j n) ∧
      (∀ y, (Spec.attachAll s n xs).1.parent y = if xs.contains y then some n else s.parent y) ∧
      (∀ q, q ≠ n → (Spec.attachAll s n xs).1.children q =
        (s.children q).filter (fun c => !xs.contains c)) := by
  intro xs
  induction xs with
  | nil =>
    intro s pre h _ _ _ hpre _ _
    refine ⟨h, rfl, by simp [Spec.attachAll, hpre], fun _ => rfl, fun y => by simp [Spec.attachAll],
      ?_⟩
    intro q _
    simp only [Spec.attachAll, List.contains_nil, Bool.not_false]
    exact (List.filter_eq_self.mpr (fun _ _ => rfl)).symm
  | cons x xs ih =>
    intro s pre h hn hnd hlt hpre hdisj hch
    have hx : x ∈ x :: xs := by simp
    have hnot : x ∉ s.children n := by rw [hpre]; exact hdisj x hx
    obtain ⟨i2, n2, c2, u2, p2, q2⟩ := Spec.moved_props h (hlt x hx) hn hnot (hch x hx)
    rw [List.nodup_cons] at hnd
    have hrec := ih (Spec.moved s x n) (pre ++ [x]) i2 (by omega) hnd.2
      (fun y hy => by rw [n2]; exact hlt y (by simp [hy]))
      (by rw [c2, hpre])
      (fun y hy hm => by
        simp only [List.mem_append, List.mem_singleton] at hm
        cases hm with
        | inl hm => exact hdisj y (by simp [hy]) hm
        | inr e => subst e; exact hnd.1 hy)
      (fun y hy j => by rw [u2]; exact hch y (by simp [hy]) j)
    obtain ⟨i3, n3, c3, u3, p3, q3⟩ := hrec
    rw [Spec.attachAll_cons]
    refine ⟨i3, by rw [n3, n2], by rw [c3]; simp, fun j => by rw [u3, u2], ?_, ?_⟩
    · intro y
      rw [p3, p2]
      by_cases hyx : y = x
      · simp [hyx]
      · simp [hyx]
    · intro q hq
      rw [q3 q hq, q2 q hq, List.filter_filter]
      apply List.filter_congr
      intro a _
      simp only [List.contains_cons, Bool.not_or, Bool.and_comm]
      cases hx : (a == x) <;> simp [hx, bne]

/-! ## part 1: the attach loop of the mirror -/

/-- generalised form: `n` already has the children `pre`, disjoint from `xs` -/
theorem attachLoop_nf_gen {c : Cfg} (hφ : c.φ = noFaults) (fuel n : Nat) :
    ∀ (xs : List Nat) (w : World) (pre : List Nat), Inv w.f → w.f.n < fuel → n < w.f.n →
      xs.Nodup → (∀ x ∈ xs, x < w.f.n) → w.f.children n = pre → (∀ x ∈ xs, x ∉ pre) →
      (∀ x ∈ xs, ∀ j, w.f.up j n ≠ some x) →
      forM' xs (fun x => setParent c fuel x (some (.node n))) w =
        (.ok (), w.adv (Spec.attachAll w.f n xs).1 (Spec.attachAll w.f n xs).2) := by
  intro xs
  induction xs with
  | nil => intro w _ _ _ _ _ _ _ _ _; simp [forM', M.ok, Spec.attachAll, World.adv_nil]
  | cons x xs ih =>
    intro w pre h hf hn hnd hlt hpre hdisj hch
    have hx : x ∈ x :: xs := by simp
    have hnot : x ∉ w.f.children n := by rw [hpre]; exact hdisj x hx
    have hstep := Spec.setParent_step h c.fl hn hnot (hch x hx)
    obtain ⟨i2, n2, c2, u2, _, _⟩ := Spec.moved_props h (hlt x hx) hn hnot (hch x hx)
    rw [List.nodup_cons] at hnd
    have hrec := ih (w.adv (Spec.moved w.f x n)
        (Spec.detachLog w.f x ++ Spec.attachLog (Spec.detached w.f x) x n)) (pre ++ [x])
      (by simpa using i2) (by simpa [n2] using hf) (by simpa [n2] using hn) hnd.2
      (fun y hy => by simpa [n2] using hlt y (by simp [hy]))
      (by simp [c2, hpre])
      (fun y hy hm => by
        simp only [List.mem_append, List.mem_singleton] at hm
        cases hm with
        | inl hm => exact hdisj y (by simp [hy]) hm
        | inr e => subst e; exact hnd.1 hy)
      (fun y hy j => by simp only [World.adv_f]; rw [u2]; exact hch y (by simp [hy]) j)
    have hsp := setParent_nf hφ fuel x (some (.node n)) w h hn hf
    rw [hstep] at hsp
    simp only [forM']
    rw [M.seq_ok hsp, hrec, World.adv_f, World.adv_adv, Spec.attachAll_cons]

/-- **part 1**: the attach loop right after the delete phase -/
theorem attachLoop_nf {c : Cfg} (hφ : c.φ = noFaults) (fuel n : Nat) (xs : List Nat) (w : World)
    (h : Inv w.f) (hfuel : w.f.n < fuel) (hn : n < w.f.n) (hnd : xs.Nodup)
    (hlt : ∀ x ∈ xs, x < w.f.n) (hempty : w.f.children n = [])
    (hch : ∀ x ∈ xs, ∀ j, w.f.up j n ≠ some x) :
    forM' xs (fun x => setParent c fuel x (some (.node n))) w =
        (.ok (), w.adv (Spec.attachAll w.f n xs).1 (Spec.attachAll w.f n xs).2) ∧
    Inv (Spec.attachAll w.f n xs).1 ∧ (Spec.attachAll w.f n xs).1.n = w.f.n ∧
    (Spec.attachAll w.f n xs).1.children n = xs := by
  have hp := Spec.attachAll_props n xs w.f [] h hn hnd hlt hempty (fun _ _ hm => by simp at hm) hch
  refine ⟨attachLoop_nf_gen hφ fuel n xs w [] h hfuel hn hnd hlt hempty
    (fun _ _ hm => by simp at hm) hch, hp.1, hp.2.1, ?_⟩
  simpa using hp.2.2.1

/-! ## the delete phase, specification side -/

theorem Spec.delChildren_f (s : Forest) (n : Nat) :
    (Spec.delChildren s n).f = (Spec.detachAll s (s.children n)).1 := rfl

theorem Spec.delChildren_log (s : Forest) (n : Nat) :
    (Spec.delChildren s n).log =
      [Spec.ev .preDetachChildren n (s.children n) s] ++ (Spec.detachAll s (s.children n)).2 ++
        [Spec.ev .postDetachChildren n (s.children n) (Spec.detachAll s (s.children n)).1] := rfl

theorem Spec.up_detachAll_avoid {y : Nat} :
    ∀ (cs : List Nat) (s : Forest), (∀ c ∈ cs, ∀ j, s.up j y ≠ some c) →
      ∀ k, (Spec.detachAll s cs).1.up k y = s.up k y := by
  intro cs
  induction cs with
  | nil => intro s _ k; rfl
  | cons c cs ih =>
    intro s hc k
    have h1 : ∀ j, (Spec.detached s c).up j y = s.up j y :=
      Spec.up_detached_avoid (hc c (by simp))
    simp only [Spec.detachAll]
    rw [ih (Spec.detached s c) (fun c' hc' j => by rw [h1]; exact hc c' (by simp [hc']) j), h1]

theorem Spec.detachAll_parent (y : Nat) :
    ∀ (cs : List Nat) (s : Forest),
      (Spec.detachAll s cs).1.parent y = if cs.contains y then none else s.parent y := by
  intro cs
  induction cs with
  | nil => intro s; simp [Spec.detachAll]
  | cons c cs ih =>
    intro s
    simp only [Spec.detachAll]
    rw [ih, Spec.detached_parent]
    by_cases hyc : y = c
    · simp [hyc]
    · simp [hyc]

/-- a child of `n` is never on the parent chain of `n` -/
theorem Inv.child_not_on_chain {s : Forest} (h : Inv s) {n c : Nat} (hc : c ∈ s.children n) :
    ∀ j, s.up j n ≠ some c := by
  intro j hj
  have hp : s.parent c = some n := (h.bidir c n).2 hc
  have := up_add j 1 n c hj
  rw [show s.up 1 c = some n by simp [up, hp]] at this
  exact h.no_self_ancestor n (j + 1) (by omega) this

theorem Spec.delChildren_props {s : Forest} (h : Inv s) (n : Nat) :
    Inv (Spec.delChildren s n).f ∧ (Spec.delChildren s n).f.n = s.n ∧
    (Spec.delChildren s n).f.children n = [] ∧
    (∀ j, (Spec.delChildren s n).f.up j n = s.up j n) ∧
    (∀ y, (Spec.delChildren s n).f.parent y = if s.parent y = some n then none else s.parent y) ∧
    (∀ q, q ≠ n → (Spec.delChildren s n).f.children q = s.children q) := by
  rw [Spec.delChildren_f]
  refine ⟨Spec.inv_detachAll h _, Spec.detachAll_n _ _, ?_, ?_, ?_, ?_⟩
  · rw [Spec.detachAll_children h]
    apply List.filter_eq_nil_iff.mpr
    intro a ha; simp [ha]
  · exact Spec.up_detachAll_avoid _ s (fun c hc => h.child_not_on_chain hc)
  · intro y
    rw [Spec.detachAll_parent]
    by_cases hy : s.parent y = some n
    · simp [hy, (h.bidir y n).1 hy]
    · have : y ∉ s.children n := fun hm => hy ((h.bidir y n).2 hm)
      simp [hy, this]
  · intro q hq
    rw [Spec.detachAll_children h]
    apply List.filter_eq_self.mpr
    intro a ha
    simp only [Bool.not_eq_eq_eq_not, Bool.not_true, List.contains_eq_mem, decide_eq_false_iff_not]
    intro ha'
    have h1 := (h.bidir a q).2 ha
    have h2 := (h.bidir a n).2 ha'
    rw [h1] at h2; exact hq (Option.some.inj h2)

/-! ## the argument checks on a duplicate-free list of nodes -/

theorem Spec.firstBad_nodes (fl : Flavor) (xs : List Nat) :
    ∀ seen : List Nat, xs.Nodup → (∀ x ∈ xs, x ∉ seen) →
      Spec.firstBad fl seen (xs.map Arg.node) = none := by
  induction xs with
  | nil => intros; rfl
  | cons x xs ih =>
    intro seen hnd hd
    have hx : seen.contains x = false := by simpa using hd x (by simp)
    rw [List.nodup_cons] at hnd
    simp only [List.map_cons, Spec.firstBad, hx, Bool.false_eq_true, if_false]
    apply ih _ hnd.2
    intro y hy hys
    simp only [List.mem_cons] at hys
    cases hys with
    | inl e => subst e; exact hnd.1 hy
    | inr hys => exact hd y (by simp [hy]) hys

theorem checkChildren_nodes (fl : Flavor) (xs : List Nat) :
    ∀ seen : List Nat, xs.Nodup → (∀ x ∈ xs, x ∉ seen) →
      checkChildren fl seen (xs.map Arg.node) = .ok () := by
  induction xs with
  | nil => intros; rfl
  | cons x xs ih =>
    intro seen hnd hd
    have hx : seen.contains x = false := by simpa using hd x (by simp)
    rw [List.nodup_cons] at hnd
    simp only [List.map_cons, checkChildren, hx, Bool.false_eq_true, if_false]
    apply ih _ hnd.2
    intro y hy hys
    simp only [List.mem_cons] at hys
    cases hys with
    | inl e => subst e; exact hnd.1 hy
    | inr hys => exact hd y (by simp [hy]) hys

theorem argsToNodes_nodes (xs : List Nat) : argsToNodes (xs.map Arg.node) = xs := by
  induction xs with
  | nil => rfl
  | cons x xs ih => simp [argsToNodes, ih]

/-! ## the specification on its success path -/

theorem Spec.setChildren_ok (fl : Flavor) (s : Forest) (n : Nat) (xs : List Nat) (hnd : xs.Nodup)
    (hok : ∀ x ∈ xs, x ≠ n ∧ Spec.isAnc s x n = false) :
    Spec.setChildren fl s n (some (xs.map Arg.node)) =
      ⟨.ok (), (Spec.attachAll (Spec.delChildren s n).f n xs).1,
        (Spec.delChildren s n).log ++ [Spec.ev .preAttachChildren n xs (Spec.delChildren s n).f] ++
          (Spec.attachAll (Spec.delChildren s n).f n xs).2 ++
          [Spec.ev .postAttachChildren n xs (Spec.attachAll (Spec.delChildren s n).f n xs).1]⟩ := by
  have hany : xs.any (fun x => decide (x = n) || Spec.isAnc s x n) = false := by
    rw [List.any_eq_false]
    intro x hx
    simp [(hok x hx).1, (hok x hx).2]
  simp only [Spec.setChildren, Spec.firstBad_nodes fl xs [] hnd (fun _ _ hm => by simp at hm),
    argsToNodes_nodes, hany, Bool.false_eq_true, if_false]

/-- the chain hypothesis of the attach loop from the refusal test of the specification -/
theorem Inv.chain_avoid_of_not_anc {s : Forest} (h : Inv s) {n x : Nat} (hn : n < s.n)
    (hxn : x ≠ n) (hanc : Spec.isAnc s x n = false) : ∀ j, s.up j n ≠ some x := by
  intro j hj
  cases j with
  | zero => simp [up] at hj; exact hxn hj.symm
  | succ j =>
    have := (h.isAnc_iff hn).2 ⟨j + 1, by omega, hj⟩
    rw [hanc] at this; cases this

/-! ## part 2: the success path of the children setter -/

theorem setChildrenNodes_nf {c : Cfg} (hφ : c.φ = noFaults) (fuel n : Nat) (xs : List Nat)
    (w : World) (h : Inv w.f) (hfuel : w.f.n + 2 < fuel) (hn : n < w.f.n) (hnd : xs.Nodup)
    (hlt : ∀ x ∈ xs, x < w.f.n) (hok : ∀ x ∈ xs, x ≠ n ∧ Spec.isAnc w.f x n = false) :
    setChildrenNodes c fuel n xs w =
      (.ok (), w.adv (Spec.setChildren c.fl w.f n (some (xs.map Arg.node))).f
                     (Spec.setChildren c.fl w.f n (some (xs.map Arg.node))).log) := by
  cases fuel with
  | zero => omega
  | succ fuel =>
    obtain ⟨di, dn, dc, du, _, _⟩ := Spec.delChildren_props h n
    have hch : ∀ x ∈ xs, ∀ j, (Spec.delChildren w.f n).f.up j n ≠ some x := by
      intro x hx j
      rw [du]
      exact h.chain_avoid_of_not_anc hn (hok x hx).1 (hok x hx).2 j
    have e1 := delChildren_nf hφ fuel n w h (by omega)
    have e2 := hook_nf hφ .preAttachChildren n xs
      (w.adv (Spec.delChildren w.f n).f (Spec.delChildren w.f n).log)
    rw [World.adv_f, World.adv_adv] at e2
    obtain ⟨e3, ai, an, ac⟩ := attachLoop_nf hφ fuel n xs
      (w.adv (Spec.delChildren w.f n).f ((Spec.delChildren w.f n).log ++
        [Spec.ev .preAttachChildren n xs (Spec.delChildren w.f n).f]))
      (by simpa using di) (by simp only [World.adv_f]; omega) (by simp only [World.adv_f]; omega)
      hnd (fun x hx => by simp only [World.adv_f]; rw [dn]; exact hlt x hx)
      (by simpa using dc) (by simpa using hch)
    rw [World.adv_f, World.adv_adv] at e3
    rw [World.adv_f] at ai an ac
    have e4 := hook_nf hφ .postAttachChildren n xs
      (w.adv (Spec.attachAll (Spec.delChildren w.f n).f n xs).1
        ((Spec.delChildren w.f n).log ++ [Spec.ev .preAttachChildren n xs (Spec.delChildren w.f n).f]
          ++ (Spec.attachAll (Spec.delChildren w.f n).f n xs).2))
    rw [World.adv_f, World.adv_adv] at e4
    have e5 : ∀ W : World, W.f = (Spec.attachAll (Spec.delChildren w.f n).f n xs).1 →
        assertM c (fun f => (f.children n).length == xs.length) W = (.ok (), W) := by
      intro W hW
      simp [assertM, hW, ac]
    have s1 := (M.seq_ok (b := forM' xs (fun x => setParent c fuel x (some (.node n)))) e2).trans e3
    have s2 := (M.seq_ok (b := hook c .postAttachChildren n xs) s1).trans e4
    have s3 := (M.seq_ok (b := assertM c (fun f => (f.children n).length == xs.length)) s2).trans
      (e5 _ (World.adv_f _ _ _))
    simp only [setChildrenNodes]
    rw [M.seq_ok e1, M.tryCatch_ok s3, Spec.setChildren_ok c.fl w.f n xs hnd hok]

/-- corollary for the public setter -/
theorem setChildren_nf {c : Cfg} (hφ : c.φ = noFaults) (fuel n : Nat) (xs : List Nat)
    (w : World) (h : Inv w.f) (hfuel : w.f.n + 2 < fuel) (hn : n < w.f.n) (hnd : xs.Nodup)
    (hlt : ∀ x ∈ xs, x < w.f.n) (hok : ∀ x ∈ xs, x ≠ n ∧ Spec.isAnc w.f x n = false) :
    setChildren c fuel n (some (xs.map Arg.node)) w =
      (.ok (), w.adv (Spec.setChildren c.fl w.f n (some (xs.map Arg.node))).f
                     (Spec.setChildren c.fl w.f n (some (xs.map Arg.node))).log) := by
  simp only [setChildren, checkChildren_nodes c.fl xs [] hnd (fun _ _ hm => by simp at hm),
    argsToNodes_nodes]
  exact setChildrenNodes_nf hφ fuel n xs w h hfuel hn hnd hlt hok

/-! ## part 3: the closed form in the words of the property -/

theorem Spec.setChildren_effect (fl : Flavor) (s : Forest) (h : Inv s) (n : Nat) (xs : List Nat)
    (hn : n < s.n) (hnd : xs.Nodup) (hlt : ∀ x ∈ xs, x < s.n)
    (hok : ∀ x ∈ xs, x ≠ n ∧ Spec.isAnc s x n = false) :
    let r := Spec.setChildren fl s n (some (xs.map Arg.node))
    r.res = .ok () ∧ r.f.children n = xs ∧
    (∀ y, r.f.parent y =
      if xs.contains y then some n else if s.parent y = some n then none else s.parent y) ∧
    (∀ q, q ≠ n → r.f.children q = (s.children q).filter (fun c => !xs.contains c)) := by
  obtain ⟨di, dn, dc, du, dp, dq⟩ := Spec.delChildren_props h n
  have hch : ∀ x ∈ xs, ∀ j, (Spec.delChildren s n).f.up j n ≠ some x := by
    intro x hx j
    rw [du]
    exact h.chain_avoid_of_not_anc hn (hok x hx).1 (hok x hx).2 j
  obtain ⟨_, _, ac, _, ap, aq⟩ := Spec.attachAll_props n xs (Spec.delChildren s n).f [] di
    (by omega) hnd (fun x hx => by rw [dn]; exact hlt x hx) dc (fun _ _ hm => by simp at hm) hch
  simp only [Spec.setChildren_ok fl s n xs hnd hok]
  refine ⟨trivial, by simpa using ac, ?_, ?_⟩
  · intro y; rw [ap, dp]
  · intro q hq; rw [aq q hq, dq q hq]

/-- … i.e. the result has exactly the links of `Spec.childrenAssigned` -/
theorem Spec.setChildren_eq_childrenAssigned (fl : Flavor) (s : Forest) (h : Inv s) (n : Nat)
    (xs : List Nat) (hn : n < s.n) (hnd : xs.Nodup) (hlt : ∀ x ∈ xs, x < s.n)
    (hok : ∀ x ∈ xs, x ≠ n ∧ Spec.isAnc s x n = false) :
    (Spec.setChildren fl s n (some (xs.map Arg.node))).f.n = (Spec.childrenAssigned s n xs).n ∧
    (∀ y, (Spec.setChildren fl s n (some (xs.map Arg.node))).f.parent y =
      (Spec.childrenAssigned s n xs).parent y) ∧
    (∀ q, (Spec.setChildren fl s n (some (xs.map Arg.node))).f.children q =
      (Spec.childrenAssigned s n xs).children q) := by
  obtain ⟨_, hc, hp, hq⟩ := Spec.setChildren_effect fl s h n xs hn hnd hlt hok
  refine ⟨?_, fun y => by rw [hp y]; rfl, ?_⟩
  · obtain ⟨di, dn, dc, du, _, _⟩ := Spec.delChildren_props h n
    have hch : ∀ x ∈ xs, ∀ j, (Spec.delChildren s n).f.up j n ≠ some x := by
      intro x hx j
      rw [du]
      exact h.chain_avoid_of_not_anc hn (hok x hx).1 (hok x hx).2 j
    obtain ⟨_, an, _⟩ := Spec.attachAll_props n xs (Spec.delChildren s n).f [] di
      (by omega) hnd (fun x hx => by rw [dn]; exact hlt x hx) dc (fun _ _ hm => by simp at hm) hch
    simp only [Spec.setChildren_ok fl s n xs hnd hok]
    rw [an, dn]; rfl
  · intro q
    by_cases hqn : q = n
    · subst hqn; rw [hc]; simp [Spec.childrenAssigned]
    · rw [hq q hqn]; simp [Spec.childrenAssigned, hqn]

end Anytree
