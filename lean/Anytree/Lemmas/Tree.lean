import Anytree.Model.Tree
/-! Helper lemmas about the textbook traversals of `Model/Tree.lean`. -/
namespace Anytree
namespace Tree
variable {α β : Type}

theorem preL_append (xs ys : List (Tree α)) : preL (xs ++ ys) = preL xs ++ preL ys := by
  induction xs with
  | nil => simp [preL]
  | cons x xs ih => simp [preL, ih]

theorem postL_append (xs ys : List (Tree α)) : postL (xs ++ ys) = postL xs ++ postL ys := by
  induction xs with
  | nil => simp [postL]
  | cons x xs ih => simp [postL, ih]

theorem atDepthL_append (k : Nat) (xs ys : List (Tree α)) :
    atDepthL k (xs ++ ys) = atDepthL k xs ++ atDepthL k ys := by
  induction xs with
  | nil => simp [atDepthL]
  | cons x xs ih => simp [atDepthL, ih]

theorem atDepthL_zero (ts : List (Tree α)) : atDepthL 0 ts = ts.map label := by
  induction ts with
  | nil => simp [atDepthL]
  | cons t ts ih => cases t; simp [atDepthL, atDepth, ih]

theorem atDepthL_succ (k : Nat) (ts : List (Tree α)) :
    atDepthL (k+1) ts = atDepthL k (ts.flatMap kids) := by
  induction ts with
  | nil => simp [atDepthL]
  | cons t ts ih => cases t; simp [atDepthL, atDepth, ih, atDepthL_append]

theorem heightL_append (xs ys : List (Tree α)) :
    heightL (xs ++ ys) = max (heightL xs) (heightL ys) := by
  induction xs with
  | nil => simp [heightL]
  | cons x xs ih => simp [heightL, ih, Nat.max_assoc]

theorem heightL_cons_eq (t : Tree α) (ts : List (Tree α)) :
    heightL (t :: ts) = 1 + heightL ((t :: ts).flatMap kids) := by
  induction ts generalizing t with
  | nil => cases t; simp [heightL, height]; omega
  | cons u us ih =>
    have h := ih u
    cases t with
    | node a cs =>
      simp only [heightL, height, List.flatMap_cons, kids_node, heightL_append] at h ⊢
      omega

theorem atDepthL_singleton (k : Nat) (t : Tree α) : atDepthL k [t] = atDepth k t := by
  simp [atDepthL]

theorem heightL_singleton (t : Tree α) : heightL [t] = height t + 1 := by
  simp [heightL]

/-- the levels of a forest -/
def levelsL (ts : List (Tree α)) : List (List α) :=
  (List.range (heightL ts)).map (fun k => atDepthL k ts)

theorem levels_eq_levelsL (t : Tree α) : levels t = levelsL [t] := by
  simp [levels, levelsL, heightL_singleton, atDepthL_singleton]

theorem levelsL_nil : levelsL ([] : List (Tree α)) = [] := by
  simp [levelsL, heightL]

theorem levelsL_cons (t : Tree α) (ts : List (Tree α)) :
    levelsL (t :: ts) = (t :: ts).map label :: levelsL ((t :: ts).flatMap kids) := by
  unfold levelsL
  rw [heightL_cons_eq, Nat.add_comm, List.range_succ_eq_map]
  simp only [List.map_cons, atDepthL_zero, List.map_map]
  congr 1
  apply List.map_congr_left
  intro k _
  simp [atDepthL_succ]

end Tree
end Anytree
