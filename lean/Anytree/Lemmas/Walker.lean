import Anytree.Spec.Walker
/-!
# Lemmas for C15: root paths are prefix chains, `__calc_common` on two prefix chains
-/
namespace Anytree
namespace WalkerLemmas
open Tree Walker Spec

/-! ## `Nav.climb` / `Nav.path` / `Nav.root` -/

theorem climb_nil : Nav.climb [] = [[]] := by
  rw [Nav.climb]; simp

theorem climb_concat (b : Addr) (i : Nat) : Nav.climb (b ++ [i]) = (b ++ [i]) :: Nav.climb b := by
  rw [Nav.climb]; simp

theorem root_nil : Nav.root [] = [] := by
  rw [Nav.root]; simp

theorem root_concat (b : Addr) (i : Nat) : Nav.root (b ++ [i]) = Nav.root b := by
  rw [Nav.root]; simp

theorem prefixes_concat (b : Addr) (i : Nat) : prefixes (b ++ [i]) = prefixes b ++ [b ++ [i]] := by
  induction b with
  | nil => simp [prefixes]
  | cons j js ih => simp [prefixes, ih]

theorem addr_cases (a : Addr) : a = [] ∨ ∃ b i, a = b ++ [i] := by
  rcases List.eq_nil_or_concat a with h | ⟨b, i, h⟩
  · exact Or.inl h
  · exact Or.inr ⟨b, i, by simpa using h⟩

theorem path_eq_prefixes_aux : ∀ n (a : Addr), a.length = n → Nav.path a = prefixes a := by
  intro n
  induction n with
  | zero =>
    intro a h
    have : a = [] := List.eq_nil_of_length_eq_zero h
    subst this
    simp [Nav.path, climb_nil, prefixes]
  | succ n ih =>
    intro a h
    rcases addr_cases a with rfl | ⟨b, i, rfl⟩
    · simp at h
    · have hb : b.length = n := by simpa using h
      have := ih b hb
      simp only [Nav.path] at this ⊢
      rw [climb_concat, List.reverse_cons, this, prefixes_concat]

theorem path_eq_prefixes (a : Addr) : Nav.path a = prefixes a :=
  path_eq_prefixes_aux a.length a rfl

theorem root_eq_nil_aux : ∀ n (a : Addr), a.length = n → Nav.root a = [] := by
  intro n
  induction n with
  | zero =>
    intro a h
    have : a = [] := List.eq_nil_of_length_eq_zero h
    subst this
    exact root_nil
  | succ n ih =>
    intro a h
    rcases addr_cases a with rfl | ⟨b, i, rfl⟩
    · simp at h
    · rw [root_concat]; exact ih b (by simpa using h)

theorem root_eq_nil (a : Addr) : Nav.root a = [] := root_eq_nil_aux a.length a rfl

/-! ## facts about `prefixes` -/

@[simp] theorem length_prefixes (a : Addr) : (prefixes a).length = a.length + 1 := by
  induction a with
  | nil => simp [prefixes]
  | cons i is ih => simp [prefixes, ih]

theorem prefixes_getElem : ∀ (a : Addr) (k : Nat) (h : k < (prefixes a).length),
    (prefixes a)[k] = a.take k := by
  intro a
  induction a with
  | nil => intro k h; simp [prefixes]
  | cons i is ih =>
    intro k h
    cases k with
    | zero => simp [prefixes]
    | succ k =>
      simp only [prefixes, List.getElem_cons_succ, List.getElem_map, List.take_succ_cons]
      rw [ih]

theorem getLast?_prefixes (a : Addr) : (prefixes a).getLast? = some a := by
  rw [List.getLast?_eq_getElem?, List.getElem?_eq_getElem (by simp), prefixes_getElem]
  simp

theorem mem_prefixes {a p : Addr} (h : p ∈ prefixes a) : ∃ k, k ≤ a.length ∧ p = a.take k := by
  obtain ⟨k, hk, rfl⟩ := List.getElem_of_mem h
  refine ⟨k, ?_, prefixes_getElem a k hk⟩
  simp at hk; omega

theorem pairwise_prefixes (a : Addr) : (prefixes a).Pairwise (fun p q => p.length < q.length) := by
  induction a with
  | nil => simp [prefixes]
  | cons i is ih =>
    simp only [prefixes, List.pairwise_cons]
    refine ⟨?_, ?_⟩
    · intro q hq
      obtain ⟨r, _, rfl⟩ := List.mem_map.1 hq
      simp
    · exact List.Pairwise.map _ (fun p q h => by simpa using h) ih

theorem nodup_prefixes (a : Addr) : (prefixes a).Nodup :=
  (pairwise_prefixes a).imp (fun h e => by rw [e] at h; exact Nat.lt_irrefl _ h)

/-! ## `below` -/

theorem length_below (c a : Addr) : (below c a).length = a.length - c.length := by
  simp [below]

theorem below_getElem (c a : Addr) (k : Nat) (h : k < (below c a).length) :
    (below c a)[k] = a.take (c.length + 1 + k) := by
  simp only [below, List.getElem_drop]
  rw [prefixes_getElem]

theorem below_self (a : Addr) : below a a = [] := by
  apply List.eq_nil_of_length_eq_zero
  simp [length_below]

theorem mem_below {c a p : Addr} (h : p ∈ below c a) :
    ∃ k, c.length < k ∧ k ≤ a.length ∧ p = a.take k := by
  obtain ⟨k, hk, rfl⟩ := List.getElem_of_mem h
  rw [length_below] at hk
  exact ⟨c.length + 1 + k, by omega, by omega, below_getElem c a k _⟩

/-! ## `lcp2` -/

theorem lcp2_comm {β : Type} [DecidableEq β] : ∀ (a b : List β), lcp2 a b = lcp2 b a := by
  intro a
  induction a with
  | nil => intro b; cases b <;> simp [lcp2]
  | cons x xs ih =>
    intro b
    cases b with
    | nil => simp [lcp2]
    | cons y ys =>
      simp only [lcp2]
      by_cases h : x = y
      · subst h; simp [ih ys]
      · have h' : ¬ y = x := fun e => h e.symm
        simp [h, h']

theorem lcp2_prefix_left {β : Type} [DecidableEq β] : ∀ (a b : List β), lcp2 a b <+: a := by
  intro a
  induction a with
  | nil => intro b; simp [lcp2]
  | cons x xs ih =>
    intro b
    cases b with
    | nil => simp [lcp2]
    | cons y ys =>
      simp only [lcp2]
      by_cases h : x = y
      · simp [h, List.cons_prefix_cons, ih ys]
      · simp [h]

theorem lcp2_prefix_right {β : Type} [DecidableEq β] (a b : List β) : lcp2 a b <+: b := by
  rw [lcp2_comm]; exact lcp2_prefix_left b a

theorem prefix_lcp2 {β : Type} [DecidableEq β] : ∀ (d a b : List β), d <+: a → d <+: b → d <+: lcp2 a b := by
  intro d
  induction d with
  | nil => intros; exact List.nil_prefix
  | cons z zs ih =>
    intro a b ha hb
    cases a with
    | nil => simp at ha
    | cons x xs =>
      cases b with
      | nil => simp at hb
      | cons y ys =>
        rw [List.cons_prefix_cons] at ha hb
        obtain ⟨rfl, ha⟩ := ha
        obtain ⟨rfl, hb⟩ := hb
        simp only [lcp2, if_true]
        rw [List.cons_prefix_cons]
        exact ⟨rfl, ih xs ys ha hb⟩

theorem lcp2_of_prefix {β : Type} [DecidableEq β] : ∀ (a b : List β), a <+: b → lcp2 a b = a := by
  intro a
  induction a with
  | nil => intro b _; cases b <;> simp [lcp2]
  | cons x xs ih =>
    intro b h
    cases b with
    | nil => simp at h
    | cons y ys =>
      rw [List.cons_prefix_cons] at h
      obtain ⟨rfl, h⟩ := h
      simp [lcp2, ih ys h]

/-! ## `__calc_common` on two prefix chains -/

/-- address-level version of the filter -/
theorem filter_zip_prefixes : ∀ (a b : Addr),
    (((prefixes a).zip (prefixes b)).filter (fun p => decide (p.1 = p.2))).map Prod.fst
      = prefixes (lcp2 a b) := by
  intro a
  induction a with
  | nil =>
    intro b
    cases b <;> simp [prefixes, lcp2]
  | cons i is ih =>
    intro b
    cases b with
    | nil => simp [prefixes, lcp2]
    | cons j js =>
      simp only [prefixes, List.zip_cons_cons, List.zip_map, List.filter_cons, decide_true, if_true,
        List.map_cons, List.filter_map, List.map_map, lcp2]
      by_cases h : i = j
      · subst h
        simp only [if_true, prefixes]
        congr 1
        rw [← ih js, List.map_map]
        congr 1
        congr 1
        funext p
        simp
      · simp only [h, if_false, prefixes]
        congr 1
        have : (List.filter ((fun p : Addr × Addr => decide (p.1 = p.2)) ∘ Prod.map (fun x => i :: x) fun x => j :: x)
            ((prefixes is).zip (prefixes js))) = [] := by
          apply List.filter_eq_nil_iff.2
          intro p _
          simp [h]
        rw [this]; rfl

theorem pathOf_eq (x : WNode) : pathOf x = (prefixes x.2).map (fun p => (x.1, p)) := by
  simp [pathOf, path_eq_prefixes]

theorem rootOf_eq (x : WNode) : rootOf x = (x.1, []) := by
  simp [rootOf, root_eq_nil]

theorem calcCommon_prefixes (t : Nat) (a b : Addr) :
    calcCommon ((prefixes a).map (fun p => (t, p))) ((prefixes b).map (fun p => (t, p)))
      = (prefixes (lcp2 a b)).map (fun p => (t, p)) := by
  rw [← filter_zip_prefixes a b]
  simp only [calcCommon, List.zip_map, List.filter_map, List.map_map]
  have : ((fun p : WNode × WNode => decide (p.1 = p.2)) ∘ Prod.map (fun p => (t, p)) fun p => (t, p))
      = (fun p : Addr × Addr => decide (p.1 = p.2)) := by
    funext p; simp
  rw [this]
  rfl

end WalkerLemmas
end Anytree
