import Anytree.Model.Forest
import Anytree.Model.Generated
/-!
# Model D — instance attributes with symlink forwarding (`SymlinkNodeMixin`) and the object graph
that `pickle`/`copy.deepcopy` traverse

Instance data only: names that resolve on the class (`separator`, properties such as `parent` and
`children`, methods) are the link's own by Python's lookup order and are not modelled.
-/
namespace Anytree
namespace Attr

variable {V : Type}

/-- an object: its own `__dict__` (without the tree bookkeeping) and, for a symlink node, its target -/
structure Obj (V : Type) where
  dict : List (String × V)
  target : Option Nat            -- `some t`: a SymlinkNodeMixin instance whose `target` is object `t`

abbrev Heap (V : Type) := Nat → Obj V

inductive Res (V : Type)
  | value (v : V)
  | attributeError
  | diverged                      -- fuel exhausted (a cycle of links; or the unguarded lookup below)
  deriving DecidableEq, Repr

def dictGet (d : List (String × V)) (name : String) : Option V :=
  (d.find? (fun e => e.1 == name)).map Prod.snd

def dictPut (d : List (String × V)) (name : String) (v : V) : List (String × V) :=
  if d.any (fun e => e.1 == name) then d.map (fun e => if e.1 == name then (name, v) else e)
  else d ++ [(name, v)]

/-- `getattr(obj, name)` for an instance-data name: own `__dict__`; for a link, `__getattr__`:
bookkeeping names and the guarded names (extracted from the source) raise `AttributeError`,
everything else is `getattr(self.target, name)` -/
def getattr (h : Heap V) : Nat → Nat → String → Res V
  | 0, _, _ => .diverged
  | fuel+1, i, name =>
    match dictGet (h i).dict name with
    | some v => .value v
    | none =>
      match (h i).target with
      | none => .attributeError
      | some t =>
        if Generated.symlinkGetattrLocal.contains name then .attributeError
        else if Generated.symlinkGetattrGuarded.contains name then .attributeError
        else getattr h fuel t name

/-- `setattr(obj, name, value)`: a link keeps the names listed in `__setattr__` for itself and
forwards every other assignment to its target -/
def setattr (h : Heap V) : Nat → Nat → String → V → Option (Heap V)
  | 0, _, _, _ => none
  | fuel+1, i, name, v =>
    match (h i).target with
    | none => some (fun j => if j = i then { h i with dict := dictPut (h i).dict name v } else h j)
    | some t =>
      if Generated.symlinkSetattrLocal.contains name then
        some (fun j => if j = i then { h i with dict := dictPut (h i).dict name v } else h j)
      else setattr h fuel t name v

/-- `SymlinkNode.__init__(target, **kwargs)` for a fresh object `i` — `legacy = true` is the code
before the repair of finding D7 (`self.target.__dict__.update(kwargs)`) -/
def ctorLink (legacy : Bool) (h : Heap V) (fuel : Nat) (i t : Nat) (kwargs : List (String × V)) :
    Option (Heap V) :=
  let h0 : Heap V := fun j => if j = i then ⟨[], some t⟩ else h j
  if legacy then
    some (fun j => if j = t then { h0 t with dict := kwargs.foldl (fun d e => dictPut d e.1 e.2) (h0 t).dict }
                   else h0 j)
  else kwargs.foldlM (fun hh e => setattr hh fuel t e.1 e.2) h0

/-! ## attribute lookup on a half-built instance (what `copy`/`pickle` do before restoring state) -/

/-- `getattr(obj, name)` when `self.target` itself has to be looked up the same way: on an instance
whose `__dict__` is still empty `self.target` re-enters `__getattr__`. `guarded` = the names
`__getattr__` refuses up front. -/
def getattrRaw (guarded : List String) (dict : List (String × Nat)) : Nat → String → Res Nat
  | 0, _ => .diverged
  | fuel+1, name =>
    match dictGet dict name with
    | some v => .value v
    | none =>
      if Generated.symlinkGetattrLocal.contains name then .attributeError
      else if guarded.contains name then .attributeError
      else
        -- `getattr(self.target, name)`: first evaluate `self.target`
        match getattrRaw guarded dict fuel "target" with
        | .value _ => .attributeError     -- (forwarding to a real target is `getattr` above)
        | r => r

/-! ## the object graph -/

/-- objects reachable from `n` through `parent`, `children` and `target` references (what a deep
copy / pickle of `n` contains); breadth-first with fuel -/
def reachF (s : Forest) (tg : Nat → Option Nat) : Nat → List Nat → List Nat → List Nat
  | 0, _, seen => seen
  | _ + 1, [], seen => seen
  | fuel + 1, x :: frontier, seen =>
    if seen.contains x then reachF s tg fuel frontier seen
    else
      let nb := (s.parent x).toList ++ s.children x ++ (tg x).toList
      reachF s tg fuel (frontier ++ nb) (seen ++ [x])

def reach (s : Forest) (tg : Nat → Option Nat) (n : Nat) : List Nat :=
  reachF s tg ((s.n + 1) * (s.n + 3)) [n] []

end Attr
end Anytree
