import Anytree.Model.Attr
/-!
# Attribute store, extension: class-level attributes of user subclasses of the link class

`Model/Attr.lean` knows instance data only.  A user subclass of `SymlinkNode` may define a class attribute (or a property, a
method): ordinary attribute lookup finds it on the link *before* `__getattr__` forwards anything.  Reading such a name through a
chain of links is therefore answered by the first object along the chain whose class defines it; plain links forward; a plain
node answers from its own dictionary.
-/
namespace Anytree.Attr

/-- reading a name that the class of some links defines (a class attribute of a user subclass of the link class): ordinary
lookup answers on the first object along the chain whose class has it; plain links forward, a plain node answers from its
own dictionary. Outside the attribute-store model (which knows instance data only): a driver-level extension, used for the
name `kind` when a case creates links of the user class -/
def getClassAware (h : Heap String) (isUser : Nat → Bool) (classVal : String) : Nat → Nat → String → Res String
  | 0, _, _ => .diverged
  | fuel+1, i, name =>
    if isUser i then .value classVal else
    match (h i).target with
    | none => match dictGet (h i).dict name with
      | some v => .value v
      | none => .attributeError
    | some t => getClassAware h isUser classVal fuel t name


end Anytree.Attr
