import Anytree.Model.Forest
import Anytree.Model.Tree
/-! Bridge from model A (link maps) to model B (rose trees): unfold the children map below a node. -/
namespace Anytree
namespace Forest

/-- the tree below `r` (payload = node id); fuel bounds the depth (`s.n` suffices in an `Inv` state) -/
def toTree (s : Forest) : Nat → Nat → Tree Nat
  | 0, r => .node r []
  | fuel+1, r => .node r ((s.children r).map (toTree s fuel))

def roots (s : Forest) : List Nat := (List.range s.n).filter (fun x => (s.parent x).isNone)

end Forest
end Anytree
