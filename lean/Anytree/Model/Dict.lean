import Anytree.Model.Tree
import Anytree.Model.Generated
/-!
# Mirror of `DictExporter`, `DictImporter`, `JsonExporter`, `JsonImporter`

anytree never inspects attribute *values*, so they are an abstract type `V`.  A node's payload is
its `__dict__` as an insertion-ordered association list; the nested dictionaries are their own
inductive type (`none` = no `'children'` key, `some []` = `'children': []`).
-/
namespace Anytree
namespace Dict
open Tree

abbrev Attrs (V : Type) := List (String × V)

inductive DData (V : Type) where
  | mk (attrs : Attrs V) (children : Option (List (DData V)))
  deriving Repr

def DData.attrs {V} : DData V → Attrs V | .mk a _ => a
def DData.children {V} : DData V → Option (List (DData V)) | .mk _ c => c

variable {V : Type}

/-- `dict(pairs)`: a later pair with the same key overwrites the value, the key keeps its position -/
def dictSet (d : Attrs V) (k : String) (v : V) : Attrs V :=
  if d.any (fun e => e.1 == k) then d.map (fun e => if e.1 == k then (k, v) else e) else d ++ [(k, v)]

def dictOf (pairs : Attrs V) : Attrs V := pairs.foldl (fun d e => dictSet d e.1 e.2) []

/-- `DictExporter._iter_attr_values`: the `__dict__` items except the tree bookkeeping -/
def iterAttrValues (d : Attrs V) : Attrs V :=
  d.filter (fun e => !Generated.dictSkipped.contains e.1)

/-- `DictExporter.__export(node, dictcls, attriter, childiter, level)`.
`childiter` is an arbitrary function on the children tuple, so the recursion is on fuel (any fuel
above the height of the tree is enough when `childiter` only returns children it was given). -/
def exportF (attriter : Attrs V → Attrs V) (childiter : List (Tree (Attrs V)) → List (Tree (Attrs V)))
    (maxlevel : Option Int) : Nat → Int → Tree (Attrs V) → DData V
  | 0, _, node a _ => .mk (dictOf (attriter (iterAttrValues a))) none
  | fuel+1, level, node a cs =>
    let data := dictOf (attriter (iterAttrValues a))
    let descend := match maxlevel with
      | none => true
      | some m => decide (level < m)
    if descend then
      let children := (childiter cs).map (exportF attriter childiter maxlevel fuel (level + 1))
      if children.isEmpty then .mk data none            -- `if children:` — empty list: no key
      else .mk (dictSetChildren data) (some children)   -- `data['children'] = children`
    else .mk data none
where
  /-- the `'children'` entry lives in its own field; an attribute of that name is overwritten -/
  dictSetChildren (d : Attrs V) : Attrs V := d.filter (fun e => e.1 != "children")

/-- `DictExporter.export(node)`: level counting starts at 1 -/
def exportD (attriter : Attrs V → Attrs V) (childiter : List (Tree (Attrs V)) → List (Tree (Attrs V)))
    (maxlevel : Option Int) (t : Tree (Attrs V)) : DData V :=
  exportF attriter childiter maxlevel (t.height + 1) 1 t

/-- how a node class stores constructor keyword arguments in `__dict__` -/
inductive NodeCls | anyNode | node
  deriving DecidableEq, Repr

/-- `nodecls(parent=parent, **attrs)`: `AnyNode` keeps the order; `Node` takes `name` as a named
parameter and assigns it after the others; `none` = `TypeError` (missing `name`) -/
def ctorAttrs (cls : NodeCls) (attrs : Attrs V) : Option (Attrs V) :=
  match cls with
  | .anyNode => some attrs
  | .node =>
    match attrs.find? (fun e => e.1 == "name") with
    | none => none
    | some nv => some (attrs.filter (fun e => e.1 != "name") ++ [nv])

mutual
/-- `DictImporter.__import(data, parent)`: `attrs = dict(data); children = attrs.pop('children', [])`;
`node = nodecls(parent=parent, **attrs)`; children imported in order -/
def importT (cls : NodeCls) : DData V → Option (Tree (Attrs V))
  | .mk attrs children =>
    match ctorAttrs cls attrs with
    | none => none
    | some a =>
      match children with
      | none => some (node a [])
      | some cs =>
        match importL cls cs with
        | none => none
        | some ts => some (node a ts)
def importL (cls : NodeCls) : List (DData V) → Option (List (Tree (Attrs V)))
  | [] => some []
  | d :: ds =>
    match importT cls d, importL cls ds with
    | some t, some ts => some (t :: ts)
    | _, _ => none
end

/-! ## JSON: pure delegation -/

/-- `JsonExporter.export(node)`: `json.dumps(dictexporter.export(node), **kwargs)` with the
exporter's `maxlevel` forwarded to the dict exporter when given -/
def jsonExport {J : Type} (dumps : DData V → J) (attriter : Attrs V → Attrs V)
    (childiter : List (Tree (Attrs V)) → List (Tree (Attrs V)))
    (dictMaxlevel jsonMaxlevel : Option Int) (t : Tree (Attrs V)) : J :=
  let m := match jsonMaxlevel with
    | some k => some k          -- `if self.maxlevel is not None: dictexporter.maxlevel = self.maxlevel`
    | none => dictMaxlevel
  dumps (exportD attriter childiter m t)

/-- `JsonImporter.import_(text)`: `dictimporter.import_(json.loads(text, **kwargs))` -/
def jsonImport {J : Type} (loads : J → Option (DData V)) (cls : NodeCls) (text : J) :
    Option (Tree (Attrs V)) :=
  match loads text with
  | none => none
  | some d => importT cls d

end Dict
end Anytree
