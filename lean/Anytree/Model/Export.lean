import Anytree.Model.Iter
import Anytree.Model.Generated
/-!
# Mirror of `anytree/exporter/dotexporter.py` (DotExporter, UniqueDotExporter) and
`anytree/exporter/mermaidexporter.py`

Lines are produced exactly as the generators do: header, option lines, node pass (a
`PreOrderIter` with `filter_`/`stop`/`maxlevel`), edge pass (a second `PreOrderIter` with
`maxlevel - 1`, then the children of every yielded node), closing brace.  The default node
names of UniqueDotExporter/MermaidExporter come from a first-use counter keyed by `id(node)`; the
map is threaded through both passes and survives between iterations of one exporter.
`key : Tree α → κ` stands for `id()`.
-/
namespace Anytree
namespace Export
open Tree
variable {α κ : Type}

/-- `esc`: every double quote and backslash gets a backslash in front -/
def escChars : List Char → List Char
  | [] => []
  | c :: cs => if c = '"' ∨ c = '\\' then '\\' :: c :: escChars cs else c :: escChars cs

def esc (s : String) : String := String.ofList (escChars s.toList)

def spaces (n : Nat) : String := String.ofList (List.replicate n ' ')

/-- the `id(node) → number` dictionary plus `itertools.count()` (the next number is the size) -/
abbrev IdMap (κ : Type) := List (κ × Nat)

def IdMap.lookup [DecidableEq κ] (st : IdMap κ) (k : κ) : Option Nat :=
  (st.find? (fun e => decide (e.1 = k))).map Prod.snd

/-- `try: num = ids[k] except KeyError: num = ids[k] = next(counter)` -/
def IdMap.get [DecidableEq κ] (st : IdMap κ) (k : κ) : Nat × IdMap κ :=
  match st.lookup k with
  | some n => (n, st)
  | none => (st.length, st ++ [(k, st.length)])

def hexDigits (n : Nat) : String := String.ofList (Nat.toDigits 16 n)
/-- Python `hex(n)` for `n ≥ 0` -/
def pyHex (n : Nat) : String := "0x" ++ hexDigits n

/-- a node-name function that may consult and extend the id map -/
abbrev NameFn (α κ : Type) := IdMap κ → Tree α → String × IdMap κ

def NameFn.pure (f : Tree α → String) : NameFn α κ := fun st n => (f n, st)

/-- `UniqueDotExporter._default_nodenamefunc` -/
def uniqueName [DecidableEq κ] (key : Tree α → κ) : NameFn α κ := fun st n =>
  let r := st.get (key n); (pyHex r.1, r.2)

/-- `MermaidExporter._default_nodenamefunc` -/
def mermaidName [DecidableEq κ] (key : Tree α → κ) : NameFn α κ := fun st n =>
  let r := st.get (key n); ("N" ++ toString r.1, r.2)

structure DotCfg (α κ : Type) where
  graph : String
  name : String
  options : List String           -- `None`/empty: no option lines
  indent : Nat
  nodename : NameFn α κ
  nodeattr : Tree α → Option String
  edgeattr : Tree α → Tree α → Option String
  edgetype : Tree α → Tree α → String
  filter : Tree α → Bool
  stop : Tree α → Bool
  maxlevel : Option Int

def optAttr : Option String → String
  | none => ""
  | some a => " [" ++ a ++ "]"

/-- `__iter_nodes` -/
def dotNodes (c : DotCfg α κ) (ind : String) : List (Tree α) → IdMap κ → List String × IdMap κ
  | [], st => ([], st)
  | n :: ns, st =>
    let (nm, st1) := c.nodename st n
    let line := ind ++ "\"" ++ esc nm ++ "\"" ++ optAttr (c.nodeattr n) ++ ";"
    let (rest, st2) := dotNodes c ind ns st1
    (line :: rest, st2)

/-- the inner loop of `__iter_edges` over `node.children`; `recheck` is what the code tests on the
child before emitting (`filter_(child)` for DOT; `filter_(child) and not stop(child)` for Mermaid) -/
def dotEdgesOf (c : DotCfg α κ) (ind nodename : String) (p : Tree α) (recheck : Tree α → Bool) :
    List (Tree α) → IdMap κ → List String × IdMap κ
  | [], st => ([], st)
  | ch :: chs, st =>
    if !recheck ch then dotEdgesOf c ind nodename p recheck chs st
    else
      let (cn, st1) := c.nodename st ch
      let line := ind ++ "\"" ++ esc nodename ++ "\" " ++ c.edgetype p ch ++ " \"" ++ esc cn ++ "\"" ++
        optAttr (c.edgeattr p ch) ++ ";"
      let (rest, st2) := dotEdgesOf c ind nodename p recheck chs st1
      (line :: rest, st2)

/-- `__iter_edges`, outer loop -/
def dotEdges (c : DotCfg α κ) (ind : String) : List (Tree α) → IdMap κ → List String × IdMap κ
  | [], st => ([], st)
  | p :: ps, st =>
    let (pn, st1) := c.nodename st p
    let (l1, st2) := dotEdgesOf c ind pn p c.filter p.kids st1
    let (l2, st3) := dotEdges c ind ps st2
    (l1 ++ l2, st3)

/-- the edge pass's `maxlevel`.  `legacy = true` is the expression before the fix of finding D2
(`maxlevel - 1 if maxlevel else None`), `false` the repaired one (`… if maxlevel is not None …`) -/
def edgeMax (legacy : Bool) (m : Option Int) : Option Int :=
  if legacy then Iter.decMax m else m.map (· - 1)

/-- one iteration of a Dot/UniqueDot exporter: lines and the id map it leaves behind -/
def dotIter (legacy : Bool) (c : DotCfg α κ) (t : Tree α) (st : IdMap κ) : List String × IdMap κ :=
  let ind := spaces c.indent
  let header := c.graph ++ " " ++ c.name ++ " {"
  let opts := c.options.map (fun o => ind ++ o)
  let (nodes, st1) := dotNodes c ind (Iter.preIter c.filter c.stop c.maxlevel t) st
  let (edges, st2) := dotEdges c ind (Iter.preIter c.filter c.stop (edgeMax legacy c.maxlevel) t) st1
  ([header] ++ opts ++ nodes ++ edges ++ ["}"], st2)

/-! ## Mermaid -/

structure MermaidCfg (α κ : Type) where
  graph : String
  name : String
  options : List String
  indent : Nat
  nodename : NameFn α κ
  nodefunc : Tree α → String
  edgefunc : Tree α → Tree α → String
  filter : Tree α → Bool
  stop : Tree α → Bool
  maxlevel : Option Int

def merNodes (c : MermaidCfg α κ) (ind : String) : List (Tree α) → IdMap κ → List String × IdMap κ
  | [], st => ([], st)
  | n :: ns, st =>
    let (nm, st1) := c.nodename st n
    let line := ind ++ nm ++ c.nodefunc n
    let (rest, st2) := merNodes c ind ns st1
    (line :: rest, st2)

def merEdgesOf (c : MermaidCfg α κ) (ind nodename : String) (p : Tree α) :
    List (Tree α) → IdMap κ → List String × IdMap κ
  | [], st => ([], st)
  | ch :: chs, st =>
    if !(c.filter ch && !c.stop ch) then merEdgesOf c ind nodename p chs st
    else
      let (cn, st1) := c.nodename st ch
      let line := ind ++ nodename ++ c.edgefunc p ch ++ cn
      let (rest, st2) := merEdgesOf c ind nodename p chs st1
      (line :: rest, st2)

def merEdges (c : MermaidCfg α κ) (ind : String) : List (Tree α) → IdMap κ → List String × IdMap κ
  | [], st => ([], st)
  | p :: ps, st =>
    let (pn, st1) := c.nodename st p
    let (l1, st2) := merEdgesOf c ind pn p p.kids st1
    let (l2, st3) := merEdges c ind ps st2
    (l1 ++ l2, st3)

def merIter (legacy : Bool) (c : MermaidCfg α κ) (t : Tree α) (st : IdMap κ) : List String × IdMap κ :=
  let ind := spaces c.indent
  let header := c.graph ++ " " ++ c.name
  let opts := c.options.map (fun o => ind ++ o)
  let (nodes, st1) := merNodes c ind (Iter.preIter c.filter c.stop c.maxlevel t) st
  let (edges, st2) := merEdges c ind (Iter.preIter c.filter c.stop (edgeMax legacy c.maxlevel) t) st1
  ([header] ++ opts ++ nodes ++ edges, st2)

end Export
end Anytree
