/-!
# Model A — the mutable forest kept by `NodeMixin` / `LightNodeMixin`

State: the *two* link directions the code stores (`__parent`, `__children`), deliberately not a
rose tree, because C01 is the statement that the two views agree.  The operations mirror
`anytree/node/nodemixin.py` (and its copy `lightnodemixin.py`) statement by statement, including
the eight notification hooks (logged, and allowed to raise according to a fault schedule), the
internal assertions (`ANYTREE_ASSERTIONS`), and the recursive restore of the children setter.
Everything that loops on the state takes fuel and reports `diverged` when it runs out.

This file imports nothing.
-/
namespace Anytree

structure Forest where
  n : Nat                                   -- nodes are 0 … n-1 (object identity = index)
  parent : Nat → Option Nat                 -- `__parent` (absent attribute = None)
  children : Nat → List Nat                 -- `__children` (absent attribute = [])

namespace Forest

def empty : Forest := ⟨0, fun _ => none, fun _ => []⟩

def setP (s : Forest) (x : Nat) (v : Option Nat) : Forest :=
  { s with parent := fun y => if y = x then v else s.parent y }
def setC (s : Forest) (p : Nat) (l : List Nat) : Forest :=
  { s with children := fun y => if y = p then l else s.children y }

/-- a new node object: no parent, no children -/
def newNode (s : Forest) : Forest := { s with n := s.n + 1 }

/-- `k`-th ancestor (`up s 0 x = x`) -/
def up (s : Forest) : Nat → Nat → Option Nat
  | 0, x => some x
  | k+1, x => match s.parent x with
    | none => none
    | some p => up s k p

/-- what the correspondence run and `decide` witnesses compare -/
def snap (s : Forest) : List (Option Nat × List Nat) :=
  (List.range s.n).map fun i => (s.parent i, s.children i)

/-- the two statements between `# ATOMIC START` and `# ATOMIC END` of `__detach` -/
def detachRaw (s : Forest) (n p : Nat) : Forest :=
  (s.setC p ((s.children p).filter (· != n))).setP n none
/-- the two statements between `# ATOMIC START` and `# ATOMIC END` of `__attach` -/
def attachRaw (s : Forest) (n p : Nat) : Forest :=
  (s.setC p (s.children p ++ [n])).setP n (some p)

end Forest

inductive Flavor | nm | light
  deriving DecidableEq, Repr

/-- an argument handed to `parent=` / `children=`: a tree node or some other object -/
inductive Arg | node (k : Nat) | nonNode
  deriving DecidableEq, Repr

inductive HookKind
  | preDetach | postDetach | preAttach | postAttach
  | preDetachChildren | postDetachChildren | preAttachChildren | postAttachChildren
  deriving DecidableEq, Repr

def HookKind.isPre : HookKind → Bool
  | .preDetach | .preAttach | .preDetachChildren | .preAttachChildren => true
  | _ => false

inductive Err
  | treeError | loopError | typeError
  | hook (idx : Nat) (k : HookKind) (node : Nat)   -- the exception raised by the idx-th hook call
  | assertion                                        -- an internal `assert` fired
  | unmodelled                                       -- non-node argument to a LightNodeMixin class
  | diverged                                         -- fuel exhausted
  deriving DecidableEq, Repr

structure Event where
  kind : HookKind
  node : Nat
  arg : List Nat                    -- the parent (singleton) or the children tuple
  snapshot : List (Option Nat × List Nat)
  deriving DecidableEq, Repr

structure World where
  f : Forest
  log : List Event
  cnt : Nat                         -- hook invocations so far in this call

/-- which hook invocations raise: invocation counter, kind, node -/
abbrev Faults := Nat → HookKind → Nat → Bool

structure Cfg where
  fl : Flavor
  asrt : Bool
  φ : Faults

/-- the state survives an exception, as in Python -/
abbrev M := World → Except Err Unit × World

namespace M
@[inline] def ok : M := fun w => (.ok (), w)
@[inline] def throw (e : Err) : M := fun w => (.error e, w)
@[inline] def seq (a b : M) : M := fun w =>
  match a w with
  | (.ok (), w') => b w'
  | (.error e, w') => (.error e, w')
@[inline] def modify (g : Forest → Forest) : M := fun w => (.ok (), { w with f := g w.f })
/-- `try: a  except Exception as e: h e` -/
@[inline] def tryCatch (a : M) (h : Err → M) : M := fun w =>
  match a w with
  | (.ok (), w') => (.ok (), w')
  | (.error e, w') => h e w'
end M
infixl:60 " ⨾ " => M.seq

/-- a notification hook: logged with a snapshot of what it can observe; raises if scheduled -/
def hook (c : Cfg) (k : HookKind) (node : Nat) (arg : List Nat) : M := fun w =>
  let ev : Event := ⟨k, node, arg, w.f.snap⟩
  let w' := { w with log := w.log ++ [ev], cnt := w.cnt + 1 }
  if c.φ w.cnt k node then (.error (.hook w.cnt k node), w') else (.ok (), w')

/-- `if ASSERTIONS: assert cond` -/
def assertM (c : Cfg) (cond : Forest → Bool) : M := fun w =>
  if c.asrt && !(cond w.f) then (.error .assertion, w) else (.ok (), w)

/-- `any(child is self for child in node.iter_path_reverse())`; `none` = fuel exhausted -/
def onChain (s : Forest) (target : Nat) : Nat → Nat → Option Bool
  | 0, _ => none
  | fuel+1, x =>
    if x = target then some true else
    match s.parent x with
    | none => some false
    | some p => onChain s target fuel p

/-- `__check_loop` -/
def checkLoop (fuel : Nat) (n : Nat) (v : Option Nat) : M := fun w =>
  match v with
  | none => (.ok (), w)
  | some p =>
    if p = n then (.error .loopError, w) else
    match onChain w.f n fuel p with
    | none => (.error .diverged, w)
    | some true => (.error .loopError, w)
    | some false => (.ok (), w)

/-- `__detach(parent)` -/
def detach (c : Cfg) (n : Nat) (old : Option Nat) : M :=
  match old with
  | none => M.ok
  | some p =>
    hook c .preDetach n [p] ⨾
    assertM c (fun f => (f.children p).contains n) ⨾
    M.modify (fun f => f.detachRaw n p) ⨾
    hook c .postDetach n [p]

/-- `__attach(parent)` -/
def attach (c : Cfg) (n : Nat) (new : Option Nat) : M :=
  match new with
  | none => M.ok
  | some p =>
    hook c .preAttach n [p] ⨾
    assertM c (fun f => !(f.children p).contains n) ⨾
    M.modify (fun f => f.attachRaw n p) ⨾
    hook c .postAttach n [p]

/-- the `parent` setter -/
def setParent (c : Cfg) (fuel : Nat) (n : Nat) (v : Option Arg) : M := fun w =>
  match v with
  | some .nonNode =>
    match c.fl with
    | .nm => (.error .treeError, w)          -- isinstance check
    | .light => (.error .unmodelled, w)
  | none =>
    let old := w.f.parent n
    if old = none then (.ok (), w)           -- `if parent is not value`
    else (detach c n old) w                  -- check_loop(None), attach(None) do nothing
  | some (.node p) =>
    let old := w.f.parent n
    if old = some p then (.ok (), w)
    else (checkLoop fuel n (some p) ⨾ detach c n old ⨾ attach c n (some p)) w

def forM' (xs : List Nat) (body : Nat → M) : M :=
  match xs with
  | [] => M.ok
  | x :: rest => body x ⨾ forM' rest body

/-- the `children` deleter -/
def delChildren (c : Cfg) (fuel : Nat) (n : Nat) : M := fun w =>
  let cs := w.f.children n
  (hook c .preDetachChildren n cs ⨾
   forM' cs (fun ch => setParent c fuel ch none) ⨾
   assertM c (fun f => (f.children n).length == 0) ⨾
   hook c .postDetachChildren n cs) w

/-- `__check_children`: per element first the type check (NodeMixin only), then the identity
duplicate check; `seen` holds ids of earlier elements -/
def checkChildren (fl : Flavor) : List Nat → List Arg → Except Err Unit
  | _, [] => .ok ()
  | _, .nonNode :: _ =>
    match fl with
    | .nm => .error .treeError
    | .light => .error .unmodelled           -- `id()` of any object works; the later `.parent =` fails
  | seen, .node k :: rest =>
    if seen.contains k then .error .treeError else checkChildren fl (k :: seen) rest

def argsToNodes : List Arg → List Nat
  | [] => []
  | .node k :: rest => k :: argsToNodes rest
  | .nonNode :: rest => argsToNodes rest

/-- the `children` setter after `tuple()` and `__check_children`: `old_children`, `del`, the
`try` block, and the `except Exception: self.children = old_children; raise` restore (recursive) -/
def setChildrenNodes (c : Cfg) : Nat → Nat → List Nat → M
  | 0, _, _ => M.throw .diverged
  | fuel+1, n, xs => fun w =>
    let old := w.f.children n
    (delChildren c fuel n ⨾
     M.tryCatch
       (hook c .preAttachChildren n xs ⨾
        forM' xs (fun x => setParent c fuel x (some (.node n))) ⨾
        hook c .postAttachChildren n xs ⨾
        assertM c (fun f => (f.children n).length == xs.length))
       (fun e => match e with
         | .diverged => M.throw .diverged
         | _ =>                                   -- `self.children = old_children` (the full setter)
           match checkChildren c.fl [] (old.map Arg.node) with
           | .error e' => M.throw e'
           | .ok () => setChildrenNodes c fuel n old ⨾ M.throw e)) w

/-- the `children` setter; `none` = a non-iterable argument -/
def setChildren (c : Cfg) (fuel : Nat) (n : Nat) (xs : Option (List Arg)) : M :=
  match xs with
  | none => M.throw .typeError
  | some xs =>
    match checkChildren c.fl [] xs with
    | .error e => M.throw e
    | .ok () => setChildrenNodes c fuel n (argsToNodes xs)

/-- the `children=` argument of a constructor: `None`, a truthy non-iterable, or a list/tuple -/
inductive CtorKids | none | nonIterable | list (xs : List Arg)
  deriving Repr

/-- constructor of Node/AnyNode/SymlinkNode: a fresh object, then `self.parent = parent`, then
`if children: self.children = children` (falsy arguments are skipped) -/
def ctor (c : Cfg) (fuel : Nat) (parent : Option Arg) (children : CtorKids) : M := fun w =>
  let me := w.f.n
  (M.modify Forest.newNode ⨾
   setParent c fuel me parent ⨾
   (match children with
    | .none => M.ok                    -- `children=None`
    | .list [] => M.ok                 -- an empty list/tuple is falsy
    | .list xs => setChildren c fuel me (some xs)
    | .nonIterable => setChildren c fuel me none)) w

inductive Op
  | setParent (n : Nat) (v : Option Arg)
  | setChildren (n : Nat) (xs : Option (List Arg))
  | delChildren (n : Nat)
  | ctor (parent : Option Arg) (children : CtorKids)
  deriving Repr

def Op.run (c : Cfg) (fuel : Nat) : Op → M
  | .setParent n v => Anytree.setParent c fuel n v
  | .setChildren n xs => Anytree.setChildren c fuel n xs
  | .delChildren n => Anytree.delChildren c fuel n
  | .ctor p cs => Anytree.ctor c fuel p cs

structure Outcome where
  res : Except Err Unit
  f : Forest
  log : List Event

def exec (c : Cfg) (fuel : Nat) (op : Op) (s : Forest) : Outcome :=
  let r := op.run c fuel ⟨s, [], 0⟩
  ⟨r.1, r.2.f, r.2.log⟩

def noFaults : Faults := fun _ _ _ => false

end Anytree
