import Anytree.Model.Forest
/-!
# Model A, extension: a parent assignment during which ONE hook is not a mere observer

In `Model/Forest.lean` the eight hooks log and may raise.  A user hook may also make structural calls of its own.  This file
mirrors the parent setter of `nodemixin.py` with one such hook: at one of the four positions of a parent assignment
(`pos` 0 = `_pre_detach`, 1 = `_post_detach`, 2 = `_pre_attach`, 3 = `_post_attach`) the hook body, after being logged, executes
`y.parent = None` for some other node `y` — the full parent setter, with its own hooks (which only observe).  The code is the
same as `detach`/`attach`/`setParent` with that call spliced in where Python runs it: inside the hook, i.e. *before* the
children list of the parent is read (`parentchildren = parent.__children_or_empty` comes after `self._pre_detach(parent)` /
`self._pre_attach(parent)`).

This file imports only the base model.
-/
namespace Anytree

/-- the structural call made by the hook body -/
def nestedDetach (c : Cfg) (fuel y : Nat) : M := setParent c fuel y none

/-- `__detach(parent)` with the hook at position 0 / 1 re-entering -/
def detachR (c : Cfg) (fuel n : Nat) (old : Option Nat) (pos y : Nat) : M :=
  match old with
  | none => M.ok
  | some p =>
    hook c .preDetach n [p] ⨾ (if pos = 0 then nestedDetach c fuel y else M.ok) ⨾
    assertM c (fun f => (f.children p).contains n) ⨾
    M.modify (fun f => f.detachRaw n p) ⨾
    hook c .postDetach n [p] ⨾ (if pos = 1 then nestedDetach c fuel y else M.ok)

/-- `__attach(parent)` with the hook at position 2 / 3 re-entering -/
def attachR (c : Cfg) (fuel n p : Nat) (pos y : Nat) : M :=
  hook c .preAttach n [p] ⨾ (if pos = 2 then nestedDetach c fuel y else M.ok) ⨾
  assertM c (fun f => !(f.children p).contains n) ⨾
  M.modify (fun f => f.attachRaw n p) ⨾
  hook c .postAttach n [p] ⨾ (if pos = 3 then nestedDetach c fuel y else M.ok)

/-- `n.parent = p` (a tree node) with the re-entrant hook -/
def setParentR (c : Cfg) (fuel n p : Nat) (pos y : Nat) : M := fun w =>
  let old := w.f.parent n
  if old = some p then (.ok (), w)
  else (checkLoop fuel n (some p) ⨾ detachR c fuel n old pos y ⨾ attachR c fuel n p pos y) w

/-- `x.parent = None` (the loop body of the children deleter) for the child `x` whose detach hooks re-enter: position 0 =
`_pre_detach`, 1 = `_post_detach` -/
def setParentNoneR (c : Cfg) (fuel x pos y : Nat) : M := fun w =>
  let old := w.f.parent x
  if old = none then (.ok (), w) else (detachR c fuel x old pos y) w

/-- the children deleter during which the detach hook (position `pos`) of ONE child `x` detaches another node `y` - typically a
sibling that the deleter has not reached yet (the loop runs over the tuple `self.children` taken before the first detach, so it
still visits `y`, finds it parentless and does nothing) -/
def delChildrenR (c : Cfg) (fuel n x pos y : Nat) : M := fun w =>
  let cs := w.f.children n
  (hook c .preDetachChildren n cs ⨾
   forM' cs (fun ch => if ch = x then setParentNoneR c fuel ch pos y else setParent c fuel ch none) ⨾
   assertM c (fun f => (f.children n).length == 0) ⨾
   hook c .postDetachChildren n cs) w

end Anytree
