import Anytree.Model.Tree
/-!
# Mirror of `anytree/iterators/*.py`

Loop for loop: `AbstractIter.__init` (the wrapped start list, `_abort_at_level(1, maxlevel)`,
`_get_children([node], stop)`), then the five `_iter` bodies with their own `level` bookkeeping.
Iterators yield *node objects* (`Tree α`: the original subtree); `filter_` and `stop` are
arbitrary predicates on node objects; `maxlevel : Option Int` (`none` = Python `None`).
-/

namespace Anytree
namespace Iter
open Tree
variable {α β : Type}

/-- `AbstractIter._abort_at_level(level, maxlevel)`: `maxlevel is not None and level > maxlevel` -/
def abortAt (level : Int) (maxlevel : Option Int) : Bool :=
  match maxlevel with
  | none => false
  | some m => decide (level > m)

/-- `maxlevel - 1 if maxlevel else None` — note that `0` is falsy and becomes `None` -/
def decMax (maxlevel : Option Int) : Option Int :=
  match maxlevel with
  | none => none
  | some m => if m = 0 then none else some (m - 1)

/-- `AbstractIter._get_children(children, stop)` -/
def getChildren (stop : Tree α → Bool) (children : List (Tree α)) : List (Tree α) :=
  children.filter (fun c => !stop c)

/-- `AbstractIter.__init`: the list handed to `_iter` -/
def start (stop : Tree α → Bool) (maxlevel : Option Int) (t : Tree α) : List (Tree α) :=
  if abortAt 1 maxlevel then [] else getChildren stop [t]

/-! ## PreOrderIter -/
mutual
def preT (filter stop : Tree α → Bool) (maxlevel : Option Int) : Tree α → List (Tree α)
  | node a cs =>
    if stop (node a cs) then []                                      -- `if stop(child_): continue`
    else
      (if filter (node a cs) then [node a cs] else []) ++            -- `if filter_(child_): yield`
      (if !abortAt 2 maxlevel then preL filter stop (decMax maxlevel) cs else [])
def preL (filter stop : Tree α → Bool) (maxlevel : Option Int) : List (Tree α) → List (Tree α)
  | [] => []
  | c :: cs => preT filter stop maxlevel c ++ preL filter stop maxlevel cs
end

def preIter (filter stop : Tree α → Bool) (maxlevel : Option Int) (t : Tree α) : List (Tree α) :=
  preL filter stop maxlevel (start stop maxlevel t)

/-! ## PostOrderIter
`__next(children, level, …)`; the `_get_children(child.children, stop)` filter of the recursive
call is fused into the loop over the children (`if stop c then skip`). -/
mutual
def postT (filter stop : Tree α → Bool) (maxlevel : Option Int) (level : Int) :
    Tree α → List (Tree α)
  | node a cs =>
    (if abortAt (level + 1) maxlevel then [] else postL filter stop maxlevel (level + 1) cs) ++
    (if filter (node a cs) then [node a cs] else [])
def postL (filter stop : Tree α → Bool) (maxlevel : Option Int) (level : Int) :
    List (Tree α) → List (Tree α)
  | [] => []
  | c :: cs =>
    (if stop c then [] else postT filter stop maxlevel level c) ++ postL filter stop maxlevel level cs
end

def postIter (filter stop : Tree α → Bool) (maxlevel : Option Int) (t : Tree α) : List (Tree α) :=
  if abortAt 1 maxlevel then [] else postL filter stop maxlevel 1 [t]

/-! ## the `while children:` loops -/

/-- `next_children += _get_children(child.children, stop)` over all children -/
def grandchildren (stop : Tree α → Bool) (children : List (Tree α)) : List (Tree α) :=
  children.flatMap (fun c => getChildren stop c.kids)

theorem sizeL_append (xs ys : List (Tree α)) : sizeL (xs ++ ys) = sizeL xs + sizeL ys := by
  induction xs with
  | nil => simp [sizeL]
  | cons x xs ih => simp [sizeL, ih, Nat.add_assoc]

theorem sizeL_filter_le (p : Tree α → Bool) (xs : List (Tree α)) :
    sizeL (xs.filter p) ≤ sizeL xs := by
  induction xs with
  | nil => simp [sizeL]
  | cons x xs ih =>
    simp only [List.filter]
    split <;> simp only [sizeL] <;> omega

theorem sizeL_grandchildren (stop : Tree α → Bool) (children : List (Tree α)) :
    sizeL (grandchildren stop children) + children.length ≤ sizeL children := by
  induction children with
  | nil => simp [grandchildren, sizeL]
  | cons c cs ih =>
    cases c with
    | node a ks =>
      have h1 := sizeL_filter_le (fun c => !stop c) ks
      simp only [grandchildren, List.flatMap_cons, sizeL_append, sizeL, size, kids_node,
        getChildren, List.length_cons] at *
      omega

theorem sizeL_grandchildren_lt (stop : Tree α → Bool) (c : Tree α) (cs : List (Tree α)) :
    sizeL (grandchildren stop (c :: cs)) < sizeL (c :: cs) := by
  have := sizeL_grandchildren stop (c :: cs)
  simp only [List.length_cons] at this
  omega

/-- LevelOrderIter._iter -/
def levelLoop (filter stop : Tree α → Bool) (maxlevel : Option Int) (level : Int)
    (children : List (Tree α)) : List (Tree α) :=
  match children with
  | [] => []
  | c :: cs =>
    -- both branches of `if _abort_at_level(level, maxlevel)` yield the filtered children;
    -- only the second collects `next_children`
    (c :: cs).filter filter ++
      levelLoop filter stop maxlevel (level + 1)
        (if abortAt (level + 1) maxlevel then [] else grandchildren stop (c :: cs))
termination_by sizeL children
decreasing_by
  split
  · simp [sizeL]; cases c; simp [size]; omega
  · exact sizeL_grandchildren_lt stop c cs

def levelIter (filter stop : Tree α → Bool) (maxlevel : Option Int) (t : Tree α) : List (Tree α) :=
  levelLoop filter stop maxlevel 1 (start stop maxlevel t)

/-- LevelOrderGroupIter._iter -/
def groupLoop (filter stop : Tree α → Bool) (maxlevel : Option Int) (level : Int)
    (children : List (Tree α)) : List (List (Tree α)) :=
  match children with
  | [] => []
  | c :: cs =>
    (c :: cs).filter filter ::
      (if abortAt (level + 1) maxlevel then []                       -- `break`
       else groupLoop filter stop maxlevel (level + 1) (grandchildren stop (c :: cs)))
termination_by sizeL children
decreasing_by exact sizeL_grandchildren_lt stop c cs

def groupIter (filter stop : Tree α → Bool) (maxlevel : Option Int) (t : Tree α) :
    List (List (Tree α)) :=
  groupLoop filter stop maxlevel 1 (start stop maxlevel t)

/-- `yield next(_iter); yield tuple(reversed(next(_iter)))` until `StopIteration` -/
def zzPairs : List (List β) → List (List β)
  | [] => []
  | [a] => [a]
  | a :: b :: rest => a :: b.reverse :: zzPairs rest

/-- ZigZagGroupIter._iter: a fresh `LevelOrderGroupIter(children[0], …)` consumed pairwise -/
def zigzagIter (filter stop : Tree α → Bool) (maxlevel : Option Int) (t : Tree α) :
    List (List (Tree α)) :=
  match start stop maxlevel t with
  | [] => []
  | c :: _ => zzPairs (groupIter filter stop maxlevel c)

end Iter
end Anytree
