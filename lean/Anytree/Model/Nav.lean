import Anytree.Model.Iter
/-!
# Mirror of the read-only navigation attributes of `NodeMixin` and of `anytree.util`

Zipper view: a node is `(root, a)` with `a : Addr` the list of child indices from the root;
`parent = a.dropLast`, the node object is `sub root a`.  Results that are nodes are addresses.
Loops are mirrored as they are written: `iter_path_reverse` climbs, `depth`/`size` count an
iteration, `height` recurses, `descendants`/`leaves`/`size` run the `PreOrderIter` mirror.
-/
namespace Anytree
namespace Nav
open Tree

/-- `iter_path_reverse`: `node = self; while node is not None: yield node; node = node.parent` -/
def climb (a : Addr) : List Addr :=
  a :: (if a = [] then [] else climb a.dropLast)
termination_by a.length
decreasing_by
  simp only [List.length_dropLast]
  cases a with
  | nil => contradiction
  | cons x xs => simp

/-- `_path`: `tuple(reversed(list(self.iter_path_reverse())))` -/
def path (a : Addr) : List Addr := (climb a).reverse

/-- `ancestors`: `() if self.parent is None else self.parent.path` -/
def ancestors (a : Addr) : List Addr := if a = [] then [] else path a.dropLast

/-- `root`: `node = self; while node.parent is not None: node = node.parent` -/
def root (a : Addr) : Addr := if a = [] then a else root a.dropLast
termination_by a.length
decreasing_by
  simp only [List.length_dropLast]
  cases a with
  | nil => contradiction
  | cons x xs => simp

/-- `depth`: `for depth, _ in enumerate(self.iter_path_reverse()): continue` — the last index -/
def depth (a : Addr) : Nat := (climb a).length - 1

def isRoot (a : Addr) : Bool := a.isEmpty

variable {α : Type}

def node? (r : Tree α) (a : Addr) : Option (Tree α) := sub r a

/-- children of the node at `a`, as addresses -/
def childAddrs (r : Tree α) (a : Addr) : List Addr :=
  match sub r a with
  | none => []
  | some t => (List.range t.kids.length).map (fun i => a ++ [i])

/-- `is_leaf`: `len(self.__children_or_empty) == 0` -/
def isLeaf (r : Tree α) (a : Addr) : Bool := (childAddrs r a).length == 0

/-- `siblings`: `tuple(node for node in parent.children if node is not self)` -/
def siblings (r : Tree α) (a : Addr) : List Addr :=
  if a = [] then [] else (childAddrs r a.dropLast).filter (fun b => b != a)

/-- the subtree at `a`, relabelled with absolute addresses -/
def here (r : Tree α) (a : Addr) : Option (Tree Addr) := (sub r a).map (addrTreeAux a)

/-- `descendants`: `tuple(PreOrderIter(self))[1:]` -/
def descendants (r : Tree α) (a : Addr) : List Addr :=
  match here r a with
  | none => []
  | some t => ((Iter.preIter (fun _ => true) (fun _ => false) none t).map label).tail

/-- `leaves`: `tuple(PreOrderIter(self, filter_=lambda node: node.is_leaf))` -/
def leaves (r : Tree α) (a : Addr) : List Addr :=
  match here r a with
  | none => []
  | some t => (Iter.preIter (fun n => n.kids.length == 0) (fun _ => false) none t).map label

/-- `size`: `for size, _ in enumerate(PreOrderIter(self), 1): continue` -/
def size (r : Tree α) (a : Addr) : Nat :=
  match here r a with
  | none => 0
  | some t => (Iter.preIter (fun _ => true) (fun _ => false) none t).length

mutual
/-- `height`: `max(child.height for child in children) + 1 if children else 0` -/
def heightT : Tree α → Nat
  | node _ cs => if cs.isEmpty then 0 else maxHeight cs + 1
def maxHeight : List (Tree α) → Nat
  | [] => 0
  | c :: cs => max (heightT c) (maxHeight cs)
end

def height (r : Tree α) (a : Addr) : Nat :=
  match sub r a with
  | none => 0
  | some t => heightT t

/-! ## anytree.util -/

/-- Python's `zip(*lists)` -/
def zipStar {β : Type} : List (List β) → List (List β)
  | [] => []
  | first :: rest => go first rest
where
  go : List β → List (List β) → List (List β)
    | [], _ => []
    | x :: xs, rest =>
      if rest.all (fun l => !l.isEmpty) then (x :: rest.filterMap List.head?) :: go xs (rest.map List.tail)
      else []

/-- `commonancestors(*nodes)`, given each node's `ancestors` tuple:
`for parentnodes in zip(*ancestors): if all(parentnode is p …): append else: break` -/
def commonAncestors {β : Type} [DecidableEq β] (ancs : List (List β)) : List β :=
  ((zipStar ancs).takeWhile (fun tup =>
    match tup with
    | [] => true
    | p :: ps => ps.all (fun q => decide (p = q)))).filterMap List.head?

/-- `leftsibling` (identity semantics of a plain node class): `if node.parent:` …
`idx = pchildren.index(node); if idx: return pchildren[idx - 1]; return None` -/
def leftSibling (r : Tree α) (a : Addr) : Option Addr :=
  if a = [] then none else
    let pchildren := childAddrs r a.dropLast
    let idx := pchildren.idxOf a
    if idx != 0 then pchildren[idx - 1]? else none

/-- `rightsibling`: `try: return pchildren[idx + 1] except IndexError: return None` -/
def rightSibling (r : Tree α) (a : Addr) : Option Addr :=
  if a = [] then none else
    let pchildren := childAddrs r a.dropLast
    let idx := pchildren.idxOf a
    pchildren[idx + 1]?

end Nav
end Anytree
