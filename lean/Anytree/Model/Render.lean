import Anytree.Model.Tree
import Anytree.Model.Generated
/-!
# Mirror of `anytree/render.py` (RenderTree) and of the node reprs
-/
namespace Anytree
namespace Render
open Tree
variable {α : Type}

structure Style where
  vertical : String
  cont : String
  end_ : String
  deriving Repr, DecidableEq

/-- `AbstractStyle.empty`: `' ' * len(self.end)` -/
def Style.empty (s : Style) : String := String.ofList (List.replicate s.end_.length ' ')

structure Row (α : Type) where
  pre : String
  fill : String
  node : Tree α

/-- `RenderTree.__item(node, continues, style)` -/
def item (style : Style) (continues : List Bool) (n : Tree α) : Row α :=
  match continues.getLast? with
  | none => ⟨"", "", n⟩                                   -- `if not continues`
  | some last =>
    let items := continues.map (fun c => if c then style.vertical else style.empty)
    let indent := String.join items.dropLast              -- `''.join(items[:-1])`
    let branch := if last then style.cont else style.end_
    ⟨indent ++ branch, String.join items, n⟩

/-- `_is_last(iterable)`: every item paired with "it is the last one" (look-ahead generator) -/
def isLast {β : Type} : List β → List (β × Bool)
  | [] => []
  | [x] => [(x, true)]
  | x :: y :: rest => (x, false) :: isLast (y :: rest)

/-- `RenderTree.__next(node, continues, level)`; `childiter` is arbitrary, hence the fuel -/
def nextF (style : Style) (childiter : List (Tree α) → List (Tree α)) (maxlevel : Option Int) :
    Nat → Tree α → List Bool → Int → List (Row α)
  | 0, n, continues, _ => [item style continues n]
  | fuel+1, n, continues, level =>
    let level' := level + 1
    item style continues n ::
      (if (match maxlevel with | none => true | some m => decide (level' < m)) then
        match n.kids with
        | [] => []                                          -- `if children:`
        | c :: cs =>
          (isLast (childiter (c :: cs))).flatMap (fun p =>
            nextF style childiter maxlevel fuel p.1 (continues ++ [!p.2]) level')
       else [])

/-- `iter(RenderTree(node, style, childiter, maxlevel))` -/
def rows (style : Style) (childiter : List (Tree α) → List (Tree α)) (maxlevel : Option Int)
    (t : Tree α) : List (Row α) :=
  nextF style childiter maxlevel (t.height + 1) t [] 0

/-- `_format_row_any` / the body of `__str__`: `lines` are the lines of the value (`or ['']`) -/
def formatRow (r : Row α) (lines : List String) : List String :=
  match lines with
  | [] => [r.pre ++ ""]                                     -- `lines or ['']`
  | l :: ls => (r.pre ++ l) :: ls.map (fun x => r.fill ++ x)

/-- `str(RenderTree)` / `by_attr`: all rows formatted, joined by newlines -/
def render (style : Style) (childiter : List (Tree α) → List (Tree α)) (maxlevel : Option Int)
    (linesOf : Tree α → List String) (t : Tree α) : String :=
  "\n".intercalate ((rows style childiter maxlevel t).flatMap (fun r => formatRow r (linesOf r.node)))

/-- `_repr(node, args, nameblacklist)`: class name, the given positional arguments, then the public
instance attributes (`not key.startswith('_')`, not blacklisted) sorted by key as `key=<repr>`;
`attrs` carries each value's `repr` text (CPython's) -/
def shownAttrs (blacklist : List String) (attrs : List (String × String)) : List (String × String) :=
  attrs.filter (fun e => !e.1.startsWith "_" && !blacklist.contains e.1)

/-- `sorted(..., key=lambda item: item[0])` -/
def sortedShown (blacklist : List String) (attrs : List (String × String)) : List (String × String) :=
  (shownAttrs blacklist attrs).mergeSort (fun x y => decide (x.1 ≤ y.1))

def nodeRepr (classname : String) (args : List String) (blacklist : List String)
    (attrs : List (String × String)) : String :=
  classname ++ "(" ++ ", ".intercalate (args ++ (sortedShown blacklist attrs).map (fun e => e.1 ++ "=" ++ e.2)) ++ ")"

/-- `Node.__repr__`'s positional argument: `separator.join([""] + [str(node.name) for node in path])`,
before `%r` is applied to it -/
def nodePathString (sep : String) (names : List String) : String := sep.intercalate ("" :: names)

end Render
end Anytree
