import Anytree.Model.Str
import Anytree.Model.Nav
import Anytree.Model.Generated
/-!
# Mirror of `anytree/resolver.py`

A node is an address below the root `r : Tree α`; `nameOf` gives `_getattr(node, pathattr)` (the
path attribute as a string).  `get`, `glob` and the class-level compiled-pattern cache are mirrored
statement for statement, including the `try/except` structure of `__glob`/`__find`.
`legacy = true` reproduces the code before the repairs of findings D4 and D8.
-/
namespace Anytree
namespace Resolver
open Tree Str

inductive RErr
  | root (node : Addr)                         -- RootResolverError(node)
  | child (node : Addr) (name : String)        -- ChildResolverError(node, name)
  | plain (node : Addr)                        -- ResolverError(node, '', msg): missing/unknown root
  deriving DecidableEq, Repr

structure Ctx (α : Type) where
  r : Tree α
  nameOf : α → String
  sep : String
  ignorecase : Bool
  relax : Bool

variable {α : Type}

def Ctx.name (c : Ctx α) (a : Addr) : String :=
  match sub c.r a with
  | some t => c.nameOf t.label
  | none => "None"

def Ctx.children (c : Ctx α) (a : Addr) : List Addr := Nav.childAddrs c.r a

/-- `__cmp` -/
def cmp (ic : Bool) (name pat : String) : Bool :=
  if ic then upper name == upper pat else name == pat

/-- outcome of `__start`: `none` = the relaxed `(None, None)` -/
abbrev Start := Except RErr (Option (Addr × List String))

/-- `__start(node, path, cmp_)` -/
def start (c : Ctx α) (a : Addr) (path : String) (cmp_ : String → String → Bool) : Start :=
  let parts := split c.sep path
  if startsWith path c.sep then
    let rootpart := c.name []
    match parts.drop 1 with              -- `parts.pop(0)`
    | [] => .error (.plain [])           -- cannot happen: a path starting with sep splits in ≥ 2
    | p0 :: rest =>
      if p0 == "" then (if c.relax then .ok none else .error (.plain []))
      else if !cmp_ rootpart p0 then (if c.relax then .ok none else .error (.plain []))
      else .ok (some ([], rest))
  else .ok (some (a, parts))

/-- `__get(node, name)`: first child whose path attribute compares equal -/
def getChild (c : Ctx α) (a : Addr) (name : String) : Option Addr :=
  (c.children a).find? (fun ch => cmp c.ignorecase (c.name ch) name)

/-- the component loop of `get` (after the repair of finding D1: a relaxed miss returns `None`
at once; `legacyD1 = true` is the old code, which went on and dereferenced `None`) -/
def getLoop (c : Ctx α) : List String → Addr → Except RErr (Option Addr)
  | [], a => .ok (some a)
  | part :: rest, a =>
    if part == ".." then
      if a = [] then (if c.relax then .ok none else .error (.root a))
      else getLoop c rest a.dropLast
    else if part == "" || part == "." then getLoop c rest a
    else
      match getChild c a part with
      | some ch => getLoop c rest ch
      | none => if c.relax then .ok none else .error (.child a part)

/-- `Resolver.get(node, path)` -/
def get (c : Ctx α) (a : Addr) (path : String) : Except RErr (Option Addr) :=
  match start c a path (cmp c.ignorecase) with
  | .error e => .error e
  | .ok none => .ok none
  | .ok (some (n, parts)) => getLoop c parts n

/-! ## the compiled-pattern cache -/

/-- `Resolver._match_cache`: `(pat, ignorecase) ↦ compiled pattern` (tokens + the flag it was
compiled with) -/
abbrev Cache := List ((String × Bool) × (List Tok × Bool))

/-- `__match(name, pat)` with the class-level cache: lookup, on a miss translate, clear the cache
when it holds `_MAXCACHE` entries, store, match -/
def matchC (ic : Bool) (cache : Cache) (name pat : String) : Bool × Cache :=
  match cache.find? (fun e => e.1 == (pat, ic)) with
  | some e => (matchToks e.2.2 e.2.1 name.toList, cache)
  | none =>
    let toks := translate pat.toList
    let cache' := if cache.length ≥ Generated.maxCache then [] else cache
    (matchToks ic toks name.toList, cache' ++ [((pat, ic), (toks, ic))])

/-- the same without a cache -/
def matchPure (ic : Bool) (name pat : String) : Bool := matchToks ic (translate pat.toList) name.toList

/-! ## glob -/

/-- `if not any(match is known for known in matches): matches.append(match)` -/
def appendNew (acc ms : List Addr) : List Addr :=
  ms.foldl (fun acc m => if acc.contains m then acc else acc ++ [m]) acc

/-- `any(self.__match(name, pat) for name in names)` (short-circuits; the cache is threaded) -/
def anyMatch (ic : Bool) (pat : String) : List String → Cache → Bool × Cache
  | [], k => (false, k)
  | n :: ns, k =>
    let (hit, k1) := matchC ic k n pat
    if hit then (true, k1) else anyMatch ic pat ns k1

mutual
/-- `__glob(node, parts)`; the cache is threaded through and survives exceptions -/
def globM (legacy : Bool) (c : Ctx α) : List String → Addr → Cache → Except RErr (List Addr) × Cache
  | [], a, k => (.ok [a], k)
  | name :: rem, a, k =>
    if name == ".." then
      if a = [] then (if c.relax then (.ok [], k) else (.error (.root a), k))
      else globM legacy c rem a.dropLast k
    else if name == "" || name == "." then globM legacy c rem a k
    else if name == "**" then
      starLoop legacy c rem ((Tree.addrs ((sub c.r a).getD c.r)).map (a ++ ·)) [] k
    else
      match findLoop legacy c name rem (c.children a) [] k with
      | (.error e, k') => (.error e, k')
      | (.ok ms, k') =>
        -- `if not matches and not is_wildcard(name) and not self.relax:`
        if ms.isEmpty && !isWildcard name && !c.relax then
          if legacy then (.error (.child a name), k')
          else
            -- repaired (finding D8): `if not any(self.__match(name(child), name) for child in children)`
            let (hit, k'') := anyMatch c.ignorecase name ((c.children a).map c.name) k'
            if hit then (.ok ms, k'') else (.error (.child a name), k'')
        else (.ok ms, k')
termination_by parts _ _ => (parts.length, 0)
/-- the `for subnode in PreOrderIter(node)` loop of the `**` branch -/
def starLoop (legacy : Bool) (c : Ctx α) (rem : List String) :
    List Addr → List Addr → Cache → Except RErr (List Addr) × Cache
  | [], acc, k => (.ok acc, k)
  | s :: ss, acc, k =>
    match globM legacy c rem s k with
    | (.ok ms, k') => starLoop legacy c rem ss (appendNew acc ms) k'
    | (.error (.child n x), k') =>
      starLoop legacy c rem ss acc k'                        -- `except ChildResolverError: pass`
    | (.error e, k') =>
      -- repaired (finding D4): `except ResolverError: pass`; the old code let it propagate
      if legacy then (.error e, k') else starLoop legacy c rem ss acc k'
termination_by l _ _ => (rem.length, l.length + 1)
/-- `__find(node, pat, remainder)`: the loop over `node.children` -/
def findLoop (legacy : Bool) (c : Ctx α) (pat : String) (rem : List String) :
    List Addr → List Addr → Cache → Except RErr (List Addr) × Cache
  | [], acc, k => (.ok acc, k)
  | ch :: chs, acc, k =>
    let (hit, k1) := matchC c.ignorecase k (c.name ch) pat
    if hit then
      if rem.isEmpty then findLoop legacy c pat rem chs (acc ++ [ch]) k1   -- `if remainder: … else: append`
      else
        match globM legacy c rem ch k1 with
        | (.ok ms, k2) => findLoop legacy c pat rem chs (acc ++ ms) k2
        | (.error e, k2) =>
          -- `except ResolverError as exc: if not is_wildcard(pat): raise exc`
          if isWildcard pat then findLoop legacy c pat rem chs acc k2 else (.error e, k2)
    else findLoop legacy c pat rem chs acc k1
termination_by l _ _ => (rem.length, l.length + 1)
end

/-- `Resolver.glob(node, path)` (`none` in the relaxed start case is `[]`) -/
def glob (legacy : Bool) (c : Ctx α) (a : Addr) (path : String) (k : Cache) :
    Except RErr (List Addr) × Cache :=
  -- the root component is compared with `__match`, so it goes through the cache too
  let parts := split c.sep path
  if startsWith path c.sep then
    match parts.drop 1 with
    | [] => (.error (.plain []), k)
    | p0 :: rest =>
      if p0 == "" then (if c.relax then (.ok [], k) else (.error (.plain []), k))
      else
        let (hit, k1) := matchC c.ignorecase k (c.name []) p0
        if !hit then (if c.relax then (.ok [], k1) else (.error (.plain []), k1))
        else globM legacy c rest [] k1
  else globM legacy c parts a k

end Resolver
end Anytree
