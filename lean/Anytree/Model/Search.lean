import Anytree.Model.Iter
/-!
# Mirror of `anytree/search.py` and `anytree/cachedsearch.py`
-/
namespace Anytree
namespace Search
open Tree
variable {α : Type}

/-- result of a search call: a value, or `CountError` (which bound failed, the bound, the count) -/
inductive Res (β : Type)
  | ok (r : β)
  | countError (isMin : Bool) (bound : Int) (found : Nat)
  deriving DecidableEq, Repr

/-- `_findall` -/
def findall (filter stop : Tree α → Bool) (maxlevel : Option Int) (mincount maxcount : Option Int)
    (t : Tree α) : Res (List (Tree α)) :=
  let result := Iter.preIter filter stop maxlevel t
  let resultlen : Int := result.length
  match mincount with
  | some mn =>
    if resultlen < mn then .countError true mn result.length
    else match maxcount with
      | some mx => if resultlen > mx then .countError false mx result.length else .ok result
      | none => .ok result
  | none =>
    match maxcount with
    | some mx => if resultlen > mx then .countError false mx result.length else .ok result
    | none => .ok result

/-- `_find`: `items = _findall(…, maxcount=1); return items[0] if items else None` -/
def find (filter stop : Tree α → Bool) (maxlevel : Option Int) (t : Tree α) : Res (Option (Tree α)) :=
  match findall filter stop maxlevel none (some 1) t with
  | .ok items => .ok items.head?
  | .countError a b c => .countError a b c

/-- `_filter_by_name`: `getattr(node, name) == value`, `AttributeError → False`;
`attr n name = none` means the node lacks the attribute -/
def filterByName {V : Type} [DecidableEq V] (attr : Tree α → String → Option V) (name : String)
    (value : V) (n : Tree α) : Bool :=
  match attr n name with
  | none => false
  | some v => decide (v = value)

def findallByAttr {V : Type} [DecidableEq V] (attr : Tree α → String → Option V) (value : V)
    (name : String) (maxlevel : Option Int) (mincount maxcount : Option Int) (t : Tree α) :=
  findall (filterByName attr name value) (fun _ => false) maxlevel mincount maxcount t

def findByAttr {V : Type} [DecidableEq V] (attr : Tree α → String → Option V) (value : V)
    (name : String) (maxlevel : Option Int) (t : Tree α) :=
  find (filterByName attr name value) (fun _ => false) maxlevel t

/-- `anytree.cachedsearch.*`: wrappers forwarding every argument (pass-through without `fastcache`) -/
def cachedFindall := @findall
def cachedFind := @find

end Search
end Anytree
