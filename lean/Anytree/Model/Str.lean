/-!
# String primitives the resolver relies on (Python `str.split`, `startswith`, ASCII `upper`,
and the three-token regular-expression fragment produced by `Resolver.__translate`)
-/
namespace Anytree
namespace Str

/-- is `p` a prefix of `s`? returns the rest -/
def stripPrefix : List Char → List Char → Option (List Char)
  | [], s => some s
  | _ :: _, [] => none
  | p :: ps, c :: cs => if p = c then stripPrefix ps cs else none

/-- Python `s.split(sep)` for a non-empty `sep`: leftmost, non-overlapping; `acc` = current piece
(reversed). Fuel = remaining length + 1 keeps the recursion structural. -/
def splitAux (sep : List Char) : Nat → List Char → List Char → List (List Char)
  | 0, _, acc => [acc.reverse]
  | _ + 1, [], acc => [acc.reverse]
  | fuel + 1, c :: cs, acc =>
    match stripPrefix sep (c :: cs) with
    | some rest => if sep.isEmpty then splitAux sep fuel cs (c :: acc)      -- unreachable for sep ≠ ""
                   else acc.reverse :: splitAux sep fuel rest []
    | none => splitAux sep fuel cs (c :: acc)

def split (sep s : String) : List String :=
  (splitAux sep.toList (s.length + 1) s.toList []).map String.ofList

def startsWith (s sep : String) : Bool := (stripPrefix sep.toList s.toList).isSome

/-- `str.upper()` on ASCII letters (non-ASCII characters are left alone: CPython's case mapping
for them is outside the model) -/
def upperChar (c : Char) : Char := if 'a' ≤ c ∧ c ≤ 'z' then Char.ofNat (c.toNat - 32) else c
def upper (s : String) : String := String.ofList (s.toList.map upperChar)

/-- what `Resolver.__translate` emits per pattern character -/
inductive Tok
  | star            -- `*`  ↦ `.*`
  | any             -- `?`  ↦ `.`
  | lit (c : Char)  -- anything else ↦ `re.escape(c)`
  deriving DecidableEq, Repr

def translate (pat : List Char) : List Tok :=
  pat.map (fun c => if c = '*' then .star else if c = '?' then .any else .lit c)

/-- character equality under `re.IGNORECASE` (ASCII) -/
def eqChar (ic : Bool) (x c : Char) : Bool :=
  if ic then upperChar x == upperChar c else x == c

/-- `.*` against every split point -/
def matchStar (k : List Char → Bool) : List Char → Bool
  | [] => k []
  | c :: cs => k (c :: cs) || matchStar k cs

/-- `re.match('(?ms)' + tokens + r'\Z', name)`: anchored at both ends, `.` matches any character
(DOTALL) -/
def matchToks (ic : Bool) : List Tok → List Char → Bool
  | [], cs => cs.isEmpty
  | .star :: ts, cs => matchStar (matchToks ic ts) cs
  | .any :: ts, cs => match cs with | [] => false | _ :: cs' => matchToks ic ts cs'
  | .lit x :: ts, cs => match cs with | [] => false | c :: cs' => eqChar ic x c && matchToks ic ts cs'

/-- `'?' in path or '*' in path` -/
def isWildcard (s : String) : Bool := s.toList.any (fun c => c == '?' || c == '*')

end Str
end Anytree
