/-!
# String primitives the resolver relies on (Python `str.split`, `startswith`, ASCII `upper`,
and the three-token regular-expression fragment produced by `Resolver.__translate`)
-/
namespace Anytree
namespace Str

/-- is `p` a prefix of `s`? returns the rest -/
def stripPrefix : List Char → List Char → Option (List Char)
  | [], s => some s
  | _ :: _, [] => none
  | p :: ps, c :: cs => if p = c then stripPrefix ps cs else none

/-- Python `s.split(sep)` for a non-empty `sep`: leftmost, non-overlapping; `acc` = current piece
(reversed). Fuel = remaining length + 1 keeps the recursion structural. -/
def splitAux (sep : List Char) : Nat → List Char → List Char → List (List Char)
  | 0, _, acc => [acc.reverse]
  | _ + 1, [], acc => [acc.reverse]
  | fuel + 1, c :: cs, acc =>
    match stripPrefix sep (c :: cs) with
    | some rest => if sep.isEmpty then splitAux sep fuel cs (c :: acc)      -- unreachable for sep ≠ ""
                   else acc.reverse :: splitAux sep fuel rest []
    | none => splitAux sep fuel cs (c :: acc)

def split (sep s : String) : List String :=
  (splitAux sep.toList (s.length + 1) s.toList []).map String.ofList

def startsWith (s sep : String) : Bool := (stripPrefix sep.toList s.toList).isSome

/-- The non-ASCII letters of the model's alphabet: `(c, c.upper(), representative of c's class under
re.IGNORECASE)`.  CPython facts (checked against the running interpreter by the `casetable` case of
the correspondence run): on these characters `str.upper()` is one character long, and
`re.IGNORECASE` is an equivalence relation.  The KELVIN, ANGSTROM and OHM *signs* are their own
upper case but fold to `k`, `å`, `ω` under `re.IGNORECASE`: there `__cmp` and `__match` disagree. -/
def caseTable : List (Char × Char × Char) :=
  [ ('\u212a', '\u212a', 'k'),          -- KELVIN SIGN
    ('\u017f', 'S', 's'),               -- LATIN SMALL LETTER LONG S
    ('\u0131', 'I', 'i'),               -- LATIN SMALL LETTER DOTLESS I
    ('\u00b5', '\u039c', '\u03bc'),     -- MICRO SIGN
    ('\u03bc', '\u039c', '\u03bc'),     -- GREEK SMALL LETTER MU
    ('\u039c', '\u039c', '\u03bc'),     -- GREEK CAPITAL LETTER MU
    ('\u212b', '\u212b', '\u00e5'),     -- ANGSTROM SIGN
    ('\u00e5', '\u00c5', '\u00e5'),     -- å
    ('\u00c5', '\u00c5', '\u00e5'),     -- Å
    ('\u00e9', '\u00c9', '\u00e9'),     -- é
    ('\u00c9', '\u00c9', '\u00e9'),     -- É
    ('\u1e9e', '\u1e9e', '\u00df'),     -- LATIN CAPITAL LETTER SHARP S (folds to ß under re.IGNORECASE)
    ('\u2126', '\u2126', '\u03c9'),     -- OHM SIGN
    ('\u03c9', '\u03a9', '\u03c9'),     -- ω
    ('\u03a9', '\u03a9', '\u03c9') ]    -- Ω

/-- `str.upper()` per character where it is one character long: ASCII letters, the letters of
`caseTable`; every other character is left alone (CPython's case mapping for the rest of Unicode is
outside the model) -/
def upperChar (c : Char) : Char :=
  if 'a' ≤ c ∧ c ≤ 'z' then Char.ofNat (c.toNat - 32)
  else match caseTable.lookup c with
    | some (u, _) => u
    | none => c

/-- the two letters of the alphabet whose upper case is *two* characters long: `ß` ↦ `SS`,
`ﬁ` (U+FB01) ↦ `FI`.  (`ẞ`, U+1E9E, is its own upper case and is in `caseTable`.) -/
def multiUpper : List (Char × List Char) := [('\u00df', ['S', 'S']), ('\ufb01', ['F', 'I'])]

/-- `str.upper()` of one character -/
def upperStr (c : Char) : List Char :=
  match multiUpper.lookup c with
  | some u => u
  | none => [upperChar c]

def upper (s : String) : String := String.ofList (s.toList.flatMap upperStr)

/-- representative of a character's class under `re.IGNORECASE` (same alphabet) -/
def reKey (c : Char) : Char :=
  if 'A' ≤ c ∧ c ≤ 'Z' then Char.ofNat (c.toNat + 32)
  else match caseTable.lookup c with
    | some (_, k) => k
    | none => c

/-- what `Resolver.__translate` emits per pattern character -/
inductive Tok
  | star            -- `*`  ↦ `.*`
  | any             -- `?`  ↦ `.`
  | lit (c : Char)  -- anything else ↦ `re.escape(c)`
  deriving DecidableEq, Repr

def translate (pat : List Char) : List Tok :=
  pat.map (fun c => if c = '*' then .star else if c = '?' then .any else .lit c)

/-- character equality under `re.IGNORECASE` -/
def eqChar (ic : Bool) (x c : Char) : Bool :=
  if ic then reKey x == reKey c else x == c

/-- `.*` against every split point -/
def matchStar (k : List Char → Bool) : List Char → Bool
  | [] => k []
  | c :: cs => k (c :: cs) || matchStar k cs

/-- `re.match('(?ms)' + tokens + r'\Z', name)`: anchored at both ends, `.` matches any character
(DOTALL) -/
def matchToks (ic : Bool) : List Tok → List Char → Bool
  | [], cs => cs.isEmpty
  | .star :: ts, cs => matchStar (matchToks ic ts) cs
  | .any :: ts, cs => match cs with | [] => false | _ :: cs' => matchToks ic ts cs'
  | .lit x :: ts, cs => match cs with | [] => false | c :: cs' => eqChar ic x c && matchToks ic ts cs'

/-- `'?' in path or '*' in path` -/
def isWildcard (s : String) : Bool := s.toList.any (fun c => c == '?' || c == '*')

end Str
end Anytree
