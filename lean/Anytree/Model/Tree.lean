/-!
# Model B — immutable ordered trees

`Tree α` is a finite ordered rose tree: a payload and an ordered list of subtrees.
A *node object* of the Python library is represented by the whole subtree hanging below it
(`t : Tree α`): it carries the node's payload (`t.label`) and its `children` tuple (`t.kids`).
Upward navigation uses the zipper view `(root, addr)` defined at the end of this file.

This file imports nothing; everything in it is executable and used by the driver.
-/

namespace Anytree

inductive Tree (α : Type) where
  | node : α → List (Tree α) → Tree α
  deriving Repr

namespace Tree
variable {α β : Type}

def label : Tree α → α
  | node a _ => a

def kids : Tree α → List (Tree α)
  | node _ cs => cs

@[simp] theorem label_node (a : α) (cs : List (Tree α)) : (node a cs).label = a := rfl
@[simp] theorem kids_node (a : α) (cs : List (Tree α)) : (node a cs).kids = cs := rfl
theorem eta : ∀ t : Tree α, node t.label t.kids = t
  | node _ _ => rfl

/-! ## textbook traversals (yield payloads) — these are *specifications* -/

mutual
/-- pre-order: a node before its children, children left to right -/
def pre : Tree α → List α
  | node a cs => a :: preL cs
def preL : List (Tree α) → List α
  | [] => []
  | c :: cs => pre c ++ preL cs
end

mutual
/-- post-order: all children's subtrees left to right, then the node -/
def post : Tree α → List α
  | node a cs => postL cs ++ [a]
def postL : List (Tree α) → List α
  | [] => []
  | c :: cs => post c ++ postL cs
end

mutual
def size : Tree α → Nat
  | node _ cs => 1 + sizeL cs
def sizeL : List (Tree α) → Nat
  | [] => 0
  | c :: cs => size c + sizeL cs
end

mutual
/-- number of edges on the longest downward path -/
def height : Tree α → Nat
  | node _ cs => heightL cs
/-- `0` for the empty list, else `1 + max height` -/
def heightL : List (Tree α) → Nat
  | [] => 0
  | c :: cs => max (height c + 1) (heightL cs)
end

mutual
/-- payloads of the nodes at depth `k` below (and including, for `k = 0`) the root, left to right -/
def atDepth : Nat → Tree α → List α
  | 0, node a _ => [a]
  | k+1, node _ cs => atDepthL k cs
def atDepthL : Nat → List (Tree α) → List α
  | _, [] => []
  | k, c :: cs => atDepth k c ++ atDepthL k cs
end

/-- one list per depth level `0 … height` -/
def levels (t : Tree α) : List (List α) :=
  (List.range (t.height + 1)).map (fun k => atDepth k t)

/-- level order = concatenation of the levels -/
def levelOrder (t : Tree α) : List α := (levels t).flatten

/-- reverse every second list (indices 1, 3, 5, …) -/
def zigzag : List (List β) → List (List β)
  | [] => []
  | [l] => [l]
  | l₀ :: l₁ :: rest => l₀ :: l₁.reverse :: zigzag rest

mutual
/-- relabel every node with the node object itself (its whole subtree) -/
def decorate : Tree α → Tree (Tree α)
  | node a cs => node (node a cs) (decorateL cs)
def decorateL : List (Tree α) → List (Tree (Tree α))
  | [] => []
  | c :: cs => decorate c :: decorateL cs
end

mutual
def map (f : α → β) : Tree α → Tree β
  | node a cs => node (f a) (mapL f cs)
def mapL (f : α → β) : List (Tree α) → List (Tree β)
  | [] => []
  | c :: cs => map f c :: mapL f cs
end

/-! ## zipper view: a node is `(root, address)` -/

abbrev Addr := List Nat

/-- the subtree at an address (`none` if the address leaves the tree) -/
def sub : Tree α → Addr → Option (Tree α)
  | t, [] => some t
  | node _ cs, i :: is =>
    match cs[i]? with
    | none => none
    | some c => sub c is

mutual
/-- all addresses, in pre-order -/
def addrs : Tree α → List Addr
  | node _ cs => [] :: addrsL 0 cs
def addrsL : Nat → List (Tree α) → List Addr
  | _, [] => []
  | i, c :: cs => (addrs c).map (i :: ·) ++ addrsL (i+1) cs
end

mutual
/-- relabel every node with its address below the root -/
def addrTreeAux : Addr → Tree α → Tree Addr
  | p, node _ cs => node p (addrTreeAuxL p 0 cs)
def addrTreeAuxL : Addr → Nat → List (Tree α) → List (Tree Addr)
  | _, _, [] => []
  | p, i, c :: cs => addrTreeAux (p ++ [i]) c :: addrTreeAuxL p (i+1) cs
end
def addrTree (t : Tree α) : Tree Addr := addrTreeAux [] t

end Tree
end Anytree
