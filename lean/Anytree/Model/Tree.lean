inductive Tree (α : Type) where
  | node : α → List (Tree α) → Tree α
