import Anytree.Model.Nav
/-!
# Mirror of `anytree/walker.py`

A node is `(tree id, address)`; two nodes are the same object iff both components agree.
-/
namespace Anytree
namespace Walker
open Tree

abbrev WNode := Nat × Addr

def pathOf (x : WNode) : List WNode := (Nav.path x.2).map (fun p => (x.1, p))
def rootOf (x : WNode) : WNode := (x.1, Nav.root x.2)

/-- `__calc_common`: `tuple(si for si, ei in zip(start, end) if si is ei)` — a *filter* over the zip -/
def calcCommon (sp ep : List WNode) : List WNode :=
  ((sp.zip ep).filter (fun p => decide (p.1 = p.2))).map Prod.fst

inductive Res
  | walkError
  | indexError                                  -- `common[-1]` on an empty tuple (unreachable)
  | ok (upwards : List WNode) (common : WNode) (downwards : List WNode)
  deriving DecidableEq, Repr

/-- `Walker.walk(start, end)` -/
def walk (s e : WNode) : Res :=
  let startpath := pathOf s
  let endpath := pathOf e
  if rootOf s ≠ rootOf e then .walkError
  else
    let common := calcCommon startpath endpath
    let lenCommon := common.length
    match common.getLast? with
    | none => .indexError
    | some top =>
      let upwards := if s = top then [] else (startpath.drop lenCommon).reverse
      let down := if e = top then [] else endpath.drop lenCommon
      .ok upwards top down

end Walker
end Anytree
