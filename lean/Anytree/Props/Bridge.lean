import Anytree.Lemmas.Bridge
/-!
# Bridge — the unfolded tree faithfully represents the forest state below a node

The correspondence harness evaluates every read-only query on `Forest.toTree s (s.n + 1) r` (model B)
of the model-A state `s`.  The theorems below say that this tree *is* the forest below `r`:

1. `label_toTree`, `kids_toTree`, `kids_labels` — local faithfulness (label, ordered children);
2. `sub_label` — the subtree at an address is the node reached by following child indices
   (`Forest.nodeAt`), as long as the address is within the fuel;
3. `nodeAt_chain`, `depth_lt`, `complete`, `node_at`, `leaf_iff`, `fuel_stable` — in an `Inv` state
   the fuel `s.n + 1` used by the driver is adequate: nothing is cut off;
4. `parent_agrees`, `child_exists` — the zipper parent (`dropLast`) is the forest `__parent`;
5. `exists_addr`, `addr_unique`, `existsUnique_addr`, `pre_nodup`, `mem_pre`, `roots_partition` —
   every node below `r` occurs exactly once;
6. `path_nodes`, `path_step`, `depth_chain`, `parent_attr`, `children_attr` — the navigation
   attributes of the mirror, read through `nodeAt`, are the forest's parent chain / links.

Fuel conditions are explicit in every statement.  Nothing here uses `s.parent r = none`; where the
task statement assumed a root, the theorem holds for the forest below an arbitrary existing node.
-/
namespace Anytree.Props.Bridge
open Anytree Tree

/-! ## 1. local faithfulness -/

/-- the label is the node, for any fuel (including `0`) -/
theorem label_toTree (s : Forest) (fuel r : Nat) : (s.toTree fuel r).label = r :=
  Forest.toTree_label s fuel r

/-- with fuel `≥ 1` the children are the unfoldings of `s.children r`, in order -/
theorem kids_toTree (s : Forest) (fuel r : Nat) :
    (s.toTree (fuel + 1) r).kids = (s.children r).map (s.toTree fuel) :=
  Forest.toTree_kids s fuel r

theorem kids_labels (s : Forest) (fuel r : Nat) :
    (s.toTree (fuel + 1) r).kids.map Tree.label = s.children r :=
  Forest.toTree_kids_labels s fuel r

/-! ## 2. addresses follow child indices -/

/-- strong form: the subtree at `a` is the unfolding (with the remaining fuel) of the node at `a` -/
theorem sub_eq (s : Forest) (a : Addr) (fuel r : Nat) (h : a.length ≤ fuel) :
    Tree.sub (s.toTree fuel r) a = (s.nodeAt r a).map (s.toTree (fuel - a.length)) :=
  Forest.sub_toTree s a fuel r h

theorem sub_label (s : Forest) (a : Addr) (fuel r : Nat) (h : a.length < fuel) :
    (Tree.sub (s.toTree fuel r) a).map Tree.label = s.nodeAt r a :=
  Forest.sub_toTree_label s a fuel r (Nat.le_of_lt h)

/-- addresses longer than the fuel leave the unfolded tree -/
theorem sub_beyond_fuel (s : Forest) (a : Addr) (fuel r : Nat) (h : fuel < a.length) :
    Tree.sub (s.toTree fuel r) a = none :=
  Forest.sub_toTree_none s a fuel r h

/-! ## 3. depth bound / fuel adequacy -/

/-- the parent chain of the node at `a`, of length `|a|`, ends in `r` -/
theorem nodeAt_chain {s : Forest} (h : Inv s) {r x : Nat} {a : Addr}
    (hx : s.nodeAt r a = some x) : s.up a.length x = some r :=
  h.nodeAt_up a r x hx

theorem depth_lt {s : Forest} (h : Inv s) {r : Nat} (hr : r < s.n) {x : Nat} {a : Addr}
    (hx : s.nodeAt r a = some x) : a.length < s.n :=
  h.nodeAt_length_lt hr hx

/-- with the driver's fuel the tree is complete: for *all* addresses -/
theorem complete {s : Forest} (h : Inv s) {r : Nat} (hr : r < s.n) (a : Addr) :
    (Tree.sub (s.toTree (s.n + 1) r) a).map Tree.label = s.nodeAt r a :=
  h.sub_toTree_label hr a

/-- the node object at a valid address carries the right label and the right ordered children -/
theorem node_at {s : Forest} (h : Inv s) {r : Nat} (hr : r < s.n) {x : Nat} {a : Addr}
    (hx : s.nodeAt r a = some x) :
    ∃ t, Tree.sub (s.toTree (s.n + 1) r) a = some t ∧ t.label = x ∧
      t.kids.map Tree.label = s.children x := by
  obtain ⟨t, h1, h2, h3, _⟩ := h.sub_toTree_node hr hx
  exact ⟨t, h1, h2, h3⟩

/-- leaves of the unfolded tree are genuine leaves (no cut-off by the fuel) -/
theorem leaf_iff {s : Forest} (h : Inv s) {r : Nat} (hr : r < s.n) {x : Nat} {a : Addr}
    (hx : s.nodeAt r a = some x) :
    ∃ t, Tree.sub (s.toTree (s.n + 1) r) a = some t ∧ (t.kids = [] ↔ s.children x = []) := by
  obtain ⟨t, h1, _, _, h4⟩ := h.sub_toTree_node hr hx
  exact ⟨t, h1, h4⟩

/-- more fuel gives the same tree -/
theorem fuel_stable {s : Forest} (h : Inv s) {r : Nat} (hr : r < s.n) (k : Nat) :
    s.toTree (s.n + 1 + k) r = s.toTree (s.n + 1) r :=
  h.toTree_stable hr k

/-- … and already `s.n` is enough -/
theorem fuel_stable' {s : Forest} (h : Inv s) {r : Nat} (hr : r < s.n) (k : Nat) :
    s.toTree (s.n + k) r = s.toTree s.n r :=
  h.toTree_stable' hr k

/-! ## 4. parent relation -/

/-- the node at the parent address is the forest parent -/
theorem parent_agrees {s : Forest} (h : Inv s) {r : Nat} {a : Addr} {i c : Nat}
    (hc : s.nodeAt r (a ++ [i]) = some c) :
    ∃ p, s.nodeAt r a = some p ∧ s.parent c = some p :=
  h.nodeAt_parent hc

/-- conversely a forest child of the node at `a` sits at a child address of `a` -/
theorem child_exists {s : Forest} (h : Inv s) {r : Nat} {a : Addr} {p c : Nat}
    (hp : s.nodeAt r a = some p) (hc : s.parent c = some p) :
    ∃ i, s.nodeAt r (a ++ [i]) = some c :=
  h.nodeAt_of_parent hp hc

/-! ## 5. every node below `r` appears exactly once -/

theorem exists_addr {s : Forest} (h : Inv s) {r k x : Nat} (hx : s.up k x = some r) :
    ∃ a : Addr, a.length = k ∧ s.nodeAt r a = some x :=
  h.nodeAt_exists k x hx

theorem addr_unique {s : Forest} (h : Inv s) {r x : Nat} {a b : Addr}
    (ha : s.nodeAt r a = some x) (hb : s.nodeAt r b = some x) : a = b :=
  h.nodeAt_inj a b x ha hb

theorem existsUnique_addr {s : Forest} (h : Inv s) {r k x : Nat} (hx : s.up k x = some r) :
    ∃ a : Addr, s.nodeAt r a = some x ∧ a.length = k ∧ ∀ b, s.nodeAt r b = some x → b = a :=
  h.nodeAt_existsUnique hx

/-- the pre-order of the unfolded tree reads the nodes off the addresses -/
theorem pre_eq {s : Forest} (h : Inv s) {r : Nat} (hr : r < s.n) :
    (s.toTree (s.n + 1) r).pre = (addrs (s.toTree (s.n + 1) r)).filterMap (s.nodeAt r) :=
  h.pre_toTree hr

theorem pre_nodup {s : Forest} (h : Inv s) {r : Nat} (hr : r < s.n) :
    (s.toTree (s.n + 1) r).pre.Nodup :=
  h.nodup_pre_toTree hr

theorem mem_pre {s : Forest} (h : Inv s) {r : Nat} (hr : r < s.n) (x : Nat) :
    x ∈ (s.toTree (s.n + 1) r).pre ↔ ∃ k, s.up k x = some r :=
  h.mem_pre_toTree hr x

/-- the statement of the task, with its hypotheses (`r` a root) -/
theorem pre_spec {s : Forest} (h : Inv s) {r : Nat} (hr : r < s.n) (_hroot : s.parent r = none) :
    (s.toTree (s.n + 1) r).pre.Nodup ∧
      ∀ x, x ∈ (s.toTree (s.n + 1) r).pre ↔ ∃ k, s.up k x = some r :=
  ⟨pre_nodup h hr, mem_pre h hr⟩

theorem mem_roots (s : Forest) (r : Nat) : r ∈ s.roots ↔ r < s.n ∧ s.parent r = none :=
  Forest.mem_roots s r

/-- the unfolded trees of `Forest.roots` partition the existing nodes -/
theorem roots_partition {s : Forest} (h : Inv s) {x : Nat} (hx : x < s.n) :
    ∃ r, r ∈ s.roots ∧ x ∈ (s.toTree (s.n + 1) r).pre ∧
      ∀ r', r' ∈ s.roots → x ∈ (s.toTree (s.n + 1) r').pre → r' = r :=
  h.roots_partition hx

/-! ## 6. the navigation mirror read through `nodeAt` -/

/-- `path`: the nodes on the zipper path are `r = up |a| x, …, up 1 x, up 0 x = x` -/
theorem path_nodes {s : Forest} (h : Inv s) {r x : Nat} {a : Addr} (hx : s.nodeAt r a = some x) :
    (Nav.path a).map (s.nodeAt r) =
      (List.range (a.length + 1)).map (fun k => s.up (a.length - k) x) :=
  h.path_nodeAt hx

/-- consecutive nodes on the path (`(Nav.path a)[k] = a.take k`) are related by `s.parent` -/
theorem path_step {s : Forest} (h : Inv s) {r x : Nat} {a : Addr} (hx : s.nodeAt r a = some x)
    (k : Nat) (hk : k < a.length) :
    ∃ p c, s.nodeAt r (a.take k) = some p ∧ s.nodeAt r (a.take (k + 1)) = some c ∧
      s.parent c = some p :=
  h.path_step hx k hk

theorem depth_chain {s : Forest} (h : Inv s) {r x : Nat} {a : Addr} (hx : s.nodeAt r a = some x) :
    s.up (Nav.depth a) x = some r :=
  h.depth_nodeAt hx

theorem parent_attr {s : Forest} (h : Inv s) {r x : Nat} {a : Addr} (ha : a ≠ [])
    (hx : s.nodeAt r a = some x) : s.nodeAt r a.dropLast = s.parent x :=
  h.dropLast_nodeAt ha hx

theorem children_attr {s : Forest} (h : Inv s) {r : Nat} (hr : r < s.n) {x : Nat} {a : Addr}
    (hx : s.nodeAt r a = some x) :
    (Nav.childAddrs (s.toTree (s.n + 1) r) a).map (s.nodeAt r) = (s.children x).map some :=
  h.childAddrs_nodeAt hr hx

end Anytree.Props.Bridge
