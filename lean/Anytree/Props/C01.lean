import Anytree.Lemmas.Chain
/-!
# C01 — parent and children links always describe one consistent forest

`Inv` is preserved by **every** structural call of the mirror: for every forest, every
(well-formed) argument, every fault schedule `φ` of the eight hooks (any hook raising at any
invocation, once or persistently), both flavours, both assertion settings and every amount of
fuel — whether the call returns, is refused, is aborted by a hook, or runs out of fuel.
Hence for every finite history (`inv_history`).
-/
namespace Anytree.Props.C01
open Anytree Forest

/-- the invariant, with the number of existing objects pinned -/
def Gd (k : Nat) : Forest → Prop := fun f => Inv f ∧ f.n = k
/-- exceptional postcondition: whatever was raised, the forest is consistent -/
def EG (k : Nat) : Err → World → Prop := fun _ w => Gd k w.f

theorem inv_empty : Inv Forest.empty :=
  ⟨by intro c p; simp [Forest.empty], by intro p; simp [Forest.empty],
   by intro x; exact ⟨1, by simp [up, Forest.empty]⟩, by intro x _; simp [Forest.empty]⟩

theorem up_newNode (s : Forest) : ∀ k x, s.newNode.up k x = s.up k x := by
  intro k
  induction k with
  | zero => intro x; rfl
  | succ k ih =>
    intro x
    simp only [up]
    show (match s.parent x with | none => none | some p => s.newNode.up k p) = _
    cases s.parent x with
    | none => rfl
    | some p => exact ih p

theorem inv_newNode {s : Forest} (h : Inv s) : Inv s.newNode :=
  ⟨h.bidir, h.nodup, by intro x; obtain ⟨k, hk⟩ := h.term x; exact ⟨k, by rw [up_newNode]; exact hk⟩,
   by intro x hx; exact h.supp x (by simp [newNode] at hx; omega)⟩

theorem inv_detachRaw {s : Forest} (h : Inv s) {n p : Nat} (hp : s.parent n = some p) :
    Inv (s.detachRaw n p) := Anytree.inv_detachRaw h hp

theorem inv_attachRaw {s : Forest} (h : Inv s) {n p : Nat} (hroot : s.parent n = none)
    (hloop : ∀ j, s.up j p ≠ some n) (hn : n < s.n) (hpn : p < s.n) :
    Inv (s.attachRaw n p) := Anytree.inv_attachRaw h hroot hloop hn hpn

/-! ## the loop check really excludes loops -/

theorem onChain_false {s : Forest} {n : Nat} (fuel p : Nat) (h : onChain s n fuel p = some false) :
    ∀ j, s.up j p ≠ some n := Anytree.onChain_false fuel p h

/-! ## Hoare triples of the mirror's building blocks -/

theorem hook_triple (G : Forest → Prop) (E : Err → World → Prop) (hE : ∀ e w, G w.f → E e w)
    (c : Cfg) (k : HookKind) (n : Nat) (a : List Nat) :
    Triple (onF G) (hook c k n a) (onF G) E :=
  Triple.frame (hook_f c k n a) (by
    intro w e _ hG
    apply hE
    rw [hook_f]; exact hG)

theorem assert_triple (G : Forest → Prop) (E : Err → World → Prop) (hE : ∀ e w, G w.f → E e w)
    (c : Cfg) (cond : Forest → Bool) :
    Triple (onF G) (assertM c cond) (onF G) E :=
  Triple.frame (assertM_f c cond) (by
    intro w e _ hG
    apply hE
    rw [assertM_f]; exact hG)

/-- `__detach`: `L` is any fact about the forest that survives cutting `n` off -/
theorem detach_triple (k : Nat) (c : Cfg) (n : Nat) (old : Option Nat) (L : Forest → Prop)
    (hL : ∀ f q, L f → L (f.detachRaw n q)) :
    Triple (onF fun f => Gd k f ∧ f.parent n = old ∧ L f) (detach c n old)
      (onF fun f => Gd k f ∧ f.parent n = none ∧ L f) (EG k) := by
  cases old with
  | none => exact Triple.ok
  | some p =>
    unfold detach
    have hE : ∀ (e : Err) (w : World), (Gd k w.f ∧ w.f.parent n = some p ∧ L w.f) → EG k e w :=
      fun _ _ h => h.1
    have hE' : ∀ (e : Err) (w : World), (Gd k w.f ∧ w.f.parent n = none ∧ L w.f) → EG k e w :=
      fun _ _ h => h.1
    refine Triple.seq (Triple.seq (Triple.seq (hook_triple _ _ hE c .preDetach n [p])
      (assert_triple _ _ hE c _)) ?_) (hook_triple _ _ hE' c .postDetach n [p])
    apply Triple.modify
    intro f ⟨⟨hi, hk⟩, hp, hl⟩
    exact ⟨⟨Anytree.inv_detachRaw hi hp, by simpa using hk⟩, by simp, hL f p hl⟩

/-- `__attach` -/
theorem attach_triple (k : Nat) (c : Cfg) (n p : Nat) (hn : n < k) (hp : p < k) :
    Triple (onF fun f => Gd k f ∧ f.parent n = none ∧ ∀ j, f.up j p ≠ some n)
      (attach c n (some p)) (onF (Gd k)) (EG k) := by
  unfold attach
  have hE : ∀ (e : Err) (w : World),
      (Gd k w.f ∧ w.f.parent n = none ∧ ∀ j, w.f.up j p ≠ some n) → EG k e w := fun _ _ h => h.1
  have hE' : ∀ (e : Err) (w : World), Gd k w.f → EG k e w := fun _ _ h => h
  refine Triple.seq (Triple.seq (Triple.seq (hook_triple _ _ hE c .preAttach n [p])
    (assert_triple _ _ hE c _)) ?_) (hook_triple _ _ hE' c .postAttach n [p])
  apply Triple.modify
  intro f ⟨⟨hi, hk⟩, hr, hl⟩
  exact ⟨Anytree.inv_attachRaw hi hr hl (by omega) (by omega), by simpa using hk⟩

theorem checkLoop_triple (fuel n p : Nat) (G : Forest → Prop)
    (E : Err → World → Prop) (hE : ∀ e w, G w.f → E e w) :
    Triple (onF G) (checkLoop fuel n (some p))
      (onF fun f => G f ∧ ∀ j, f.up j p ≠ some n) E := by
  intro w hw
  simp only [checkLoop]
  by_cases hpn : p = n
  · simp only [hpn, if_true]; exact hE _ _ hw
  · simp only [hpn, if_false]
    cases h : onChain w.f n fuel p with
    | none => exact hE _ _ hw
    | some b =>
      cases b with
      | true => exact hE _ _ hw
      | false => exact ⟨hw, onChain_false fuel p h⟩

/-- the `parent` setter preserves the invariant, whatever happens -/
theorem setParent_triple (k : Nat) (c : Cfg) (fuel n : Nat) (v : Option Arg) (hn : n < k)
    (hv : ArgOk k v) :
    Triple (onF (Gd k)) (setParent c fuel n v) (onF (Gd k)) (EG k) := by
  intro w hw
  simp only [setParent]
  match v, hv with
  | some .nonNode, _ => cases c.fl <;> exact hw
  | none, _ =>
    simp only
    by_cases hold : w.f.parent n = none
    · simp only [hold, if_true]; exact hw
    · simp only [hold, if_false]
      have h := detach_triple k c n (w.f.parent n) (fun _ => True) (fun _ _ _ => trivial)
      have := h.weaken (P' := onF fun f => Gd k f ∧ f.parent n = w.f.parent n ∧ True)
        (Q' := onF (Gd k)) (E' := EG k) (fun _ h => h) (fun _ h => h.1) (fun _ _ h => h)
      exact this.run ⟨hw, rfl, trivial⟩
  | some (.node p), hp =>
    simp only
    by_cases hold : w.f.parent n = some p
    · simp only [hold, if_true]; exact hw
    · simp only [hold, if_false]
      have h1 := checkLoop_triple fuel n p (fun f => Gd k f ∧ f.parent n = w.f.parent n)
        (EG k) (fun _ _ h => h.1)
      have h2 := detach_triple k c n (w.f.parent n) (fun f => ∀ j, f.up j p ≠ some n)
        (by intro f q hl j hj; exact hl j (up_detachRaw_some j p n hj))
      have h3 := attach_triple k c n p hn hp
      have h12 := Triple.seq (h1.weaken (fun _ h => h) (fun _ h => ⟨h.1.1, h.1.2, h.2⟩)
        (fun _ _ h => h)) h2
      exact (Triple.seq h12 h3).run ⟨hw, rfl⟩

theorem children_lt {k : Nat} {f : Forest} (h : Gd k f) {n x : Nat} (hx : x ∈ f.children n) :
    x < k := by
  have := (h.1.lt_of_parent ((h.1.bidir x n).2 hx)).1
  rw [h.2] at this; exact this

/-- the `children` deleter -/
theorem delChildren_triple (k : Nat) (c : Cfg) (fuel n : Nat) :
    Triple (onF (Gd k)) (delChildren c fuel n) (onF (Gd k)) (EG k) := by
  intro w hw
  unfold delChildren
  have hE : ∀ (e : Err) (w : World), Gd k w.f → EG k e w := fun _ _ h => h
  have hloop : Triple (onF (Gd k))
      (forM' (w.f.children n) (fun ch => setParent c fuel ch none)) (onF (Gd k)) (EG k) :=
    Triple.forM' _ (fun x hx => setParent_triple k c fuel x none (children_lt hw hx) trivial)
  exact (Triple.seq (Triple.seq (Triple.seq (hook_triple _ _ hE c .preDetachChildren n _) hloop)
    (assert_triple _ _ hE c _)) (hook_triple _ _ hE c .postDetachChildren n _)).run hw

/-- the `children` setter after its argument checks, including the recursive restore -/
theorem setChildrenNodes_triple (k : Nat) (c : Cfg) :
    ∀ (fuel n : Nat) (xs : List Nat), n < k → (∀ x ∈ xs, x < k) →
      Triple (onF (Gd k)) (setChildrenNodes c fuel n xs) (onF (Gd k)) (EG k) := by
  intro fuel
  induction fuel with
  | zero => intro n xs _ _; unfold setChildrenNodes; exact Triple.throw _ (fun _ h => h)
  | succ fuel ih =>
    intro n xs hn hxs w hw
    unfold setChildrenNodes
    have hE : ∀ (e : Err) (w : World), Gd k w.f → EG k e w := fun _ _ h => h
    have hold : ∀ x ∈ w.f.children n, x < k := fun x hx => children_lt hw hx
    have hloop : Triple (onF (Gd k))
        (forM' xs (fun x => setParent c fuel x (some (.node n)))) (onF (Gd k)) (EG k) :=
      Triple.forM' _ (fun x hx => setParent_triple k c fuel x _ (hxs x hx) hn)
    have htry := Triple.seq (Triple.seq (Triple.seq (hook_triple _ _ hE c .preAttachChildren n xs)
      hloop) (hook_triple _ _ hE c .postAttachChildren n xs))
      (assert_triple _ _ hE c (fun f => (f.children n).length == xs.length))
    refine (Triple.seq (delChildren_triple k c fuel n) (Triple.tryCatch htry ?_)).run hw
    intro e
    cases e with
    | diverged => exact Triple.throw _ (fun _ h => h)
    | treeError | loopError | typeError | hook _ _ _ | assertion | unmodelled =>
      simp only
      split
      · exact Triple.throw _ (fun _ h => h)
      · exact Triple.seq (ih n (w.f.children n) hn hold) (Triple.throw _ (fun _ h => h))

def ArgsOk (k : Nat) : Option (List Arg) → Prop
  | none => True
  | some xs => ∀ x ∈ xs, ArgOk k (some x)

instance (k : Nat) (xs : Option (List Arg)) : Decidable (ArgsOk k xs) := by
  cases xs with
  | none => exact isTrue trivial
  | some xs => exact inferInstanceAs (Decidable (∀ x ∈ xs, ArgOk k (some x)))

theorem argsToNodes_lt {k : Nat} : ∀ (xs : List Arg), (∀ x ∈ xs, ArgOk k (some x)) →
    ∀ y ∈ argsToNodes xs, y < k := by
  intro xs
  induction xs with
  | nil => intro _ y hy; simp [argsToNodes] at hy
  | cons a as ih =>
    intro h y hy
    cases a with
    | nonNode => exact ih (fun x hx => h x (by simp [hx])) y (by simpa [argsToNodes] using hy)
    | node p =>
      simp only [argsToNodes, List.mem_cons] at hy
      cases hy with
      | inl e => subst e; exact h (.node y) (by simp)
      | inr hy => exact ih (fun x hx => h x (by simp [hx])) y hy

theorem setChildren_triple (k : Nat) (c : Cfg) (fuel n : Nat) (xs : Option (List Arg)) (hn : n < k)
    (hxs : ArgsOk k xs) :
    Triple (onF (Gd k)) (setChildren c fuel n xs) (onF (Gd k)) (EG k) := by
  unfold setChildren
  cases xs with
  | none => exact Triple.throw _ (fun _ h => h)
  | some as =>
    simp only
    split
    · exact Triple.throw _ (fun _ h => h)
    · exact setChildrenNodes_triple k c fuel n _ hn (argsToNodes_lt as hxs)

/-! ## the theorems -/

def KidsOk (k : Nat) : CtorKids → Prop
  | .list xs => ∀ x ∈ xs, ArgOk k (some x)
  | _ => True

instance (k : Nat) (cs : CtorKids) : Decidable (KidsOk k cs) := by
  cases cs with
  | list xs => exact inferInstanceAs (Decidable (∀ x ∈ xs, ArgOk k (some x)))
  | none => exact isTrue trivial
  | nonIterable => exact isTrue trivial

/-- an op only names objects that exist -/
def WellFormed (s : Forest) : Op → Prop
  | .setParent n v => n < s.n ∧ ArgOk s.n v
  | .setChildren n xs => n < s.n ∧ ArgsOk s.n xs
  | .delChildren n => n < s.n
  | .ctor p cs => ArgOk s.n p ∧ KidsOk s.n cs

instance (s : Forest) (op : Op) : Decidable (WellFormed s op) := by
  cases op <;> (unfold WellFormed; exact inferInstance)

theorem inv_setParent (c : Cfg) (fuel : Nat) (s : Forest) (n : Nat) (v : Option Arg) (h : Inv s)
    (hwf : WellFormed s (.setParent n v)) : Inv (exec c fuel (.setParent n v) s).f := by
  have := (setParent_triple s.n c fuel n v hwf.1 hwf.2).run (w := ⟨s, [], 0⟩) ⟨h, rfl⟩
  simp only [exec, Op.run]
  cases hr : setParent c fuel n v ⟨s, [], 0⟩ with
  | mk r w' => rw [hr] at this; cases r with
    | ok u => cases u; exact this.1
    | error e => exact this.1

theorem inv_delChildren (c : Cfg) (fuel : Nat) (s : Forest) (n : Nat) (h : Inv s) :
    Inv (exec c fuel (.delChildren n) s).f := by
  have := (delChildren_triple s.n c fuel n).run (w := ⟨s, [], 0⟩) ⟨h, rfl⟩
  simp only [exec, Op.run]
  cases hr : delChildren c fuel n ⟨s, [], 0⟩ with
  | mk r w' => rw [hr] at this; cases r with
    | ok u => cases u; exact this.1
    | error e => exact this.1

theorem inv_setChildren (c : Cfg) (fuel : Nat) (s : Forest) (n : Nat) (xs : Option (List Arg))
    (h : Inv s) (hwf : WellFormed s (.setChildren n xs)) :
    Inv (exec c fuel (.setChildren n xs) s).f := by
  have := (setChildren_triple s.n c fuel n xs hwf.1 hwf.2).run (w := ⟨s, [], 0⟩) ⟨h, rfl⟩
  simp only [exec, Op.run]
  cases hr : setChildren c fuel n xs ⟨s, [], 0⟩ with
  | mk r w' => rw [hr] at this; cases r with
    | ok u => cases u; exact this.1
    | error e => exact this.1

theorem argOk_mono {k : Nat} {v : Option Arg} (h : ArgOk k v) : ArgOk (k+1) v := by
  match v, h with
  | some (.node p), h => exact Nat.lt_succ_of_lt h
  | some .nonNode, _ => trivial
  | none, _ => trivial

theorem ctor_triple (k : Nat) (c : Cfg) (fuel : Nat) (p : Option Arg) (cs : CtorKids)
    (hp : ArgOk k p) (hcs : KidsOk k cs) :
    Triple (onF (Gd k)) (ctor c fuel p cs) (onF (Gd (k+1))) (EG (k+1)) := by
  intro w hw
  unfold ctor
  have hk : w.f.n = k := hw.2
  have hnew : Triple (onF (Gd k)) (M.modify Forest.newNode) (onF (Gd (k+1))) (EG (k+1)) :=
    Triple.modify (fun f hf => ⟨inv_newNode hf.1, by simp [newNode, hf.2]⟩)
  have hsp := setParent_triple (k+1) c fuel w.f.n p (by omega) (argOk_mono hp)
  have hkids : Triple (onF (Gd (k+1)))
      (match (generalizing := false) cs with
        | .none => M.ok
        | .list [] => M.ok
        | .list xs => setChildren c fuel w.f.n (some xs)
        | .nonIterable => setChildren c fuel w.f.n none) (onF (Gd (k+1))) (EG (k+1)) := by
    cases cs with
    | none => exact Triple.ok
    | nonIterable => exact setChildren_triple (k+1) c fuel _ none (by omega) trivial
    | list xs =>
      cases xs with
      | nil => exact Triple.ok
      | cons x xs =>
        exact setChildren_triple (k+1) c fuel _ _ (by omega) (fun y hy => argOk_mono (hcs y hy))
  exact (Triple.seq (Triple.seq hnew hsp) hkids).run hw

theorem inv_ctor (c : Cfg) (fuel : Nat) (s : Forest) (p : Option Arg) (cs : CtorKids) (h : Inv s)
    (hwf : WellFormed s (.ctor p cs)) : Inv (exec c fuel (.ctor p cs) s).f := by
  have := (ctor_triple s.n c fuel p cs hwf.1 hwf.2).run (w := ⟨s, [], 0⟩) ⟨h, rfl⟩
  simp only [exec, Op.run]
  cases hr : ctor c fuel p cs ⟨s, [], 0⟩ with
  | mk r w' => rw [hr] at this; cases r with
    | ok u => cases u; exact this.1
    | error e => exact this.1

/-- **C01, one step**: whatever the call, the arguments, the fault schedule, the flavour, the
assertion switch and the fuel — and whether the call returns or raises — the forest stays
consistent. -/
theorem inv_exec (c : Cfg) (fuel : Nat) (op : Op) (s : Forest) (h : Inv s) (hwf : WellFormed s op) :
    Inv (exec c fuel op s).f := by
  cases op with
  | setParent n v => exact inv_setParent c fuel s n v h hwf
  | setChildren n xs => exact inv_setChildren c fuel s n xs h hwf
  | delChildren n => exact inv_delChildren c fuel s n h
  | ctor p cs => exact inv_ctor c fuel s p cs h hwf

/-- a history: each call with its own configuration (fault schedule, assertion switch) -/
def runHistory (fuel : Nat) : List (Cfg × Op) → Forest → Forest
  | [], s => s
  | (c, op) :: rest, s => runHistory fuel rest (exec c fuel op s).f

/-- every call of the history names existing objects, at the point where it is made -/
def WellFormedHistory (fuel : Nat) : List (Cfg × Op) → Forest → Prop
  | [], _ => True
  | (c, op) :: rest, s => WellFormed s op ∧ WellFormedHistory fuel rest (exec c fuel op s).f

def decWFH (fuel : Nat) : (hist : List (Cfg × Op)) → (s : Forest) → Decidable (WellFormedHistory fuel hist s)
  | [], _ => isTrue trivial
  | (c, op) :: rest, s =>
    have := decWFH fuel rest (exec c fuel op s).f
    inferInstanceAs (Decidable (WellFormed s op ∧ WellFormedHistory fuel rest (exec c fuel op s).f))

instance (fuel : Nat) (hist : List (Cfg × Op)) (s : Forest) : Decidable (WellFormedHistory fuel hist s) :=
  decWFH fuel hist s

/-- **C01**: after any finite history from the empty forest the links are consistent -/
theorem inv_history (fuel : Nat) (hist : List (Cfg × Op)) :
    ∀ s, Inv s → WellFormedHistory fuel hist s → Inv (runHistory fuel hist s) := by
  induction hist with
  | nil => intro s h _; exact h
  | cons co rest ih =>
    intro s h hwf
    obtain ⟨c, op⟩ := co
    exact ih _ (inv_exec c fuel op s h hwf.1) hwf.2

/-! ## what the invariant means for a user (the wording of the property) -/

/-- `n` appears in `p.children` exactly once iff `n.parent is p` -/
theorem child_count_eq_one_iff_parent {s : Forest} (h : Inv s) (n p : Nat) :
    (s.children p).count n = 1 ↔ s.parent n = some p := by
  rw [h.bidir n p]
  constructor
  · intro hc
    exact List.count_pos_iff.mp (by omega)
  · intro hm
    have h1 := (List.nodup_iff_count.mp (h.nodup p)) n
    have h2 := List.count_pos_iff.mpr hm
    omega

/-- … and in no other node's children -/
theorem not_in_other_children {s : Forest} (h : Inv s) {n p q : Nat} (hp : s.parent n = some p)
    (hq : q ≠ p) : n ∉ s.children q := by
  intro hm
  have := (h.bidir n q).2 hm
  rw [hp] at this
  exact hq (Option.some.inj this).symm

/-- no node is its own ancestor -/
theorem no_self_ancestor {s : Forest} (h : Inv s) (x : Nat) : ∀ k, 0 < k → s.up k x ≠ some x :=
  h.no_self_ancestor x

/-- a detached node is the root of its own tree -/
theorem detached_is_root {s : Forest} (h : Inv s) {n : Nat} (hp : s.parent n = none) :
    (∀ q, n ∉ s.children q) ∧ s.up 1 n = none := by
  constructor
  · intro q hm
    have := (h.bidir n q).2 hm
    rw [hp] at this; simp at this
  · simp [up, hp]

-- non-vacuity: a six-node, two-tree forest satisfies the invariant's decidable rendering, and the
-- K1 call on it (a vetoed move) ends in a state that still does
def s6 : Forest := runHistory 64
  [(⟨.nm, true, noFaults⟩, .ctor none .none), (⟨.nm, true, noFaults⟩, .ctor (some (.node 0)) .none),
   (⟨.nm, true, noFaults⟩, .ctor (some (.node 0)) .none), (⟨.nm, true, noFaults⟩, .ctor (some (.node 1)) .none),
   (⟨.nm, true, noFaults⟩, .ctor none .none), (⟨.nm, true, noFaults⟩, .ctor (some (.node 4)) .none)]
  Forest.empty
example : s6.snap = [(none, [1, 2]), (some 0, [3]), (some 0, []), (some 1, []), (none, [5]), (some 4, [])] ∧
    Spec.invB s6 = true ∧
    Spec.invB (exec ⟨.nm, true, fun i _ _ => i == 2⟩ 64 (.setParent 3 (some (.node 4))) s6).f = true := by
  decide

end Anytree.Props.C01
