import Anytree.Props.C01
import Anytree.Lemmas.NoAssert
/-!
# C01, internal assertions

With `ANYTREE_ASSERTIONS` switched on, none of the internal `assert` statements of
`__detach`, `__attach`, the `children` deleter and the `children` setter ever fires on a consistent
forest: for **every** fault schedule of the eight hooks (any hook raising at any invocation, once or
persistently), both flavours, every well-formed argument and **every** amount of fuel (when the
fuel runs out the result is `diverged`, not `assertion`), including inside the recursive restore
of the children setter.
-/
namespace Anytree.Props.C01
open Anytree Forest

/-- `del n.children` never raises `AssertionError` (no assumption on `n`, none on the fuel) -/
theorem no_assertion_delChildren (c : Cfg) (fuel n : Nat) (s : Forest) (h : Inv s) :
    (exec c fuel (.delChildren n) s).res ≠ .error .assertion :=
  EN_run (delChildren_na s.n c fuel n) (w := ⟨s, [], 0⟩) ⟨h, rfl⟩

/-- `n.children = xs` never raises `AssertionError`, whatever the hooks do and however deep the
restore recursion goes -/
theorem no_assertion_setChildren (c : Cfg) (fuel n : Nat) (xs : Option (List Arg)) (s : Forest)
    (h : Inv s) (hwf : WellFormed s (.setChildren n xs)) :
    (exec c fuel (.setChildren n xs) s).res ≠ .error .assertion :=
  EN_run (setChildren_na s.n c fuel n xs hwf.1 hwf.2) (w := ⟨s, [], 0⟩) ⟨h, rfl⟩

/-- `n.parent = v` never raises `AssertionError` (no assumption on the arguments or the fuel) -/
theorem no_assertion_setParent (c : Cfg) (fuel n : Nat) (v : Option Arg) (s : Forest) (h : Inv s) :
    (exec c fuel (.setParent n v) s).res ≠ .error .assertion :=
  setParent_no_assert c fuel n v ⟨s, [], 0⟩ h

theorem no_assertion_ctor (c : Cfg) (fuel : Nat) (p : Option Arg) (cs : CtorKids) (s : Forest)
    (h : Inv s) (hwf : WellFormed s (.ctor p cs)) :
    (exec c fuel (.ctor p cs) s).res ≠ .error .assertion :=
  EN_run (ctor_na s.n c fuel p cs hwf.1 hwf.2) (w := ⟨s, [], 0⟩) ⟨h, rfl⟩

/-- **C01, assertions, one step**: no structural call on a consistent forest trips an internal
assertion — every fault schedule, flavour, assertion switch and fuel -/
theorem no_assertion_exec (c : Cfg) (fuel : Nat) (op : Op) (s : Forest) (h : Inv s)
    (hwf : WellFormed s op) : (exec c fuel op s).res ≠ .error .assertion := by
  cases op with
  | setParent n v => exact no_assertion_setParent c fuel n v s h
  | setChildren n xs => exact no_assertion_setChildren c fuel n xs s h hwf
  | delChildren n => exact no_assertion_delChildren c fuel n s h
  | ctor p cs => exact no_assertion_ctor c fuel p cs s h hwf

/-- the result of every call of a history -/
def resultsOf (fuel : Nat) : List (Cfg × Op) → Forest → List (Except Err Unit)
  | [], _ => []
  | (c, op) :: rest, s => (exec c fuel op s).res :: resultsOf fuel rest (exec c fuel op s).f

/-- **C01, assertions, histories**: along any well-formed history from a consistent forest, no call
ends with `AssertionError` -/
theorem no_assertion_history (fuel : Nat) (hist : List (Cfg × Op)) :
    ∀ s, Inv s → WellFormedHistory fuel hist s →
      ∀ r ∈ resultsOf fuel hist s, r ≠ .error .assertion := by
  induction hist with
  | nil => intro s _ _ r hr; simp [resultsOf] at hr
  | cons co rest ih =>
    intro s h hwf r hr
    obtain ⟨c, op⟩ := co
    simp only [resultsOf, List.mem_cons] at hr
    rcases hr with e | hr
    · rw [e]; exact no_assertion_exec c fuel op s h hwf.1
    · exact ih _ (inv_exec c fuel op s h hwf.1) hwf.2 r hr

end Anytree.Props.C01
