import Anytree.Props.C02b
/-!
# C01/C02 — the fuel of the mirror is never the reason for an outcome (no hook faults)

The mirror carries a fuel argument for its two recursions (the ancestor walk of `__check_loop`, the
restore re-entering the children setter) and answers `diverged` when it runs out.  Without hook
faults a fuel of `s.n + 5` always suffices: the mirror's result class is the specification's
(`exec_res_eq_spec`), and the specification never answers `diverged`.  (With a *persistent* fault
the restore really recurses for ever — Python: `RecursionError`, finding K4 —
`C03.K4_persistent_preAttachChildren_diverges`.)
-/
namespace Anytree.Props.C01c
open Anytree

theorem firstBad_ne_diverged (fl : Flavor) (seen : List Nat) (as : List Arg) :
    Spec.firstBad fl seen as ≠ some .diverged := by
  induction as generalizing seen with
  | nil => simp [Spec.firstBad]
  | cons a as ih =>
    cases a with
    | nonNode => cases fl <;> simp [Spec.firstBad]
    | node k =>
      simp only [Spec.firstBad]
      split
      · simp
      · exact ih _

theorem spec_setParent_ne_diverged (fl : Flavor) (s : Forest) (n : Nat) (v : Option Arg) :
    (Spec.setParent fl s n v).res ≠ .error .diverged := by
  unfold Spec.setParent
  cases v with
  | none => simp
  | some a =>
    cases a with
    | nonNode => cases fl <;> simp
    | node p =>
      simp only []
      by_cases h1 : s.parent n = some p
      · simp [h1]
      · by_cases h2 : (decide (p = n) || Spec.isAnc s n p) = true
        · simp [h1, h2]
        · simp [h1, h2]

theorem spec_setChildren_ne_diverged (fl : Flavor) (s : Forest) (n : Nat) (xs : Option (List Arg)) :
    (Spec.setChildren fl s n xs).res ≠ .error .diverged := by
  unfold Spec.setChildren
  cases xs with
  | none => simp
  | some as =>
    simp only []
    cases hb : Spec.firstBad fl [] as with
    | some e =>
      simp only []
      intro h
      have : e = .diverged := by simpa using h
      exact firstBad_ne_diverged fl [] as (this ▸ hb)
    | none => simp only []; split <;> simp

/-- the specification never answers `diverged` -/
theorem spec_ne_diverged (fl : Flavor) (s : Forest) (op : Op) :
    (Spec.run fl s op).res ≠ .error .diverged := by
  cases op with
  | setParent n v => exact spec_setParent_ne_diverged fl s n v
  | setChildren n xs => exact spec_setChildren_ne_diverged fl s n xs
  | delChildren n => simp [Spec.run, Spec.delChildren]
  | ctor p cs =>
    simp only [Spec.run, Spec.ctor]
    have h1 := spec_setParent_ne_diverged fl s.newNode s.n p
    cases hr : (Spec.setParent fl s.newNode s.n p).res with
    | error e => simp only []; rw [hr]; rw [hr] at h1; exact h1
    | ok u =>
      simp only []
      cases cs with
      | none => simp [hr]
      | nonIterable => simp
      | list xs =>
        cases xs with
        | nil => simp [hr]
        | cons x xs => exact spec_setChildren_ne_diverged fl _ _ _

/-- **fuel suffices**: without hook faults, on a consistent forest and with in-range arguments, a fuel
above `s.n + 4` is never exhausted -/
theorem fuel_suffices (c : Cfg) (hφ : c.φ = noFaults) (fuel : Nat) (op : Op) (s : Forest)
    (h : Inv s) (hwf : C01.WellFormed s op) (hfuel : s.n + 4 < fuel) :
    (exec c fuel op s).res ≠ .error .diverged := by
  rw [Anytree.Props.C02.exec_res_eq_spec c hφ fuel op s h hwf hfuel]
  exact spec_ne_diverged c.fl s op

end Anytree.Props.C01c
