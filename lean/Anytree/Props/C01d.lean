import Anytree.Props.C01c
import Anytree.Lemmas.Restore
import Anytree.Lemmas.NoAssert
import Anytree.Lemmas.FuelFault
/-!
# C01/C02/C03 — the fuel of the mirror is never the reason for an outcome, **with** hook faults

`C01c.fuel_suffices` covers calls without hook faults.  With faults the restore of the children
setter re-enters the setter once per failure of its attach phase, so the recursion depth depends on
the fault schedule: a *persistent* fault recurses for ever (`C03.K4_persistent_preAttachChildren_diverges`;
Python: `RecursionError`).  Here: when the schedule can only strike at invocation counters below `B`
(every finite schedule, in particular every one-shot fault, has such a bound), a fuel above
`s.n + B + 5` is never exhausted — `diverged` is never the mirror's answer.

Why the depth is bounded by `B + 2`: the hook counter `World.cnt` only grows; the first level may fail
in its attach phase by a `LoopError` or a fault; every deeper level assigns children `n` had at some
earlier moment of the same call, which are neither `n` nor ancestors of `n` (the ancestor chain of `n`
is never touched by the call), so its attach phase can only fail by a fault, and that fault sits at a
counter `≥` the level's entry counter and `< B`; the next level is entered with a strictly larger counter.
-/
namespace Anytree.Props.C01d
open Anytree

/-- the schedule can only strike at invocation counters below `B` -/
def FaultsBelow (φ : Faults) (B : Nat) : Prop := ∀ i k m, B ≤ i → φ i k m = false

/-- **fuel suffices, with faults**: on a consistent forest, with in-range arguments and a fault schedule
bounded by `B`, a fuel above `s.n + B + 5` is never exhausted -/
theorem fuel_suffices_faults (c : Cfg) (B : Nat) (hφ : FaultsBelow c.φ B) (fuel : Nat) (op : Op)
    (s : Forest) (h : Inv s) (hwf : C01.WellFormed s op) (hfuel : s.n + B + 5 < fuel) :
    (exec c fuel op s).res ≠ .error .diverged := by
  have hG : C01.Gd s.n s := ⟨h, rfl⟩
  cases op with
  | setParent n v =>
    exact setParent_ne_diverged c fuel n v ⟨s, [], 0⟩ h hwf.2 (by show s.n < fuel; omega)
  | setChildren n xs =>
    exact setChildren_ne_diverged hφ s.n fuel n xs ⟨s, [], 0⟩ hG hwf.1 hwf.2 (by omega)
  | delChildren n => exact delChildren_ne_diverged hφ s.n fuel n ⟨s, [], 0⟩ hG
  | ctor p cs => exact ctor_ne_diverged hφ s.n fuel p cs ⟨s, [], 0⟩ hG hwf.1 hwf.2 (by omega)

/-- the bound is about the schedule, not about the call: one-shot faults (a single counter `i`) -/
theorem fuel_suffices_oneshot (c : Cfg) (i : Nat) (hφ : ∀ j k m, j ≠ i → c.φ j k m = false)
    (fuel : Nat) (op : Op) (s : Forest) (h : Inv s) (hwf : C01.WellFormed s op)
    (hfuel : s.n + i + 6 < fuel) :
    (exec c fuel op s).res ≠ .error .diverged :=
  fuel_suffices_faults c (i + 1) (fun j k m hj => hφ j k m (by omega)) fuel op s h hwf (by omega)

/-- non-vacuity: a faulted call on a concrete forest meets the hypotheses (fault at counter 2) -/
example : FaultsBelow (fun i _ _ => i == 2) 3 := by
  intro i k m h; simp; omega

-- … on the six-node forest `C01.s6` (`s.n + B + 5 = 14`): with a fuel of 15 the vetoed children
-- assignment ends with the hook's exception; a fuel of 1 is exhausted by the restore
example : raised (exec ⟨.nm, true, fun i _ _ => i == 2⟩ 15 (.setChildren 2 (some [.node 3])) C01.s6).res
      = some (.hook 2 .preAttachChildren 2) ∧
    raised (exec ⟨.nm, true, fun i _ _ => i == 2⟩ 1 (.setChildren 2 (some [.node 3])) C01.s6).res
      = some .diverged := by decide

end Anytree.Props.C01d
